claim("C03",
      "Lean theorems (GFO.C03.*) prove for EVERY backend state machine, objective oracle, search space and history of search() calls that "
      "the driver model appends exactly n_iter rows without criteria and at most n_iter with, keeps earlier rows, consumes the initial "
      "positions once (n_init_total = min(n_inits, rows)), keeps n_init_total+n_iter_total = rows and one eval/iter time per step. "
      "The model is tied to search.py twice: the step methods _initialization / _iteration / search_step and n_inits_norm are REGENERATED from the source on every run "
      "(translators.gen_driver) and proved equal to the model's initialization / iteration / searchStep (GFO.Gen.Drv.*_eq, rfl); and by driver-level correspondence on all 22 optimizers + stub backends (every run). The statement "
      "is also monitored on the real runs incl. tiny populations and single-point spaces.",
      "'Completes without raising' is proved for the driver given a non-raising in-space backend; per-optimizer totality is examined by the monitor (hazard configurations) - see DESIGN 5/C03.",
      "Lean 4 proof (translator-regenerated step methods proved equal to the model; induction over steps and calls, parametric in the backend) + differential correspondence of the model with search.py",
      "DESIGN.md section 5, C03")
claim("C04",
      "GFO.C04.rows_are_evaluations: for every backend and every deterministic objective the rows a search() call appends are, in evaluation order, "
      "rowOf(objective(parameters), parameters) of the emitted positions - memory off, or memory on with any dictionary satisfying the cache invariant; "
      "row_score / row_param / row_has_metric_keys state what a row contains (parameter wins over a metric of the same name). "
      "Tied to _results_manager.py/_memory.py/search.py by driver-level correspondence (objectives returning scores and (score, dict) with python/numpy scalars, "
      "key clashes, memory on/off/proxy, 1-4 calls) and monitored on every real run by recomputing the objective per row.",
      "pandas DataFrame(list_of_dicts) is trusted (compared after canonicalisation); objectives are deterministic functions of the parameter set.",
      "Lean 4 proof (invariant along the run relation, parametric in backend and objective) + differential correspondence with the real driver", "DESIGN.md section 5, C04")
claim("C05",
      "GFO.C05.best_is_first_max: after every call best_score is not nan, dominates every non-nan score of the call and is attained by the FIRST such step whose position is best_pos "
      "(best_pos is None only if every score was nan); best_para_decodes; verbosity_irrelevant is a full simulation theorem (searchCall_quiet): the progress-bar class changes nothing but tqdm bookkeeping. "
      "Correspondence + monitors on ties/plateaus/sign/non-finite objectives under all verbosity settings, all 22 optimizers.",
      "tqdm / print_info are not modelled (they only read).",
      "Lean 4 proof (fold over the run's trajectory; simulation between the two progress-bar classes) + differential correspondence", "DESIGN.md section 5, C05")
claim("C06",
      "Single process: GFO.C06.at_most_one_call_and_memory_dict_exact, memory_returns_original (rows and scores are the same function of the emitted positions with memory on and off). "
      "Shared manager dict: GFO.C06.shared_inv / shared_scores_correct / shared_final_union / shared_get_after_contains hold for EVERY interleaving of atomic proxy operations. "
      "GFO.C06.memory_transparent is a full simulation theorem (Proofs/Transparent.lean): for every backend, deterministic objective and well-formed space the memory=True and the memory=False call from the same state (max_time unset) fail alike or produce the same rows, positions, scores, backend state, counters and best result; paired real runs (memory=True/False, same seed) examine the same statement on the implementation. "
      "Real 2-6 process runs on a logging manager dict are replayed operation by operation on the Lean model.",
      "memory_transparent assumes max_time is None (a cache hit takes no objective time, so a time limit can cut the two runs at different steps) and a deterministic objective. The manager serialises proxy calls (multiprocessing contract).",
      "Lean 4 proof (cache invariant by induction over steps / over schedules) + differential correspondence incl. recorded real schedules", "DESIGN.md section 5, C06")
claim("C11",
      "GFO.C11.warm_trusted_rest_evaluated: with any warm-start dictionary, a step whose key is in it is answered from it without an objective call and records the dictionary's score, "
      "every other step records objective(parameters); warm_row_loaded / lookup_key_agrees: a dataframe row of the space is stored under the position of its values for ANY array order (Nodup). "
      "Function-level correspondence of loader and wrapper key on all array orders; driver-level warm-start histories chained over up to 3 runs; monitor on the objective call log.",
      "Off-grid dataframe values are outside the property (mapped to the nearest grid point by both loader and wrapper).",
      "Lean 4 proof (invariant MemWarm along the run) + differential correspondence", "DESIGN.md section 5, C11")
claim("C12",
      "GFO.C12.maxScore_stop_step: with max_score = m (any rational, 0 included) as the only criterion, no step before the last reached m, a call that stopped before n_iter stopped on a step that reached m, "
      "and best_score >= m iff some step reached m; for every backend/objective/space. Function-level grid for score_exceeded/StopRun.check incl. 0, -0.0, +-inf, nan; driver-level scripted score sequences.",
      "Combination with other criteria is covered by correspondence, not by the theorem.",
      "Lean 4 proof (run relation + running-best lemmas) + differential correspondence", "DESIGN.md section 5, C12")
claim("C13",
      "GFO.C13.noChange_spec: for every finite score list, every n >= 1 and every tolerance combination no_change never raises and returns true exactly when the documented rule Spec holds; "
      "earlyStop_step / earlyStop_rule: the search stops at the first step at which the rule holds, never earlier or later. "
      "Function-level correspondence is EXHAUSTIVE over all sequences of a dyadic alphabet up to length 6 (quick) / 7 (thorough) x n x tolerances x python/numpy floats, plus random long sequences; driver-level scripted sequences.",
      "Non-dyadic scores: the comparison percent_imp < tol_rel is a float rounding question the exact-rational model does not capture.",
      "Lean 4 proof (first-argmax lemma, induction over lists) + exhaustive differential correspondence", "DESIGN.md section 5, C13")
claim("C14",
      "GFO.C14.maxTime_stop_step: with max_time = T > 0 as the only criterion the call runs on while the elapsed (virtual) time is <= T and stops after the first step at which it exceeds T; eval_times are the durations. "
      "Driver-level correspondence with duration schedules (zeros, exact hits, cache hits contributing 0) under a substituted clock.",
      "Stated against the substituted clock: real wall-clock resolution/overhead is outside the model.",
      "Lean 4 proof (run relation, sums of durations) + differential correspondence under a virtual clock", "DESIGN.md section 5, C14")
claim("C18",
      "GFO.C18.stepApi_eq_search: init_search; search_step(0..N-1); finish_search equals search(n_iter=N) without criteria for every backend/objective/state (with criteria: search is the truncated run). "
      "GFO.C18.facades_forward: over the table REGENERATED from optimizer_search/*.py and optimizers/**.py on every run, every public class is class X(_X, Search) whose constructor only forwards each parameter under its own name with the backend's default (decide +kernel). "
      "Paired real runs: search vs step API on all 22 classes; facade vs backend+Search with non-default constructor values one at a time and jointly.",
      "The ast extractor (harness/translators.py, ~80 lines) is trusted; it refuses constructors it cannot read.",
      "Lean 4 proof + translator-generated table closed by decide + paired real runs", "DESIGN.md section 5, C18")
claim("C20",
      "GFO.C20.pos_value_roundtrip / value_para_roundtrip / pos_para_roundtrip / batched_agree / batched_roundtrip / memdict_df_roundtrip for every space with pairwise distinct values in ANY order, every position, every list and every memory dictionary (empty included). "
      "Function-level correspondence of all Converter methods, exhaustive over all orders of dimensions with <= 3 (quick) / 4 (thorough) values and all positions, random up to 5 dims x 50.",
      "numpy/pandas containers are trusted after canonicalisation.",
      "Lean 4 proof (first-occurrence lemma for the nearest-element lookup) + exhaustive differential correspondence", "DESIGN.md section 5, C20")
claim("C16",
      "GFO.C16.diag_covers / orth_covers: for EVERY tuple of dimension sizes, every step_size dividing |S| and both directions the first |S| iteration steps are positions of the box and pairwise distinct "
      "(mixed-radix decoders injective, closed forms of both pointer machines, coprime stride from get_direction). "
      "GFO.GridRuns.C16_grid_run_positions / C16_grid_run_enumerates carry this through the WHOLE optimizer: the complete model of GridSearchOptimizer (GFO.Model.GridBackend: outer and inner object, pointer machine, decoder, conv2pos, constraint check, both trackers) "
      "run by the driver model on a fresh unconstrained optimizer emits, after its start-up positions, exactly diagPos/orthPos j for every j < |S| the call reaches - any objective, call arguments, stopping criteria - hence pairwise distinct positions of the space; "
      "the complete model is run against the real GridSearchOptimizer (with and without constraints, dividing and non-dividing step sizes, several calls) on the recorded verdict tape. Backend-level correspondence of pos_l with the model, exhaustive over shapes with sizes 1-6 in 1-4 dims, all dividing step sizes, both directions, plus large 2-d shapes.",
      "Without constraints, as the property states. Orthogonal int(x/|S|) is float division: exact below 2^53.",
      "Lean 4 proof (Nat.ModEq arithmetic, induction on the pointer machine) + exhaustive differential correspondence", "DESIGN.md section 5, C16")
claim("C01",
      "Kernel theorems GFO.C01.*: conv2pos / _move_part / move_spiral's clip-cast / move_random / _init_grid_search / vertices / both grid decoders return index vectors in [0,size-1] for every input under exactly the stated hypotheses (noNan where a nan is cast to INT64_MIN, with witnesses); "
      "driver_evaluates_reported: the parameter set handed to the objective is dims[k][pos[k]] of the recorded position, no index wrap. Function-level correspondence on boundary vectors, replay of recorded conv2pos/_move_part calls, "
      "and the statement monitored on real runs of all 22 optimizers (positions, objective and constraint arguments, nan audit).",
      "Whole-run theorems for the 21 optimizers modelled completely (for Bayesian / TPE / Forest / Lipschitz the C17 statements) (GFO.Model.Local: HillClimbing, StochasticHillClimbing, SimulatedAnnealing, RepulsingHillClimbing, RandomRestartHillClimbing, RandomAnnealing, RandomSearch; GFO.Model.GridBackend: GridSearch; GFO.Model.Population: ParallelTempering, ParticleSwarm, SpiralOptimization; GFO.Model.Evolution: EvolutionStrategy, DifferentialEvolution, GeneticAlgorithm; GFO.Model.Pattern / Powell / Simplex: PatternSearch, PowellsMethod, DownhillSimplex, whose known C15 / C19 findings are theorems about the model with kernel-evaluated witness runs and are predicted on real runs - populations as round-robins over complete members on one shared tape, instances of one contract PopOK - iterate, evaluate, move_climb, conv2pos, move_random, random_iteration as code; generator outputs and constraint verdicts as an argument-checked oracle tape): GFO.LocalRuns.C01_local_positions_in_space, through searchCall, for every configuration, objective, call, prior state and tape; the complete model is run against the real optimizers on recorded tapes (positions, rows, trace, best, final tracker, tape consumed exactly). "
      "Partial: for Direct (no complete model) and for Bayesian / TPE / Forest / Lipschitz (whose complete model carries the C17 theorems, not position theorems) the composition of kernels inside iterate is covered by correspondence/monitor, not by a theorem per optimizer; float expressions feeding the kernels are oracle inputs.",
      "Lean 4 proof of the position kernels + driver theorem + differential correspondence + monitor on all optimizers", "DESIGN.md section 5, C01")
claim("C02",
      "GFO.C02.initializer_feasible / addNRandom_feasible: every initial position (random, grid, vertices, warm start, fill-rest, population padding) is feasible and there are n_inits of them, for every initialize dict, space and feasibility oracle; "
      "firstFeasible_spec / guarded_feasible: the retry loops return the first candidate that passed. Function-level correspondence of the real Initializer with the model from recorded draws and verdicts; "
      "on real runs of all 22 optimizers under constraints: objective arguments, search_data, best_para feasible and every emitted position preceded by a positive constraint check.",
      "Whole-run theorems for the 21 optimizers modelled completely (for Bayesian / TPE / Forest / Lipschitz the C17 statements) (GFO.Model.Local: HillClimbing, StochasticHillClimbing, SimulatedAnnealing, RepulsingHillClimbing, RandomRestartHillClimbing, RandomAnnealing, RandomSearch; GFO.Model.GridBackend: GridSearch; GFO.Model.Population: ParallelTempering, ParticleSwarm, SpiralOptimization; GFO.Model.Evolution: EvolutionStrategy, DifferentialEvolution, GeneticAlgorithm; GFO.Model.Pattern / Powell / Simplex: PatternSearch, PowellsMethod, DownhillSimplex, whose known C15 / C19 findings are theorems about the model with kernel-evaluated witness runs and are predicted on real runs - populations as round-robins over complete members on one shared tape, instances of one contract PopOK - iterate, evaluate, move_climb, conv2pos, move_random, random_iteration as code; generator outputs and constraint verdicts as an argument-checked oracle tape): GFO.LocalRuns.C02_local_positions_feasible, through searchCall, for every configuration, objective, call, prior state and tape; the complete model is run against the real optimizers on recorded tapes (positions, rows, trace, best, final tracker, tape consumed exactly). "
      "Partial: for Direct (no complete model) and for Bayesian / TPE / Forest / Lipschitz (whose complete model carries the C17 theorems, not position theorems), that iterate emits only after a positive check is established per run from the constraint log, not by a theorem per optimizer.",
      "Lean 4 proof (Initializer model) + differential correspondence + monitor on all optimizers", "DESIGN.md section 5, C02")
claim("C10",
      "GFO.C10.warm_in_init_list (a feasible warm-start dictionary, any key order, is in init_positions_l for every initialize mix), init_list_evaluated (through the real driver model a fresh optimizer evaluates its list of initial positions in order in the first n_inits steps, for any iterate/evaluate; instantiated for the eleven completely modelled single-tracker optimizers in GFO.InitRuns.C10_*_init_list_evaluated), "
      "deal_order (split deals round-robin: trial t of a population is L[t], no member is asked for more than dealt). Function-level correspondence of Initializer and split; on real runs of all 22 optimizers every feasible in-space warm-start point is among the first n_inits rows, best_score >= objective(w), chained runs never get worse.",
      "That a population member's own Initializer keeps a dealt (feasible) position is covered by C02's initializer theorems + the monitor; best_score >= objective(w) is C05.",
      "Lean 4 proof (Initializer model; invariant through the driver carrying backend steps; round-robin dealing lemma) + differential correspondence + monitor", "DESIGN.md section 5, C10")
claim("C15",
      "Driver: nan is never best_score and the reported best dominates every non-nan score (so -inf only if nothing better), no step is lost whatever the scores (GFO.C15.nan_never_best_neginf_only_if_nothing_better, nonfinite_loses_no_step). "
      "Tracker: valid_lists_exact / scores_valid_finite - the valid lists are exactly the finite-scored evaluations for every evaluate of the model. "
      "Monitor: EXHAUSTIVE over all non-finite masks on the first k objective calls x {nan, +inf, -inf, mixture} for all 22 optimizers (k=6/4 quick, 10/8 thorough); tracker replay under non-finite objectives. "
      "Seven construction sites that need a finite score during initialisation raise (DownhillSimplex x3, Powell, PatternSearch, Lipschitz, Forest): recorded in known_findings.json, printed as KNOWN-FINDING.",
      "Whole-run theorems for the 21 optimizers modelled completely (for Bayesian / TPE / Forest / Lipschitz the C17 statements) (GFO.Model.Local: HillClimbing, StochasticHillClimbing, SimulatedAnnealing, RepulsingHillClimbing, RandomRestartHillClimbing, RandomAnnealing, RandomSearch; GFO.Model.GridBackend: GridSearch; GFO.Model.Population: ParallelTempering, ParticleSwarm, SpiralOptimization; GFO.Model.Evolution: EvolutionStrategy, DifferentialEvolution, GeneticAlgorithm; GFO.Model.Pattern / Powell / Simplex: PatternSearch, PowellsMethod, DownhillSimplex, whose known C15 / C19 findings are theorems about the model with kernel-evaluated witness runs and are predicted on real runs - populations as round-robins over complete members on one shared tape, instances of one contract PopOK - iterate, evaluate, move_climb, conv2pos, move_random, random_iteration as code; generator outputs and constraint verdicts as an argument-checked oracle tape): GFO.LocalRuns.C15_local_evaluate_total (no score makes evaluate / evaluate_init of these optimizers fail; whole non-finite runs replayed on the complete model), through searchCall, for every configuration, objective, call, prior state and tape; the complete model is run against the real optimizers on recorded tapes (positions, rows, trace, best, final tracker, tape consumed exactly). "
      "Partial: the construction sites reading the valid lists (simplex, Powell, pattern, Lipschitz bound, forest/Bayes training) are not modelled - monitor only; sklearn's reaction to degenerate training data is an oracle.",
      "Lean 4 proof (driver + tracker) + exhaustive fault enumeration over non-finite masks", "DESIGN.md section 5, C15")
claim("C19",
      "GFO.C19.grounded_*: for evaluate_init and every evaluate of the tracker model (plain, hill climbing, stochastic with any acceptance decision, spiral) the tracked best and current pairs are (None,-inf) or members of the log of (pos_new, score) pairs and the valid lists hold log entries; best_monotone_hc, greedy_current_monotone. "
      "Backend-level correspondence: every evaluate/evaluate_init call of every modelled tracking object (optimizer, particles, individuals, spirals, tempering systems, inner grid) of real runs is replayed on the model and all tracked pairs compared. "
      "Monitor on all 22 optimizers and all sub-optimizers after every step: tracked pairs are really evaluated pairs, best never decreases, greedy current never decreases. Known finding: PowellsMethod's inner 1-D climber.",
      "Whole-run theorems for the 21 optimizers modelled completely (for Bayesian / TPE / Forest / Lipschitz the C17 statements) (GFO.Model.Local: HillClimbing, StochasticHillClimbing, SimulatedAnnealing, RepulsingHillClimbing, RandomRestartHillClimbing, RandomAnnealing, RandomSearch; GFO.Model.GridBackend: GridSearch; GFO.Model.Population: ParallelTempering, ParticleSwarm, SpiralOptimization; GFO.Model.Evolution: EvolutionStrategy, DifferentialEvolution, GeneticAlgorithm; GFO.Model.Pattern / Powell / Simplex: PatternSearch, PowellsMethod, DownhillSimplex, whose known C15 / C19 findings are theorems about the model with kernel-evaluated witness runs and are predicted on real runs - populations as round-robins over complete members on one shared tape, instances of one contract PopOK - iterate, evaluate, move_climb, conv2pos, move_random, random_iteration as code; generator outputs and constraint verdicts as an argument-checked oracle tape): GFO.LocalRuns.C19_local_tracker_grounded (tracked best / current pair = (pos_l[k], score_l[k]) for some k, after any history of calls), through searchCall, for every configuration, objective, call, prior state and tape; the complete model is run against the real optimizers on recorded tapes (positions, rows, trace, best, final tracker, tape consumed exactly). "
      "Partial: trackers of DownhillSimplex/Powell/Pattern/Direct/SMBO-level objects are monitored, not modelled; the link log entry = evaluated pair is a theorem for the completely modelled optimizers (incl. every member of the six population optimizers) and established per run for the others.",
      "Lean 4 proof (tracker invariant) + differential correspondence of tracker operations + monitor", "DESIGN.md section 5, C19")
claim("C07",
      "Model (GFO.Model.Rng): after construction with an integer random_state both global generators are functions of random_state + nth_process only (construct_overwrites_world, run_independent_of_ambient), random_seed = random_state + nth_process, a random_state=None run is reproduced by its random_seed (nth_process None/0). "
      "Generated on every run from the source (translator gen_entropy, 42 call sites): every entropy site uses one of the two global generators, seeding happens only in set_random_seed, no constructor draws before super().__init__, CoreOptimizer seeds before the Initializer - closed by decide. "
      "RNG event traces of real constructions are checked against the seeding grammar; paired real runs of all 22 optimizers under different ambient generator states give identical search_data/best; seed attribute reproduces; nth_process offset.",
      "The generators (Mersenne Twister, numpy legacy RandomState, sklearn drawing from numpy's singleton) are trusted to be deterministic; the ast census can miss dynamically constructed entropy (none exists).",
      "Lean 4 proof over a translator-generated census (decide) + RNG trace correspondence + paired runs", "DESIGN.md section 5, C07")
claim("C08",
      "Per loop: get_direction terminates with a generator; _init_vertices is bounded (100 vertex draws + 1); the rejection loops return at the first feasible candidate after exactly that many evaluations and do return once the stream holds a feasible candidate; "
      "the diagonal grid's retries reach every pointer of Z/|S| within |S| retries (gridRetry_reaches_every_pointer, after fix 602b8e7); move_climb has no dead state (every position of the space is the image of some draw: moveClimb_no_dead_state); PSO/ES/... emit 'check else one fallback' (PSO livelock fixed d993248). "
      "Monitor: per-step constraint-evaluation cap (10^4) and watchdog on all 22 optimizers x half-spaces, parity/band lattices, random masks with feasible fraction >= 25 %, tiny/unsorted dimensions; past livelock witnesses are replayed first.",
      "Partial: boundedness of the randomised loops is in expectation and rests on the i.i.d./full-support behaviour of the generators; move_climb's acceptance probability under the actual distributions is not quantified.",
      "Lean 4 proof per loop (termination / no-dead-state / coverage of Z/|S|) + capped monitor with watchdog", "DESIGN.md section 5, C08")
claim("C09",
      "Score-blind half as a theorem THROUGH the driver (scoreBlind_positions / scoreBlind_same_points): a backend whose position-producing methods do not read what the score-consuming methods write evaluates the same points for any two objectives; "
      "orientation lemmas: hc_window_pick_is_max, eval2best_keeps_max, C17.select_is_argmax, C05 (progress bar keeps the maximum). "
      "The statistical half is examined by the paired sign test (f vs -f, unimodal landscapes, 3 sign regimes, >= 75 % margin): 17 optimizers 100 % directed, random/grid search identical points; StochasticHillClimbing, SimulatedAnnealing, ParallelTempering are NOT directed - recorded as known findings.",
      "Partial: 'seed for seed higher' for stochastic optimizers is not a theorem about any executable model - searched, not proved.",
      "Lean 4 proof (non-interference through the driver; orientation of comparison kernels) + paired sign test", "DESIGN.md section 5, C09")
claim("C17",
      "GFO.C17.select_is_argmax: for every nan-free acquisition vector and every permutation sorting it ascending (whatever argsort returns) the selected candidate has maximal acquisition value; training_set_exact: after any sequence of steps zip(X_sample, Y_sample) = previous ++ finite-scored evaluations in order, lengths equal; "
      "no_repeat_without_replacement; warm_filter_sound. THROUGH THE WHOLE OPTIMIZER (GFO.Model.SmboBackend = complete model of Bayesian / TPE / Forest / Lipschitz run by the driver model): "
      "GFO.SmboRuns.C17_smbo_training_set (after any call X_sample/Y_sample = before ++ the finite-scored evaluations of the call, each with its own score), C17_smbo_proposal_argmax "
      "(a model-based proposal is a (sub)sampled candidate whose acquisition value dominates every other one, for any argsort output that is a descending arrangement), C17_smbo_no_repeat; "
      "the complete model is run against the three real optimizers on recorded tapes (it also predicts the ValueError of an exhausted candidate set and Forest's NotFittedError). "
      "Backend-level correspondence on the four model-based optimizers: X/Y after every step, selection with numpy's own permutation, warm_start_smbo filter; monitor recomputes 'acquisition of the proposal = max over the candidate set' from the vector the real code computed.",
      "Partial: the acquisition formulas (expected improvement, density ratio, Lipschitz bound), the surrogates and argsort are oracles (argsort's output is checked to be a descending arrangement); Direct has no complete model (kernel theorems, correspondence, monitors).",
      "Lean 4 proof (selection + bookkeeping) + differential correspondence + monitor on the real acquisition vectors", "DESIGN.md section 5, C17")
