claim("C03",
      "Lean theorems (GFO.C03.*) prove for EVERY backend state machine, objective oracle, search space and history of search() calls that "
      "the driver model appends exactly n_iter rows without criteria and at most n_iter with, keeps earlier rows, consumes the initial "
      "positions once (n_init_total = min(n_inits, rows)), keeps n_init_total+n_iter_total = rows and one eval/iter time per step. "
      "The model is tied to search.py by driver-level correspondence on all 22 optimizers + stub backends (every run), and the statement "
      "is also monitored on the real runs incl. tiny populations and single-point spaces.",
      "'Completes without raising' is proved for the driver given a non-raising in-space backend; per-optimizer totality is examined by the monitor (hazard configurations) - see DESIGN 5/C03.",
      "Lean 4 proof (induction over steps and calls, parametric in the backend) + differential correspondence of the model with search.py",
      "DESIGN.md section 5, C03")
