#!/bin/bash
# usage: run_all.sh <tier> <seed...>   -> one line per (check, seed)
TIER=$1; shift
cd "$(dirname "$(readlink -f "$0")")"
for s in "$@"; do
  for c in $(python3 -c "import json; print(' '.join(x['property_id'] for x in json.load(open('MANIFEST.json'))['checks']))"); do
    start=$(date +%s)
    out=$(VERIF_SEED=$s timeout 3600 ./check $c --tier $TIER 2>&1); rc=$?
    echo "seed=$s $c rc=$rc $(( $(date +%s) - start ))s $(echo "$out" | grep -c '^VIOLATION') viol | $(echo "$out" | grep '^\[C' | tail -1)"
    echo "$out" | grep "^VIOLATION\|^KNOWN\|^INFRA" | head -3
  done
done
