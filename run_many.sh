#!/bin/bash
# usage: run_many.sh <tier> <first-seed> <last-seed> [parallel]  -> one line per (check, seed); VIOLATION / INFRA lines shown
TIER=$1; A=$2; B=$3; P=${4:-4}
cd "$(dirname "$(readlink -f "$0")")"
mkdir -p .cache
LOG=.cache/multiseed_${TIER}_${A}_${B}.log
: > $LOG
checks=$(python3 -c "import json; print(' '.join(x['property_id'] for x in json.load(open('MANIFEST.json'))['checks']))")
one() {
  s=$1; c=$2; TIER=$3
  out=$(VERIF_SEED=$s timeout 7200 ./check $c --tier $TIER 2>&1); rc=$?
  echo "seed=$s $c rc=$rc $(echo "$out" | grep -c '^VIOLATION') viol | $(echo "$out" | grep '^\[C' | tail -1)"
  echo "$out" | grep "^VIOLATION\|^INFRA" | head -3
}
export -f one
for s in $(seq $A $B); do for c in $checks; do echo "$s $c $TIER"; done; done | xargs -P $P -L 1 bash -c 'one $0 $1 $2' | tee -a $LOG
