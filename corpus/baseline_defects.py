#!/venv/bin/python
"""Replay of the defects found on the pinned tree (7d24b43), one function per defect.

Each function runs the *real* code on the concrete failing input and returns
(violated, detail).  Run before a `fix:` commit it shows the violation, afterwards it
must come back clean.  `python baseline_defects.py [name ...]` prints one line per probe
and exits 1 if any probe is violated.  Used by the corpus stage of the checks.
"""
import sys, os, warnings, random

sys.path.insert(0, os.environ.get("GFO_SRC", "/repo/src"))
warnings.filterwarnings("ignore")
import numpy as np
import pandas as pd

V = dict(verbosity=False)


def c12_max_score_zero():
    from gradient_free_optimizers import RandomSearchOptimizer
    space = {"x": np.arange(0, 10)}
    scores = iter([-3.0, -1.0, 0.5, 2.0, 3.0, 4.0, 5.0, 6.0])
    opt = RandomSearchOptimizer(space, random_state=1)
    opt.search(lambda p: next(scores), n_iter=8, max_score=0, memory=False, **V)
    n = len(opt.search_data)
    return n != 3, f"max_score=0, scores -3,-1,0.5,...: rows={n} (expected 3)"


def c13_zero_baseline():
    from gradient_free_optimizers._stop_run import no_change
    try:
        r = no_change([0.0, 0.0, 0.0, 1.0], {"n_iter_no_change": 3, "tol_rel": 5})
        return bool(r), f"returned {r!r}"
    except ZeroDivisionError as e:
        return True, f"raised ZeroDivisionError: {e}"


def c10_warm_start_key_order():
    from gradient_free_optimizers import HillClimbingOptimizer
    space = {"a": np.arange(0, 10), "b": np.arange(0, 10)}
    seen = []
    def f(p):
        seen.append((int(p["a"]), int(p["b"])))
        return 0.0
    opt = HillClimbingOptimizer(space, initialize={"warm_start": [{"b": 2, "a": 7}]}, random_state=0)
    opt.search(f, n_iter=1, **V)
    return seen[0] != (7, 2), f"warm_start {{'b':2,'a':7}} evaluated at (a,b)={seen[0]}"


def c11_descending_dimension():
    from gradient_free_optimizers import RandomSearchOptimizer
    space = {"a": np.arange(9, -1, -1), "b": np.array([3.0, 1.0, 2.0, 0.5])}
    calls = []
    def f(p):
        calls.append((float(p["a"]), float(p["b"])))
        return float(p["a"]) - float(p["b"])
    rows = [{"a": a, "b": b, "score": 1000.0 + a - b} for a in space["a"] for b in space["b"]]
    df = pd.DataFrame(rows)
    opt = RandomSearchOptimizer(space, random_state=3)
    opt.search(f, n_iter=30, memory_warm_start=df, **V)
    bad = int((opt.search_data["score"] < 500).sum())
    return len(calls) > 0 or bad > 0, f"all 40 points warm-started: objective calls={len(calls)}, rows with recomputed score={bad}"


def c20_values2positions_unsorted():
    from gradient_free_optimizers.optimizers.core_optimizer.converter import Converter
    conv = Converter({"a": np.array([3, 1, 2]), "b": np.array([0.5, 0.25])})
    pos = [np.array([0, 1]), np.array([1, 0]), np.array([2, 1])]
    back = conv.values2positions(conv.positions2values(pos))
    ok = all((np.array(a) == np.array(b)).all() for a, b in zip(pos, back))
    return not ok, f"positions {[list(map(int,p)) for p in pos]} -> values -> {[list(map(int,p)) for p in back]}"


def c16_diagonal_repeat():
    from gradient_free_optimizers import GridSearchOptimizer
    space = {"a": np.arange(3), "b": np.arange(3)}
    opt = GridSearchOptimizer(space, initialize={"random": 1}, random_state=0)
    opt.search(lambda p: 0.0, n_iter=10, memory=False, **V)
    pts = [tuple(int(x) for x in p) for p in opt.pos_l[1:10]]
    return len(set(pts)) != 9, f"3x3 diagonal, 9 iteration steps visit {len(set(pts))} distinct points: {pts}"


def c02_add_n_random_unchecked():
    from gradient_free_optimizers import DownhillSimplexOptimizer
    space = {"a": np.arange(10), "b": np.arange(10), "c": np.arange(10)}
    cons = [lambda p: (p["a"] + p["b"] + p["c"]) % 2 == 0]
    bad = 0
    for seed in range(5):
        opt = DownhillSimplexOptimizer(space, initialize={"random": 1}, constraints=cons, random_state=seed)
        opt.search(lambda p: -float(p["a"]), n_iter=8, **V)
        sd = opt.search_data
        bad += int((((sd["a"] + sd["b"] + sd["c"]) % 2) != 0).sum())
    return bad > 0, f"DownhillSimplex initialize={{'random':1}} 3-D parity constraint: {bad} infeasible rows over 5 seeds"


def c02_orthogonal_unchecked():
    from gradient_free_optimizers import GridSearchOptimizer
    space = {"a": np.arange(6), "b": np.arange(5)}
    cons = [lambda p: p["a"] % 2 == 0]
    opt = GridSearchOptimizer(space, direction="orthogonal", constraints=cons, initialize={"random": 1}, random_state=0)
    opt.search(lambda p: 0.0, n_iter=20, **V)
    bad = int((opt.search_data["a"] % 2 != 0).sum())
    return bad > 0, f"orthogonal grid with constraint a%2==0: {bad} infeasible rows of 20"


def c17_in1d():
    from gradient_free_optimizers import BayesianOptimizer
    space = {"a": np.arange(6), "b": np.arange(6)}
    df = pd.DataFrame([{"a": 1, "b": 1, "score": 1.0}, {"a": 3, "b": 4, "score": 2.0}, {"a": 77, "b": 0, "score": 3.0}])
    try:
        opt = BayesianOptimizer(space, initialize={"random": 2}, warm_start_smbo=df, random_state=0)
        opt.search(lambda p: 0.0, n_iter=3, **V)
        X = [tuple(int(v) for v in x) for x in opt.X_sample[:2]]
        return X != [(1, 1), (3, 4)], f"X_sample head = {X}"
    except AttributeError as e:
        return True, f"raised AttributeError: {e}"


def c07_grid_random_state_none():
    from gradient_free_optimizers import GridSearchOptimizer
    space = {"x0": np.array([11, 13, 12, 10, 14])}

    def run(rs):
        opt = GridSearchOptimizer(space, initialize={"random": 2}, constraints=[lambda p: p["x0"] in (13, 10)], random_state=rs,
                                  direction="orthogonal")
        opt.search(lambda p: 0.0, n_iter=18, memory=False, **V)
        return opt
    np.random.seed(5); random.seed(5)
    a = run(None)
    b = run(a.random_seed)
    same = list(a.search_data["x0"]) == list(b.search_data["x0"])
    return not same, f"GridSearch(random_state=None) reproduced by random_state=random_seed={a.random_seed}: {same}"


def _nonfinite_startup(cls_name, **kw):
    import gradient_free_optimizers as g
    space = {"x": np.arange(-5, 6), "y": np.arange(-5, 6)}
    out = []
    for bad in (np.nan, np.inf, -np.inf):
        calls = [0]

        def f(p):
            calls[0] += 1
            return bad if calls[0] <= 9 else -(p["x"] ** 2 + p["y"] ** 2)
        try:
            opt = getattr(g, cls_name)(space, initialize={"random": 3}, random_state=1, **kw)
            opt.search(f, n_iter=25, **V)
            if len(opt.search_data) != 25:
                out.append(f"{bad}: {len(opt.search_data)} rows")
        except Exception as e:  # noqa
            out.append(f"{bad}: raised {type(e).__name__}")
    return bool(out), f"{cls_name} with 9 non-finite scores first: " + ("; ".join(out) or "25 rows each")


def c15_forest_no_valid_sample():
    return _nonfinite_startup("ForestOptimizer")


def c15_lipschitz_no_valid_sample():
    return _nonfinite_startup("LipschitzOptimizer")


def c15_powell_no_valid_sample():
    return _nonfinite_startup("PowellsMethod")


def c15_pattern_exhausted():
    return _nonfinite_startup("PatternSearch", n_positions=1)


PROBES = {k: v for k, v in list(globals().items()) if k.startswith("c") and callable(v) and k[1:3].isdigit()}

if __name__ == "__main__":
    names = sys.argv[1:] or sorted(PROBES)
    rc = 0
    for n in names:
        random.seed(0); np.random.seed(0)
        try:
            bad, detail = PROBES[n]()
        except Exception as e:  # a probe that raises shows the defect too
            bad, detail = True, f"raised {type(e).__name__}: {e}"
        print(("VIOLATED " if bad else "clean    ") + n + " : " + detail)
        rc |= int(bad)
    sys.exit(rc)
