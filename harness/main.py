"""./check entry: dispatch to harness/checks/<Cxx>.run, handle --setup / --tier / --replay."""
import importlib
import json
import os
import sys

from . import common as C
from .runner import main_wrapper


def setup():
    from . import translators
    translators.regenerate_all()
    ok, out = C.lake_build()
    print(out[-3000:])
    if not ok:
        print("setup: lake build failed")
        return 1
    print("setup: ok")
    return 0


def main():
    args = sys.argv[1:]
    if args and args[0] == "--setup":
        sys.exit(setup())
    if not args:
        print("usage: ./check <Cxx> [--tier quick|thorough] [--replay file]")
        sys.exit(2)
    pid = args[0]
    if "--tier" in args:
        os.environ["VERIF_TIER"] = args[args.index("--tier") + 1]
    mod = importlib.import_module(f"harness.checks.{pid}")
    if "--replay" in args:
        path = args[args.index("--replay") + 1]
        with open(path) as f:
            rp = json.load(f)
        main_wrapper(lambda: mod.replay(rp) if hasattr(mod, "replay") else generic_replay(mod, rp))
    main_wrapper(mod.run)


def generic_replay(mod, rp):
    """re-run the recorded failing cases through the property monitor of the check"""
    from . import scen
    n = 0
    for f in rp.get("failures", []) + [b for b in rp.get("broken", []) if b.get("case")]:
        case = f.get("case")
        if not case or "calls" not in case:
            print("replay: case not re-runnable generically:", json.dumps(f)[:300])
            continue
        o = scen.run_scenario(case)
        scen.model_diff(o)
        fails = mod.monitor(o) if hasattr(mod, "monitor") else []
        print("replay:", "model/impl diff = %r" % (o["diff"],), "| monitor failures:", [x["signature"] for x in fails])
        n += bool(fails) or o["diff"] is not None
    scen.shutdown_manager()
    return 1 if n else 0


if __name__ == "__main__":
    main()
