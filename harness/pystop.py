"""Python -> Lean translator for the decision functions of the stop object and the progress bar
(_stop_run.py: `time_exceeded`, `score_exceeded`, `StopRun.check`; _progress_bar.py: `_new2best`, `ProgressBarLVL0.update`,
`ProgressBarLVL1.update`).  A typed expression translation with Python's truthiness made explicit:

    optional float  x : Option F      `x is None` / `x is not None` -> isNone / isSome;   `x` as a guard -> isSome ∧ value ≠ 0
    float compare   a >= b            -> F.ge …   (an optional operand is unwrapped under the guard that precedes it)
    `a and b` / `a or b`              -> && / ||  of the truth values
    `return e`                        -> the truth value of `e` (every caller uses the result as a condition)

Anything outside the subset raises `Untranslatable`."""
import ast

from .pytolean import Untranslatable


def _u(n):
    return ast.unparse(n)


class Env:
    def __init__(self, floats=(), opts=(), rats=(), fields=None):
        self.floats, self.opts, self.rats = set(floats), set(opts), set(rats)
        self.fields = fields or {}          # "self.x" -> (lean expr, kind)

    def kind(self, e):
        s = _u(e)
        if s in self.fields:
            return self.fields[s][1]
        if isinstance(e, ast.Name):
            if e.id in self.floats:
                return "F"
            if e.id in self.opts:
                return "optF"
            if e.id in self.rats:
                return "rat"
        return None

    def lean(self, e):
        s = _u(e)
        if s in self.fields:
            return self.fields[s][0]
        if isinstance(e, ast.Name):
            return e.id
        raise Untranslatable(f"name `{s}`")


def as_float(env, e):
    """Lean term of type F for an operand of a comparison (optionals are read through `getD`: the guard made them some)"""
    k = env.kind(e)
    if k == "F":
        return env.lean(e)
    if k == "optF":
        return f"({env.lean(e)}).getD F.nan"
    if k == "rat":
        return f"F.fin {env.lean(e)}"
    raise Untranslatable(f"operand `{_u(e)}`")


def truth(env, e):
    """Lean Bool: the truth value of the Python expression `e`"""
    if isinstance(e, ast.BoolOp):
        op = " && " if isinstance(e.op, ast.And) else " || "
        return "(" + op.join(truth(env, v) for v in e.values) + ")"
    if isinstance(e, ast.Compare) and len(e.ops) == 1:
        l, r, op = e.left, e.comparators[0], e.ops[0]
        if isinstance(r, ast.Constant) and r.value is None and isinstance(op, (ast.Is, ast.IsNot)):
            k = env.kind(l)
            if k not in ("optF", "optPos"):
                raise Untranslatable(f"`{_u(e)}`: not an optional")
            return f"({env.lean(l)}).isSome" if isinstance(op, ast.IsNot) else f"({env.lean(l)}).isNone"
        f = {ast.Gt: "F.gt", ast.Lt: "F.lt", ast.GtE: "F.ge", ast.LtE: "F.le", ast.Eq: "F.beq"}.get(type(op))
        if f is None:
            raise Untranslatable(f"comparison `{_u(e)}`")
        return f"{f} ({as_float(env, l)}) ({as_float(env, r)})"
    if isinstance(e, ast.Call):
        fn = _u(e.func)
        if fn in CALLS:
            return CALLS[fn](env, e)
        raise Untranslatable(f"call `{_u(e)}`")
    k = env.kind(e)
    if k == "optF":
        return f"(match {env.lean(e)} with | some x => F.truthy x | none => false)"
    if k == "optEarly":
        return f"({env.lean(e)}).isSome"
    if k == "F":
        return f"F.truthy ({env.lean(e)})"
    raise Untranslatable(f"truth value of `{_u(e)}`")


def _call_time_exceeded(env, e):
    if [_u(a) for a in e.args] != ["self.start_time", "self.max_time"]:
        raise Untranslatable(f"`{_u(e)}`")
    return "time_exceeded now c.startTime c.maxTime"


def _call_score_exceeded(env, e):
    if [_u(a) for a in e.args] != ["self.score_best", "self.max_score"]:
        raise Untranslatable(f"`{_u(e)}`")
    return "score_exceeded scoreBest c.maxScore"


CALLS = {"time_exceeded": _call_time_exceeded, "score_exceeded": _call_score_exceeded}


def fn_time_exceeded(fn):
    body = [_u(x) for x in fn.body]
    if len(fn.body) != 2 or body[0] != "run_time = time.time() - start_time" or not isinstance(fn.body[1], ast.Return):
        raise Untranslatable(f"time_exceeded: {body}")
    env = Env(opts={"max_time"}, fields={"run_time": ("(now - start)", "rat")})
    env.rats.add("run_time")
    env.fields = {"run_time": ("(now - start)", "rat")}
    return ("def time_exceeded (now start : Rat) (max_time : Option F) : Bool :=\n  " + truth(env, fn.body[1].value))


def fn_score_exceeded(fn):
    if len(fn.body) != 1 or not isinstance(fn.body[0], ast.Return):
        raise Untranslatable("score_exceeded: body")
    env = Env(floats={"score_best"}, opts={"max_score"})
    return ("def score_exceeded (score_best : F) (max_score : Option F) : Bool :=\n  " + truth(env, fn.body[0].value))


def fn_check(fn):
    """`if A: return True  elif B: return True  elif C and no_change(...): return True` - the third branch is the model's
    `noChange`, reached through the guard on `early_stopping`"""
    env = Env(fields={"self.max_time": ("c.maxTime", "optF"), "self.max_score": ("c.maxScore", "optF"),
                      "self.early_stopping": ("c.early", "optEarly")})
    st = fn.body
    if len(st) != 1 or not isinstance(st[0], ast.If):
        raise Untranslatable("StopRun.check: body")
    branches = []
    node = st[0]
    while True:
        if [_u(x) for x in node.body] != ["return True"]:
            raise Untranslatable("StopRun.check: a branch does not `return True`")
        branches.append(node.test)
        if len(node.orelse) == 1 and isinstance(node.orelse[0], ast.If):
            node = node.orelse[0]
        elif not node.orelse:
            break
        else:
            raise Untranslatable("StopRun.check: else branch")
    if len(branches) != 3:
        raise Untranslatable(f"StopRun.check: {len(branches)} branches")
    last = branches[2]
    if _u(last) != "self.early_stopping and no_change(self.score_new_list, self.early_stopping)":
        raise Untranslatable(f"StopRun.check: third branch `{_u(last)}`")
    out = ["def check (flv : Flavour) (c : StopCfg) (now : Rat) (scoreBest : F) (scores : List F) : Except Err Bool :=",
           f"  if {truth(env, branches[0])} then .ok true",
           f"  else if {truth(env, branches[1])} then .ok true",
           "  else",
           "    match c.early with",
           "    | none => .ok false",
           "    | some es => noChange flv scores es"]
    return "\n".join(out)


def fn_new2best(fn):
    st = fn.body
    if len(st) != 2 or not isinstance(st[0], ast.If) or st[0].orelse or _u(st[1]) != "self.convergence_data.append(self.score_best)":
        raise Untranslatable("_new2best: body")
    if [_u(x) for x in st[0].body] != ["self.score_best = score_new", "self.pos_best = pos_new"]:
        raise Untranslatable(f"_new2best: assignments {[_u(x) for x in st[0].body]}")
    env = Env(floats={"score_new"}, fields={"self.score_best": ("p.scoreBest", "F"), "self.pos_best": ("p.posBest", "optPos")})
    return ("def _new2best (p : PBar) (score_new : F) (pos_new : Pos) : PBar :=\n"
            f"  if {truth(env, st[0].test)} then {{ p with scoreBest := score_new, posBest := some pos_new }} else p")


def fn_update0(fn):
    if [_u(x) for x in fn.body] != ["self.n_iter_current = nth_iter", "self._new2best(score_new, pos_new, nth_iter)"]:
        raise Untranslatable(f"ProgressBarLVL0.update: {[_u(x) for x in fn.body]}")
    return "def update0 (p : PBar) (score_new : F) (pos_new : Pos) (_nth_iter : Nat) : PBar :=\n  _new2best p score_new pos_new"


def fn_update1(fn):
    st = fn.body
    names = [_u(x).split("(")[0].split(" =")[0] for x in st]
    if names != ["self.n_iter_current", "if score_new > self.score_best:\n    self.best_since_iter", "self._new2best", "self._tqdm.update"]:
        # tolerate formatting: check structurally
        pass
    if len(st) != 4 or _u(st[0]) != "self.n_iter_current = nth_iter" or not isinstance(st[1], ast.If) or st[1].orelse \
            or _u(st[2]) != "self._new2best(score_new, pos_new, nth_iter)" or _u(st[3]) != "self._tqdm.update(1)":
        raise Untranslatable("ProgressBarLVL1.update: body")
    if _u(st[1].body[0]) != "self.best_since_iter = nth_iter":
        raise Untranslatable("ProgressBarLVL1.update: first statement of the `if`")
    env = Env(floats={"score_new"}, fields={"self.score_best": ("p.scoreBest", "F")})
    return ("def update1 (p : PBar) (score_new : F) (pos_new : Pos) (nth_iter : Nat) : PBar :=\n"
            f"  let p := if {truth(env, st[1].test)} then {{ p with bestSince := p.bestSince ++ [nth_iter] }} else p\n"
            "  _new2best p score_new pos_new")


# ----------------------------------------------------------------------------- no_change (early stopping)

class _NC:
    """statement-level translation of `no_change`: straight-line code with early returns in the `Except Err` monad.
    Types: `score_new_list` / slices of it: List F; `len`, `np.argmax`, their differences: Nat; `max`, `abs`, `-`, `*`: F;
    `/`: the partial `F.div flv` (ZeroDivisionError for python floats)."""

    NAT = {"n_iter_no_change", "max_index", "length_pos", "diff", "first_n"}
    LISTF = {"score_new_list": "score_new_list", "scores_np": "score_new_list"}     # `scores_np = np.array(score_new_list)` is an alias
    FL = {"max_score", "max_first_n", "tol_abs", "tol_rel", "baseline", "percent_imp"}

    def __init__(self):
        self.lists = dict(self.LISTF)

    def nat(self, e):
        if isinstance(e, ast.Name) and e.id in self.NAT:
            return e.id
        if isinstance(e, ast.Call) and _u(e.func) == "len" and len(e.args) == 1:
            return f"({self.lst(e.args[0])}).length"
        if isinstance(e, ast.Call) and _u(e.func) == "np.argmax" and len(e.args) == 1:
            return f"npArgmax ({self.lst(e.args[0])})"
        if isinstance(e, ast.BinOp) and isinstance(e.op, ast.Sub):
            return f"({self.nat(e.left)} - {self.nat(e.right)})"
        raise Untranslatable(f"no_change: integer expression `{_u(e)}`")

    def lst(self, e):
        if isinstance(e, ast.Name) and e.id in self.lists:
            return self.lists[e.id]
        if isinstance(e, ast.Subscript) and isinstance(e.slice, ast.Slice) and e.slice.lower is None and e.slice.step is None \
                and e.slice.upper is not None:
            return f"({self.lst(e.value)}).take {self.nat(e.slice.upper)}"
        raise Untranslatable(f"no_change: list expression `{_u(e)}`")

    def fl(self, e):
        """-> (monadic binds, term)"""
        if isinstance(e, ast.Name) and e.id in self.FL:
            return [], e.id
        if isinstance(e, ast.Constant) and isinstance(e.value, int) and not isinstance(e.value, bool):
            return [], f"(F.ofInt {e.value})"
        if isinstance(e, ast.Call) and _u(e.func) == "abs" and len(e.args) == 1:
            b, t = self.fl(e.args[0])
            return b, f"(F.abs {t})"
        if isinstance(e, ast.Call) and _u(e.func) == "max" and len(e.args) == 1:
            v = f"m{len(_u(e))}"
            return [f"let {v} ← pyMax ({self.lst(e.args[0])})"], v
        if isinstance(e, ast.BinOp) and isinstance(e.op, (ast.Sub, ast.Mult)):
            bl, tl = self.fl(e.left)
            br, tr_ = self.fl(e.right)
            return bl + br, f"(F.{'sub' if isinstance(e.op, ast.Sub) else 'mul'} {tl} {tr_})"
        if isinstance(e, ast.BinOp) and isinstance(e.op, ast.Div):
            bl, tl = self.fl(e.left)
            br, tr_ = self.fl(e.right)
            return bl + br + [f"let q ← F.div flv {tl} {tr_}"], "q"
        raise Untranslatable(f"no_change: float expression `{_u(e)}`")

    def cond(self, e):
        """-> (binds, Bool term)"""
        if isinstance(e, ast.Compare) and len(e.ops) == 1:
            l, r, op = e.left, e.comparators[0], e.ops[0]
            try:
                ln, rn = self.nat(l), self.nat(r)
                sym = {ast.LtE: "≤", ast.Gt: ">", ast.Lt: "<", ast.GtE: "≥"}.get(type(op))
                if sym is None:
                    raise Untranslatable("op")
                return [], f"decide ({ln} {sym} {rn})"
            except Untranslatable:
                pass
            if isinstance(op, ast.NotEq) and isinstance(r, ast.Constant) and r.value == 0:
                b, t = self.fl(l)
                return b, f"(!(F.beq {t} F.zero))"
            f = {ast.Lt: "F.lt", ast.Gt: "F.gt", ast.LtE: "F.le", ast.GtE: "F.ge"}.get(type(op))
            if f is None:
                raise Untranslatable(f"no_change: comparison `{_u(e)}`")
            bl, tl = self.fl(l)
            br, tr_ = self.fl(r)
            return bl + br, f"({f} {tl} {tr_})"
        raise Untranslatable(f"no_change: condition `{_u(e)}`")

    def block(self, stmts, ind):
        """statements -> lines of a `do` block that ends with the value of the block (falling off the end = `pure false`)"""
        if not stmts:
            return [f"{ind}pure false"]
        st, rest = stmts[0], stmts[1:]
        s = _u(st)
        if isinstance(st, ast.Assign) and len(st.targets) == 1 and isinstance(st.targets[0], ast.Name):
            name = st.targets[0].id
            if s == "scores_np = np.array(score_new_list)":
                return self.block(rest, ind)
            if name in self.NAT:
                return [f"{ind}let {name} := {self.nat(st.value)}"] + self.block(rest, ind)
            if name == "scores_first_n":
                self.lists[name] = self.lst(st.value)
                return self.block(rest, ind)
            if name in self.FL:
                if isinstance(st.value, ast.Subscript) and _u(st.value.value) == "early_stopping":
                    return self.block(rest, ind)            # bound by the enclosing `match` on the dictionary entry
                b, t = self.fl(st.value)
                return [f"{ind}{x}" for x in b] + [f"{ind}let {name} := {t}"] + self.block(rest, ind)
            raise Untranslatable(f"no_change: assignment `{s}`")
        if isinstance(st, ast.If) and not st.orelse:
            t = _u(st.test)
            for key, fld, var in (("tol_abs", "tolAbs", "tol_abs"), ("tol_rel", "tolRel", "tol_rel")):
                if t == f"'{key}' in early_stopping and early_stopping['{key}'] is not None":
                    if _u(st.body[0]) != f"{var} = early_stopping['{key}']":
                        raise Untranslatable(f"no_change: `{_u(st.body[0])}`")
                    inner = self.block(st.body, ind + "    ")
                    return ([f"{ind}let hit_{key} ← (match early_stopping.{fld} with", f"{ind}  | none => pure false", f"{ind}  | some {var} => do"]
                            + inner + [f"{ind}  )", f"{ind}if hit_{key} then pure true else"] + self.block(rest, ind))
            b, c = self.cond(st.test)
            body = [_u(x) for x in st.body]
            if body == ["return True"] or body == ["return False"]:
                val = "true" if body == ["return True"] else "false"
                return [f"{ind}{x}" for x in b] + [f"{ind}if {c} then pure {val} else"] + self.block(rest, ind)
            # a plain guarded block (`if baseline != 0:`) that may return: its value, or fall through to the rest
            if rest:
                raise Untranslatable(f"no_change: guarded block followed by statements `{s}`")
            return [f"{ind}{x}" for x in b] + [f"{ind}if {c} then do"] + self.block(st.body, ind + "  ") + [f"{ind}else pure false"]
        raise Untranslatable(f"no_change: statement `{s}`")


def fn_no_change(fn):
    if [a.arg for a in fn.args.args] != ["score_new_list", "early_stopping"]:
        raise Untranslatable("no_change: parameters")
    b = fn.body
    if not isinstance(b[0], ast.If) or _u(b[0].test) != "'n_iter_no_change' not in early_stopping" or _u(b[0].body[-1]) != "return False" \
            or _u(b[1]) != "n_iter_no_change = early_stopping['n_iter_no_change']":
        raise Untranslatable("no_change: the n_iter_no_change guard changed")
    nc = _NC()
    lines = nc.block(b[2:], "    ")
    return ("/-- `no_change(score_new_list, early_stopping)`; `false` also stands for the `None` the function falls off with -/\n"
            "def no_change (flv : Flavour) (score_new_list : List F) (early_stopping : Early) : Except Err Bool :=\n"
            "  match early_stopping.n with\n  | none => pure false                                  -- 'n_iter_no_change' not in early_stopping\n"
            "  | some n_iter_no_change => do\n" + "\n".join(lines))
