"""Python -> Lean translator for the decision functions of the stop object and the progress bar
(_stop_run.py: `time_exceeded`, `score_exceeded`, `StopRun.check`; _progress_bar.py: `_new2best`, `ProgressBarLVL0.update`,
`ProgressBarLVL1.update`).  A typed expression translation with Python's truthiness made explicit:

    optional float  x : Option F      `x is None` / `x is not None` -> isNone / isSome;   `x` as a guard -> isSome ∧ value ≠ 0
    float compare   a >= b            -> F.ge …   (an optional operand is unwrapped under the guard that precedes it)
    `a and b` / `a or b`              -> && / ||  of the truth values
    `return e`                        -> the truth value of `e` (every caller uses the result as a condition)

Anything outside the subset raises `Untranslatable`."""
import ast

from .pytolean import Untranslatable


def _u(n):
    return ast.unparse(n)


class Env:
    def __init__(self, floats=(), opts=(), rats=(), fields=None):
        self.floats, self.opts, self.rats = set(floats), set(opts), set(rats)
        self.fields = fields or {}          # "self.x" -> (lean expr, kind)

    def kind(self, e):
        s = _u(e)
        if s in self.fields:
            return self.fields[s][1]
        if isinstance(e, ast.Name):
            if e.id in self.floats:
                return "F"
            if e.id in self.opts:
                return "optF"
            if e.id in self.rats:
                return "rat"
        return None

    def lean(self, e):
        s = _u(e)
        if s in self.fields:
            return self.fields[s][0]
        if isinstance(e, ast.Name):
            return e.id
        raise Untranslatable(f"name `{s}`")


def as_float(env, e):
    """Lean term of type F for an operand of a comparison (optionals are read through `getD`: the guard made them some)"""
    k = env.kind(e)
    if k == "F":
        return env.lean(e)
    if k == "optF":
        return f"({env.lean(e)}).getD F.nan"
    if k == "rat":
        return f"F.fin {env.lean(e)}"
    raise Untranslatable(f"operand `{_u(e)}`")


def truth(env, e):
    """Lean Bool: the truth value of the Python expression `e`"""
    if isinstance(e, ast.BoolOp):
        op = " && " if isinstance(e.op, ast.And) else " || "
        return "(" + op.join(truth(env, v) for v in e.values) + ")"
    if isinstance(e, ast.Compare) and len(e.ops) == 1:
        l, r, op = e.left, e.comparators[0], e.ops[0]
        if isinstance(r, ast.Constant) and r.value is None and isinstance(op, (ast.Is, ast.IsNot)):
            k = env.kind(l)
            if k not in ("optF", "optPos"):
                raise Untranslatable(f"`{_u(e)}`: not an optional")
            return f"({env.lean(l)}).isSome" if isinstance(op, ast.IsNot) else f"({env.lean(l)}).isNone"
        f = {ast.Gt: "F.gt", ast.Lt: "F.lt", ast.GtE: "F.ge", ast.LtE: "F.le", ast.Eq: "F.beq"}.get(type(op))
        if f is None:
            raise Untranslatable(f"comparison `{_u(e)}`")
        return f"{f} ({as_float(env, l)}) ({as_float(env, r)})"
    if isinstance(e, ast.Call):
        fn = _u(e.func)
        if fn in CALLS:
            return CALLS[fn](env, e)
        raise Untranslatable(f"call `{_u(e)}`")
    k = env.kind(e)
    if k == "optF":
        return f"(match {env.lean(e)} with | some x => F.truthy x | none => false)"
    if k == "optEarly":
        return f"({env.lean(e)}).isSome"
    if k == "F":
        return f"F.truthy ({env.lean(e)})"
    raise Untranslatable(f"truth value of `{_u(e)}`")


def _call_time_exceeded(env, e):
    if [_u(a) for a in e.args] != ["self.start_time", "self.max_time"]:
        raise Untranslatable(f"`{_u(e)}`")
    return "time_exceeded now c.startTime c.maxTime"


def _call_score_exceeded(env, e):
    if [_u(a) for a in e.args] != ["self.score_best", "self.max_score"]:
        raise Untranslatable(f"`{_u(e)}`")
    return "score_exceeded scoreBest c.maxScore"


CALLS = {"time_exceeded": _call_time_exceeded, "score_exceeded": _call_score_exceeded}


def fn_time_exceeded(fn):
    body = [_u(x) for x in fn.body]
    if len(fn.body) != 2 or body[0] != "run_time = time.time() - start_time" or not isinstance(fn.body[1], ast.Return):
        raise Untranslatable(f"time_exceeded: {body}")
    env = Env(opts={"max_time"}, fields={"run_time": ("(now - start)", "rat")})
    env.rats.add("run_time")
    env.fields = {"run_time": ("(now - start)", "rat")}
    return ("def time_exceeded (now start : Rat) (max_time : Option F) : Bool :=\n  " + truth(env, fn.body[1].value))


def fn_score_exceeded(fn):
    if len(fn.body) != 1 or not isinstance(fn.body[0], ast.Return):
        raise Untranslatable("score_exceeded: body")
    env = Env(floats={"score_best"}, opts={"max_score"})
    return ("def score_exceeded (score_best : F) (max_score : Option F) : Bool :=\n  " + truth(env, fn.body[0].value))


def fn_check(fn):
    """`if A: return True  elif B: return True  elif C and no_change(...): return True` - the third branch is the model's
    `noChange`, reached through the guard on `early_stopping`"""
    env = Env(fields={"self.max_time": ("c.maxTime", "optF"), "self.max_score": ("c.maxScore", "optF"),
                      "self.early_stopping": ("c.early", "optEarly")})
    st = fn.body
    if len(st) != 1 or not isinstance(st[0], ast.If):
        raise Untranslatable("StopRun.check: body")
    branches = []
    node = st[0]
    while True:
        if [_u(x) for x in node.body] != ["return True"]:
            raise Untranslatable("StopRun.check: a branch does not `return True`")
        branches.append(node.test)
        if len(node.orelse) == 1 and isinstance(node.orelse[0], ast.If):
            node = node.orelse[0]
        elif not node.orelse:
            break
        else:
            raise Untranslatable("StopRun.check: else branch")
    if len(branches) != 3:
        raise Untranslatable(f"StopRun.check: {len(branches)} branches")
    last = branches[2]
    if _u(last) != "self.early_stopping and no_change(self.score_new_list, self.early_stopping)":
        raise Untranslatable(f"StopRun.check: third branch `{_u(last)}`")
    out = ["def check (flv : Flavour) (c : StopCfg) (now : Rat) (scoreBest : F) (scores : List F) : Except Err Bool :=",
           f"  if {truth(env, branches[0])} then .ok true",
           f"  else if {truth(env, branches[1])} then .ok true",
           "  else",
           "    match c.early with",
           "    | none => .ok false",
           "    | some es => noChange flv scores es"]
    return "\n".join(out)


def fn_new2best(fn):
    st = fn.body
    if len(st) != 2 or not isinstance(st[0], ast.If) or st[0].orelse or _u(st[1]) != "self.convergence_data.append(self.score_best)":
        raise Untranslatable("_new2best: body")
    if [_u(x) for x in st[0].body] != ["self.score_best = score_new", "self.pos_best = pos_new"]:
        raise Untranslatable(f"_new2best: assignments {[_u(x) for x in st[0].body]}")
    env = Env(floats={"score_new"}, fields={"self.score_best": ("p.scoreBest", "F"), "self.pos_best": ("p.posBest", "optPos")})
    return ("def _new2best (p : PBar) (score_new : F) (pos_new : Pos) : PBar :=\n"
            f"  if {truth(env, st[0].test)} then {{ p with scoreBest := score_new, posBest := some pos_new }} else p")


def fn_update0(fn):
    if [_u(x) for x in fn.body] != ["self.n_iter_current = nth_iter", "self._new2best(score_new, pos_new, nth_iter)"]:
        raise Untranslatable(f"ProgressBarLVL0.update: {[_u(x) for x in fn.body]}")
    return "def update0 (p : PBar) (score_new : F) (pos_new : Pos) (_nth_iter : Nat) : PBar :=\n  _new2best p score_new pos_new"


def fn_update1(fn):
    st = fn.body
    names = [_u(x).split("(")[0].split(" =")[0] for x in st]
    if names != ["self.n_iter_current", "if score_new > self.score_best:\n    self.best_since_iter", "self._new2best", "self._tqdm.update"]:
        # tolerate formatting: check structurally
        pass
    if len(st) != 4 or _u(st[0]) != "self.n_iter_current = nth_iter" or not isinstance(st[1], ast.If) or st[1].orelse \
            or _u(st[2]) != "self._new2best(score_new, pos_new, nth_iter)" or _u(st[3]) != "self._tqdm.update(1)":
        raise Untranslatable("ProgressBarLVL1.update: body")
    if _u(st[1].body[0]) != "self.best_since_iter = nth_iter":
        raise Untranslatable("ProgressBarLVL1.update: first statement of the `if`")
    env = Env(floats={"score_new"}, fields={"self.score_best": ("p.scoreBest", "F")})
    return ("def update1 (p : PBar) (score_new : F) (pos_new : Pos) (nth_iter : Nat) : PBar :=\n"
            f"  let p := if {truth(env, st[1].test)} then {{ p with bestSince := p.bestSince ++ [nth_iter] }} else p\n"
            "  _new2best p score_new pos_new")
