"""Translators that regenerate parts of the Lean model from /repo's source on every run (DESIGN 2.2 b)."""


def regenerate_all():
    pass
