"""Function-level correspondence for `Initializer` (init_positions.py) and `split` / population padding:
record the random draws and the constraint verdicts of a real construction, hand them to the Lean model
(`setPos`, `addNRandom`, `splitDeal`) and compare the resulting list of initial positions."""
import contextlib

import numpy as np

from . import common as C, gen
from .common import tok_rat, tok_opt, tok_list, tok_key


@contextlib.contextmanager
def capture_init(rec):
    import gradient_free_optimizers.optimizers.core_optimizer.init_positions as ip
    from gradient_free_optimizers.optimizers.core_optimizer.converter import Converter
    orig_mr = ip.move_random
    orig_vtx = ip.Initializer._get_random_vertex
    orig_nic = Converter.not_in_constraint

    def mr(ss):
        p = orig_mr(ss)
        rec["rnd"].append([int(x) for x in p])
        return p

    def vtx(self):
        p = orig_vtx(self)
        rec["vtx"].append([int(x) for x in p])
        return p

    def nic(self, position):
        r = orig_nic(self, position)
        rec["table"].append(([int(x) for x in np.asarray(position).ravel()], bool(r)))
        return r

    ip.move_random = mr
    ip.Initializer._get_random_vertex = vtx
    Converter.not_in_constraint = nic
    try:
        yield
    finally:
        ip.move_random = orig_mr
        ip.Initializer._get_random_vertex = orig_vtx
        Converter.not_in_constraint = orig_nic


def gen_initialize(r, space, with_warm=True):
    names = list(space)
    ini = {}
    keys = ["random", "grid", "vertices", "warm_start"]
    r.shuffle(keys)
    for k in keys:
        if r.random() < 0.6:
            if k == "warm_start":
                if not with_warm:
                    continue
                ws = []
                for _ in range(r.choice([1, 1, 2, 3, 6, 20])):
                    ks = list(names)
                    r.shuffle(ks)
                    w = {}
                    for n in ks:
                        v = r.choice(space[n])
                        if r.random() < 0.08:
                            v = v + 0.3   # off-grid value: maps to the nearest member
                        w[n] = v
                    ws.append(w)
                    if r.random() < 0.3:
                        ws.append(dict(w))     # duplicate
                ini[k] = ws
            else:
                ini[k] = r.choice([0, 1, 2, 3, 4, 6, 9])
    if not ini:
        ini["random"] = r.choice([1, 2, 3])
    return ini


def case_lines(space_spec, initialize, constraint_spec, extra=0):
    """runs the real Initializer; returns (line, expected, info)"""
    from gradient_free_optimizers.optimizers.core_optimizer.converter import Converter
    from gradient_free_optimizers.optimizers.core_optimizer.init_positions import Initializer
    sp = gen.build_space(space_spec)
    names = list(sp)
    cons = [gen.build_constraint(constraint_spec, space_spec)] if constraint_spec else []
    rec = dict(rnd=[], vtx=[], table=[])
    with capture_init(rec):
        conv = Converter(sp, cons)
        init = Initializer(conv, initialize)
        if extra:
            init.add_n_random_init_pos(extra)
    result = [[int(x) for x in p] for p in init.init_positions_l]
    nd = len(names)
    n_grid = initialize.get("grid")
    p_per_dim = int(np.power(n_grid, 1 / nd)) if n_grid else 0
    table = {}
    for p, v in rec["table"]:
        table[tuple(p)] = v
    ws = initialize.get("warm_start")
    parts = ["setpos", tok_opt(initialize.get("random"), str), tok_opt(n_grid, str), tok_opt(initialize.get("vertices"), str),
             tok_opt(None if ws is None else len(ws), str), str(p_per_dim), str(extra),
             str(len(rec["rnd"]))] + [" ".join(map(str, p)) for p in rec["rnd"]] + \
            [str(len(rec["vtx"]))] + [" ".join(map(str, p)) for p in rec["vtx"]] + \
            [str(len(table))] + [" ".join(map(str, p)) + (" 1" if v else " 0") for p, v in table.items()]
    if ws is not None:
        for w in ws:
            parts.append(str(len(w)) + " " + " ".join(f"{tok_key(k)} {tok_rat(v)}" for k, v in w.items()))
    line = " ".join(x for x in parts if x != "")
    expected = C.show_list(result, C.show_pos) + " left=0,0"
    info = dict(result=result, conv=conv, init=init, n_inits=init.n_inits, cons=cons, names=names, sp=sp, draws=len(rec["rnd"]), vertices=len(rec["vtx"]))
    return [C.space_line(sp), line], ["ok", expected], info
