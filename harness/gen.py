"""Generators. Every case is a JSON-able *spec* (so it can be written to a replay file, shrunk and re-run);
`build_*` turn specs into live objects. All randomness comes from the `random.Random` handed in."""
import math
import zlib

import numpy as np

SIZES = [1, 2, 3, 5, 10, 31, 100]


# ----------------------------------------------------------------------------- spaces

def gen_space(r, ndims=None, sizes=None, kinds=("int", "float", "mixed"), orders=("asc", "desc", "shuf"), allow_dups=False):
    nd = ndims if ndims is not None else r.choice([1, 1, 2, 2, 3, 4])
    sp = {}
    for k in range(nd):
        n = r.choice(sizes or SIZES)
        kind = r.choice(kinds)
        start = r.choice([-3, 0, 1, 10])
        if kind == "int":
            vals = [start + j for j in range(n)]
        elif kind == "float":
            step = r.choice([0.5, 0.25, 1.5, 0.125])
            vals = [start + j * step for j in range(n)]
        else:
            vals = [start + j * (0.5 if j % 2 else 1.0) * (j + 1) for j in range(n)]
        if not allow_dups:
            seen, uniq = set(), []
            for x in vals:
                if float(x) not in seen:
                    seen.add(float(x)); uniq.append(x)
            vals = uniq
        order = r.choice(orders)
        if order == "desc":
            vals = vals[::-1]
        elif order == "shuf":
            r.shuffle(vals)
        sp["x%d" % k] = vals
    return sp


def build_space(spec):
    out = {}
    for k, v in spec.items():
        if all(float(x).is_integer() and isinstance(x, int) for x in v):
            out[k] = np.array(v, dtype=int)
        else:
            out[k] = np.array(v, dtype=float)
    return out


def space_size(spec):
    n = 1
    for v in spec.values():
        n *= len(v)
    return n


# ----------------------------------------------------------------------------- objectives

def _h(*xs):
    return zlib.crc32(repr(xs).encode())


def gen_objective(r, space, kinds=("lin", "peak", "plateau", "const", "signed")):
    names = list(space)
    kind = r.choice(kinds)
    spec = {"kind": kind,
            "w": [r.choice([-2, -1, -0.5, 0.25, 1, 3]) for _ in names],
            "c": r.choice([-10, 0, 0.5, 7]),
            "center": [r.choice(space[n]) for n in names],
            "q": r.choice([2, 4, 8])}
    if r.random() < 0.35:
        spec["metrics"] = r.choice(["plain", "collide", "numpy", "scorekey"])
    if r.random() < 0.3:
        spec["np"] = True
    return spec


def gen_nonfinite(r, spec, frac=0.3, kinds=("nan", "inf", "-inf")):
    spec = dict(spec)
    spec["nonfinite"] = {"mod": r.choice([2, 3, 4, 5]), "res": r.randrange(0, 2), "vals": [r.choice(kinds) for _ in range(3)],
                         "salt": r.randrange(1000)}
    return spec


def build_objective(spec, names):
    kind = spec["kind"]
    w, c, center, q = spec["w"], spec["c"], spec["center"], spec["q"]

    def base(para):
        vs = [float(para[n]) for n in names]
        if kind == "lin":
            return sum(a * b for a, b in zip(w, vs)) + c
        if kind == "peak":
            return c - sum((v - m) ** 2 for v, m in zip(vs, center))
        if kind == "plateau":
            return float(math.floor((sum(a * b for a, b in zip(w, vs)) + c) / q) * q)
        if kind == "const":
            return float(c)
        if kind == "signed":
            return -abs(sum(a * b for a, b in zip(w, vs))) + c
        raise ValueError(kind)

    nf = spec.get("nonfinite")
    metrics = spec.get("metrics")
    as_np = spec.get("np", False)

    def f(para):
        s = base(para)
        if nf is not None:
            hv = _h(nf["salt"], *[float(para[n]) for n in names])
            if hv % nf["mod"] == nf["res"]:
                s = float(nf["vals"][(hv // 7) % len(nf["vals"])])
        if as_np:
            s = np.float64(s)
        if metrics is None:
            return s
        if metrics == "plain":
            return s, {"m1": int(_h(*[float(para[n]) for n in names]) % 5), "m2": "txt"}
        if metrics == "collide":
            return s, {names[0]: -12345, "extra": 1.5}
        if metrics == "numpy":
            return s, {"m1": np.int64(3), "m2": np.float64(0.25)}
        if metrics == "scorekey":
            return s, {"score": 99999.0, "z": 1}
        raise ValueError(metrics)

    return f


def flavour(spec):
    return "np" if spec.get("np") else "py"


# ----------------------------------------------------------------------------- constraints

def gen_constraint(r, space, kinds=("half", "parity", "band", "mask", "paritysum")):
    """a constraint spec with feasible fraction >= 25 % (checked by enumeration when small, else by sampling)"""
    names = list(space)
    for _ in range(50):
        kind = r.choice(list(kinds))
        spec = {"kind": kind, "dim": r.randrange(len(names)), "salt": r.randrange(10_000),
                "k": r.choice([2, 3]), "frac": r.choice([0.5, 0.6, 0.75])}
        if feasible_fraction(spec, space, r) >= 0.25:
            return spec
    return {"kind": "true", "dim": 0, "salt": 0, "k": 2, "frac": 1.0}


def build_constraint(spec, space):
    names = list(space)
    kind, dim, salt, k, frac = spec["kind"], spec["dim"], spec["salt"], spec["k"], spec["frac"]
    index = {n: {float(v): i for i, v in enumerate(space[n])} for n in names}

    def idx(para, n):
        return index[n][float(para[n])]

    def c(para):
        if kind == "true":
            return True
        if kind == "half":
            n = names[dim]
            return idx(para, n) <= frac * (len(space[n]) - 1) + 1e-9
        if kind == "parity":
            return idx(para, names[dim]) % k != 1 or len(space[names[dim]]) == 1
        if kind == "paritysum":
            return sum(idx(para, n) for n in names) % 2 == 0
        if kind == "band":
            s = sum(idx(para, n) for n in names)
            return s % 4 != 3
        if kind == "mask":
            return _h(salt, *[idx(para, n) for n in names]) % 100 < int(frac * 100)
        if kind == "ring":
            # a forbidden ring around the centre of the index box (non-convex feasible region)
            d2 = sum((idx(para, n) - (len(space[n]) - 1) / 2) ** 2 for n in names)
            rad2 = sum(((len(space[n]) - 1) / 2) ** 2 for n in names)
            return not (0.15 * rad2 <= d2 <= (0.15 + 0.3 * frac) * rad2)
        raise ValueError(kind)

    return c


def feasible_fraction(spec, space, r, nsamp=400):
    names = list(space)
    c = build_constraint(spec, space)
    size = space_size(space)
    if size <= 2000:
        import itertools
        tot = ok = 0
        for combo in itertools.product(*[space[n] for n in names]):
            tot += 1
            ok += bool(c(dict(zip(names, combo))))
        return ok / tot
    ok = 0
    for _ in range(nsamp):
        ok += bool(c({n: r.choice(space[n]) for n in names}))
    return ok / nsamp


# ----------------------------------------------------------------------------- optimizers

ALL_OPTIMIZERS = [
    "HillClimbingOptimizer", "StochasticHillClimbingOptimizer", "RepulsingHillClimbingOptimizer",
    "SimulatedAnnealingOptimizer", "DownhillSimplexOptimizer", "RandomSearchOptimizer", "GridSearchOptimizer",
    "RandomRestartHillClimbingOptimizer", "RandomAnnealingOptimizer", "PowellsMethod", "PatternSearch",
    "ParallelTemperingOptimizer", "ParticleSwarmOptimizer", "SpiralOptimization", "GeneticAlgorithmOptimizer",
    "EvolutionStrategyOptimizer", "DifferentialEvolutionOptimizer", "BayesianOptimizer", "LipschitzOptimizer",
    "DirectAlgorithm", "TreeStructuredParzenEstimators", "ForestOptimizer",
]
SMBO = ["BayesianOptimizer", "LipschitzOptimizer", "DirectAlgorithm", "TreeStructuredParzenEstimators", "ForestOptimizer"]
CHEAP = [o for o in ALL_OPTIMIZERS if o not in SMBO]
POPULATION = ["ParallelTemperingOptimizer", "ParticleSwarmOptimizer", "SpiralOptimization", "GeneticAlgorithmOptimizer",
              "EvolutionStrategyOptimizer", "DifferentialEvolutionOptimizer"]


def get_class(name):
    import gradient_free_optimizers as gfo
    return getattr(gfo, name)


def gen_initialize(r, small=True):
    d = {}
    if r.random() < 0.8:
        d["random"] = r.choice([0, 1, 2, 3])
    if r.random() < 0.6:
        d["vertices"] = r.choice([0, 1, 2, 4])
    if r.random() < 0.6:
        d["grid"] = r.choice([0, 1, 2, 4])
    if not d or sum(d.values()) == 0:
        d["random"] = r.choice([1, 2, 3])
    return d


def gen_opt_kwargs(r, name):
    """constructor parameters with boundary values, per optimizer class (only safe ones here; the hazardous
    ones - tiny populations etc. - are generated by the checks that look for them)"""
    kw = {}
    hc = {"epsilon": r.choice([0.01, 0.03, 0.5, 1.5]), "distribution": r.choice(["normal", "laplace", "logistic", "gumbel"]),
          "n_neighbours": r.choice([1, 2, 3, 5])}
    if name in ("HillClimbingOptimizer", "StochasticHillClimbingOptimizer", "RepulsingHillClimbingOptimizer",
                "SimulatedAnnealingOptimizer", "RandomRestartHillClimbingOptimizer", "RandomAnnealingOptimizer"):
        kw.update(hc)
    if name == "StochasticHillClimbingOptimizer":
        kw["p_accept"] = r.choice([0.1, 0.5, 0.9])
    if name == "RepulsingHillClimbingOptimizer":
        kw["repulsion_factor"] = r.choice([2, 5])
    if name == "SimulatedAnnealingOptimizer":
        kw["annealing_rate"] = r.choice([0.9, 0.97]); kw["start_temp"] = r.choice([0.5, 1, 10])
    if name == "RandomRestartHillClimbingOptimizer":
        kw["n_iter_restart"] = r.choice([2, 5, 10])
    if name == "RandomAnnealingOptimizer":
        kw["annealing_rate"] = r.choice([0.9, 0.98]); kw["start_temp"] = r.choice([1, 10])
    if name == "GridSearchOptimizer":
        kw["direction"] = r.choice(["diagonal", "orthogonal"])
    if name in ("ParticleSwarmOptimizer", "SpiralOptimization", "ParallelTemperingOptimizer",
                "EvolutionStrategyOptimizer"):
        kw["population"] = r.choice([1, 2, 3, 4, 5, 10])
    if name == "GeneticAlgorithmOptimizer":
        kw["population"] = r.choice([4, 5, 10])
    if name == "DifferentialEvolutionOptimizer":
        kw["population"] = r.choice([3, 4, 5, 10])
    if r.random() < 0.3 and name not in ("GridSearchOptimizer",):
        kw["rand_rest_p"] = r.choice([0, 0.3, 1])
    return kw
