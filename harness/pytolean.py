"""A small Python -> Lean translator for the state-update methods of the tracker core (search_tracker.py, the
`evaluate_init` / `evaluate` bodies built on it).  It understands exactly the statement and expression forms these
methods use today; anything else raises `Untranslatable` - a changed method that leaves the subset is a broken
obligation, never a silently stale model.

The generated definitions thread one state `t : Tracker`:
    self.<prop> = e            ->  let t := set_<prop> t e        (the generated property setter)
    self._<field> = e          ->  let t := { t with <field> := e }
    self.<list>.append(e)      ->  let t := { t with <list> := t.<list> ++ [e] }     (unmodelled history lists: dropped)
    self.<counter> += k        ->  let t := { t with <counter> := t.<counter> + k }
    if c: A else: B            ->  let t := if c then (A; t) else (B; t)
    if c: return               ->  the rest of the block becomes the else branch
    x = e                      ->  let x := e
    Cls.method(self, a) / self.method(a) / super().method(a)   ->  let t := Cls_method … t a
"""
import ast

FIELDS = {
    "pos_new": "posNew", "score_new": "scoreNew", "pos_current": "posCurrent", "score_current": "scoreCurrent",
    "pos_best": "posBest", "score_best": "scoreBest", "positions_valid": "positionsValid", "scores_valid": "scoresValid",
    "nth_trial": "nthTrial", "nth_init": "nthInit",
}
PROPS = ["pos_new", "score_new", "pos_current", "score_current", "pos_best", "score_best"]
# bookkeeping the model does not carry (history lists for plots / statistics)
UNMODELLED = {"pos_new_list", "score_new_list", "pos_current_list", "score_current_list", "pos_best_list", "score_best_list",
              "best_since_iter"}
CONFIG = {"n_neighbours": "nNeighbours"}
POS_NAMES = {"pos", "pos_new", "p"}
ORACLE_CALLS = {"self._p_accept_default()"}
UNIT_PARAMS = {"p_accept"}


class Untranslatable(Exception):
    pass


def fail(node, why):
    raise Untranslatable(f"{why}: `{ast.unparse(node)}` (line {getattr(node, 'lineno', '?')})")


class Fn:
    """translation context of one function"""

    def __init__(self, known_calls):
        self.known = known_calls          # python callee -> (lean name, takes_config)
        self.locals = {}                  # python local -> lean type tag ("F", "optpos", "listF", "listpos", "nat", "bool")

    # ------------------------------------------------------------------ expressions
    def expr(self, e):
        if isinstance(e, ast.Name):
            if e.id in self.locals:
                return e.id
            fail(e, "unknown name")
        if isinstance(e, ast.Attribute) and isinstance(e.value, ast.Name) and e.value.id == "self":
            a = e.attr.lstrip("_") if e.attr.startswith("_") and e.attr.lstrip("_") in FIELDS else e.attr
            if a in FIELDS:
                return f"t.{FIELDS[a]}"
            if a in CONFIG:
                return CONFIG[a]
            fail(e, "attribute outside the model")
        if isinstance(e, ast.Constant) and isinstance(e.value, int) and not isinstance(e.value, bool):
            return str(e.value)
        if isinstance(e, ast.Compare) and len(e.ops) == 1:
            l, r, op = e.left, e.comparators[0], e.ops[0]
            # `p_accept >= random()`: a float computed with exp against a fresh draw - the oracle decision `accept`
            if isinstance(op, ast.GtE) and isinstance(r, ast.Call) and ast.unparse(r) == "random()" and "accept" in self.locals:
                return "accept"
            if isinstance(op, (ast.Is, ast.IsNot)) and isinstance(r, ast.Constant) and r.value is None:
                s = f"({self.expr(l)}).isNone"
                return s if isinstance(op, ast.Is) else f"(!{s})"
            if self.is_nat(l) and self.is_nat(r):
                sym = {ast.Eq: "==", ast.NotEq: "!=", ast.Lt: "<", ast.Gt: ">", ast.LtE: "<=", ast.GtE: ">="}.get(type(op))
                if sym is None:
                    fail(e, "comparison")
                return f"decide ({self.expr(l)} {sym.replace('==', '=').replace('!=', '≠')} {self.expr(r)})"
            f = {ast.Gt: "F.gt", ast.Lt: "F.lt", ast.GtE: "F.ge", ast.LtE: "F.le"}.get(type(op))
            if f is None:
                fail(e, "comparison operator outside the subset")
            return f"{f} ({self.expr(l)}) ({self.expr(r)})"
        if isinstance(e, ast.BoolOp) and isinstance(e.op, ast.And):
            return "(" + " && ".join(self.expr(v) for v in e.values) + ")"
        if isinstance(e, ast.UnaryOp) and isinstance(e.op, (ast.Invert, ast.Not)):
            return f"(!{self.expr(e.operand)})"
        if isinstance(e, ast.Call):
            fn = ast.unparse(e.func)
            if fn == "np.isinf" and len(e.args) == 1:
                return f"F.isInf ({self.expr(e.args[0])})"
            if fn == "np.isnan" and len(e.args) == 1:
                return f"F.isNan ({self.expr(e.args[0])})"
            if fn == "len" and len(e.args) == 1:
                return f"({self.expr(e.args[0])}).length"
            if fn == "max_list_idx" and len(e.args) == 1:
                return f"Tracker.maxListIdx ({self.expr(e.args[0])})"
            fail(e, "call outside the subset")
        if isinstance(e, ast.BinOp) and isinstance(e.op, ast.Mod):
            return f"({self.expr(e.left)} % {self.expr(e.right)})"
        if isinstance(e, ast.Subscript):
            # l[-n:]  (the last n entries)
            sl = e.slice
            if isinstance(sl, ast.Slice) and sl.upper is None and sl.step is None and isinstance(sl.lower, ast.UnaryOp) \
                    and isinstance(sl.lower.op, ast.USub):
                return f"Tracker.lastN ({self.expr(e.value)}) ({self.expr(sl.lower.operand)})"
            fail(e, "subscript outside the subset")
        fail(e, "expression outside the subset")

    def is_nat(self, e):
        if isinstance(e, ast.Constant) and isinstance(e.value, int):
            return True
        if isinstance(e, ast.Call) and ast.unparse(e.func) == "len":
            return True
        if isinstance(e, ast.BinOp) and isinstance(e.op, ast.Mod):
            return True
        if isinstance(e, ast.Attribute) and e.attr in ("nth_trial", "nth_init", "n_neighbours"):
            return True
        if isinstance(e, ast.Name) and self.locals.get(e.id) == "nat":
            return True
        return False

    # ------------------------------------------------------------------ statements
    def block(self, stmts, ind):
        """Lean lines computing the new `t` from the current `t`; the block's value is `t`"""
        out = []
        pad = "  " * ind
        for k, st in enumerate(stmts):
            if isinstance(st, ast.Expr) and isinstance(st.value, ast.Constant) and isinstance(st.value.value, str):
                continue                                      # docstring
            if isinstance(st, ast.Pass):
                continue
            if isinstance(st, ast.If):
                # `if c: return` -> rest of the block in the else branch
                if len(st.body) == 1 and isinstance(st.body[0], ast.Return) and st.body[0].value is None and not st.orelse:
                    rest = self.block(stmts[k + 1:], ind + 1)
                    out.append(f"{pad}let t := if {self.expr(st.test)} then t else")
                    out += rest
                    out.append(f"{pad}t")
                    return out
                out.append(f"{pad}let t := if {self.expr(st.test)} then")
                out += self.block(st.body, ind + 2)
                out.append(f"{pad}  else")
                out += self.block(st.orelse, ind + 2) if st.orelse else [f"{pad}    t"]
                continue
            if isinstance(st, ast.Assign) and len(st.targets) == 1:
                tg = st.targets[0]
                if isinstance(tg, ast.Attribute) and isinstance(tg.value, ast.Name) and tg.value.id == "self":
                    out.append(pad + self.assign_attr(tg.attr, st.value))
                    continue
                if isinstance(tg, ast.Name):
                    # `x = l[idx]` raises IndexError when out of range: the continuation only runs when the entry exists
                    if isinstance(st.value, ast.Subscript) and not isinstance(st.value.slice, ast.Slice):
                        self.locals[tg.id] = "elem"
                        rest = self.block(stmts[k + 1:], ind + 2)
                        out.append(f"{pad}match ({self.expr(st.value.value)})[{self.expr(st.value.slice)}]? with")
                        out.append(f"{pad}| none => t")
                        out.append(f"{pad}| some {tg.id} =>")
                        out += rest
                        return out
                    if isinstance(st.value, ast.Call) and ast.unparse(st.value) in ORACLE_CALLS:
                        self.locals[tg.id] = "oracle"          # a float the model does not compute
                        out.append(f"{pad}let {tg.id} := ()")
                        continue
                    self.locals[tg.id] = "nat" if self.is_nat(st.value) else "val"
                    out.append(f"{pad}let {tg.id} := {self.expr(st.value)}")
                    continue
                fail(st, "assignment target")
            if isinstance(st, ast.AugAssign) and isinstance(st.op, ast.Add) and isinstance(st.target, ast.Attribute) \
                    and st.target.attr in ("nth_trial", "nth_init") and isinstance(st.value, ast.Constant):
                f = FIELDS[st.target.attr]
                out.append(f"{pad}let t := {{ t with {f} := t.{f} + {st.value.value} }}")
                continue
            if isinstance(st, ast.Expr) and isinstance(st.value, ast.Call):
                out.append(pad + self.call_stmt(st.value))
                continue
            if isinstance(st, ast.Return):
                if st.value is None:
                    out.append(f"{pad}t")
                    return out
                if isinstance(st.value, ast.Call):           # `return super().evaluate(score_new)`
                    out.append(pad + self.call_stmt(st.value))
                    continue
                continue                                       # `return self.pos_new` / `return _return_`: value not modelled
            fail(st, "statement outside the subset")
        out.append(f"{pad}t")
        return out

    def assign_attr(self, attr, value):
        if attr in UNMODELLED:
            return "let t := t"
        if attr in PROPS:
            return f"let t := set_{attr} t ({self.value_expr(value)})"
        if attr.startswith("_") and attr[1:] in FIELDS:
            return f"let t := {{ t with {FIELDS[attr[1:]]} := {self.value_expr(value)} }}"
        raise Untranslatable(f"assignment to self.{attr} is outside the model")

    def value_expr(self, v):
        # `func(self, *args, **kwargs)` in a decorator wrapper: the wrapped method's result is the parameter `r`
        if isinstance(v, ast.Call) and isinstance(v.func, ast.Name) and v.func.id == "func":
            return "r"
        return self.expr(v)

    def call_stmt(self, c):
        fn = c.func
        # self.<list>.append(e)
        if isinstance(fn, ast.Attribute) and fn.attr == "append" and isinstance(fn.value, ast.Attribute) \
                and isinstance(fn.value.value, ast.Name) and fn.value.value.id == "self":
            lst = fn.value.attr
            if lst in UNMODELLED:
                return "let t := t"
            if lst in ("positions_valid", "scores_valid"):
                f = FIELDS[lst]
                return f"let t := {{ t with {f} := t.{f} ++ [{self.expr(c.args[0])}] }}"
            raise Untranslatable(f"append to self.{lst} is outside the model")
        name = ast.unparse(fn)
        if name in self.known:
            lean, cfg = self.known[name]
            args = [self.expr(a) for a in c.args if not (isinstance(a, ast.Name) and a.id == "self")]
            if "{n}" in lean:
                lean = lean.replace("{n}", "nNeighbours")
            return f"let t := {lean}{' nNeighbours' if cfg else ''} t " + " ".join(f"({a})" for a in args)
        if name == "func":                                    # the wrapped method inside `track_new_score`
            return "let t := body t score"
        raise Untranslatable(f"call of `{name}` is outside the subset")


def params(fn):
    out = []
    for a in fn.args.args[1:]:
        ty = "Option Pos" if a.arg in POS_NAMES else ("Unit" if a.arg in UNIT_PARAMS else "F")
        out.append((a.arg, ty))
    return out


def translate_method(fn, lean_name, known, config=False, extra_params="", extra_locals=()):
    ctx = Fn(known)
    for x in extra_locals:
        ctx.locals[x] = "oracle"
    ps = params(fn)
    for n, ty in ps:
        ctx.locals[n] = "optpos" if ty == "Option Pos" else "F"
    sig = " ".join(f"({n} : {ty})" for n, ty in ps)
    head = f"def {lean_name}{' (nNeighbours : Nat)' if config else ''}{extra_params} (t : Tracker) {sig} : Tracker :="
    return "\n".join([head.replace("  ", " ")] + ctx.block(fn.body, 1))
