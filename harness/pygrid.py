"""Python -> Lean translator for the grid machines (optimizers/grid/diagonal_grid_search.py, orthogonal_grid_search.py): `get_direction`
(the body of its `while`), both `grid_move` decoders (their loops as recursions over `dim_sizes`, the appended / carried expressions
translated as natural-number arithmetic: `//` and `int(a / b)` -> `/`, `%`, `np.prod(dim_sizes[dim + 1:])` -> the product of the
remaining sizes), `current_pass_finished`, the three-way pointer update of the diagonal `iterate` and one round of its `while True`,
and the orthogonal `iterate`.  Generator / constraint calls are tape reads as in pycore.  Anything else raises `Untranslatable`."""
import ast

from .pytolean import Untranslatable


def _u(n):
    return ast.unparse(n)


def _nat(e, env):
    """natural-number arithmetic; env: python source text of a sub-expression -> Lean term"""
    s = _u(e)
    if s in env:
        return env[s]
    if isinstance(e, ast.Constant) and isinstance(e.value, int) and not isinstance(e.value, bool):
        return str(e.value)
    if isinstance(e, ast.BinOp):
        op = {ast.Add: "+", ast.Sub: "-", ast.Mult: "*", ast.FloorDiv: "/", ast.Mod: "%"}.get(type(e.op))
        if op is None:
            raise Untranslatable(f"grid arithmetic `{s}`")
        return f"({_nat(e.left, env)} {op} {_nat(e.right, env)})"
    if isinstance(e, ast.Call) and _u(e.func) == "int" and len(e.args) == 1 and isinstance(e.args[0], ast.BinOp) and isinstance(e.args[0].op, ast.Div):
        return f"({_nat(e.args[0].left, env)} / {_nat(e.args[0].right, env)})"       # float division of naturals truncated (exact below 2^53)
    raise Untranslatable(f"grid arithmetic `{s}`")


def fn_get_direction(fn):
    b = [x for x in fn.body if not (isinstance(x, ast.Expr) and isinstance(x.value, ast.Constant))]
    want_head = ["n_dims = self.conv.n_dimensions", "search_space_size = self.conv.search_space_size",
                 "dim_root = int(np.round(np.power(search_space_size, 1 / n_dims)))", "is_prime = False"]
    if [_u(x) for x in b[:4]] != want_head or not isinstance(b[4], ast.While) or _u(b[4].test) != "not is_prime" or _u(b[5]) != "return dim_root":
        raise Untranslatable("get_direction: shape")
    body = b[4].body
    if len(body) != 1 or not isinstance(body[0], ast.If) or _u(body[0].test) != "gcd(int(search_space_size), int(dim_root)) == 1" \
            or [_u(x) for x in body[0].body] != ["is_prime = True"] or [_u(x) for x in body[0].orelse] != ["dim_root += -1"]:
        raise Untranslatable("get_direction: loop body " + _u(body[0]))
    return ("/-- one round of `get_direction`'s `while not is_prime` (start value `int(np.round(S ** (1 / n_dims)))`: a float, oracle input):\n"
            "    `.inl` = the value returned, `.inr` = `dim_root` of the next round -/\n"
            "def get_direction_round (search_space_size dim_root : Nat) : Sum Nat Nat :=\n"
            "  if Nat.gcd search_space_size dim_root = 1 then .inl dim_root else .inr (dim_root - 1)")


def fn_diag_grid_move(fn):
    b = [x for x in fn.body if not (isinstance(x, ast.Expr) and isinstance(x.value, ast.Constant))]
    if [_u(x) for x in b[:3]] != ["new_pos = []", "dim_sizes = self.conv.dim_sizes", "pointer = self.high_dim_pointer"] \
            or not isinstance(b[3], ast.For) or _u(b[3].target) != "dim" or _u(b[3].iter) != "range(len(dim_sizes) - 1)" \
            or [_u(x) for x in b[4:]] != ["new_pos.append(pointer)", "return np.array(new_pos)"]:
        raise Untranslatable("diagonal grid_move: shape")
    lb = b[3].body
    if len(lb) != 2 or not (isinstance(lb[0], ast.Expr) and _u(lb[0].value.func) == "new_pos.append") \
            or not (isinstance(lb[1], ast.Assign) and _u(lb[1].targets[0]) == "pointer"):
        raise Untranslatable("diagonal grid_move: loop body")
    env = {"pointer": "pointer", "np.prod(dim_sizes[dim + 1:])": "prodN (d' :: ds)", "dim_sizes[dim]": "d"}
    coord = _nat(lb[0].value.args[0], env)
    carry = _nat(lb[1].value, env)
    return ("/-- diagonal `grid_move`: `for dim in range(len(dim_sizes) - 1)` as a recursion over `dim_sizes` (`d` = `dim_sizes[dim]`, `d' :: ds` =\n"
            "    `dim_sizes[dim + 1:]`), the last coordinate is what is left of the pointer -/\n"
            "def diag_grid_move : List Nat → Nat → List Nat\n"
            "  | [], _ => []                                   -- (no dimension: numpy would not get here)\n"
            "  | [_], pointer => [pointer]                     -- new_pos.append(pointer)\n"
            f"  | d :: d' :: ds, pointer => {coord} :: diag_grid_move (d' :: ds) {carry}")


def fn_diag_iterate(fn):
    b = [x for x in fn.body if not (isinstance(x, ast.Expr) and isinstance(x.value, ast.Constant))]
    if [_u(d) for d in fn.decorator_list] != ["BaseOptimizer.track_new_pos"] or _u(b[0]) != "first_try = True" \
            or not isinstance(b[1], ast.While) or _u(b[1].test) != "True":
        raise Untranslatable("diagonal iterate: head")
    w = [x for x in b[1].body if not (isinstance(x, ast.Expr) and isinstance(x.value, ast.Constant))]
    first = w[0]
    want_first = ("if self.direction_calc is None:\n    self.direction_calc = self.get_direction()\n    pos_new = self.initial_position\n"
                  "    if self.conv.not_in_constraint(pos_new):\n        return pos_new\n    else:\n        return self.move_random()")
    if _u(first) != want_first:
        raise Untranslatable("diagonal iterate: first-iteration branch changed")
    if _u(w[1]).replace("(_, current_pass)", "_, current_pass") != "_, current_pass = (self.nth_trial, self.high_dim_pointer % self.step_size)":
        raise Untranslatable("diagonal iterate: " + _u(w[1]))
    env = {"self.nth_trial": "nth_trial", "self.step_size": "step_size", "self.conv.search_space_size": "S",
           "self.high_dim_pointer": "ptr", "self.direction_calc": "d", "current_pass": "(ptr % step_size)"}
    cpf = w[2]
    if not (isinstance(cpf, ast.Assign) and _u(cpf.targets[0]) == "current_pass_finished" and isinstance(cpf.value, ast.Compare)
            and isinstance(cpf.value.ops[0], ast.Gt)):
        raise Untranslatable("diagonal iterate: current_pass_finished")
    cpf_l = _nat(cpf.value.left, env)
    cpf_r = _nat(cpf.value.comparators[0], env)
    upd = w[3]
    if not isinstance(upd, ast.If) or _u(upd.test) != "not first_try" or len(upd.orelse) != 1 or not isinstance(upd.orelse[0], ast.If) \
            or _u(upd.orelse[0].test) != "current_pass_finished":
        raise Untranslatable("diagonal iterate: pointer update")

    def rhs(stmts):
        if len(stmts) != 1 or not isinstance(stmts[0], ast.Assign) or _u(stmts[0].targets[0]) != "self.high_dim_pointer":
            raise Untranslatable("diagonal iterate: pointer assignment " + " | ".join(_u(x) for x in stmts))
        return _nat(stmts[0].value, env)
    retry, newpass, step = rhs(upd.body), rhs(upd.orelse[0].body), rhs(upd.orelse[0].orelse)
    tail = [_u(x) for x in w[4:]]
    if tail != ["pos_new = self.grid_move()", "pos_new = self.conv2pos(pos_new)", "if self.conv.not_in_constraint(pos_new):\n    return pos_new", "first_try = False"]:
        raise Untranslatable(f"diagonal iterate: tail {tail}")
    return ("/-- `current_pass_finished` -/\n"
            "def current_pass_finished (S step_size nth_trial : Nat) : Bool :=\n"
            f"  decide ({cpf_l} > {cpf_r})\n\n"
            "/-- the pointer update of one round of the diagonal `iterate` (`d` = `direction_calc`) -/\n"
            "def diag_pointer_next (S step_size d nth_trial : Nat) (first_try : Bool) (ptr : Nat) : Nat :=\n"
            f"  if !first_try then {retry}\n"
            f"  else if current_pass_finished S step_size nth_trial then {newpass}\n"
            f"  else {step}\n\n"
            "/-- one round of the diagonal `iterate`'s `while True` once the direction is known: `.inl` = position returned (with the pointer\n"
            "    and the tape left), `.inr` = pointer and tape of the next round (`first_try = False`) -/\n"
            "def diag_round (g : Geo) (dims : List Nat) (step_size d nth_trial : Nat) (first_try : Bool) (ptr : Nat) (tape : Tape) :\n"
            "    Except Err (Sum (Pos × Nat × Tape) (Nat × Tape)) :=\n"
            "  let ptr := diag_pointer_next (prodN dims) step_size d nth_trial first_try ptr\n"
            "  match conv2posT g (natVec (diag_grid_move dims ptr)) tape with        -- pos_new = self.conv2pos(self.grid_move())\n"
            "  | .error e => .error e\n"
            "  | .ok (pos_new, tape) =>\n"
            "    match askFeas pos_new tape with                                     -- if self.conv.not_in_constraint(pos_new):\n"
            "    | .error e => .error e\n"
            "    | .ok (ok, tape) => if ok then .ok (.inl (pos_new, ptr, tape)) else .ok (.inr (ptr, tape))")


def fn_orth(gm, it):
    b = gm.body
    if len(b) != 5 or not isinstance(b[0], ast.Assign) or _u(b[0].targets[0]) != "mod_tmp" or not isinstance(b[1], ast.Assign) \
            or _u(b[1].targets[0]) != "div_tmp" or _u(b[2]) != "flipped_new_pos = []" or not isinstance(b[3], ast.For) \
            or _u(b[3].target) != "dim_size" or _u(b[3].iter) != "self.conv.dim_sizes" or _u(b[4]) != "return np.array(flipped_new_pos)":
        raise Untranslatable("orthogonal grid_move: shape")
    env0 = {"self.nth_trial": "nth_trial", "self.step_size": "step_size", "self.conv.search_space_size": "S"}
    mod0, div0 = _nat(b[0].value, env0), _nat(b[1].value, env0)
    lb = [_u(x) for x in b[3].body]
    if len(lb) != 5 or lb[2] != "flipped_new_pos.append(mod)" or lb[3] != "mod_tmp = div" or lb[4] != "div_tmp = div":
        raise Untranslatable(f"orthogonal grid_move: loop body {lb}")
    a0, a1 = b[3].body[0], b[3].body[1]
    if _u(a0.targets[0]) != "mod" or _u(a1.targets[0]) != "div":
        raise Untranslatable("orthogonal grid_move: loop assignments")
    env = {"mod_tmp": "mod_tmp", "div_tmp": "div_tmp", "dim_size": "dim_size"}
    mod, div = _nat(a0.value, env), _nat(a1.value, env)
    want_it = ["pos_new = self.grid_move()", "pos_new = self.conv2pos(pos_new)", "if self.conv.not_in_constraint(pos_new):\n    return pos_new",
               "return self.move_random()"]
    if [_u(x) for x in it.body] != want_it or [_u(d) for d in it.decorator_list] != ["BaseOptimizer.track_new_pos"]:
        raise Untranslatable("orthogonal iterate: " + " | ".join(_u(x) for x in it.body))
    return ("/-- orthogonal `grid_move`: the loop over `dim_sizes` with its two carried values -/\n"
            "def orth_loop : List Nat → Nat → Nat → List Nat\n"
            "  | [], _, _ => []\n"
            f"  | dim_size :: dim_sizes, mod_tmp, div_tmp => {mod} :: orth_loop dim_sizes {div} {div}\n\n"
            "def orth_grid_move (dim_sizes : List Nat) (S step_size nth_trial : Nat) : List Nat :=\n"
            f"  orth_loop dim_sizes {mod0} {div0}\n\n"
            "/-- orthogonal `iterate` (undecorated): position, else `move_random()` -/\n"
            "def orth_iterate (g : Geo) (dims : List Nat) (step_size nth_trial : Nat) (tape : Tape) : Except Err (Pos × Tape) :=\n"
            "  match conv2posT g (natVec (orth_grid_move dims (prodN dims) step_size nth_trial)) tape with\n"
            "  | .error e => .error e\n"
            "  | .ok (pos_new, tape) =>\n"
            "    match askFeas pos_new tape with\n"
            "    | .error e => .error e\n"
            "    | .ok (ok, tape) => if ok then .ok (pos_new, tape) else moveRandomLoop tape")
