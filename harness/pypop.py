"""Python -> Lean translator for the `iterate` / `init_pos` methods of the three round-robin population optimizers
(ParallelTempering, ParticleSwarm, Spiral) and the decorator stacks / last lines of the member moves they call
(`Particle.move_linear`, `Spiral.move_spiral`).

Statement forms understood (anything else raises `Untranslatable`):
    self.p_current = self.<M>[self.nth_trial % len(self.<M>)]          ->  let (idx, m) ← s.pick          (<M> = the list `_create_population` built)
    nth_pop = self.nth_trial % len(self.<M>) ; self.p_current = self.<M>[nth_pop]     -> the same
    self.sort_pop_best_score() ; self.p_current.global_pos_best = …    ->  float side of the move (oracle vector): no model state
    self.p_current.<hyper> = self.<hyper> ; self.p_current.velo = np.zeros(…)         ->  float side: no model state
    while True: <body whose every path returns>                        ->  the body once
    pos_new = self.p_current.move_linear()                             ->  moveLinear + the member's track_new_pos
    pos_new = self.p_current.move_spiral(self.center_pos)              ->  moveSpiral + the member's track_new_pos
    if self.conv.not_in_constraint(pos_new): return pos_new            ->  askFeas on the tape; the rest is the else branch
    pos_new = self.p_current.move_climb(pos_new)                       ->  moveClimb from the rejected position, epsilon_mod default 1
    self.p_current.pos_new = pos_new                                   ->  the member's posNew
    return pos_new                                                     ->  the optimizer's own track_new_pos, member written back
    return self.p_current.iterate()                                    ->  localIterate of the member on the shared tape
    return self.p_current.init_pos()                                   ->  localInitPos of the member
"""
import ast

from .pytolean import Untranslatable

U = ast.unparse
HYPER = {"inertia", "cognitive_weight", "social_weight", "temp_weight", "rand_rest_p", "decay_rate"}


def _decs(fn):
    return [U(d).split(".")[-1] for d in fn.decorator_list]


def check_member_move(fn, kind):
    """the member move must be `@track_new_pos @random_iteration` and end in the line the model's kernel stands for"""
    if _decs(fn) != ["track_new_pos", "random_iteration"]:
        raise Untranslatable(f"{fn.name}: decorators {_decs(fn)}")
    last = [U(x) for x in fn.body[-2:]]
    if kind == "linear":
        if last[-1] != "return self._move_part(self.pos_current, new_velocity)":
            raise Untranslatable(f"move_linear: last line `{last[-1]}`")
    else:
        if last != ["pos_new = np.clip(new_pos, n_zeros, self.conv.max_positions).astype(int)", "return pos_new"] \
                or "n_zeros = [0] * len(self.conv.max_positions)" not in [U(x) for x in fn.body]:
            raise Untranslatable(f"move_spiral: last lines {last}")


class _Emit:
    def __init__(self, members, cfg):
        self.members = members
        self.cfg = cfg            # Lean term of the member's LocalCfg
        self.tape = "s.tape"
        self.picked = False

    def done(self, pos):
        return f"pure ({pos}, {{ s with members := s.members.set idx m, cur := idx, tape := {self.tape}, tr := s.tr.trackNewPos {pos} }})"

    def block(self, stmts, ind):
        out = []
        i = 0
        pad = " " * ind
        while i < len(stmts):
            st = stmts[i]
            u = U(st)
            M = self.members
            if isinstance(st, ast.While) and U(st.test) == "True" and not st.orelse:
                if i != len(stmts) - 1:
                    raise Untranslatable("statements after `while True`")
                return out + self.block(st.body, ind)
            if u == f"self.p_current = self.{M}[self.nth_trial % len(self.{M})]":
                out.append(f"{pad}let (idx, m) ← s.pick")
                self.picked = True
            elif u == f"nth_pop = self.nth_trial % len(self.{M})" and i + 1 < len(stmts) and U(stmts[i + 1]) == f"self.p_current = self.{M}[nth_pop]":
                out.append(f"{pad}let (idx, m) ← s.pick")
                self.picked = True
                i += 1
            elif u == "self.sort_pop_best_score()" or u in ("self.p_current.global_pos_best = self.pop_sorted[0].pos_best",
                                                             "self.p_current.global_pos_best = self.pop_sorted[0].pos_current"):
                pass                                      # inputs of the float expression of the move (oracle vector)
            elif isinstance(st, ast.Assign) and len(st.targets) == 1 and U(st.targets[0]).startswith("self.p_current.") \
                    and U(st.targets[0])[len("self.p_current."):] in HYPER and U(st.value) == "self." + U(st.targets[0])[len("self.p_current."):]:
                pass                                      # hyper-parameter copies: float side
            elif u == "self.p_current.velo = np.zeros(len(self.conv.max_positions))":
                pass
            elif not self.picked:
                raise Untranslatable(f"`{u}` before p_current is chosen")
            elif u in ("pos_new = self.p_current.move_linear()", "pos_new = self.p_current.move_spiral(self.center_pos)"):
                if "linear" in u:
                    out.append(f"{pad}let (pos_new, tape) ← moveLinear {self.cfg} m {self.tape}")
                else:
                    out.append(f"{pad}let (pos_new, tape) ← moveSpiral {self.cfg} {self.tape}")
                out.append(f"{pad}let m : Local := {{ m with tr := m.tr.trackNewPos pos_new }}")
                self.tape = "tape"
            elif isinstance(st, ast.If) and U(st.test) == "self.conv.not_in_constraint(pos_new)" and [U(x) for x in st.body] == ["return pos_new"] and not st.orelse:
                out.append(f"{pad}let (ok, tape) ← askFeas pos_new {self.tape}")
                self.tape = "tape"
                out.append(f"{pad}if ok then {self.done('pos_new')}")
                out.append(f"{pad}else do")
                rest = self.block(stmts[i + 1:], ind + 2)
                if not rest:
                    raise Untranslatable("nothing after the constraint test")
                return out + rest
            elif u == "pos_new = self.p_current.move_climb(pos_new)":
                out.append(f"{pad}let (pos_new, tape) ← moveClimb ({self.cfg}).geo (some pos_new) (some 1) s.tape.length {self.tape}")
                self.tape = "tape"
            elif u == "self.p_current.pos_new = pos_new":
                out.append(f"{pad}let m : Local := {{ m with tr := {{ m.tr with posNew := some pos_new }} }}")
            elif u == "return pos_new":
                out.append(f"{pad}{self.done('pos_new')}")
                if i != len(stmts) - 1:
                    raise Untranslatable("statements after return")
                return out
            elif u in ("return self.p_current.iterate()", "return self.p_current.init_pos()"):
                if i != len(stmts) - 1:
                    raise Untranslatable("statements after return")
                if u.endswith("iterate()"):
                    out.append(f"{pad}let (pos_new, m) ← localIterate {self.cfg} {{ m with tape := {self.tape} }}")
                    out.append(f"{pad}pure (pos_new, {{ s with members := s.members.set idx {{ m with tape := [] }}, cur := idx, tape := m.tape, tr := s.tr.trackNewPos pos_new }})")
                else:
                    out.append(f"{pad}let (pos_new, m) ← localInitPos m")
                    out.append(f"{pad}pure (pos_new, {{ s with members := s.members.set idx m, cur := idx, tr := s.tr.trackNewPos pos_new }})")
                return out
            else:
                raise Untranslatable(f"population step: `{u}`")
            i += 1
        raise Untranslatable("a path of the method does not return")


def fn_step(fn, lean_name, members, cfg_type, cfg_term, doc):
    if _decs(fn) != ["track_new_pos"]:
        raise Untranslatable(f"{lean_name}: decorators {_decs(fn)}")
    if [a.arg for a in fn.args.args] != ["self"]:
        raise Untranslatable(f"{lean_name}: arguments")
    lines = _Emit(members, cfg_term).block(fn.body, 2)
    return (f"/-- {doc} -/\ndef {lean_name} (cfg : {cfg_type}) (s : PopSt) : Except Err (Pos × PopSt) := do\n" + "\n".join(lines))


# ----------------------------------------------------------------------------- evaluate

SPIRAL_CENTER = ("if self.search_state == 'iter':\n    if self.pop_sorted[0].score_current > self.center_score:\n"
                 "        self.center_pos = self.pop_sorted[0].pos_current\n        self.center_score = self.pop_sorted[0].score_current")


def fn_evaluate(fn, lean_name, cfg_type, member_cfg, member_has_own_evaluate, doc):
    """`evaluate(self, score_new)` below `track_new_score` (`self.score_new = score` before, `self.nth_trial += 1` after):
        notZero = self.n_iter_swap != 0 ; modZero = self.nth_trial % self.n_iter_swap == 0 ; if notZero and modZero: self._swap_pos()
                                     ->  ZeroDivisionError for n_iter_swap = 0 (the modulo is computed first), else the swap's draws when due
        the centre update of Spiral  ->  float side of the next spiral vector (oracle): no model state
        self.p_current.evaluate(score_new)   ->  the member's complete `localEvaluate` on the shared tape (`ptEvalMember`), or - when the
                                                 member class has its own `evaluate` (Spiral) - the tracker method generated by gen_tracker"""
    if _decs(fn) != ["track_new_score"] or [a.arg for a in fn.args.args] != ["self", "score_new"]:
        raise Untranslatable(f"{lean_name}: decorators {_decs(fn)} / arguments")
    u = [U(x) for x in fn.body]
    swap = False
    if u[:3] == ["notZero = self.n_iter_swap != 0", "modZero = self.nth_trial % self.n_iter_swap == 0",
                 "if notZero and modZero:\n    self._swap_pos()"]:
        swap = True
        u = u[3:]
    if u[:1] == [SPIRAL_CENTER]:
        u = u[1:]
    if u != ["self.p_current.evaluate(score_new)"]:
        raise Untranslatable(f"{lean_name}: body {u}")
    head = f"/-- {doc} -/\ndef {lean_name} (cfg : {cfg_type}) (s : PopSt) (score_new : F) : Except Err PopSt :=\n"
    if member_has_own_evaluate:
        if swap:
            raise Untranslatable(f"{lean_name}: swap with a member-defined evaluate")
        return (head + "  match s.members[s.cur]? with\n  | none => .error (.other \"AttributeError\")\n  | some m =>\n"
                "    let t1 := s.tr.setScoreNew score_new\n"
                "    .ok { s with members := s.members.set s.cur { m with tr := Tracker.spiralEvaluate m.tr score_new }\n"
                "                 tr := { t1 with nthTrial := t1.nthTrial + 1 } }")
    if swap:
        return (head + "  let t1 := s.tr.setScoreNew score_new\n"
                "  if cfg.nIterSwap = 0 then .error .zeroDivision\n  else\n"
                "    match (if t1.nthTrial % cfg.nIterSwap = 0 then swapDraws s.members.length s.tape else .ok s.tape) with\n"
                "    | .error e => .error e\n"
                f"    | .ok tape1 => ptEvalMember {member_cfg} s t1 tape1 score_new")
    return head + f"  ptEvalMember {member_cfg} s (s.tr.setScoreNew score_new) s.tape score_new"


# ----------------------------------------------------------------------------- EvolutionStrategyOptimizer.iterate / _cross

def _choice_bound(st):
    """`rnd_int2 = random.choice([i for i in range(0, B) if i not in [self.rnd_int]])` -> Lean term of B"""
    u = U(st)
    for b, lean in (("self.n_ind - 1", "n_ind - 1"), ("self.n_ind", "n_ind")):
        if u == f"rnd_int2 = random.choice([i for i in range(0, {b}) if i not in [self.rnd_int]])":
            return lean
    raise Untranslatable(f"_cross: `{u}`")


def fn_es_iterate(fn):
    if _decs(fn) != ["track_new_pos"]:
        raise Untranslatable(f"ES.iterate: decorators {_decs(fn)}")
    out = ["/-- `EvolutionStrategyOptimizer.iterate` below `track_new_pos` -/",
           "def ES_iterate (cross : List Nat → Nat → Tape → Except Err (Pos × PopSt)) (cfg : ESCfg) (s : PopSt) : Except Err (Pos × PopSt) :="]
    b = fn.body
    u = [U(x) for x in b]
    i = 0
    ind = 2
    tape = "s.tape"
    state = set()
    while i < len(b):
        pad = " " * ind
        if u[i] == "self.n_ind = len(self.individuals)":
            out.append(f"{pad}let n_ind := s.members.length")
            state.add("n")
        elif u[i] == "if self.n_ind == 1:\n    self.p_current = self.individuals[0]\n    return self.p_current.iterate()" and "n" in state:
            out.append(f"{pad}if n_ind = 1 then memberIterate cfg.member s 0 {tape}")
            out.append(f"{pad}else do")
            ind += 2
        elif u[i] == "self.sort_pop_best_score()":
            out.append(f"{pad}let (pop_sorted, tape) ← popSorted s {tape}")
            tape = "tape"
            state.add("sorted")
        elif u[i] == "self.rnd_int = random.randint(0, len(self.pop_sorted) - 1)" and "sorted" in state and "n" in state:
            out.append(f"{pad}let (rnd_int, tape) ← takeInt {tape}")
            out.append(f"{pad}if ¬ rnd_int < n_ind then .error .valueError          -- randint's range: len(pop_sorted) = len(individuals)")
            out.append(f"{pad}else do")
            ind += 2
            state.add("k")
        elif u[i] == "self.p_current = self.pop_sorted[self.rnd_int]" and "k" in state:
            state.add("cur")
        elif u[i] == "total_rate = self.mutation_rate + self.crossover_rate":
            state.add("total")
        elif u[i] == "rand = np.random.uniform(low=0, high=total_rate)" and "total" in state:
            out.append(f"{pad}let (rand, tape) ← takeNpUnif {tape}")
            state.add("rand")
        elif u[i] == "if rand <= self.mutation_rate:\n    return self.p_current.iterate()\nelse:\n    return self._cross()" \
                and {"rand", "cur"} <= state and i == len(b) - 1:
            out.append(f"{pad}if rand ≤ cfg.mutationRate then memberIterate cfg.member s (pop_sorted.getD rnd_int 0) {tape}")
            out.append(f"{pad}else cross pop_sorted rnd_int {tape}")
            return "\n".join(out)
        else:
            raise Untranslatable(f"ES.iterate: `{u[i]}` (state {sorted(state)})")
        i += 1
    raise Untranslatable("ES.iterate: no final branch")


def fn_es_cross(fn):
    if fn.decorator_list or len(fn.body) != 1 or not isinstance(fn.body[0], ast.While) or U(fn.body[0].test) != "True":
        raise Untranslatable("ES._cross: not a bare `while True`")
    b = fn.body[0].body
    u = [U(x) for x in b]
    first = b[0]
    if not (isinstance(first, ast.If) and U(first.test) == "len(self.individuals) > 2" and len(first.body) == 1 and len(first.orelse) == 1):
        raise Untranslatable(f"ES._cross: `{u[0]}`")
    hi, lo = _choice_bound(first.body[0]), _choice_bound(first.orelse[0])
    out = ["/-- `EvolutionStrategyOptimizer._cross` (every path of the `while True` body returns) -/",
           "def ES_cross (cfg : ESCfg) (s : PopSt) (pop_sorted : List Nat) (rnd_int : Nat) (tape0 : Tape) : Except Err (Pos × PopSt) := do",
           "  let n_ind := s.members.length",
           "  let (rnd_int2, tape) ← takeInt tape0",
           f"  if (decide (rnd_int2 ≠ rnd_int) && decide (rnd_int2 < (if n_ind > 2 then {hi} else {lo}))) = false then .error (protocol \"second-parent\")",
           "  else do",
           "    let p_current := pop_sorted.getD rnd_int 0"]
    ind = 4
    ver = -1            # version of the python variable `pos_new`
    member = None       # version stored in p_worst.pos_new
    cur_is_worst = False
    seen = set()

    def emit(pad):
        if member is None or not cur_is_worst:
            raise Untranslatable("ES._cross: returns without `p_worst.pos_new` / `self.p_current = p_worst`")
        return [f"{pad}match s.members[p_worst]? with", f"{pad}| none => .error .indexError", f"{pad}| some m =>",
                f"{pad}  .ok (pos_new{ver}, {{ s with members := s.members.set p_worst {{ m with tr := {{ m.tr with posNew := some pos_new{member} }} }}, cur := p_worst, tape := tape, tr := s.tr.trackNewPos pos_new{ver} }})"]
    i = 1
    while i < len(b):
        pad = " " * ind
        if u[i] == "p_sec = self.pop_sorted[rnd_int2]":
            out.append(f"{pad}let p_sec := pop_sorted.getD rnd_int2 0")
            seen.add("sec")
        elif u[i] == "p_worst = self.pop_sorted[-1]":
            out.append(f"{pad}let p_worst := pop_sorted.getD (n_ind - 1) 0")
            seen.add("worst")
        elif u[i] == "two_best_pos = [self.p_current.pos_current, p_sec.pos_current]" and "sec" in seen and not cur_is_worst:
            out.append(f"{pad}let pc ← posCurrentOf s p_current")
            out.append(f"{pad}let ps ← posCurrentOf s p_sec")
            seen.add("two")
        elif u[i] == "pos_new = self.discrete_recombination(two_best_pos)" and "two" in seen:
            ver += 1
            out.append(f"{pad}let (c, tape) ← takeChoice pc.length tape")
            out.append(f"{pad}let pos_new{ver} ← recombine c [pc, ps]")
        elif u[i] == "self.p_current = p_worst" and "worst" in seen:
            cur_is_worst = True
        elif u[i] == "p_worst.pos_new = pos_new" and "worst" in seen and ver >= 0:
            member = ver
        elif u[i] == "if self.conv.not_in_constraint(pos_new):\n    return pos_new" and ver >= 0:
            out.append(f"{pad}let (ok, tape) ← askFeas pos_new{ver} tape")
            out.append(f"{pad}if ok then")
            out += emit(pad + "  ")
            out.append(f"{pad}else do")
            ind += 2
        elif u[i] == "pos_new = self.p_current.move_climb(pos_new)" and cur_is_worst and ver >= 0:
            out.append(f"{pad}let (pos_new{ver + 1}, tape) ← moveClimb cfg.member.geo (some pos_new{ver}) (some 1) s.tape.length tape")
            ver += 1
        elif u[i] == "return pos_new" and i == len(b) - 1:
            out += emit(pad)
            return "\n".join(out)
        else:
            raise Untranslatable(f"ES._cross: `{u[i]}`")
        i += 1
    raise Untranslatable("ES._cross: a path does not return")


# ----------------------------------------------------------------------------- DifferentialEvolutionOptimizer.iterate / _constraint_loop

def fn_de_constraint_loop(fn):
    want = ["while True:\n    if self.conv.not_in_constraint(position):\n        return position\n"
            "    position = self.p_current.move_climb(position, epsilon_mod=0.3)"]
    if fn.decorator_list or [a.arg for a in fn.args.args] != ["self", "position"] or [U(x) for x in fn.body] != want:
        raise Untranslatable("DE._constraint_loop: " + " | ".join(U(x) for x in fn.body))
    return ("/-- one round of `DifferentialEvolutionOptimizer._constraint_loop` (`while True`); `again` is the next round; the literal\n"
            "    `epsilon_mod=0.3` is `epsMod` (checked against the tape's move_climb entry) -/\n"
            "def DE_constraint_round (g : Geo) (epsMod : Rat) (fuel : Nat) (again : Pos → Tape → Except Err (Pos × Tape))\n"
            "    (position : Pos) (tape : Tape) : Except Err (Pos × Tape) := do\n"
            "  let (ok, tape) ← askFeas position tape\n"
            "  if ok then pure (position, tape)\n"
            "  else do\n"
            "    let (position, tape) ← moveClimb g (some position) (some epsMod) fuel tape\n"
            "    again position tape")


def fn_de_iterate(fn):
    if _decs(fn) != ["track_new_pos"]:
        raise Untranslatable(f"DE.iterate: decorators {_decs(fn)}")
    u = [U(x) for x in fn.body]
    out = ["/-- `DifferentialEvolutionOptimizer.iterate` below `track_new_pos` -/",
           "def DE_iterate (cfg : DECfg) (s : PopSt) : Except Err (Pos × PopSt) := do"]
    closers = []
    ind = 2
    have = set()
    ver = -1
    kind = None         # "float" (recombined vector) | "pos"
    cur = None          # Lean term of python `pos_new`
    for i, st in enumerate(u):
        pad = " " * ind
        if st == "self.p_current = self.individuals[self.nth_trial % len(self.individuals)]":
            out.append(f"{pad}let (idx, m) ← s.pick")
            have.add("pick")
        elif st == "target_vector = self.p_current.pos_new" and "pick" in have:
            out += [f"{pad}match m.tr.posNew with", f"{pad}| none => .error (.other \"TypeError\")", f"{pad}| some target_vector =>"]
            ind += 2
            have.add("target")
        elif st == "mutant_vector = self.mutation()":
            out += [f"{pad}match s.tape with", f"{pad}| .mutant mutant_vector :: tape => do"]
            closers = [f"{pad}| [] => .error .needMore", f"{pad}| _ => .error (protocol \"mutation\")"]
            ind += 2
            have.add("mutant")
        elif st == "crossover_rates = [1 - self.crossover_rate, self.crossover_rate]":
            have.add("rates")
        elif st == "pos_new = self.discrete_recombination([target_vector, mutant_vector], crossover_rates)" and {"target", "mutant", "rates"} <= have:
            out.append(f"{pad}let (c, tape) ← takeChoice target_vector.length tape")
            out.append(f"{pad}if mutant_vector.length ≠ target_vector.length ∨ c.any (fun x => decide (x ≥ 2)) then .error (protocol \"recombination\")")
            out.append(f"{pad}else do")
            ind += 2
            kind, cur = "float", "(deChoose c target_vector mutant_vector)"
        elif st == "pos_new = self.conv2pos(pos_new)" and cur:
            ver += 1
            out.append(f"{pad}let (pos_new{ver}, tape) ← conv2posT cfg.member.geo {cur if kind == 'float' else f'({cur}.map F.ofInt)'} tape")
            kind, cur = "pos", f"pos_new{ver}"
        elif st == "pos_new = self._constraint_loop(pos_new)" and kind == "pos":
            ver += 1
            out.append(f"{pad}let (pos_new{ver}, tape) ← constraintLoop cfg.member.geo cfg.epsMod (tape.length + 1) {cur} tape")
            cur = f"pos_new{ver}"
        elif st == "self.p_current.pos_new = self.conv2pos(pos_new)" and kind == "pos" and u[i + 1:] == ["return self.p_current.pos_new"]:
            ver += 1
            out.append(f"{pad}let (pos_new{ver}, tape) ← conv2posT cfg.member.geo ({cur}.map F.ofInt) tape")
            out.append(f"{pad}emitVia s idx pos_new{ver} tape")
            return "\n".join(out + closers)
        else:
            raise Untranslatable(f"DE.iterate: `{st}`")
    raise Untranslatable("DE.iterate: does not end in `self.p_current.pos_new = self.conv2pos(pos_new); return self.p_current.pos_new`")


# ----------------------------------------------------------------------------- GeneticAlgorithmOptimizer.iterate / _crossover

def fn_ga_iterate(fn):
    if _decs(fn) != ["track_new_pos"]:
        raise Untranslatable(f"GA.iterate: decorators {_decs(fn)}")
    b = fn.body
    u = [U(x) for x in b]
    want = ["n_ind = len(self.individuals)", "if n_ind == 1:\n    self.p_current = self.individuals[0]\n    return self.p_current.iterate()",
            "self.sort_pop_best_score()", "rnd_int = random.randint(0, len(self.pop_sorted) - 1)", "self.p_current = self.pop_sorted[rnd_int]",
            "total_rate = self.mutation_rate + self.crossover_rate", "rand = np.random.uniform(low=0, high=total_rate)"]
    if u[:7] != want or len(b) != 8 or not isinstance(b[7], ast.If) or U(b[7].test) != "rand <= self.mutation_rate" \
            or [U(x) for x in b[7].body] != ["return self.p_current.iterate()"]:
        raise Untranslatable(f"GA.iterate: {u}")
    cross = [U(x) for x in b[7].orelse]
    if cross[:1] == ["if not self.offspring_l:\n    self._crossover()"]:
        refill = "(if g.offspring = [] then gaCrossover cfg g.pop tape else .ok (g.offspring, tape))"
        cross = cross[1:]
    elif cross[:1] == ["self._crossover()"]:
        refill = "((gaCrossover cfg g.pop tape).map (fun x => (g.offspring ++ x.1, x.2)))"
        cross = cross[1:]
    else:
        refill = "(Except.ok (g.offspring, tape) : Except Err (List Pos × Tape))"
    if cross != ["self.p_current.pos_new = self.offspring_l.pop(0)", "return self.p_current.pos_new"]:
        raise Untranslatable(f"GA.iterate: crossover branch {cross}")
    return ("/-- the crossover branch of `GeneticAlgorithmOptimizer.iterate`: refill of the offspring queue, `pop(0)`, the write-back -/\n"
            "def GA_cross_branch (cfg : GACfg) (g : GASt) (cur : Nat) (tape : Tape) : Except Err (Pos × GASt) :=\n"
            f"  match {refill} with\n"
            "  | .error e => .error e\n"
            "  | .ok x =>\n"
            "    match x.1 with\n"
            "    | [] => .error .indexError                -- self.offspring_l.pop(0)\n"
            "    | o :: rest =>\n"
            "      match emitVia g.pop cur o x.2 with      -- self.p_current.pos_new = …; return self.p_current.pos_new\n"
            "      | .error e => .error e\n"
            "      | .ok y => .ok (y.1, { pop := y.2, offspring := rest })\n\n"
            "/-- `GeneticAlgorithmOptimizer.iterate` below `track_new_pos` -/\n"
            "def GA_iterate (cfg : GACfg) (g : GASt) : Except Err (Pos × GASt) :=\n"
            "  if g.pop.members.length = 1 then gaMutate cfg g 0 g.pop.tape          -- n_ind == 1\n"
            "  else\n"
            "    match popSorted g.pop g.pop.tape with                               -- self.sort_pop_best_score()\n"
            "    | .error e => .error e\n"
            "    | .ok x1 =>\n"
            "      match takeInt x1.2 with                                           -- rnd_int = random.randint(0, len(self.pop_sorted) - 1)\n"
            "      | .error e => .error e\n"
            "      | .ok x2 =>\n"
            "        if ¬ x2.1 < g.pop.members.length then .error .valueError\n"
            "        else\n"
            "          match takeNpUnif x2.2 with                                    -- rand = np.random.uniform(low=0, high=total_rate)\n"
            "          | .error e => .error e\n"
            "          | .ok x =>\n"
            "            if x.1 ≤ cfg.mutationRate then gaMutate cfg g (x1.1.getD x2.1 0) x.2\n"
            "            else GA_cross_branch cfg g (x1.1.getD x2.1 0) x.2")


def fn_ga_crossover(fn, loop_fn):
    u = [U(x) for x in fn.body]
    want = ["fittest_parents = self.fittest_parents()", "n_parents = min(self.n_parents, len(fittest_parents))",
            "selected_parents = random.sample(fittest_parents, n_parents)"]
    if fn.decorator_list or u[:3] != want or len(fn.body) != 4 or not isinstance(fn.body[3], ast.For) \
            or U(fn.body[3].iter) != "range(self.offspring)" or fn.body[3].orelse:
        raise Untranslatable(f"GA._crossover: {u}")
    body = [U(x) for x in fn.body[3].body]
    if body != ["parent_pos_l = [parent.pos_new for parent in selected_parents]", "offspring = self.discrete_recombination(parent_pos_l)",
                "offspring = self._constraint_loop(offspring)", "self.offspring_l.append(offspring)"]:
        raise Untranslatable(f"GA._crossover: loop body {body}")
    fn_de_constraint_loop(loop_fn)          # the same pinned `while True` as DE's
    return ("/-- one pass of the `for _ in range(self.offspring)` loop of `GeneticAlgorithmOptimizer._crossover`; `again` is the rest of the loop -/\n"
            "def GA_offspring_round (cfg : GACfg) (parents : List Pos) (again : List Pos → Tape → Except Err (List Pos × Tape))\n"
            "    (acc : List Pos) (tape : Tape) : Except Err (List Pos × Tape) := do\n"
            "  let (c, tape) ← takeChoice (parents.headD []).length tape             -- discrete_recombination(parent_pos_l)\n"
            "  let offspring ← recombine c parents\n"
            "  let (offspring, tape) ← constraintLoop cfg.member.geo cfg.epsMod (tape.length + 1) offspring tape\n"
            "  again (acc ++ [offspring]) tape")
