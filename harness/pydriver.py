"""Python -> Lean translator for the step methods of the `Search` mix-in (search.py): `_initialization`, `_iteration`,
`search_step`, together with the two `TimesTracker` decorators.  Each statement form these methods use today is mapped
to the corresponding update of the driver model's state `(d : DState σ, cs : CState)`; anything else raises
`Untranslatable` (a changed driver that leaves the subset is a broken obligation, never a silently stale model).

    X = self.init_pos() / self.iterate()        -> backend call + trace entry
    S = self._score(X)                          -> scoreStep (position2value, Memory wrapper, objective, row, eval time)
    self.evaluate_init(S) / self.evaluate(S)    -> backend call + trace entry
    self.pos_l.append(X), self.score_l.append(S)
    self.p_bar.update(S, X, self.nth_iter)      -> pbarUpdate
    self.n_*_total += 1, self.n_*_search += 1
    self.stop.update(self.p_bar.score_best, self.score_l)   -> nothing (the stop object reads these live); arguments checked
    self.best_score = self.p_bar.score_best     -> nothing (overwritten in finish_search); right-hand side checked
    decorators iter_time / eval_time            -> virtual clock difference appended to iter_times (eval_times: inside scoreStep)
"""
import ast

from .pytolean import Untranslatable


def _u(n):
    return ast.unparse(n)


COUNTERS = {"n_init_total": ("d", "nInitTotal"), "n_iter_total": ("d", "nIterTotal"),
            "n_init_search": ("cs", "nInitSearch"), "n_iter_search": ("cs", "nIterSearch")}
BACKEND_POS = {"self.init_pos()": ("initPos", "Ev.initPos"), "self.iterate()": ("iterate", "Ev.iterate")}
BACKEND_SCORE = {"self.evaluate_init": ("evalInit", "Ev.evalInit"), "self.evaluate": ("evaluate", "Ev.evaluate")}


def check_time_decorator(cls, name, attr):
    """`def <name>(func): def wrapper(self, *a, **k): t = time.time(); res = func(...); self.<attr>.append(time.time() - t); return res`"""
    fn = [m for m in cls.body if isinstance(m, ast.FunctionDef) and m.name == name]
    if len(fn) != 1:
        raise Untranslatable(f"TimesTracker.{name}: {len(fn)} definitions")
    inner = [x for x in fn[0].body if isinstance(x, ast.FunctionDef)]
    if len(inner) != 1:
        raise Untranslatable(f"TimesTracker.{name}: no single wrapper")
    got = [_u(x) for x in inner[0].body]
    want = ["t = time.time()", "res = func(self, *args, **kwargs)", f"self.{attr}.append(time.time() - t)", "return res"]
    if got != want:
        raise Untranslatable(f"TimesTracker.{name} wrapper is {got}")


def step_method(fn, lean_name):
    """`_initialization` / `_iteration`"""
    decs = [_u(d) for d in fn.decorator_list]
    if decs != ["TimesTracker.iter_time"]:
        raise Untranslatable(f"{fn.name}: decorators {decs}")
    out = [f"def {lean_name} (b : Backend σ) (sp : Space) (obj : Obj) (c : Call) (i : Nat) (d : DState σ) (cs : CState) :",
           "    Except Err (DState σ × CState) := do",
           "  let t0 := d.clock                                   -- iter_time: t = time.time()"]
    pos_var = score_var = None
    stop_updates = 0
    for st in fn.body:
        src = _u(st)
        if isinstance(st, ast.Assign) and len(st.targets) == 1:
            tg, val = st.targets[0], _u(st.value)
            if _u(tg) == "self.best_score":
                if val != "self.p_bar.score_best":
                    raise Untranslatable(f"{fn.name}: `{src}`")
                continue
            if isinstance(tg, ast.Name) and val in BACKEND_POS:
                meth, ev = BACKEND_POS[val]
                pos_var = tg.id
                out.append(f"  let ({pos_var}, bst) ← b.{meth} d.bst")
                out.append(f"  let d := {{ d with bst := bst, trace := d.trace ++ [{ev} {pos_var}] }}")
                continue
            if isinstance(tg, ast.Name) and pos_var and val == f"self._score({pos_var})":
                score_var = tg.id
                out.append(f"  let ({score_var}, d, cs) ← scoreStep sp obj c d cs {pos_var}")
                continue
            raise Untranslatable(f"{fn.name}: assignment `{src}`")
        if isinstance(st, ast.Expr) and isinstance(st.value, ast.Call):
            call = st.value
            f = _u(call.func)
            args = [_u(a) for a in call.args]
            if f in BACKEND_SCORE and args == [score_var]:
                meth, ev = BACKEND_SCORE[f]
                out.append(f"  let bst ← b.{meth} d.bst {score_var}")
                out.append(f"  let d := {{ d with bst := bst, trace := d.trace ++ [{ev} {score_var}] }}")
                continue
            if f == "self.pos_l.append" and args == [pos_var]:
                out.append(f"  let d := {{ d with posL := d.posL ++ [{pos_var}] }}")
                continue
            if f == "self.score_l.append" and args == [score_var]:
                out.append(f"  let d := {{ d with scoreL := d.scoreL ++ [{score_var}] }}")
                continue
            if f == "self.p_bar.update" and args == [score_var, pos_var, "self.nth_iter"]:
                out.append(f"  let cs := {{ cs with pbar := pbarUpdate c cs.pbar {score_var} {pos_var} i }}")
                continue
            if f == "self.stop.update" and args == ["self.p_bar.score_best", "self.score_l"]:
                out.append("  -- self.stop.update(self.p_bar.score_best, self.score_l): `checkStop` reads exactly these two")
                stop_updates += 1
                if st is not fn.body[-1]:
                    raise Untranslatable(f"{fn.name}: stop.update is not the last statement (the stop object would see stale values)")
                continue
            raise Untranslatable(f"{fn.name}: call `{src}`")
        if isinstance(st, ast.AugAssign) and isinstance(st.op, ast.Add) and _u(st.value) == "1" \
                and isinstance(st.target, ast.Attribute) and st.target.attr in COUNTERS and _u(st.target.value) == "self":
            var, field = COUNTERS[st.target.attr]
            out.append(f"  let {var} := {{ {var} with {field} := {var}.{field} + 1 }}")
            continue
        raise Untranslatable(f"{fn.name}: statement `{src}`")
    if stop_updates != 1:
        raise Untranslatable(f"{fn.name}: {stop_updates} calls of self.stop.update (the model's checkStop assumes exactly one, after the step)")
    out.append("  let d := { d with iterT := d.iterT ++ [d.clock - t0] }   -- iter_time: self.iter_times.append(time.time() - t)")
    out.append("  pure (d, cs)")
    return "\n".join(out)


def cond(e):
    s = _u(e)
    table = {"self.nth_iter < self.n_inits_norm": "i < cs.nInitsNorm",
             "self.nth_iter == self.n_init_search": "i = cs.nInitSearch",
             "self.n_init_search <= self.nth_iter < self.n_iter": "cs.nInitSearch ≤ i ∧ i < c.nIter"}
    if s not in table:
        raise Untranslatable(f"search_step: condition `{s}`")
    return table[s]


def search_step(fn):
    body = list(fn.body)
    if not body or _u(body[0]) != "self.nth_iter = nth_iter":
        raise Untranslatable("search_step: first statement")
    out = ["def search_step (b : Backend σ) (sp : Space) (obj : Obj) (c : Call) (i : Nat) (d : DState σ) (cs : CState) :",
           "    Except Err (DState σ × CState) := do"]
    calls = {"self._initialization()": "_initialization b sp obj c i d cs", "self._iteration()": "_iteration b sp obj c i d cs"}
    stmts = body[1:]
    for k, st in enumerate(stmts):
        if not (isinstance(st, ast.If) and not st.orelse and len(st.body) == 1 and isinstance(st.body[0], ast.Expr)):
            raise Untranslatable(f"search_step: `{_u(st)}`")
        act = _u(st.body[0].value)
        last = k == len(stmts) - 1
        if act in calls:
            if last:
                out.append(f"  if {cond(st.test)} then {calls[act]} else pure (d, cs)")
            else:
                out.append(f"  let (d, cs) ← if {cond(st.test)} then {calls[act]} else pure (d, cs)")
        elif act == "self.finish_initialization()":
            if last:
                raise Untranslatable("search_step: finish_initialization last")
            out.append(f"  let (d, cs) ←")
            out.append(f"    if {cond(st.test)} then do")
            out.append(f"      let bst ← b.finishInit d.bst")
            out.append(f"      pure ({{ d with bst := bst, trace := d.trace ++ [Ev.finishInit] }}, cs)")
            out.append(f"    else pure (d, cs)")
        else:
            raise Untranslatable(f"search_step: action `{act}`")
    return "\n".join(out)


def n_inits_norm(init_search_fn):
    """`self.n_inits_norm = min(self.init.n_inits - self.n_init_total, self.n_iter)` as an integer expression"""
    hits = [st for st in init_search_fn.body if isinstance(st, ast.Assign) and _u(st.targets[0]) == "self.n_inits_norm"]
    if len(hits) != 1:
        raise Untranslatable(f"init_search: {len(hits)} assignments to self.n_inits_norm")
    names = {"self.init.n_inits": "(d.nInits : Int)", "self.n_init_total": "(d.nInitTotal : Int)", "self.n_iter": "(c.nIter : Int)"}

    def ex(e):
        s = _u(e)
        if s in names:
            return names[s]
        if isinstance(e, ast.Call) and _u(e.func) == "min" and len(e.args) == 2:
            return f"(min {ex(e.args[0])} {ex(e.args[1])})"
        if isinstance(e, ast.BinOp) and isinstance(e.op, ast.Sub):
            return f"({ex(e.left)} - {ex(e.right)})"
        if isinstance(e, ast.BinOp) and isinstance(e.op, ast.Add):
            return f"({ex(e.left)} + {ex(e.right)})"
        raise Untranslatable(f"init_search: n_inits_norm expression `{s}`")
    return ("/-- `self.n_inits_norm` as Python computes it (an int that may be negative) -/\n"
            "def n_inits_norm (c : Call) (d : DState σ) : Int := " + ex(hits[0].value))


def stop_construction(init_search_fn, stoprun_init):
    """`self.stop = StopRun(start_time, self.max_time, self.max_score, self.early_stopping)`: which criterion of the call ends up in which
    field of the stop object - by NAME through `init_search`'s assignments, the constructor call and `StopRun.__init__`"""
    params = [a.arg for a in init_search_fn.args.args]
    assigns = {}
    for st in init_search_fn.body:
        if isinstance(st, ast.Assign) and len(st.targets) == 1 and _u(st.targets[0]).startswith("self.") and isinstance(st.value, ast.Name) \
                and st.value.id in params:
            assigns[_u(st.targets[0])] = st.value.id
    for attr in ("self.max_time", "self.max_score", "self.early_stopping", "self.n_iter", "self.memory", "self.memory_warm_start"):
        if assigns.get(attr) != attr[5:]:
            raise Untranslatable(f"init_search: `{attr}` is assigned from `{assigns.get(attr)}`")
    body = [_u(x) for x in init_search_fn.body]
    if "start_time = time.time()" not in body:
        raise Untranslatable("init_search: start_time")
    calls = [st for st in init_search_fn.body if isinstance(st, ast.Assign) and _u(st.targets[0]) == "self.stop"]
    if len(calls) != 1 or not isinstance(calls[0].value, ast.Call) or _u(calls[0].value.func) != "StopRun" or calls[0].value.keywords:
        raise Untranslatable("init_search: StopRun construction")
    args = [_u(a) for a in calls[0].value.args]
    iparams = [a.arg for a in stoprun_init.args.args][1:]
    if len(args) != len(iparams):
        raise Untranslatable("StopRun(...): arity")
    ibody = {}
    for st in stoprun_init.body:
        if isinstance(st, ast.Assign) and _u(st.targets[0]).startswith("self.") and isinstance(st.value, ast.Name):
            ibody[_u(st.targets[0])[5:]] = st.value.id
    src = {"start_time": "d.clock", "self.max_time": "c.maxTime", "self.max_score": "c.maxScore", "self.early_stopping": "c.early"}
    field = {"start_time": "startTime", "max_time": "maxTime", "max_score": "maxScore", "early_stopping": "early"}
    out = []
    for attr, fld in field.items():
        p = ibody.get(attr)
        if p not in iparams:
            raise Untranslatable(f"StopRun.__init__: self.{attr} = {p}")
        a = args[iparams.index(p)]
        if a not in src:
            raise Untranslatable(f"StopRun(...): argument `{a}`")
        out.append(f"{fld} := {src[a]}")
    pb = [st for st in init_search_fn.body if isinstance(st, ast.If) and "ProgressBarLVL" in _u(st)]
    want_pb = ("if 'progress_bar' in self.verbosity:\n    self.p_bar = ProgressBarLVL1(self.nth_process, self.n_iter, self.objective_function)\n"
               "else:\n    self.p_bar = ProgressBarLVL0(self.nth_process, self.n_iter, self.objective_function)")
    if len(pb) != 1 or _u(pb[0]) != want_pb:
        raise Untranslatable("init_search: progress-bar selection changed")
    return ("/-- the stop object `init_search` constructs: each criterion of the call lands in the field of its own name -/\n"
            "def stop_object (c : Call) (d : DState σ) : StopCfg := { " + ", ".join(out) + " }")
