"""Python -> Lean translator for the `iterate` methods of the seven local optimizers (HillClimbing - inherited unchanged by
StochasticHillClimbing and SimulatedAnnealing -, RepulsingHillClimbing, RandomRestartHillClimbing, RandomSearch, RandomAnnealing) and
RepulsingHillClimbing's `evaluate`.  The decorator stack decides the wrapping (`random_iteration` present or not; `track_new_pos` is the
tracker update of `localIterate`), a `move_climb(self.pos_current, …, epsilon_mod=E)` call becomes `moveClimb` from the current
position with `E` checked against the tape (`E` absent: the default 1 of `move_climb`'s signature; `self.epsilon_mod`: the state's
value; `self.temp`: a float the model does not compute), `move_random()` becomes `moveRandomLoop`.  Anything else raises `Untranslatable`."""
import ast

from .pytolean import Untranslatable


def _u(n):
    return ast.unparse(n)


def _climb(call, default_eps_mod):
    """`self.move_climb(self.pos_current, epsilon=self.epsilon, distribution=self.distribution[, epsilon_mod=E])` -> Lean term (fun tape)"""
    if not (isinstance(call, ast.Call) and _u(call.func) == "self.move_climb" and len(call.args) == 1 and _u(call.args[0]) == "self.pos_current"):
        raise Untranslatable(f"iterate: `{_u(call)}`")
    kw = {k.arg: _u(k.value) for k in call.keywords}
    if kw.get("epsilon") != "self.epsilon" or kw.get("distribution") != "self.distribution" or set(kw) - {"epsilon", "distribution", "epsilon_mod"}:
        raise Untranslatable(f"iterate: move_climb keywords {kw}")
    em = kw.get("epsilon_mod")
    if em is None:
        e = f"(some {default_eps_mod})"
    elif em == "self.epsilon_mod":
        e = "(some s.epsMod)"
    elif em == "self.temp":
        e = "none"
    else:
        raise Untranslatable(f"iterate: epsilon_mod={em}")
    return f"moveClimb cfg.geo s.tr.posCurrent {e} fuel"


def _body(fn, default_eps_mod):
    b = fn.body
    u = [_u(x) for x in b]
    if len(b) == 1 and isinstance(b[0], ast.Return):
        if u[0] == "return self.move_random()":
            return "moveRandomLoop"
        return _climb(b[0].value, default_eps_mod)
    if len(b) == 3 and u[1] == "self.temp = self.temp * self.annealing_rate" and u[2] == "return pos" \
            and isinstance(b[0], ast.Assign) and _u(b[0].targets[0]) == "pos":
        return _climb(b[0].value, default_eps_mod)          # the temperature update is float state on the oracle side
    if len(b) == 3 and u[0] == "notZero = self.nth_trial != 0" and u[1] == "modZero = self.nth_trial % self.n_iter_restart == 0" \
            and isinstance(b[2], ast.If) and _u(b[2].test) == "notZero and modZero" and [_u(x) for x in b[2].body] == ["return self.move_random()"] \
            and len(b[2].orelse) == 1 and isinstance(b[2].orelse[0], ast.Return):
        c = _climb(b[2].orelse[0].value, default_eps_mod)
        return ("(fun tape => if s.tr.nthTrial ≠ 0 ∧ s.tr.nthTrial % n_iter_restart = 0 then moveRandomLoop tape\n"
                f"      else {c} tape)")
    raise Untranslatable(f"{fn.name}: body {u}")


def fn_iterate(fn, lean_name, default_eps_mod, extra_params=""):
    decs = [_u(d).split(".")[-1] for d in fn.decorator_list]
    if not decs or decs[0] != "track_new_pos" or set(decs[1:]) - {"random_iteration"}:
        raise Untranslatable(f"{lean_name}: decorators {decs}")
    body = _body(fn, default_eps_mod)
    if "random_iteration" in decs:
        term = f"randomIteration cfg s.tape {body if body.startswith('(') else '(' + body + ')'}"
    else:
        term = f"{body} s.tape" if not body.startswith("(fun") else f"{body} s.tape"
    return (f"/-- `{lean_name.replace('_iterate', '')}.iterate` below `track_new_pos`"
            f"{' and `random_iteration`' if 'random_iteration' in decs else ''} -/\n"
            f"def {lean_name} (cfg : LocalCfg) (s : Local){extra_params} : Except Err (Pos × Tape) :=\n"
            f"  let fuel := s.tape.length\n  {term}")


def fn_repulsing_evaluate(fn):
    want = ["super().evaluate(score_new)",
            "if score_new <= self.score_current:\n    self.epsilon_mod = self.repulsion_factor\nelse:\n    self.epsilon_mod = 1"]
    if [_u(x) for x in fn.body] != want or fn.decorator_list:
        raise Untranslatable("RepulsingHillClimbing.evaluate: " + " | ".join(_u(x) for x in fn.body))
    return ("/-- `RepulsingHillClimbingOptimizer.evaluate`: hill climbing's evaluate, then the step-width modifier -/\n"
            "def Repulsing_evaluate (nNeighbours : Nat) (repulsion_factor : Rat) (s : Local) (score_new : F) : Local :=\n"
            "  let t := Tracker.hcEvaluate nNeighbours s.tr score_new            -- super().evaluate(score_new)\n"
            "  { s with tr := t, epsMod := if F.le score_new t.scoreCurrent then repulsion_factor else 1 }")
