"""Shared plumbing of the correspondence harness: paths, seeds, the Lean build, the line protocol,
token encoding (exact rationals), evidence and verdict handling."""
import fcntl
import hashlib
import json
import math
import os
import random
import subprocess
import sys
import time
from fractions import Fraction

VERIF = os.path.dirname(os.path.dirname(os.path.abspath(__file__)))
REPO = os.environ.get("GFO_REPO", "/repo")
SRC = os.path.join(REPO, "src")
LEAN = os.path.join(VERIF, "lean")
DRIVER = os.path.join(LEAN, ".lake", "build", "bin", "driver")
REPLAYS = os.path.join(VERIF, "replays")
EVIDENCE = os.path.join(VERIF, "evidence")
PY = "/venv/bin/python"

os.environ.setdefault("GFO_VERIF_HARNESS", "1")
for _v in ("OMP_NUM_THREADS", "OPENBLAS_NUM_THREADS", "MKL_NUM_THREADS", "NUMEXPR_NUM_THREADS"):
    os.environ.setdefault(_v, "1")      # one BLAS thread per harness process: the checks parallelise over processes
if SRC not in sys.path:
    sys.path.insert(0, SRC)


def seed():
    try:
        return int(os.environ.get("VERIF_SEED", "0"))
    except ValueError:
        return 0


def tier():
    return os.environ.get("VERIF_TIER", "quick")


def depth():
    """multiplier of the thorough tier's case counts (VERIF_DEPTH, default 4)"""
    try:
        return max(1, int(os.environ.get("VERIF_DEPTH", "4")))
    except ValueError:
        return 4


def T(q, t):
    """a case count: `q` in the quick tier, `t` x depth() in the thorough tier"""
    return q if tier() != "thorough" else int(t) * depth()


def rng(tag=""):
    """every random choice derives from VERIF_SEED (+ a tag so streams are independent)"""
    h = hashlib.sha256(f"{seed()}|{tag}".encode()).digest()
    return random.Random(int.from_bytes(h[:8], "big"))


# ----------------------------------------------------------------------------- tokens

def tok_rat(x):
    """exact token of a Python / numpy number: `n` or `n/d`"""
    import numpy as np
    if isinstance(x, (bool, np.bool_)):
        return str(int(x))
    if isinstance(x, (int, np.integer)):
        return str(int(x))
    if isinstance(x, Fraction):
        return str(x.numerator) if x.denominator == 1 else f"{x.numerator}/{x.denominator}"
    xf = float(x)
    if math.isnan(xf) or math.isinf(xf):
        raise ValueError("non-finite where a rational is required")
    n, d = xf.as_integer_ratio()
    return str(n) if d == 1 else f"{n}/{d}"


def tok_f(x):
    """token of a float64 slot: rational, inf, -inf, nan"""
    import numpy as np
    if isinstance(x, (int, np.integer, Fraction)) and not isinstance(x, (bool, np.bool_)):
        return tok_rat(x)
    xf = float(x)
    if math.isnan(xf):
        return "nan"
    if math.isinf(xf):
        return "inf" if xf > 0 else "-inf"
    return tok_rat(xf)


def tok_opt(x, f):
    return "-" if x is None else f(x)


def tok_list(xs, f):
    xs = list(xs)
    return " ".join([str(len(xs))] + [f(x) for x in xs])


def tok_metric(v):
    """opaque, injective-enough token for a metric value"""
    import numpy as np
    try:
        if isinstance(v, (int, float, np.integer, np.floating)) and not isinstance(v, bool):
            return tok_f(v)
    except Exception:
        pass
    s = repr(v)
    return "".join(c if (c.isalnum() or c in "._-+/") else "_" for c in s) or "_"


def tok_key(k):
    s = str(k)
    return "".join(c if (c.isalnum() or c in "._-+/") else "_" for c in s) or "_"


def show_rat(x):
    return tok_rat(x)


def show_f(x):
    return tok_f(x)


def show_list(xs, f):
    return "[" + ",".join(f(x) for x in xs) + "]"


def show_pos(p):
    return show_list([int(v) for v in p], str)


def space_line(space):
    parts = ["space", str(len(space))]
    for name, arr in space.items():
        parts.append(tok_key(name))
        parts.append(tok_list(arr, tok_rat))
    return " ".join(parts)


# ----------------------------------------------------------------------------- Lean build / audit

class Infra(Exception):
    """infrastructure failure: exit 2, never a VIOLATION"""


def _lock():
    os.makedirs(os.path.join(VERIF, ".cache"), exist_ok=True)
    f = open(os.path.join(VERIF, ".cache", "lake.lock"), "w")
    fcntl.flock(f, fcntl.LOCK_EX)
    return f


def lake_build(targets=("GFO", "driver"), timeout=3000):
    """incremental build under a file lock; returns (ok, output)"""
    lk = _lock()
    try:
        p = subprocess.run(["lake", "build", *targets], cwd=LEAN, capture_output=True, text=True, timeout=timeout)
        return p.returncode == 0, p.stdout + p.stderr
    except subprocess.TimeoutExpired as e:
        raise Infra(f"lake build timed out: {e}")
    except FileNotFoundError as e:
        raise Infra(f"lake not found: {e}")
    finally:
        lk.close()


def run_driver(lines, timeout=600):
    """feed command lines to the native model driver; returns its output lines"""
    if not os.path.exists(DRIVER):
        lake_build(targets=("driver",))          # e.g. a concurrent rebuild removed it for a moment
        if not os.path.exists(DRIVER):
            raise Infra("driver binary missing (lake build failed?)")
    data = "\n".join(lines) + "\n"
    try:
        p = subprocess.run([DRIVER], input=data, capture_output=True, text=True, timeout=timeout)
    except subprocess.TimeoutExpired as e:
        raise Infra(f"driver timed out: {e}")
    if p.returncode != 0:
        raise Infra(f"driver crashed rc={p.returncode}: {p.stderr[-2000:]}")
    return p.stdout.split("\n")[:-1] if p.stdout.endswith("\n") else p.stdout.split("\n")


# ----------------------------------------------------------------------------- misc

def src_hash():
    """hash of every file under /repo/src (cache key: a changed tree never reuses a stale trace)"""
    h = hashlib.sha256()
    for root, _dirs, files in sorted(os.walk(SRC)):
        if "__pycache__" in root:
            continue
        for fn in sorted(files):
            if fn.endswith(".py"):
                p = os.path.join(root, fn)
                h.update(p.encode())
                with open(p, "rb") as f:
                    h.update(f.read())
    return h.hexdigest()[:16]


def write_json(path, obj):
    os.makedirs(os.path.dirname(path), exist_ok=True)
    tmp = path + ".tmp"
    with open(tmp, "w") as f:
        json.dump(obj, f, indent=1, sort_keys=False, default=str)
    os.replace(tmp, path)


class Timer:
    def __init__(self):
        self.t0 = time.time()

    def s(self):
        return round(time.time() - self.t0, 2)
