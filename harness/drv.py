"""Driver-level correspondence: run the real `Search` mix-in (with any real optimizer or a stub backend),
record everything the Lean driver model needs as oracle input (positions emitted, objective results,
virtual durations), encode it in the line protocol and compute the lines the model must print."""
import contextlib
import io
import os
import types
import warnings

from . import common as C
from .common import tok_f, tok_rat, tok_opt, tok_key, tok_metric, show_pos

import numpy as np
import pandas as pd

warnings.filterwarnings("ignore")


class VClock:
    """virtual clock standing in for the `time` module inside GFO's driver modules"""

    def __init__(self, start=0):
        self.now = start

    def time(self):
        return self.now

    def advance(self, d):
        self.now = self.now + d

    def sleep(self, d):
        self.advance(d)


@contextlib.contextmanager
def patched_driver_modules(clock, quiet_tqdm=True):
    import gradient_free_optimizers.search as m_search
    import gradient_free_optimizers._stop_run as m_stop
    import gradient_free_optimizers._times_tracker as m_times
    import gradient_free_optimizers._progress_bar as m_pbar
    saved = [(m, m.time) for m in (m_search, m_stop, m_times)]
    saved_tqdm = m_pbar.tqdm
    devnull = open(os.devnull, "w")
    try:
        for m, _ in saved:
            m.time = clock
        if quiet_tqdm:
            real_tqdm = saved_tqdm

            def quiet(*a, **k):
                k["file"] = devnull
                return real_tqdm(*a, **k)

            m_pbar.tqdm = quiet
        yield
    finally:
        for m, t in saved:
            m.time = t
        m_pbar.tqdm = saved_tqdm
        devnull.close()


# ----------------------------------------------------------------------------- stub backend

def make_stub(space, positions, n_inits):
    """an optimizer whose backend just replays `positions`: exercises the driver with arbitrary emitted
    positions (out of space, negative, duplicates) independently of the real algorithms"""
    from gradient_free_optimizers.search import Search
    from gradient_free_optimizers.optimizers.core_optimizer.converter import Converter

    class _StubBackend:
        def __init__(self):
            super().__init__()
            self.conv = Converter(space)
            self.init = types.SimpleNamespace(n_inits=n_inits)
            self.nth_process = None
            self._queue = list(positions)
            self.fed = []

        def _next(self):
            if not self._queue:
                raise RuntimeError("stub-exhausted")
            return np.array(self._queue.pop(0))

        def init_pos(self):
            return self._next()

        def iterate(self):
            return self._next()

        def evaluate_init(self, s):
            self.fed.append(("i", s))

        def evaluate(self, s):
            self.fed.append(("t", s))

        def finish_initialization(self):
            self.fed.append(("F", None))

    class Stub(_StubBackend, Search):
        pass

    return Stub()


# ----------------------------------------------------------------------------- running the real code

class CallSpec:
    def __init__(self, n_iter, max_time=None, max_score=None, early_stopping=None, memory=True,
                 memory_warm_start=None, verbosity=False, via="search", flv="py"):
        self.n_iter = n_iter
        self.max_time = max_time
        self.max_score = max_score
        self.early_stopping = early_stopping
        self.memory = memory
        self.memory_warm_start = memory_warm_start
        self.verbosity = verbosity
        self.via = via            # "search" | "stepapi"
        self.flv = flv

    def describe(self):
        ws = self.memory_warm_start
        return dict(n_iter=self.n_iter, max_time=self.max_time, max_score=self.max_score,
                    early_stopping=self.early_stopping, memory=("proxy" if _is_proxy(self.memory) else self.memory),
                    warm_rows=(None if ws is None else (len(ws) if hasattr(ws, "__len__") else "?")),
                    verbosity=self.verbosity, via=self.via, flv=self.flv)


def _is_proxy(m):
    from multiprocessing.managers import DictProxy
    return isinstance(m, DictProxy)


class Recorder:
    """wraps one optimizer instance (instance attributes only; the repository is not touched)"""

    def __init__(self, opt, objective, dur_of_step, clock, by_call=None):
        self.opt = opt
        self.f = objective                 # deterministic f(para) -> score | (score, dict)
        self.dur_of_step = dur_of_step     # step index -> duration (int or dyadic float)
        self.by_call = by_call             # optional: list of results by objective-call index
        self.clock = clock
        self.ncalls = 0
        self.call_paras = []               # parameter sets the objective really saw, in order
        self.events = []                   # ("I", pos) ("i", score) ("F",) ("T", pos) ("t", score)
        self.nsteps_api = 0
        self.blog = None                   # optional backend-level log (harness.bkd.Log)
        self.on_eval = None                # optional callback after every evaluate / evaluate_init
        for name, tag in (("init_pos", "I"), ("iterate", "T")):
            self._wrap_pos(name, tag)
        for name, tag in (("evaluate_init", "i"), ("evaluate", "t")):
            self._wrap_score(name, tag)
        orig_fin = opt.finish_initialization

        def fin(*a, **k):
            try:
                r_ = orig_fin(*a, **k)
            except Exception:
                self.events.append(("X", "finish_initialization"))
                raise
            self.events.append(("F",))
            return r_

        opt.finish_initialization = fin
        orig_step = opt.search_step

        def step(i):
            self.nsteps_api += 1
            return orig_step(i)

        opt.search_step = step

        def obj(para):
            k = self.ncalls
            self.ncalls += 1
            self.call_paras.append(dict(para))
            step_idx = len(self.opt.results_mang.results_list)
            self.clock.advance(self.dur_of_step(step_idx))
            if self.by_call is not None:
                return self.by_call[k]
            return self.f(para)

        obj.__name__ = "objective"
        self.obj = obj

    def _wrap_pos(self, name, tag):
        orig = getattr(self.opt, name)

        def w(*a, **k):
            if self.blog is not None:
                self.blog.step = len(self.opt.results_mang.results_list)
            try:
                p = orig(*a, **k)
            except Exception:
                self.events.append(("X", name))
                raise
            self.events.append((tag, [int(x) for x in np.asarray(p).ravel()] if not _fractional(p) else list(np.asarray(p).ravel())))
            return p

        setattr(self.opt, name, w)

    def _wrap_score(self, name, tag):
        orig = getattr(self.opt, name)

        def w(score, *a, **k):
            self.events.append((tag, score))
            try:
                r_ = orig(score, *a, **k)
            except Exception:
                self.events.append(("X", name))
                raise
            if self.on_eval is not None:
                self.on_eval()
            return r_

        setattr(self.opt, name, w)


def _fractional(p):
    a = np.asarray(p)
    return a.dtype.kind == "f" and not np.all(np.equal(np.mod(a, 1), 0))


def err_name(e):
    n = type(e).__name__
    return n if n in ("IndexError", "ZeroDivisionError", "ValueError", "KeyError") else f"Other({n})"


def run_history(opt, calls, objective, dur_of_step=lambda i: 0, by_call=None):
    """run `calls` on `opt`; returns (recorder, per-call records)"""
    clock = VClock(0)
    rec = Recorder(opt, objective, dur_of_step, clock, by_call)
    out = []
    with patched_driver_modules(clock):
        for c in calls:
            ev0 = len(rec.events)
            rows0 = len(opt.results_mang.results_list)
            steps0 = rec.nsteps_api
            exc = None
            sink = io.StringIO()
            try:
                with contextlib.redirect_stdout(sink):
                    kw = dict(max_time=c.max_time, max_score=c.max_score, early_stopping=c.early_stopping,
                              memory=c.memory, memory_warm_start=c.memory_warm_start, verbosity=c.verbosity)
                    if c.via == "search":
                        opt.search(rec.obj, c.n_iter, **kw)
                    else:
                        opt.init_search(rec.obj, c.n_iter, c.max_time, c.max_score, c.early_stopping,
                                        c.memory, c.memory_warm_start, c.verbosity)
                        for i in range(c.n_iter):
                            opt.search_step(i)
                        opt.finish_search()
            except Exception as e:  # noqa
                exc = e
            out.append(dict(spec=c, ev=rec.events[ev0:], rows0=rows0, steps=rec.nsteps_api - steps0, exc=exc,
                            snapshot=None if exc else _snapshot(opt, c, rec)))
            if exc is not None:
                break
    return rec, out


def _snapshot(opt, c, rec):
    md = opt.memory_dict
    md = dict(md) if not isinstance(md, dict) else dict(md)
    pb = opt.p_bar
    return dict(best_score=opt.best_score, best_pos=None if pb.pos_best is None else [int(x) for x in pb.pos_best],
                best_value=None if opt.best_value is None else list(opt.best_value),
                best_para=None if opt.best_para is None else dict(opt.best_para),
                memory_dict=md, since=list(pb.best_since_iter_list),
                rows=len(opt.results_mang.results_list), ninit=opt.n_init_total, niter=opt.n_iter_total,
                ncalls=rec.ncalls, nevalT=len(opt.eval_times), niterT=len(opt.iter_times))


# ----------------------------------------------------------------------------- encoding for the model

def res_tokens(r):
    if isinstance(r, tuple):
        score, d = r[0], r[1]
    else:
        score, d = r, {}
    items = [(tok_key(k), tok_metric(v)) for k, v in d.items()]
    return " ".join([tok_f(score), str(len(items))] + [f"{k} {v}" for k, v in items])


def show_res(r):
    if isinstance(r, tuple):
        score, d = r[0], r[1]
    else:
        score, d = r, {}
    items = sorted((tok_key(k), tok_metric(v)) for k, v in d.items() if k != "score")
    return tok_f(score) + "{" + ";".join(f"{k}={v}" for k, v in items) + "}"


def show_row(row, para_names):
    cells = []
    for k, v in row.items():
        if k == "score" or k in para_names:
            cells.append((tok_key(k), tok_f(v)))
        else:
            cells.append((tok_key(k), "t:" + tok_metric(v)))
    return "{" + ";".join(f"{k}={v}" for k, v in sorted(cells)) + "}"


def mem_mode(memory):
    if _is_proxy(memory):
        return "shared"
    if memory in [False, None]:
        return "off"
    return "fresh"


def warm_rows(conv, df):
    """usable memory_warm_start rows exactly as Memory.__init__ / dataframe2memory_dict select them"""
    if df is None or not isinstance(df, pd.DataFrame):
        return "none", []
    if df.empty:
        return "empty", []
    if not set(conv.para_names) <= set(df.columns):
        return "none", []
    vals = df[conv.para_names].values
    scores = list(df["score"])
    return "rows", [(list(v), s) for v, s in zip(vals, scores)]


def encode_history(space, n_inits, opt, rec, records, peek, local=None):
    """protocol lines + expected model output for a recorded history.
    `peek(step_index, para)` = what the objective returns at that parameter set (deterministic part)."""
    conv = opt.conv
    names = conv.para_names
    lines = [C.space_line(space), f"dnew {n_inits}" if local is None else local["lnew"]]
    expect = ["ok", "ok"]
    if local is not None:
        lines += local["tape"]          # `lt` lines print nothing
    if rec.by_call is not None:
        for k, r in enumerate(rec.by_call):
            lines.append(f"dobj {tok_rat(rec.dur_of_step(k))} {res_tokens(r)}")
            expect.append("ok")
    results = opt.results_mang.results_list
    for rcd in records:
        c = rcd["spec"]
        es = c.early_stopping
        es_present = "1" if es else "0"
        if es:
            n_tok = tok_opt(es.get("n_iter_no_change"), lambda v: str(int(v)))
            ta_tok = tok_opt(es.get("tol_abs"), tok_f)
            tr_tok = tok_opt(es.get("tol_rel"), tok_f)
        else:
            n_tok = ta_tok = tr_tok = "-"
        wflag, wrows = warm_rows(conv, c.memory_warm_start)
        verb = c.verbosity if c.verbosity is not False else []
        lvl1 = "1" if "progress_bar" in verb else "0"
        lines.append(" ".join(["dcall", c.via, str(c.n_iter), tok_opt(c.max_time, tok_f), tok_opt(c.max_score, tok_f),
                               es_present, n_tok, ta_tok, tr_tok, mem_mode(c.memory), wflag, lvl1, c.flv]))
        expect.append("ok")
        for v, s in wrows:
            lines.append("dwarm " + " ".join(tok_rat(x) for x in v) + " " + tok_f(s))
            expect.append("ok")
        # emitted positions of this call, in order
        k = rcd["rows0"]
        backend_raised = False
        for e in rcd["ev"]:
            if e[0] == "X":
                if local is None:
                    lines.append("draise")
                    expect.append("ok")
                    backend_raised = True
                continue
            if e[0] not in ("I", "T"):
                continue
            pos = e[1]
            try:
                para = conv.value2para(conv.position2value(pos))
                r = peek(k, para)
            except Exception:
                r = float("nan")
            if local is None:
                lines.append(f"dstep {e[0]} " + " ".join(str(int(x)) for x in pos) + f" {tok_rat(rec.dur_of_step(k))} {res_tokens(r)}")
                expect.append("ok")
            else:
                lines.append(f"lstep {tok_rat(rec.dur_of_step(k))} {res_tokens(r)}")     # prints nothing
            k += 1
        lines.append("drun")
        if rcd["exc"] is not None:
            expect.append("err:Other(backend-raised)" if backend_raised else "err:" + err_name(rcd["exc"]))
            break
        snap = rcd["snapshot"]
        n_new = snap["rows"] - rcd["rows0"]
        for j in range(n_new):
            g = rcd["rows0"] + j
            # a list that is shorter than the rows (an entry lost for some step) must show up as a disagreement, not stop the harness
            ev_t = tok_rat(opt.eval_times[g]) if g < len(opt.eval_times) else "MISSING"
            it_t = tok_rat(opt.iter_times[g]) if g < len(opt.iter_times) else "MISSING"
            pos_s = show_pos(opt.pos_l[g]) if g < len(opt.pos_l) else "MISSING"
            expect.append(f"step pos={pos_s} row={show_row(results[g], names)} evalT={ev_t} iterT={it_t}")
        expect.append("trace " + " ".join(_show_ev(e) for e in rcd["ev"]))
        md = snap["memory_dict"]
        md_items = sorted((tuple(int(x) for x in k_), v) for k_, v in md.items())
        mem_s = "{" + ";".join(show_pos(k_) + ":" + show_res(v) for k_, v in md_items) + "}"
        bp = snap["best_para"]
        expect.append(
            f"result steps={rcd['steps']} best={tok_f(snap['best_score'])} "
            f"bestpos={'None' if snap['best_pos'] is None else show_pos(snap['best_pos'])} "
            f"bestvalue={'None' if snap['best_value'] is None else C.show_list(snap['best_value'], tok_rat)} "
            f"bestpara={'None' if bp is None else '[' + ','.join(tok_key(k_) + '=' + tok_rat(v) for k_, v in bp.items()) + ']'} "
            f"mem={mem_s} since={C.show_list(snap['since'], str)} "
            f"rows={snap['rows']} ninit={snap['ninit']} niter={snap['niter']} ncalls={snap['ncalls']} "
            f"nevalT={snap['nevalT']} niterT={snap['niterT']} left=0")
    return lines, expect


def _show_ev(e):
    if e[0] == "X":
        return "X"
    if e[0] in ("I", "T"):
        return e[0] + show_pos(e[1])
    if e[0] == "F":
        return "F"
    return e[0] + tok_f(e[1])


def compare(lines, expect, got):
    """first disagreement between expected (real code) and got (model) output, or None"""
    n = max(len(expect), len(got))
    for i in range(n):
        a = expect[i] if i < len(expect) else "<missing>"
        b = got[i] if i < len(got) else "<missing>"
        if a != b:
            return dict(index=i, real=a, model=b)
    return None
