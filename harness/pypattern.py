"""Python -> Lean translator for PatternSearch's `iterate`, `finish_initialization` and `evaluate` (global_opt/pattern_search.py).

`iterate` is translated statement by statement (the optional regeneration guard `if len(self.pattern_pos_l) == 0:
self.generate_pattern(self.pos_current)`, the head / pop of the list, the outer constraint test, the `move_climb` fallback);
`len(l) == 0` is `l = []`; `self.pattern_pos_l[0]` of an empty list is IndexError.  `evaluate` is translated block by block: the base
evaluate, the early return without a valid score, the modulo (ZeroDivisionError for `n_positions_ = 0`, computed before the `or`), the
regeneration only in the iteration phase, and the window pick, whose seven lines are pinned and stand for `patWindow`."""
import ast

from .pytolean import Untranslatable

U = ast.unparse

WINDOW = ["score_new_list_temp = self.scores_valid[-self.n_positions_:]", "pos_new_list_temp = self.positions_valid[-self.n_positions_:]",
          "idx = max_list_idx(score_new_list_temp)", "score = score_new_list_temp[idx]", "pos = pos_new_list_temp[idx]",
          "self._eval2current(pos, score)", "self._eval2best(pos, score)"]


def fn_iterate(fn):
    decs = [U(d).split(".")[-1] for d in fn.decorator_list]
    if decs != ["track_new_pos", "random_iteration"]:
        raise Untranslatable(f"PatternSearch.iterate: decorators {decs}")
    if len(fn.body) != 1 or not isinstance(fn.body[0], ast.While) or U(fn.body[0].test) != "True":
        raise Untranslatable("PatternSearch.iterate: not a bare `while True`")
    u = [U(x) for x in fn.body[0].body]
    guard = "if len(self.pattern_pos_l) == 0:\n    self.generate_pattern(self.pos_current)"
    if u[:1] == [guard]:
        src = "(if s.pattern = [] then generatePattern cfg s.tr.posCurrent tape else .ok (s.pattern, tape))"
        u = u[1:]
    else:
        src = "(Except.ok (s.pattern, tape) : Except Err (List Pos × Tape))"
    if u != ["pos_new = self.pattern_pos_l[0]", "self.pattern_pos_l.pop(0)", "if self.conv.not_in_constraint(pos_new):\n    return pos_new",
             "return self.move_climb(pos_new)"]:
        raise Untranslatable(f"PatternSearch.iterate: {u}")
    return ("/-- the body of `PatternSearch.iterate` below `random_iteration` (every path of the `while True` body returns): the proposal, the\n"
            "    remaining pattern list and the tape -/\n"
            "def Pattern_iterate_body (cfg : PatCfg) (s : PatSt) (tape : Tape) : Except Err (Pos × List Pos × Tape) :=\n"
            f"  match {src} with\n"
            "  | .error e => .error e\n"
            "  | .ok g =>\n"
            "    match g.1 with\n"
            "    | [] => .error .indexError                       -- self.pattern_pos_l[0]\n"
            "    | pos_new :: rest =>                              -- self.pattern_pos_l.pop(0)\n"
            "      match askFeas pos_new g.2 with\n"
            "      | .error e => .error e\n"
            "      | .ok a =>\n"
            "        if a.1 then .ok (pos_new, rest, a.2)\n"
            "        else\n"
            "          match moveClimb cfg.geo (some pos_new) (some 1) s.tape.length a.2 with\n"
            "          | .error e => .error e\n"
            "          | .ok b => .ok (b.1, rest, b.2)")


def fn_finish(fn):
    if fn.decorator_list or [U(x) for x in fn.body] != ["self.generate_pattern(self.pos_current)", "self.search_state = 'iter'"]:
        raise Untranslatable("PatternSearch.finish_initialization: " + " | ".join(U(x) for x in fn.body))
    return ("/-- `PatternSearch.finish_initialization` -/\n"
            "def Pattern_finish_initialization (cfg : PatCfg) (s : PatSt) : Except Err PatSt :=\n"
            "  match generatePattern cfg s.tr.posCurrent s.tape with\n"
            "  | .error e => .error e\n"
            "  | .ok a => .ok { s with pattern := a.1, tape := a.2, iterState := true }")


def fn_evaluate(fn):
    decs = [U(d).split(".")[-1] for d in fn.decorator_list]
    if decs != ["track_new_score"] or [a.arg for a in fn.args.args] != ["self", "score_new"]:
        raise Untranslatable(f"PatternSearch.evaluate: decorators {decs}")
    b = fn.body
    u = [U(x) for x in b]
    if len(b) != 4 or u[0] != "BaseOptimizer.evaluate(self, score_new)" or u[1] != "if len(self.scores_valid) == 0:\n    return" \
            or u[2] != "modZero = self.nth_trial % int(self.n_positions_ * 2) == 0" or not isinstance(b[3], ast.If) or b[3].orelse:
        raise Untranslatable(f"PatternSearch.evaluate: {u}")
    test = U(b[3].test)
    if test != "modZero or len(self.pattern_pos_l) == 0":
        raise Untranslatable(f"PatternSearch.evaluate: test `{test}`")
    inner = [U(x) for x in b[3].body]
    if inner[:1] == ["if self.search_state == 'iter':\n    self.generate_pattern(self.pos_current)"]:
        regen = "(if s.iterState then generatePattern cfg t1.posCurrent s.tape else .ok (s.pattern, s.tape))"
        inner = inner[1:]
    elif inner[:1] == ["self.generate_pattern(self.pos_current)"]:
        regen = "(generatePattern cfg t1.posCurrent s.tape)"
        inner = inner[1:]
    else:
        raise Untranslatable(f"PatternSearch.evaluate: {inner[:1]}")
    if inner != WINDOW:
        raise Untranslatable(f"PatternSearch.evaluate: window pick {inner}")
    return ("/-- `PatternSearch.evaluate` below `track_new_score` -/\n"
            "def Pattern_evaluate (cfg : PatCfg) (s : PatSt) (score_new : F) : Except Err PatSt :=\n"
            "  let t1 := Tracker.baseEvaluate (s.tr.setScoreNew score_new) score_new\n"
            "  if t1.scoresValid.isEmpty then .ok { s with tr := { t1 with nthTrial := t1.nthTrial + 1 } }\n"
            "  else if cfg.nPositions = 0 then .error .zeroDivision\n"
            "  else if t1.nthTrial % (2 * cfg.nPositions) = 0 ∨ s.pattern = [] then\n"
            f"    match {regen} with\n"
            "    | .error e => .error e\n"
            "    | .ok a =>\n"
            "      let t2 := patWindow cfg.nPositions t1\n"
            "      .ok { s with tr := { t2 with nthTrial := t2.nthTrial + 1 }, pattern := a.1, tape := a.2 }\n"
            "  else .ok { s with tr := { t1 with nthTrial := t1.nthTrial + 1 } }")
