"""Python -> Lean translator for `core_optimizer/converter.py` (class `Converter`): the attributes computed in `__init__`, the four scalar
conversions (`position2value`, `value2position`, `value2para`, `para2value`), `not_in_constraint`, the batched conversions and the two
memory-dictionary conversions.

A loop `for n, space_dim in enumerate(self.search_space_values): out.append(E)` whose `E` reads `arg[n]` becomes a structural recursion
over the dimensions and the argument vector together (IndexError when the vector is shorter - Python's `arg[n]`); the appended
expression is translated: `space_dim[arg[n]]` -> Python indexing `pyIndex`, `np.abs(arg[n] - np.array(space_dim)).argmin()` ->
`argminAbs` (first minimum).  The numpy-vectorised batched conversions are pinned line by line and stand for `mapM` of the scalar ones
(per column the same `abs(...).argmin` / `take`).  Anything else raises `Untranslatable`."""
import ast

from .pytolean import Untranslatable


def _u(n):
    return ast.unparse(n)


def _need(fn, decorated=True):
    decs = [_u(d) for d in fn.decorator_list]
    if decorated and decs != ["returnNoneIfArgNone"]:
        raise Untranslatable(f"Converter.{fn.name}: decorators {decs}")


def _enum_loop(fn, out_name, arg):
    """-> the appended expression of `out = []; for n, space_dim in enumerate(self.search_space_values): [tmp = E;] out.append(E'); return …`"""
    b = fn.body
    if _u(b[0]) != f"{out_name} = []" or not isinstance(b[1], ast.For):
        raise Untranslatable(f"{fn.name}: head")
    loop = b[1]
    if _u(loop.target) not in ("(n, space_dim)", "n, space_dim") or _u(loop.iter) != "enumerate(self.search_space_values)" or loop.orelse:
        raise Untranslatable(f"{fn.name}: loop header `{_u(loop.target)} in {_u(loop.iter)}`")
    return loop.body, b[2:]


def fn_position2value(fn):
    _need(fn)
    body, tail = _enum_loop(fn, "value", "position")
    if [_u(x) for x in body] != ["value.append(space_dim[position[n]])"] or [_u(x) for x in tail] != ["return value"]:
        raise Untranslatable("position2value: " + " | ".join(_u(x) for x in body + tail))
    return ("/-- `position2value`: `space_dim[position[n]]` per dimension (Python indexing) -/\n"
            "def position2value : List (List Rat) → Pos → Except Err Value\n"
            "  | [], _ => .ok []\n"
            "  | _ :: _, [] => .error .indexError                    -- `position[n]` beyond the vector\n"
            "  | space_dim :: dims, p :: position => do\n"
            "    let x ← pyIndex space_dim p                         -- space_dim[position[n]]\n"
            "    let value ← position2value dims position\n"
            "    pure (x :: value)")


def fn_value2position(fn):
    _need(fn)
    body, tail = _enum_loop(fn, "position", "value")
    if [_u(x) for x in body] != ["pos = np.abs(value[n] - np.array(space_dim)).argmin()", "position.append(int(pos))"] \
            or [_u(x) for x in tail] != ["return np.array(position)"]:
        raise Untranslatable("value2position: " + " | ".join(_u(x) for x in body + tail))
    return ("/-- `value2position`: the index of the first minimum of `|value[n] - space_dim|` per dimension -/\n"
            "def value2position : List (List Rat) → Value → Except Err (List Nat)\n"
            "  | [], _ => .ok []\n"
            "  | _ :: _, [] => .error .indexError                    -- `value[n]` beyond the vector\n"
            "  | space_dim :: dims, v :: value => do\n"
            "    let position ← value2position dims value\n"
            "    pure (argminAbs v space_dim :: position)             -- np.abs(value[n] - np.array(space_dim)).argmin()")


def fn_value2para(fn):
    _need(fn)
    want = ["para = {}", "for key, p_ in zip(self.para_names, value):\n    para[key] = p_", "return para"]
    if [_u(x) for x in fn.body] != want:
        raise Untranslatable("value2para: " + " | ".join(_u(x) for x in fn.body))
    return ("/-- `value2para`: `zip(self.para_names, value)` into a dict (insertion order = name order) -/\n"
            "def value2para (para_names : List String) (value : Value) : Para := para_names.zip value")


def fn_para2value(fn):
    _need(fn)
    want = ["value = []", "for para_name in self.para_names:\n    value.append(para[para_name])", "return value"]
    if [_u(x) for x in fn.body] != want:
        raise Untranslatable("para2value: " + " | ".join(_u(x) for x in fn.body))
    return ("/-- `para2value`: `para[para_name]` per name (KeyError when absent) -/\n"
            "def para2value : List String → Para → Except Err Value\n"
            "  | [], _ => .ok []\n"
            "  | para_name :: names, para => do\n"
            "    let v ← paraGet para para_name                      -- para[para_name]\n"
            "    let value ← para2value names para\n"
            "    pure (v :: value)")


def fn_not_in_constraint(fn):
    want = ["para = self.value2para(self.position2value(position))",
            "for constraint in self.constraints:\n    if not constraint(para):\n        return False", "return True"]
    if [_u(x) for x in fn.body] != want or fn.decorator_list:
        raise Untranslatable("not_in_constraint: " + " | ".join(_u(x) for x in fn.body))
    return ("/-- `not_in_constraint`: every constraint accepts the parameter dictionary of the position (`feasible` = their conjunction,\n"
            "    as a function of the value vector) -/\n"
            "def not_in_constraint (dims : List (List Rat)) (feasible : Value → Bool) (position : Pos) : Except Err Bool := do\n"
            "  let value ← position2value dims position\n"
            "  pure (feasible value)")


def fn_batched(v2p, p2v, ps2md, md2ps, df2md, md2df):
    for f in (v2p, p2v, ps2md, md2ps, df2md, md2df):
        _need(f)
    want_v2p = ["positions_temp = []", "values_np = np.array(values).reshape(-1, self.n_dimensions)",
                "for n, space_dim in enumerate(self.search_space_values):\n    values_1d = values_np[:, n]\n"
                "    m_conv = np.abs(values_1d - np.array(space_dim)[:, np.newaxis])\n    pos_list = m_conv.argmin(0)\n    positions_temp.append(pos_list)",
                "positions = list(np.array(positions_temp).T.astype(int))", "return positions"]
    if [_u(x) for x in v2p.body] != want_v2p:
        raise Untranslatable("values2positions: " + " | ".join(_u(x) for x in v2p.body))
    want_p2v = ["values = []", "positions_np = np.array(positions, dtype=int).reshape(-1, self.n_dimensions)",
                "for n, space_dim in enumerate(self.search_space_values):\n    pos_1d = positions_np[:, n]\n"
                "    value_ = np.take(space_dim, pos_1d, axis=0)\n    values.append(value_)",
                "values = [list(t) for t in zip(*values)]", "return values"]
    if [_u(x) for x in p2v.body] != want_p2v:
        raise Untranslatable("positions2values: " + " | ".join(_u(x) for x in p2v.body))
    if [_u(x) for x in ps2md.body] != ["value_tuple_list = list(map(tuple, positions))", "memory_dict = dict(zip(value_tuple_list, scores))", "return memory_dict"]:
        raise Untranslatable("positions_scores2memory_dict: " + " | ".join(_u(x) for x in ps2md.body))
    if [_u(x) for x in md2ps.body] != ["positions = [np.array(pos).astype(int) for pos in list(memory_dict.keys())]",
                                       "scores = list(memory_dict.values())", "return (positions, scores)"] and \
            [_u(x) for x in md2ps.body][-1] != "return positions, scores":
        raise Untranslatable("memory_dict2positions_scores: " + " | ".join(_u(x) for x in md2ps.body))
    b = df2md.body
    if [_u(x) for x in b[:2]] != ["parameter = set(self.search_space.keys())", "memory_para = set(dataframe.columns)"] \
            or not isinstance(b[2], ast.If) or _u(b[2].test) != "parameter <= memory_para" \
            or [_u(x) for x in b[2].body] != ["values = list(dataframe[self.para_names].values)", "positions = self.values2positions(values)",
                                              "scores = dataframe['score']", "memory_dict = self.positions_scores2memory_dict(positions, scores)",
                                              "return memory_dict"] \
            or _u(b[2].orelse[-1]) != "return {}":
        raise Untranslatable("dataframe2memory_dict changed")
    if [_u(x).replace("(positions, score) =", "positions, score =") for x in md2df.body] != ["positions, score = self.memory_dict2positions_scores(memory_dict)", "values = self.positions2values(positions)",
                                       "dataframe = pd.DataFrame(values, columns=self.para_names)", "dataframe['score'] = score", "return dataframe"]:
        raise Untranslatable("memory_dict2dataframe: " + " | ".join(_u(x) for x in md2df.body))
    return ("/-- `values2positions`: column by column the same `abs(…).argmin` as `value2position` (numpy-vectorised, pinned) -/\n"
            "def values2positions (dims : List (List Rat)) (values : List Value) : Except Err (List (List Nat)) :=\n"
            "  values.mapM (value2position dims)\n\n"
            "/-- `positions2values`: column by column `np.take(space_dim, pos_1d)` (pinned) -/\n"
            "def positions2values (dims : List (List Rat)) (positions : List Pos) : Except Err (List Value) :=\n"
            "  positions.mapM (position2value dims)\n\n"
            "/-- `dataframe2memory_dict` on a dataframe that has every parameter column: `dict(zip(map(tuple, positions), scores))` -/\n"
            "def dataframe2memory_dict {α} (dims : List (List Rat)) (rows : List (Value × α)) : Except Err (Dict α) := do\n"
            "  let positions ← values2positions dims (rows.map (·.1))          -- values = dataframe[self.para_names].values\n"
            "  let value_tuple_list : List Pos := positions.map (fun p => p.map Int.ofNat)\n"
            "  pure (Dict.update [] (value_tuple_list.zip (rows.map (·.2))))  -- dict(zip(value_tuple_list, scores))\n\n"
            "/-- `memory_dict2dataframe` -/\n"
            "def memory_dict2dataframe {α} (dims : List (List Rat)) (memory_dict : Dict α) : Except Err (List (Value × α)) := do\n"
            "  let values ← positions2values dims memory_dict.keys\n"
            "  pure (values.zip (memory_dict.map (·.2)))")


def fn_init(init):
    body = [_u(x) for x in init.body]
    need = ["self.n_dimensions = len(search_space)", "self.para_names = list(search_space.keys())",
            "dim_sizes_list = [len(array) for array in search_space.values()]", "self.dim_sizes = np.array(dim_sizes_list)",
            "self.search_space_size = reduce(lambda x, y: x * y, dim_sizes_list)",
            "self.search_space_positions = [list(range(len(array))) for array in search_space.values()]",
            "self.max_positions = self.dim_sizes - 1", "self.search_space_values = list(search_space.values())"]
    for n in need:
        if n not in body:
            raise Untranslatable(f"Converter.__init__: `{n}` not found")
    return ("/-- `Converter.__init__`: the attributes the kernels read -/\n"
            "def dim_sizes (dims : List (List Rat)) : List Nat := dims.map List.length            -- [len(array) for array in …]\n"
            "def search_space_size (dims : List (List Rat)) : Nat := (dim_sizes dims).foldl (· * ·) 1   -- reduce(lambda x, y: x * y, …); 1 is neutral\n"
            "def max_positions (dims : List (List Rat)) : List Int := (dim_sizes dims).map (fun (n : Nat) => (n : Int) - 1)   -- self.dim_sizes - 1\n"
            "def search_space_positions (dims : List (List Rat)) : List (List Nat) := dims.map (fun a => List.range a.length)")
