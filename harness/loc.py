"""Whole-optimizer correspondence for the optimizers whose `iterate` is built from move_climb / move_random only
(GFO.Model.Local): the real run's generator outputs and constraint verdicts are recorded IN PROGRAM ORDER together with
the arguments of each call (the oracle tape); the Lean model is then run on that tape and must, by itself, emit the same
positions, rows, best result, backend trace and final tracker state - and must have consumed the tape exactly."""
import contextlib
import random

import numpy as np

from . import common as C, drv, scen
from .common import tok_f, tok_rat

KIND = {
    "HillClimbingOptimizer": ("hc", None),
    "StochasticHillClimbingOptimizer": ("stochastic", None),
    "SimulatedAnnealingOptimizer": ("stochastic", None),
    "RepulsingHillClimbingOptimizer": ("repulsing", "repulsion_factor"),
    "RandomRestartHillClimbingOptimizer": ("restart", "n_iter_restart"),
    "RandomSearchOptimizer": ("random", None),
    "RandomAnnealingOptimizer": ("annealing", None),
}
LOCAL_OPTIMIZERS = list(KIND)


def _ipos(p):
    return " ".join(str(int(x)) for x in np.asarray(p).ravel())


class Tape:
    def __init__(self):
        self.lines = []
        self.kinds = {}
        self.last_p_accept = None

    def add(self, kind, s):
        self.lines.append(f"lt {kind} {s}")
        self.kinds[kind] = self.kinds.get(kind, 0) + 1


@contextlib.contextmanager
def module_patches(tape):
    """pass-through wrappers on the module-level names the six classes draw from"""
    import gradient_free_optimizers.optimizers.core_optimizer.core_optimizer as co
    import gradient_free_optimizers.optimizers.local_opt.stochastic_hill_climbing as shc
    saved = []

    def put(obj, name, new):
        saved.append((obj, name, getattr(obj, name)))
        setattr(obj, name, new)

    orig_uniform = random.uniform

    def uniform(a, b):
        x = orig_uniform(a, b)
        if (a, b) == (0, 1):
            tape.add("u", tok_rat(x))
        return x
    put(random, "uniform", uniform)

    orig_mr = co.move_random

    def move_random(ss_positions):
        p = orig_mr(ss_positions)
        tape.add("r", _ipos(p))
        return p
    put(co, "move_random", move_random)

    saved_dist = dict(co.dist_dict)
    for k, fn in saved_dist.items():
        def dist(loc, scale, size, _fn=fn):
            out = _fn(loc, scale, size)
            tape.add("d", _ipos(loc) + " " + " ".join(tok_f(x) for x in np.asarray(out).ravel()))
            return out
        co.dist_dict[k] = dist

    orig_random = shc.random

    def rnd():
        x = orig_random()
        tape.add("a", tok_f(tape.last_p_accept) + " " + tok_rat(x))
        return x
    put(shc, "random", rnd)
    try:
        yield
    finally:
        for obj, name, old in reversed(saved):
            setattr(obj, name, old)
        co.dist_dict.update(saved_dist)


def instance_patches(opt, tape):
    orig_nic = opt.conv.not_in_constraint

    def not_in_constraint(pos):
        ok = orig_nic(pos)
        tape.add("f", _ipos(pos) + (" 1" if ok else " 0"))
        return ok
    opt.conv.not_in_constraint = not_in_constraint

    orig_mc = opt.move_climb

    def move_climb(pos, epsilon=0.03, distribution="normal", epsilon_mod=1):
        tape.add("c", _ipos(pos) + " " + tok_rat(epsilon_mod))
        return orig_mc(pos, epsilon=epsilon, distribution=distribution, epsilon_mod=epsilon_mod)
    opt.move_climb = move_climb

    if hasattr(opt, "_p_accept_default"):
        orig_pa = opt._p_accept_default

        def p_accept():
            v = orig_pa()
            tape.last_p_accept = v
            return v
        opt._p_accept_default = p_accept


def show_opt_pos(p):
    return "None" if p is None else C.show_pos(p)


def tracker_core(opt):
    valid = "[" + ",".join(show_opt_pos(p) + ":" + tok_f(s) for p, s in zip(opt.positions_valid, opt.scores_valid)) + "]"
    return (f"new={show_opt_pos(opt.pos_new)}:{tok_f(opt.score_new)} cur={show_opt_pos(opt.pos_current)}:{tok_f(opt.score_current)} "
            f"best={show_opt_pos(opt.pos_best)}:{tok_f(opt.score_best)} valid={valid} "
            f"nthTrial={opt.nth_trial} nthInit={opt.nth_init}")


def tracker_line(opt, tape_left=0):
    eps = getattr(opt, "epsilon_mod", 1)
    return f"tracker {tracker_core(opt)} epsMod={tok_rat(eps)} tapeLeft={tape_left}"


def run_local_scenario(spec):
    """like scen.run_scenario, but the model side is the complete backend driven by the recorded tape"""
    assert spec["opt"] in KIND, spec["opt"]
    tape = Tape()
    holder = {}

    def on_built(opt):
        holder["init_l"] = [[int(x) for x in p] for p in opt.init.init_positions_l]
        instance_patches(opt, tape)
    with module_patches(tape):
        out = scen.run_scenario(spec, with_model=False, on_built=on_built)
    real = out["real"]
    opt, rec, records, space = real["opt"], real["rec"], real["records"], real["space"]
    kind, extra_attr = KIND[spec["opt"]]
    extra = getattr(opt, extra_attr) if extra_attr else 0
    n_nb = getattr(opt, "n_neighbours", 3)
    lnew = (f"lnew {opt.init.n_inits} {kind} {tok_rat(extra)} {int(n_nb)} {tok_rat(opt.rand_rest_p)} "
            f"{len(holder['init_l'])} " + " ".join(" ".join(str(x) for x in p) for p in holder["init_l"])).rstrip()
    f = real["f"]
    lines, expect = drv.encode_history(space, opt.init.n_inits, opt, rec, records, (lambda k, para: f(para)),
                                       local=dict(lnew=lnew, tape=tape.lines))
    raised = any(r["exc"] is not None for r in records)
    if not raised:
        lines.append("lstate")
        expect.append(tracker_line(opt))
    out.update(lines=lines, expect=expect)
    out["tape_kinds"] = dict(tape.kinds)
    out["tape_len"] = len(tape.lines)
    return out


def run_local_batch(specs):
    outs = []
    all_lines = []
    for s in specs:
        o = run_local_scenario(s)
        outs.append((s, o))
        all_lines += o["lines"] + ["mark"]
    got = C.run_driver(all_lines) if all_lines else []
    chunks, cur = [], []
    for l in got:
        if l == "----":
            chunks.append(cur)
            cur = []
        else:
            cur.append(l)
    for (s, o), ch in zip(outs, chunks):
        o["got"] = ch
        o["diff"] = drv.compare(o["lines"], o["expect"], ch)
        _with_audit(s, o)
    return outs


# ----------------------------------------------------------------------------- GridSearchOptimizer (GFO.Model.GridBackend)

def run_grid_scenario(spec):
    assert spec["opt"] == "GridSearchOptimizer"
    tape = Tape()
    holder = {}

    def on_built(opt):
        holder["init_l"] = [[int(x) for x in p] for p in opt.init.init_positions_l]
        inner = opt.grid_search_opt
        for conv in {id(opt.conv): opt.conv, id(inner.conv): inner.conv}.values():
            orig_nic = conv.not_in_constraint

            def not_in_constraint(pos, _orig=orig_nic):
                ok = _orig(pos)
                tape.add("f", _ipos(pos) + (" 1" if ok else " 0"))
                return ok
            conv.not_in_constraint = not_in_constraint
    with module_patches(tape):
        out = scen.run_scenario(spec, with_model=False, on_built=on_built)
    real = out["real"]
    opt, rec, records, space = real["opt"], real["rec"], real["records"], real["space"]
    inner = opt.grid_search_opt
    size, nd = int(opt.conv.search_space_size), int(opt.conv.n_dimensions)
    dir_start = int(np.round(np.power(size, 1 / nd)))
    gnew = (f"gnew {opt.init.n_inits} {opt.direction} {int(opt.step_size)} {dir_start} "
            f"{len(holder['init_l'])} " + " ".join(" ".join(str(x) for x in p) for p in holder["init_l"])).rstrip()
    f = real["f"]
    lines, expect = drv.encode_history(space, opt.init.n_inits, opt, rec, records, (lambda k, para: f(para)),
                                       local=dict(lnew=gnew, tape=tape.lines))
    raised = any(r["exc"] is not None for r in records)
    if not raised:
        lines.append("gstate")
        expect.append("outer " + tracker_core(opt))
        expect.append("inner " + tracker_core(inner))
        dc = getattr(inner, "direction_calc", None)
        expect.append(f"grid ptr={int(getattr(inner, 'high_dim_pointer', 0))} direction={'None' if dc is None else int(dc)} tapeLeft=0")
    out.update(lines=lines, expect=expect)
    out["tape_kinds"] = dict(tape.kinds)
    out["tape_len"] = len(tape.lines)
    return out


def audit_tape(spec, lines):
    """the hypotheses TapeOK / GridOK of the whole-run theorems, checked on the recorded tape of a real run: random positions and
    candidate-grid rows are positions of the space, float position vectors have one entry per dimension and no nan"""
    sizes = [len(v) for v in spec["space"].values()]
    nd = len(sizes)
    inner = spec["opt"] == "PowellsMethod"          # its inner climber draws in a 1-D space of its own
    bad = []

    def in_space(toks):
        return len(toks) == nd and all(0 <= int(t) < n for t, n in zip(toks, sizes))
    for l in lines:
        if not l.startswith("lt "):
            continue
        t = l.split()
        k, a = t[1], t[2:]
        if inner and k in ("r", "d", "c"):
            continue
        if k == "r" and not in_space(a):
            bad.append(("rnd-not-in-space", l))
        elif k == "d" and (len(a) != 2 * nd or "nan" in a[nd:]):
            bad.append(("dist-vector", l))
        elif k in ("s", "m") and (len(a) != nd or "nan" in a):
            bad.append(("float-position-vector", l))
        elif k == "p" and len(a) != 2 * nd:
            bad.append(("part-vector", l))
        elif k == "I" and spec["opt"] in SMBO3:
            rows = [a[1 + i * nd: 1 + (i + 1) * nd] for i in range(int(a[0]))]
            if not all(in_space(r) for r in rows):
                bad.append(("grid-row-not-in-space", l[:200]))
        if len(bad) >= 3:
            break
    return bad


def _with_audit(s, o):
    if o["diff"] is None:
        bad = audit_tape(s, o["lines"])
        if bad:
            o["diff"] = {"tape-assumption-violated": bad}


def run_batch(specs, runner):
    outs = []
    all_lines = []
    for s in specs:
        o = runner(s)
        outs.append((s, o))
        all_lines += o["lines"] + ["mark"]
    got = C.run_driver(all_lines) if all_lines else []
    chunks, cur = [], []
    for l in got:
        if l == "----":
            chunks.append(cur)
            cur = []
        else:
            cur.append(l)
    for (s, o), ch in zip(outs, chunks):
        o["got"] = ch
        o["diff"] = drv.compare(o["lines"], o["expect"], ch)
        _with_audit(s, o)
    return outs


# ----------------------------------------------------------------------------- ParallelTemperingOptimizer (GFO.Model.Population)

POP = {"ParallelTemperingOptimizer": ("pt", "systems"), "ParticleSwarmOptimizer": ("pso", "particles"),
       "SpiralOptimization": ("spiral", "particles"), "EvolutionStrategyOptimizer": ("es", "individuals"),
       "DifferentialEvolutionOptimizer": ("de", "individuals"), "GeneticAlgorithmOptimizer": ("ga", "individuals")}
EA = ("es", "de", "ga")


class _RandomModProxy:
    """stands in for the name `random` of one EA module: integer draws / random() / sample are recorded"""

    def __init__(self, tape, holder, record_sample):
        self._tape, self._holder, self._rs = tape, holder, record_sample

    def __getattr__(self, name):
        return getattr(random, name)

    def randint(self, a, b):
        k = random.randint(a, b)
        self._tape.add("i", str(int(k)))
        return k

    def choice(self, seq):
        seq = list(seq)
        x = random.choice(seq)
        if isinstance(x, (int, np.integer)):
            self._tape.add("i", str(int(x)))
        else:
            self._tape.add("i", str([i for i, y in enumerate(seq) if y is x][0]))
        return x

    def random(self):
        x = random.random()
        self._tape.add("u", tok_rat(x))
        return x

    def sample(self, population, k):
        out = random.sample(population, k)
        if self._rs:
            members = self._holder["members"]
            self._tape.add("g", " ".join([str(len(out))] + [str([i for i, y in enumerate(members) if y is o][0]) for o in out]))
        return out


class _NpRandomProxy:
    def __init__(self, tape, holder):
        self._tape, self._holder = tape, holder

    def __getattr__(self, name):
        return getattr(np.random, name)

    def uniform(self, low=0.0, high=1.0, size=None):
        x = np.random.uniform(low=low, high=high, size=size)
        self._tape.add("n", tok_rat(x))
        return x

    def choice(self, a, *args, **kw):
        x = np.random.choice(a, *args, **kw)
        acc = self._holder.get("choice_acc")
        if acc is not None:
            acc.append(int(x))
        return x


class _NpModProxy:
    def __init__(self, tape, holder):
        self.random = _NpRandomProxy(tape, holder)

    def __getattr__(self, name):
        return getattr(np, name)


class _NpProxy:
    """stands in for the name `np` of one module: `clip` is recorded, everything else is numpy's"""

    def __init__(self, tape):
        self._tape = tape

    def __getattr__(self, name):
        return getattr(np, name)

    def clip(self, a, lo, hi, *args, **kw):
        arr = np.asarray(a)
        if arr.dtype.kind == "f":
            self._tape.add("s", " ".join(tok_f(x) for x in arr.ravel()))
        return np.clip(a, lo, hi, *args, **kw)


def run_pop_scenario(spec):
    kind, attr = POP[spec["opt"]]
    tape = Tape()
    holder = {}

    def on_built(opt):
        members = getattr(opt, attr)
        holder["inits"] = [[[int(x) for x in p] for p in m.init.init_positions_l] for m in members]
        for m in members:
            instance_patches(m, tape)
            if kind == "pso":
                orig_mp = m._move_part

                def move_part(pos, velo, _orig=orig_mp):
                    tape.add("p", _ipos(pos) + " " + " ".join(tok_f(x) for x in np.asarray(velo, dtype=float).ravel()))
                    return _orig(pos, velo)
                m._move_part = move_part
        holder["members"] = members
        if kind in EA:
            orig_sort = opt.sort_pop_best_score

            def sort_pop():
                r_ = orig_sort()
                perm = [[i for i, y in enumerate(members) if y is o][0] for o in opt.pop_sorted]
                tape.add("o", " ".join([str(len(perm))] + [str(i) for i in perm]))
                return r_
            opt.sort_pop_best_score = sort_pop
            orig_rec = opt.discrete_recombination

            def recombination(parent_pos_l, crossover_rates=None):
                holder["choice_acc"] = []
                out_ = orig_rec(parent_pos_l, crossover_rates)
                acc = holder["choice_acc"]
                holder["choice_acc"] = None
                tape.add("h", " ".join([str(len(acc))] + [str(c) for c in acc]))
                return out_
            opt.discrete_recombination = recombination
            if kind == "de":
                orig_mut = opt.mutation

                def mutation(*a, **k):
                    v = orig_mut(*a, **k)
                    tape.add("m", " ".join(tok_f(x) for x in np.asarray(v, dtype=float).ravel()))
                    return v
                opt.mutation = mutation
        if kind in ("pso", "spiral") + EA:
            orig_nic = opt.conv.not_in_constraint

            def not_in_constraint(pos):
                ok = orig_nic(pos)
                tape.add("f", _ipos(pos) + (" 1" if ok else " 0"))
                return ok
            opt.conv.not_in_constraint = not_in_constraint
    import gradient_free_optimizers.optimizers.pop_opt._spiral as spm
    import gradient_free_optimizers.optimizers.pop_opt._evolutionary_algorithm as eam
    import gradient_free_optimizers.optimizers.pop_opt.evolution_strategy as esm
    import gradient_free_optimizers.optimizers.pop_opt.genetic_algorithm as gam
    import gradient_free_optimizers.optimizers.pop_opt.differential_evolution as dem
    saved = [(spm, "np", spm.np), (eam, "np", eam.np), (esm, "np", esm.np), (esm, "random", esm.random),
             (gam, "np", gam.np), (gam, "random", gam.random)]
    if kind == "spiral":
        spm.np = _NpProxy(tape)
    if kind in EA:
        eam.np = _NpModProxy(tape, holder)
    if kind == "es":
        esm.np = _NpModProxy(tape, holder)
        esm.random = _RandomModProxy(tape, holder, False)
    if kind == "ga":
        gam.np = _NpModProxy(tape, holder)
        gam.random = _RandomModProxy(tape, holder, True)
    try:
        with module_patches(tape):
            out = scen.run_scenario(spec, with_model=False, on_built=on_built)
    finally:
        for mod, name, val in saved:
            setattr(mod, name, val)
    real = out["real"]
    opt, rec, records, space = real["opt"], real["rec"], real["records"], real["space"]
    members = getattr(opt, attr)
    m0 = members[0]
    inits = holder["inits"]
    n_swap = int(getattr(opt, "n_iter_swap", 1)) if kind != "ga" else int(opt.offspring)
    mrate = tok_rat(getattr(opt, "mutation_rate", 0)) if kind in ("es", "ga") else "0"
    pnew = (f"pnew {kind} {opt.init.n_inits} {int(m0.n_neighbours)} {tok_rat(opt.rand_rest_p)} {n_swap} {mrate} {tok_rat(0.3)} {int(getattr(opt, "n_parents", 0))} {len(inits)} " +
            " ".join(f"{len(l)} " + " ".join(" ".join(str(x) for x in p) for p in l) for l in inits))
    pnew = " ".join(pnew.split())
    f = real["f"]
    lines, expect = drv.encode_history(space, opt.init.n_inits, opt, rec, records, (lambda k, para: f(para)),
                                       local=dict(lnew=pnew, tape=tape.lines))
    raised = any(r["exc"] is not None for r in records)
    if not raised:
        lines.append("pstate")
        expect.append("outer " + tracker_core(opt))
        for m in members:
            expect.append("member " + tracker_core(m))
        pc = getattr(opt, "p_current", None)
        cur = [i for i, m in enumerate(members) if m is pc][0] if pc is not None else 0
        offs = getattr(opt, "offspring_l", []) if kind == "ga" else []
        expect.append(f"pop cur={cur} tapeLeft=0 offspring=" + C.show_list([C.show_pos(o) for o in offs], str))
    out.update(lines=lines, expect=expect)
    out["tape_kinds"] = dict(tape.kinds)
    out["tape_len"] = len(tape.lines)
    return out


def run_pt_scenario(spec):
    return run_pop_scenario(spec)


# ----------------------------------------------------------------------------- PatternSearch (GFO.Model.Pattern)

class _SampleProxy:
    """stands in for the name `random` of pattern_search.py: `sample` is recorded by the indices it picked"""

    def __init__(self, tape):
        self._tape = tape

    def __getattr__(self, name):
        return getattr(random, name)

    def sample(self, population, k):
        out = random.sample(population, k)
        idx = [[i for i, y in enumerate(population) if y is o][0] for o in out]
        self._tape.add("g", " ".join([str(len(idx))] + [str(i) for i in idx]))
        return out


def run_pattern_scenario(spec):
    assert spec["opt"] == "PatternSearch"
    tape = Tape()
    holder = {"gen": False}

    def on_built(opt):
        holder["init_l"] = [[int(x) for x in p] for p in opt.init.init_positions_l]
        instance_patches(opt, tape)
        orig_gen = opt.generate_pattern

        def generate_pattern(cur):
            holder["gen"] = True
            try:
                return orig_gen(cur)
            finally:
                holder["gen"] = False
        opt.generate_pattern = generate_pattern
        orig_c2p = opt.conv2pos

        def conv2pos(pos):
            if holder["gen"]:
                tape.add("s", " ".join(tok_f(x) for x in np.asarray(pos, dtype=float).ravel()))
            return orig_c2p(pos)
        opt.conv2pos = conv2pos
    import gradient_free_optimizers.optimizers.global_opt.pattern_search as psm
    saved = psm.random
    psm.random = _SampleProxy(tape)
    try:
        with module_patches(tape):
            out = scen.run_scenario(spec, with_model=False, on_built=on_built)
    finally:
        psm.random = saved
    real = out["real"]
    opt, rec, records, space = real["opt"], real["rec"], real["records"], real["space"]
    tnew = (f"tnew {opt.init.n_inits} {int(opt.n_positions_)} {tok_rat(opt.rand_rest_p)} "
            f"{len(holder['init_l'])} " + " ".join(" ".join(str(x) for x in p) for p in holder["init_l"])).rstrip()
    f = real["f"]
    lines, expect = drv.encode_history(space, opt.init.n_inits, opt, rec, records, (lambda k, para: f(para)),
                                       local=dict(lnew=tnew, tape=tape.lines))
    raised = any(r["exc"] is not None for r in records)
    if not raised:
        lines.append("tstate")
        expect.append("tracker " + tracker_core(opt))
        expect.append("pattern " + C.show_list([C.show_pos(p) for p in opt.pattern_pos_l], str) +
                      f" iter={'true' if opt.search_state == 'iter' else 'false'} tapeLeft=0")
    out.update(lines=lines, expect=expect)
    out["tape_kinds"] = dict(tape.kinds)
    out["tape_len"] = len(tape.lines)
    out["raised"] = raised
    return out


# ----------------------------------------------------------------------------- PowellsMethod (GFO.Model.Powell)

def run_powell_scenario(spec):
    assert spec["opt"] == "PowellsMethod"
    tape = Tape()
    holder = {}
    import gradient_free_optimizers.optimizers.global_opt.powells_method.powells_method as pm

    def on_built(opt):
        holder["init_l"] = [[int(x) for x in p] for p in opt.init.init_positions_l]
        instance_patches(opt, tape)
        orig_new_dim = opt.new_dim

        def new_dim():
            r_ = orig_new_dim()
            inner = opt.hill_climb
            l = [[int(x) for x in p] for p in inner.init.init_positions_l]
            tape.add("I", " ".join([str(len(l))] + [" ".join(str(x) for x in p) for p in l]))
            instance_patches(inner, tape)
            return r_
        opt.new_dim = new_dim
    orig_sort = pm.sort_list_idx

    def sort_list_idx(list_):
        out = orig_sort(list_)
        tape.add("o", " ".join([str(len(out))] + [str(int(i)) for i in out]))
        return out
    pm.sort_list_idx = sort_list_idx
    try:
        with module_patches(tape):
            out = scen.run_scenario(spec, with_model=False, on_built=on_built)
    finally:
        pm.sort_list_idx = orig_sort
    real = out["real"]
    opt, rec, records, space = real["opt"], real["rec"], real["records"], real["space"]
    wnew = (f"wnew {opt.init.n_inits} {int(opt.iters_p_dim)} {int(opt.n_neighbours)} {tok_rat(opt.rand_rest_p)} "
            f"{len(holder['init_l'])} " + " ".join(" ".join(str(x) for x in p) for p in holder["init_l"])).rstrip()
    f = real["f"]
    lines, expect = drv.encode_history(space, opt.init.n_inits, opt, rec, records, (lambda k, para: f(para)),
                                       local=dict(lnew=wnew, tape=tape.lines))
    raised = any(r["exc"] is not None for r in records)
    if not raised:
        lines.append("wstate")
        expect.append("tracker " + tracker_core(opt))
        pp = getattr(opt, "powells_pos", None)
        expect.append(f"powell nthIter={getattr(opt, 'nth_iter_', -1)} curDimIter={getattr(opt, 'nth_iter_current_dim', 0)} dim={opt.current_search_dim} "
                      f"pos={'[]' if pp is None else C.show_pos(pp)} tapeLeft=0")
        inner = getattr(opt, "hill_climb", None)
        expect.append("inner None" if inner is None else "inner " + tracker_core(inner))
    out.update(lines=lines, expect=expect)
    out["tape_kinds"] = dict(tape.kinds)
    out["tape_len"] = len(tape.lines)
    out["raised"] = raised
    return out


# ----------------------------------------------------------------------------- DownhillSimplexOptimizer (GFO.Model.Simplex)

def run_simplex_scenario(spec):
    assert spec["opt"] == "DownhillSimplexOptimizer"
    tape = Tape()
    holder = {"climb": False}
    import gradient_free_optimizers.optimizers.local_opt.downhill_simplex as dsm

    def on_built(opt):
        holder["init_l"] = [[int(x) for x in p] for p in opt.init.init_positions_l]
        instance_patches(opt, tape)
        patched_climb = opt.move_climb

        def move_climb(*a, **k):
            holder["climb"] = True
            try:
                return patched_climb(*a, **k)
            finally:
                holder["climb"] = False
        opt.move_climb = move_climb
        orig_c2p = opt.conv2pos

        def conv2pos(pos):
            if not holder["climb"]:
                tape.add("s", " ".join(tok_f(x) for x in np.asarray(pos, dtype=float).ravel()))
            return orig_c2p(pos)
        opt.conv2pos = conv2pos
    orig_sort = dsm.sort_list_idx

    def sort_list_idx(list_):
        out = orig_sort(list_)
        tape.add("o", " ".join([str(len(out))] + [str(int(i)) for i in out]))
        return out
    dsm.sort_list_idx = sort_list_idx
    try:
        with module_patches(tape):
            out = scen.run_scenario(spec, with_model=False, on_built=on_built)
    finally:
        dsm.sort_list_idx = orig_sort
    real = out["real"]
    opt, rec, records, space = real["opt"], real["rec"], real["records"], real["space"]
    snew = (f"snew {opt.init.n_inits} {len(holder['init_l'])} " + " ".join(" ".join(str(x) for x in p) for p in holder["init_l"])).rstrip()
    f = real["f"]
    lines, expect = drv.encode_history(space, opt.init.n_inits, opt, rec, records, (lambda k, para: f(para)),
                                       local=dict(lnew=snew, tape=tape.lines))
    raised = any(r["exc"] is not None for r in records)
    if not raised:
        lines.append("sstate")
        expect.append("tracker " + tracker_core(opt))
        sp_ = getattr(opt, "simplex_pos", [])
        ss_ = getattr(opt, "simplex_scores", [])
        expect.append(f"simplex step={opt.simplex_step} idx={getattr(opt, 'compress_idx', 0)} "
                      f"pos={C.show_list([show_opt_pos(p) for p in sp_], str)} scores={C.show_list([tok_f(x) for x in ss_], str)} tapeLeft=0")
    out.update(lines=lines, expect=expect)
    out["tape_kinds"] = dict(tape.kinds)
    out["tape_len"] = len(tape.lines)
    out["raised"] = raised
    return out


# ----------------------------------------------------------------------------- Bayesian / TPE / Forest (GFO.Model.SmboBackend)

SMBO3 = ("BayesianOptimizer", "TreeStructuredParzenEstimators", "ForestOptimizer", "LipschitzOptimizer")


def run_smbo_scenario(spec):
    assert spec["opt"] in SMBO3
    tape = Tape()
    holder = {"quiet": False}

    def on_built(opt):
        holder["init_l"] = [[int(x) for x in p] for p in opt.init.init_positions_l]
        holder["warm"] = [([int(x) for x in p], y) for p, y in zip(opt.X_sample, opt.Y_sample)]
        orig_nic = opt.conv.not_in_constraint

        def not_in_constraint(pos):
            ok = orig_nic(pos)
            if holder["quiet"]:
                holder["grid"].append(([int(x) for x in np.asarray(pos).ravel()], bool(ok)))
            else:
                tape.add("f", _ipos(pos) + (" 1" if ok else " 0"))
            return ok
        opt.conv.not_in_constraint = not_in_constraint
        orig_all = opt._all_possible_pos

        def all_possible_pos():
            holder["quiet"], holder["grid"] = True, []
            try:
                out_ = orig_all()
            finally:
                holder["quiet"] = False
            g = holder["grid"]
            tape.add("I", " ".join([str(len(g))] + [" ".join(str(x) for x in p) for p, _ in g]))
            tape.add("h", " ".join([str(len(g))] + ["1" if ok else "0" for _, ok in g]))
            return out_
        opt._all_possible_pos = all_possible_pos
        is_lip = spec["opt"] == "LipschitzOptimizer"
        if is_lip:
            import gradient_free_optimizers.optimizers.global_opt.lipschitz_optimization as lipm
            holder["lipm"] = lipm
            holder["orig_calc"] = lipm.LipschitzFunction.calculate

            def calculate(self_, X, Y, sb):
                out_ = holder["orig_calc"](self_, X, Y, sb)
                flat = np.ma.filled(out_, np.inf).astype(float).ravel() if hasattr(out_, "mask") else np.asarray(out_, dtype=float).ravel()
                tape.add("v", " ".join([str(len(flat))] + [tok_f(x) for x in flat]))
                perm = list(out_.argsort()[::-1])
                perm = [int(np.asarray(i).ravel()[0]) for i in perm]
                tape.add("o", " ".join([str(len(perm))] + [str(i) for i in perm]))
                return out_
            lipm.LipschitzFunction.calculate = calculate
        orig_tr = getattr(opt, "_training", None)

        def training():
            try:
                r_ = orig_tr()
            except ValueError:
                tape.add("i", "0")
                raise
            tape.add("i", "1")
            return r_
        if not is_lip:
            opt._training = training
        orig_samp = opt._sampling

        def sampling(all_pos_comb):
            out_ = orig_samp(all_pos_comb)
            if out_ is all_pos_comb:
                tape.add("g", "0")
            else:
                index = {tuple(int(x) for x in row): i for i, row in enumerate(np.asarray(all_pos_comb))}
                idx = [index[tuple(int(x) for x in row)] for row in np.asarray(out_)]
                tape.add("g", " ".join([str(len(idx))] + [str(i) for i in idx]))
            return out_
        opt._sampling = sampling
        orig_ei = getattr(opt, "_expected_improvement", None)

        def expected_improvement():
            out_ = orig_ei()
            flat = np.asarray(out_, dtype=float).ravel()
            tape.add("v", " ".join([str(len(flat))] + [tok_f(x) for x in flat]))
            perm = list(np.asarray(out_).argsort()[::-1])
            tape.add("o", " ".join([str(len(perm))] + [str(int(i)) for i in perm]))
            return out_
        if not is_lip:
            opt._expected_improvement = expected_improvement
    try:
        with module_patches(tape):
            out = scen.run_scenario(spec, with_model=False, on_built=on_built)
    finally:
        if "lipm" in holder:
            holder["lipm"].LipschitzFunction.calculate = holder["orig_calc"]
    real = out["real"]
    opt, rec, records, space = real["opt"], real["rec"], real["records"], real["space"]
    il, warm = holder["init_l"], holder["warm"]
    bnew = (f"bnew {opt.init.n_inits} {1 if opt.replacement else 0} 0 {1 if spec['opt'] == 'LipschitzOptimizer' else 0} "
            f"{len(il)} " + " ".join(" ".join(str(x) for x in p) for p in il) + f" {len(warm)} " +
            " ".join(" ".join(str(x) for x in p) + " " + tok_f(y) for p, y in warm))
    bnew = " ".join(bnew.split())
    f = real["f"]
    lines, expect = drv.encode_history(space, opt.init.n_inits, opt, rec, records, (lambda k, para: f(para)),
                                       local=dict(lnew=bnew, tape=tape.lines))
    raised = any(r["exc"] is not None for r in records)
    if not raised:
        lines.append("bstate")
        expect.append("tracker " + tracker_core(opt))
        ncands = len(opt.all_pos_comb) if hasattr(opt, "all_pos_comb") else 0
        expect.append(f"smbo X={C.show_list([C.show_pos(p) for p in opt.X_sample], str)} Y={C.show_list([tok_f(y) for y in opt.Y_sample], str)} "
                      f"ncands={ncands} tapeLeft=0")
    out.update(lines=lines, expect=expect)
    out["tape_kinds"] = dict(tape.kinds)
    out["tape_len"] = len(tape.lines)
    out["raised"] = raised
    return out


# ----------------------------------------------------------------------------- DirectAlgorithm (GFO.Model.Direct)

class _RandintProxy:
    def __init__(self, tape):
        self._tape = tape

    def __getattr__(self, name):
        return getattr(random, name)

    def randint(self, a, b):
        k = random.randint(a, b)
        self._tape.add("i", str(int(k)))
        return k


def run_direct_scenario(spec):
    assert spec["opt"] == "DirectAlgorithm"
    tape = Tape()
    holder = {}
    import gradient_free_optimizers.optimizers.global_opt.direct_algorithm as dam

    def on_built(opt):
        holder["init_l"] = [[int(x) for x in p] for p in opt.init.init_positions_l]
        instance_patches(opt, tape)
    saved_random = dam.random
    orig_bound = dam.SubSpace.lipschitz_bound_

    def lipschitz_bound_(self_, score, K=1):
        r_ = orig_bound(self_, score, K)
        tape.add("v", "1 " + tok_f(float(np.asarray(self_.lipschitz_bound).ravel()[0])))
        return r_
    dam.random = _RandintProxy(tape)
    dam.SubSpace.lipschitz_bound_ = lipschitz_bound_
    try:
        with module_patches(tape):
            out = scen.run_scenario(spec, with_model=False, on_built=on_built)
    finally:
        dam.random = saved_random
        dam.SubSpace.lipschitz_bound_ = orig_bound
    real = out["real"]
    opt, rec, records, space = real["opt"], real["rec"], real["records"], real["space"]
    il = holder["init_l"]
    cnew = (f"cnew {opt.init.n_inits} {tok_rat(0.3)} {len(il)} " + " ".join(" ".join(str(x) for x in p) for p in il)).rstrip()
    f = real["f"]
    lines, expect = drv.encode_history(space, opt.init.n_inits, opt, rec, records, (lambda k, para: f(para)),
                                       local=dict(lnew=cnew, tape=tape.lines))
    raised = any(r["exc"] is not None for r in records)
    if not raised:
        lines.append("cstate")
        expect.append("tracker " + tracker_core(opt))

        def show_sub(sb):
            sizes = "[" + ",".join(str(len(sb.search_space[k])) for k in sb.search_space) + "]"
            sc = "None" if sb.score is None else tok_f(sb.score)
            bd = "-" if sb.score is None else tok_f(float(np.asarray(sb.lipschitz_bound).ravel()[0]))
            return f"{sizes}@{C.show_pos(sb.center_pos)}:{sc}:{bd}"
        expect.append(f"direct nX={len(opt.X_sample)} Y={C.show_list([tok_f(y) for y in opt.Y_sample], str)} "
                      f"subs={C.show_list([show_sub(sb) for sb in opt.subspace_l], str)} tapeLeft=0")
    out.update(lines=lines, expect=expect)
    out["tape_kinds"] = dict(tape.kinds)
    out["tape_len"] = len(tape.lines)
    out["raised"] = raised
    return out
