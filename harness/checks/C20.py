"""C20 - position/value/parameter/memory conversions are mutually inverse (function-level, exhaustive for small sizes)."""
import itertools

import numpy as np
import pandas as pd

from .. import common as C, gen, drv, translators
from ..common import tok_rat, tok_f, tok_list
from ..runner import Check


def _spaces(r, quick):
    """exhaustive over all orders for sizes <= 3 (quick) / 4 (thorough) in 1-2 dims, random beyond"""
    out = []
    maxn = 3 if quick else 4
    for kind in ("int", "float"):
        for n in range(1, maxn + 1):
            base = [j + 1 for j in range(n)] if kind == "int" else [0.25 * (j + 1) for j in range(n)]
            for perm in itertools.permutations(base):
                out.append({"a": list(perm)})
    small = [s["a"] for s in out if len(s["a"]) <= 3]
    for a in small[:: 2 if quick else 1]:
        for b in ([[5]], [[2.5, 0.5]], [[3, 1, 2]]):
            out.append({"a": list(a), "b": list(b[0])})
    for _ in range(C.T(20, 200)):
        out.append(gen.gen_space(r, ndims=r.choice([1, 2, 3, 4, 5]), sizes=[1, 2, 3, 5, 10, 31, 50]))
    # hazards of a nearest-value lookup: neighbours closer than any sensible tolerance, huge and tiny magnitudes, values around zero
    eps = 2.0 ** -55
    for a in ([1.0, 1.0 + 1e-9, 1.0 - 1e-9, 2.0], [1e15, 1e15 + 1, 1e15 + 2, 1e15 - 1], [-1e-12, 0.0, 1e-12], [0.1, 0.1 + eps, 0.1 - eps],
              [1e-300, 2e-300, -1e-300], [-5.0, -5.0 - 1e-12, -4.0], [3.0000001, 3.0, 2.9999999]):
        out.append({"a": list(a)})
        out.append({"a": list(reversed(a)), "b": [2.5, 0.5]})
    for _ in range(C.T(6, 40)):   # duplicate values: outside the property's premise, correspondence only
        out.append(gen.gen_space(r, ndims=r.choice([1, 2]), sizes=[3, 5, 10], kinds=("mixed",), allow_dups=True))
    return out


def converter_cases(r, quick, only=None):
    from gradient_free_optimizers.optimizers.core_optimizer.converter import Converter
    lines, expect, meta = [], [], []
    fails_c20, fails_c11, keys, samples = [], [], set(), []
    spaces = _spaces(r, quick)
    for spec in spaces:
        sp = gen.build_space(spec)
        conv = Converter(sp)
        names = list(sp)
        sizes = [len(sp[n]) for n in names]
        size = int(np.prod(sizes))
        lines.append(C.space_line(sp)); expect.append("ok"); meta.append(None)
        nodup = all(len(set(map(float, sp[n]))) == len(sp[n]) for n in names)
        f20 = fails_c20 if nodup else []     # the round-trip predicates are claimed for pairwise distinct values only
        f11 = fails_c11 if nodup else []
        if size <= 64:
            positions = [list(p) for p in itertools.product(*[range(k) for k in sizes])]
        else:
            positions = [[r.randrange(k) for k in sizes] for _ in range(40)]
        order = "asc" if all(list(sp[n]) == sorted(sp[n]) for n in names) else ("desc" if all(list(sp[n]) == sorted(sp[n], reverse=True) for n in names) else "unsorted")
        keys.add((len(names), min(size, 100), order))

        def add(cmd, exp, what=None):
            lines.append(cmd); expect.append(exp); meta.append((spec, cmd, what))

        for p in positions:
            v = conv.position2value(p)
            if only is None or "p2v" in only:
                add("p2v " + tok_list(p, str), C.show_list(v, tok_rat))
            back = conv.value2position(v)
            if only is None or "v2p" in only:
                add("v2p " + tok_list(v, tok_rat), C.show_list([int(x) for x in back], str))
            if [int(x) for x in back] != p:
                f20.append(dict(signature="C20|value2position(position2value(p))!=p", detail=f"{spec} p={p} back={list(map(int, back))}", case=spec))
            para = conv.value2para(v)
            v2 = conv.para2value(para)
            if [float(x) for x in v2] != [float(x) for x in v]:
                f20.append(dict(signature="C20|para2value(value2para(v))!=v", detail=f"{spec} v={v}", case=spec))
            if only is None or "v2para2v" in only:
                add("v2para2v " + tok_list(v, tok_rat), C.show_list(v2, tok_rat))
        # negative / out of range indices (Python wrap and IndexError) - the malformed stream
        if only is None:
            for p in ([-1] * len(names), [sizes[0]] + [0] * (len(names) - 1), [-sizes[0] - 1] + [0] * (len(names) - 1)):
                try:
                    e = C.show_list(conv.position2value(p), tok_rat)
                except IndexError:
                    e = "err:IndexError"
                add("p2v " + tok_list(p, str), e)
        # batched
        k = min(len(positions), 12)
        ps = [positions[r.randrange(len(positions))] for _ in range(k)] if positions else []
        for batch in ([], ps):
            vs = conv.positions2values([np.array(p) for p in batch]) if batch else conv.positions2values([])
            singles = [conv.position2value(p) for p in batch]
            if [[float(x) for x in v] for v in vs] != [[float(x) for x in v] for v in singles]:
                f20.append(dict(signature="C20|positions2values!=map(position2value)", detail=f"{spec} {batch}", case=spec))
            if only is None or "ps2vs" in only:
                add("ps2vs " + tok_list(batch, lambda p: tok_list(p, str)), C.show_list(vs, lambda v: C.show_list(v, tok_rat)))
            back = conv.values2positions(vs)
            singles_b = [[int(x) for x in conv.value2position(v)] for v in vs]
            got_b = [[int(x) for x in p] for p in back]
            if got_b != singles_b:
                f20.append(dict(signature="C20|values2positions!=map(value2position)", detail=f"{spec} {vs} -> {got_b} vs {singles_b}", case=spec))
                f11.append(dict(signature="C11|loader-key!=wrapper-key", detail=f"{spec} {vs} -> {got_b} vs {singles_b}", case=spec))
            if got_b != [list(p) for p in batch]:
                f20.append(dict(signature="C20|values2positions(positions2values(ps))!=ps", detail=f"{spec} {batch} -> {got_b}", case=spec))
            if only is None or "vs2ps" in only:
                add("vs2ps " + tok_list(vs, lambda v: tok_list(v, tok_rat)), C.show_list(got_b, lambda p: C.show_list(p, str)))
        # memory dict <-> dataframe
        for m_pos in ([], ps[: max(1, k // 2)], ps):
            m = {}
            for j, p in enumerate(m_pos):
                m[tuple(p)] = 0.5 * j - 1
            df = conv.memory_dict2dataframe(m)
            m2 = conv.dataframe2memory_dict(df)
            m2c = {tuple(int(x) for x in kk): float(vv) for kk, vv in m2.items()}
            if m2c != {kk: float(vv) for kk, vv in m.items()}:
                f20.append(dict(signature="C20|dataframe2memory_dict(memory_dict2dataframe(m))!=m", detail=f"{spec} m={m} back={m2c}", case=spec))
            ents = " ".join(" ".join(str(x) for x in kk) + " " + tok_f(vv) for kk, vv in m.items())
            if only is None or "md" in only:
                add(f"md_roundtrip {len(m)} {ents}".strip(), "{" + ";".join(drv.show_pos(kk) + ":" + tok_f(vv) for kk, vv in sorted(m2c.items())) + "}")
            if (only is None or "df2md" in only) and len(df):
                rows = [([rw[n] for n in names], rw["score"]) for _, rw in df.iterrows()]
                add("df2md " + str(len(rows)) + " " + " ".join(" ".join(tok_rat(x) for x in v) + " " + tok_f(s) for v, s in rows),
                    "{" + ";".join(drv.show_pos(kk) + ":" + tok_f(vv) for kk, vv in sorted(m2c.items())) + "}")
        if len(samples) < 2:
            samples.append(dict(space=spec, positions=len(positions), order=order))
    got = C.run_driver(lines)
    dis = []
    for i, (e, g) in enumerate(zip(expect, got + ["<missing>"] * (len(expect) - len(got)))):
        if e != g and len(dis) < 20:
            dis.append(dict(case=meta[i][0] if meta[i] else None, diff=dict(index=i, cmd=lines[i][:300], real=e, model=g)))
    return dict(n=len(lines), dis=dis, keys=keys, samples=samples, fails_c20=fails_c20, fails_c11=fails_c11)


def run():
    chk = Check("C20", props_modules=["GFO.Props.C20", "GFO.Gen.ConvGenCheck"], gen_steps=(translators.gen_converter,))
    chk.build_and_audit()
    r = C.rng("C20")
    quick = C.tier() != "thorough"
    res = chk.stage('function-level converter', converter_cases, r, quick) or dict(n=0, dis=[], keys=set(), samples=[], fails_c20=[], fails_c11=[])
    chk.corr("function-level Converter (all methods) vs converter.py; exhaustive over orders for small sizes", res["n"], res["dis"], res["keys"], res["samples"])
    chk.monitor("C20 round-trip predicates on the real Converter (same enumeration)", res["n"], res["fails_c20"])
    chk.exhaustive = False
    chk.notes.append("exhaustive part: every order of every dimension with <= %d values (int and float), every position of those spaces" % (3 if quick else 4))
    return chk.finish()
