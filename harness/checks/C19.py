"""C19 - tracked best/current states are grounded in real evaluations."""
import math

import numpy as np

from .. import common as C, gen, scen, bkd, trk, translators
from ..runner import Check
from . import bkgen, drvcommon as D

GREEDY = ("HillClimbingOptimizer", "RepulsingHillClimbingOptimizer", "RandomRestartHillClimbingOptimizer", "RandomAnnealingOptimizer")


def _key(p, s):
    if p is None:
        return None
    try:
        sf = float(s)
    except Exception:
        sf = s
    return (tuple(int(x) for x in np.asarray(p).ravel()), "nan" if (isinstance(sf, float) and math.isnan(sf)) else sf)


class Monitor:
    """after every evaluate of the top-level optimizer: membership of every tracked pair in the evaluated history"""

    def __init__(self, spec):
        self.spec = spec
        self.fails = []
        self.prev = {}
        self.alive = []          # strong references: a tracker object that is replaced (Powell builds a new inner climber per
        self.tag = D.opt_tag(spec)   # dimension) must not hand its id() to its successor

    def __call__(self, opt):
        hist = {_key(p, s) for p, s in zip(opt.pos_l, opt.score_l)}
        # the pair of the step that is being evaluated is appended to pos_l / score_l after evaluate: add it
        ev = getattr(self, "_last", None)
        for name, o in bkd.members(opt):
            for which in ("best", "current"):
                p, s = getattr(o, "pos_" + which), getattr(o, "score_" + which)
                if p is None:
                    continue
                if name == "hill_climb":
                    # Powell's inner 1-D climber lives in its own index space: its values are positions of the outer space
                    try:
                        p = o.conv.position2value(p)
                    except Exception:
                        pass
                k = _key(p, s)
                if k not in hist and k != self.pending:
                    if not self.fails:
                        self.fails.append(dict(signature=f"C19|{self.spec['opt']}|{name.split('[')[0]}:{type(o).__name__}|tracked-{which}-never-evaluated",
                                               detail=f"{name}: tracked {which} pair {k} is not among the evaluated (position, score) pairs", case=self.spec))
            if not any(o is a for a in self.alive):
                self.alive.append(o)
            b = o.score_best
            key = (id(o), "best")
            if key in self.prev and _lt(b, self.prev[key]):
                if not any("best-decreased" in f["signature"] for f in self.fails):
                    self.fails.append(dict(signature=f"C19|{self.tag}|{type(o).__name__}|best-decreased", detail=f"{name}: score_best {self.prev[key]} -> {b}", case=self.spec))
            self.prev[key] = b
            if type(o).__name__ in GREEDY or (name == "self" and self.spec["opt"] in GREEDY):
                c = o.score_current
                key = (id(o), "cur")
                if key in self.prev and _lt(c, self.prev[key]):
                    if not any("current-decreased" in f["signature"] for f in self.fails):
                        self.fails.append(dict(signature=f"C19|{self.tag}|{type(o).__name__}|greedy-current-decreased", detail=f"{name}: score_current {self.prev[key]} -> {c}", case=self.spec))
                self.prev[key] = c

    pending = None


def _lt(a, b):
    try:
        return float(a) < float(b)
    except Exception:
        return False


def run_one(spec):
    mon = Monitor(spec)
    holder = {}
    cap_holder = {"cap": None}

    def on_built(opt):
        cap_holder["cap"] = trk.TrackerCapture(opt)
        # wrap the objective-independent hook: remember the pair under evaluation (pos_l is appended after evaluate)
        orig_init, orig_eval = opt.evaluate_init, opt.evaluate

        def wrap(orig):
            def w(score):
                p = opt.pos_new if hasattr(opt, "pos_new") else None
                mon.pending = _key(holder.get("pos"), score)
                return orig(score)
            return w
        opt.evaluate_init = wrap(orig_init)
        opt.evaluate = wrap(orig_eval)
        for nm in ("init_pos", "iterate"):
            orig = getattr(opt, nm)

            def wp(orig=orig):
                p = orig()
                holder["pos"] = p
                return p
            setattr(opt, nm, wp)

    with trk.pos_new_hook(lambda: cap_holder["cap"]):
        out = scen.run_scenario(spec, with_model=False, on_built=on_built, on_eval=mon)
    return out, mon, cap_holder["cap"]


FALLBACK_OPTIMIZERS = ["ParticleSwarmOptimizer", "SpiralOptimization", "EvolutionStrategyOptimizer", "GeneticAlgorithmOptimizer",
                       "DifferentialEvolutionOptimizer", "PatternSearch", "PowellsMethod", "DownhillSimplexOptimizer", "DirectAlgorithm",
                       "GridSearchOptimizer", "ParallelTemperingOptimizer"]


def backend_runs(r, quick):
    specs = bkgen.all_optimizer_scenarios(r, C.T(5, 40), constraint_p=0.5, nonfinite_p=0.25)
    # the "check, else ONE fallback kernel" optimizers under non-convex constraints on roomy spaces: the fallback is taken often
    r2 = C.rng("C19-fallback")
    for name in FALLBACK_OPTIMIZERS:
        for _ in range(C.T(3, 20)):
            sp = bkgen.scenario(r2, name, constraint_p=0.0, sizes=[7, 10, 15, 21])
            if len(sp["space"]) < 2:
                continue
            sp["constraint"] = gen.gen_constraint(r2, sp["space"], kinds=("ring", "ring", "mask", "band", "paritysum"))
            specs.append(sp)
    fails, keys, samples, dis = [], set(), [], []
    n_ops = 0
    unmodelled = set()
    for spec in specs:
        out, mon, cap = run_one(spec)
        real = out["real"]
        if any(rc["exc"] for rc in real["records"]):
            D.SKIPPED_RAISES.append(f"{D.opt_tag(spec)}: {type([rc['exc'] for rc in real['records'] if rc['exc']][0]).__name__}")
        fails += mon.fails
        d = trk.compare(cap)
        n_ops += len(cap.lines)
        unmodelled |= cap.unmodelled
        if d is not None and len(dis) < 10:
            dis.append(dict(case=spec, diff=d))
        keys.add((spec["opt"], "constraint" if spec["constraint"] else "free", "nonfinite" if "nonfinite" in spec["objective"] else "finite",
                  tuple(sorted({k for _n, _o, k in cap.objs}))))
        if len(samples) < 2:
            samples.append(dict(spec=spec, tracker_objects=[(n, k) for n, _o, k in cap.objs], ops=len(cap.lines)))
    return len(specs), fails, keys, samples, n_ops, dis, sorted(unmodelled)


def escalate(chk, names):
    """the broken correspondences name optimizers: many more runs of exactly those, on roomy spaces under non-convex constraints,
    with small populations (each member is evaluated often) and long calls"""
    r = C.rng("C19-escalate")
    names = [n for n in names if n in gen.ALL_OPTIMIZERS] or list(FALLBACK_OPTIMIZERS)
    fails, n = [], 0
    for name in names[:6]:
        for _ in range(30):
            sp = bkgen.scenario(r, name, constraint_p=0.0, sizes=[7, 10, 15, 21], iters=60)
            if len(sp["space"]) < 2:
                continue
            sp["constraint"] = gen.gen_constraint(r, sp["space"], kinds=("ring", "band", "paritysum", "mask"))
            if "population" in sp["opt_kwargs"]:
                sp["opt_kwargs"]["population"] = r.choice([2, 3, 4])
            out, mon, cap = run_one(sp)
            n += 1
            fails += mon.fails
            if mon.fails and len(fails) > 20:
                break
    chk.monitor("ESCALATED search (a correspondence broke): C19 statement on many more real runs of the optimizers named by the broken cases", n, fails)


def run():
    chk = Check("C19", props_modules=["GFO.Props.C19", "GFO.Props.LocalRuns", "GFO.Props.PopRuns", "GFO.Props.EvoRuns", "GFO.Props.PatternRuns", "GFO.Props.PowellRuns", "GFO.Props.SimplexRuns", "GFO.Props.DirectRuns", "GFO.Props.SmboPosRuns", "GFO.Gen.TrackerGenCheck", "GFO.Gen.PopIterGenCheck", "GFO.Gen.PatternGenCheck", "GFO.Gen.PowellGenCheck"], gen_steps=(translators.gen_tracker, translators.gen_popiter, translators.gen_pattern, translators.gen_powell, translators.gen_pins))
    chk.build_and_audit()
    r = C.rng("C19")
    quick = C.tier() != "thorough"
    br = chk.stage("backend runs", backend_runs, r, quick)
    if br:
        n, fails, keys, samples, n_ops, dis, unmodelled = br
        chk.corr("backend-level: evaluate / evaluate_init of every modelled tracking object (optimizer, particles, individuals, spirals, systems, inner grid) replayed on GFO.Model.Tracker; tracked pairs and valid lists compared after every call",
                 n_ops, dis, keys, samples)
        chk.monitor("C19 statement on real runs of all 22 optimizers and all their sub-optimizers, after every step (ties, non-finite scores, constraints)", n, fails)
        chk.notes.append("tracking classes replayed on the model: HillClimbing family, Stochastic/SimulatedAnnealing (also as ParallelTempering systems), RandomSearch, both grid searches, Particle, Individual, Spiral; "
                         "monitored only (no tracker model): %s" % unmodelled)
    chk.assumptions.append("the link 'log entry = really evaluated pair' (pos_new of the receiving tracker is the position returned to the driver) is established per run by the monitor")
    from . import localgen
    localgen.add_to(chk, C.rng("C19-local"), C.T(8, 80), constraint_p=0.5)
    localgen.add_pt_to(chk, C.rng("C19-pt"), C.T(20, 200), constraint_p=0.5)
    localgen.add_pattern_to(chk, C.rng("C19-pattern"), C.T(20, 200), constraint_p=0.5, nonfinite_p=0.2)
    localgen.add_powell_to(chk, C.rng("C19-powell"), C.T(20, 200), constraint_p=0.6, nonfinite_p=0.2)
    localgen.add_simplex_to(chk, C.rng("C19-simplex"), C.T(20, 200), constraint_p=0.5, nonfinite_p=0.2)
    localgen.add_direct_to(chk, C.rng("C19-direct"), C.T(20, 200), constraint_p=0.5, nonfinite_p=0.2)
    localgen.add_smbo_to(chk, C.rng("C19-smbo"), C.T(4, 30), constraint_p=0.5, nonfinite_p=0.2)
    if chk.needs_escalation():
        chk.stage("escalated search", escalate, chk, chk.broken_opts())
    scen.shutdown_manager()
    return chk.finish()
