"""C10 - warm-start points are always evaluated during initialisation."""
import numpy as np

from .. import common as C, gen, scen, initcap, translators
from ..runner import Check
from . import drvcommon as D
from .C02 import init_level


def split_level():
    from gradient_free_optimizers.optimizers.pop_opt.base_population_optimizer import split
    lines, expect = [], []
    for n in list(range(0, 14)) + [20, 37]:
        for pop in (1, 2, 3, 4, 5, 10, 15):
            lines.append(f"split {pop} {n}")
            expect.append(C.show_list(split(list(range(n)), pop), lambda l: C.show_list(l, str)))
    got = C.run_driver(lines)
    dis = [dict(case=None, diff=dict(cmd=l, real=e, model=g)) for l, e, g in zip(lines, expect, got) if e != g][:10]
    return len(lines), dis


def gen_case(r, name):
    nd = r.choice([1, 2, 2, 3])
    space = gen.gen_space(r, ndims=nd, sizes=[2, 3, 5, 10, 31] if name not in gen.SMBO else [3, 5, 10])
    names = list(space)
    ws = []
    for _ in range(r.choice([1, 1, 2, 3, 6, 20])):
        ks = list(names)
        r.shuffle(ks)
        ws.append({n: r.choice(space[n]) for n in ks})
        if r.random() < 0.25:
            ws.append(dict(ws[-1]))
    ini = {"warm_start": ws}
    for k in ("random", "grid", "vertices"):
        if r.random() < 0.5:
            ini[k] = r.choice([0, 1, 2, 3, 4, 7, 8])
    kw = {}
    if name in gen.POPULATION:
        kw["population"] = r.choice([1, 2, 3, 5, 10, 15])
    spec = dict(opt=name, space=space, initialize=ini, opt_kwargs=kw, seed=r.randrange(100000),
                objective=gen.gen_objective(r, space, kinds=("lin", "peak", "plateau")), constraint=None, durs=[0])
    spec["objective"].pop("metrics", None)
    if r.random() < 0.45 and gen.space_size(space) >= 4:
        spec["constraint"] = gen.gen_constraint(r, space)
    return spec


def monitor_case(spec):
    space, opt = scen.build_optimizer(spec)
    names = list(space)
    n_inits = opt.init.n_inits
    spec = dict(spec, calls=[dict(n_iter=n_inits + (0 if spec["opt"] in gen.SMBO else 2), memory="on", verbosity=False)])
    out = scen.run_scenario(spec, with_model=False)
    real = out["real"]
    fails = []
    tag = D.opt_tag(spec)
    rec = real["records"][0]
    if rec["exc"] is not None:
        D.SKIPPED_RAISES.append(f"{tag}: {type(rec['exc']).__name__}")
        return fails, None
    o = real["opt"]
    f = real["f"]
    cfn = gen.build_constraint(spec["constraint"], spec["space"]) if spec.get("constraint") else (lambda p: True)
    rows = o.results_mang.results_list[:o.init.n_inits]
    first = {tuple(float(rw[n]) for n in names) for rw in rows}
    for w in spec["initialize"]["warm_start"]:
        if not cfn(w):
            continue
        key = tuple(float(w[n]) for n in names)
        if key not in first:
            fails.append(dict(signature=f"C10|{tag}|warm-start-point-not-evaluated-in-initialisation",
                              detail=f"warm start {w} is feasible and in the space but is not among the first n_inits={o.init.n_inits} rows", case=spec))
            break
        res = f(w)
        s = res[0] if isinstance(res, tuple) else res
        if D.isfinite(s) and not (float(o.best_score) >= float(s)):
            fails.append(dict(signature=f"C10|{tag}|best_score<objective(w)", detail=f"best_score {o.best_score} < objective({w}) = {s}", case=spec))
            break
    return fails, (spec["opt"], "constraint" if spec.get("constraint") else "free", spec["opt_kwargs"].get("population"),
                   "pop>inits" if (spec["opt_kwargs"].get("population") or 0) > len(spec["initialize"]["warm_start"]) else "pop<=inits")


def chain_case(r, name):
    """feeding one run's best_para into another run's warm_start never yields a worse best score"""
    space = gen.gen_space(r, ndims=r.choice([1, 2, 3]), sizes=[3, 5, 10, 31] if name not in gen.SMBO else [3, 5, 10])
    obj = gen.gen_objective(r, space, kinds=("lin", "peak", "plateau"))
    obj.pop("metrics", None)
    kw = {"population": r.choice([1, 3, 10])} if name in gen.POPULATION else {}
    s1 = dict(opt=name, space=space, initialize={"random": 3, "vertices": 1}, opt_kwargs=kw, seed=r.randrange(10000), objective=obj,
              constraint=None, durs=[0], calls=[dict(n_iter=8 if name in gen.SMBO else 15, memory="on")])
    r1 = scen.run_scenario(s1, with_model=False)["real"]
    if r1["records"][0]["exc"] is not None:
        return [], None
    bp = {k: (v.item() if hasattr(v, "item") else v) for k, v in r1["opt"].best_para.items()}
    keys = list(bp)
    r.shuffle(keys)
    s2 = dict(s1, seed=r.randrange(10000), initialize={"warm_start": [{k: bp[k] for k in keys}], "random": r.choice([0, 1, 2])})
    space2, o2 = scen.build_optimizer(s2)
    s2["calls"] = [dict(n_iter=o2.init.n_inits, memory="on")]
    r2 = scen.run_scenario(s2, with_model=False)["real"]
    if r2["records"][0]["exc"] is not None:
        return [], None
    fails = []
    if float(r2["opt"].best_score) < float(r1["opt"].best_score):
        fails.append(dict(signature=f"C10|{D.opt_tag(s2)}|chained-run-worse", detail=f"run 2 warm-started from run 1's best_para: best {r2['opt'].best_score} < {r1['opt'].best_score}", case=s2))
    return fails, (name, "chain")


def run():
    chk = Check("C10", props_modules=["GFO.Props.C10", "GFO.Props.InitRuns", "GFO.Props.InitRuns2", "GFO.Props.PopInitRuns", "GFO.Gen.InitGenCheck", "GFO.Gen.PopGenCheck"], gen_steps=(translators.gen_init, translators.gen_pop))
    chk.build_and_audit()
    r = C.rng("C10")
    quick = C.tier() != "thorough"
    sl = chk.stage("split function-level", split_level)
    if sl:
        chk.corr("function-level split(positions, population) vs GFO.splitDeal", sl[0], sl[1], {("split",)})
    il = chk.stage("Initializer function-level", init_level, r, C.T(120, 1200))
    if il:
        n, dis, keys, fails = il
        chk.corr("function-level Initializer with warm_start lists (shuffled keys, duplicates, off-grid values) vs GFO.Model.Init.setPos", n, dis, keys)

    def runs():
        fails, keys, n = [], set(), 0
        for name in gen.ALL_OPTIMIZERS:
            for _ in range((3 if name in gen.SMBO else 8) if quick else (20 if name in gen.SMBO else 60)):
                fl, k = monitor_case(gen_case(r, name))
                n += 1
                fails += fl
                if k:
                    keys.add(k)
            for _ in range(1 if quick else 8):
                fl, k = chain_case(r, name)
                n += 1
                fails += fl
                if k:
                    keys.add(k)
        return n, fails, keys

    rr = chk.stage("warm-start runs", runs)
    if rr:
        n, fails, keys = rr
        chk.monitor("C10 statement on real runs of all 22 optimizers (shuffled keys, duplicates, populations smaller/equal/larger than the number of initial positions, constraints, chained runs)",
                    n, fails, keys, [dict(what="n_iter = n_inits; every feasible in-space warm-start point must be among the first n_inits rows")])
    scen.shutdown_manager()
    return chk.finish()
