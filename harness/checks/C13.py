"""C13 - early_stopping stops exactly per its documented no-improvement rule."""
import itertools
from fractions import Fraction
from concurrent.futures import ProcessPoolExecutor

import numpy as np

from .. import common as C, gen, scen, translators
from ..common import tok_f, tok_opt
from ..runner import Check
from . import drvgen, drvcommon as D


def spec_rule(scores, n, tol_abs, tol_rel):
    """the documented rule, on exact rationals"""
    qs = [Fraction(s) for s in scores]
    if len(qs) <= n:
        return False
    last, earlier = qs[len(qs) - n:], qs[:len(qs) - n]
    bl, be = max(last), max(earlier)
    if bl <= be:
        return True
    if tol_abs is not None and bl - be < Fraction(tol_abs):
        return True
    if tol_rel is not None and be != 0 and (bl - be) / abs(be) * 100 < Fraction(tol_rel):
        return True
    return False


def _call_real(scores, es):
    from gradient_free_optimizers._stop_run import no_change
    try:
        r = no_change(list(scores), es)
        return "true" if r else "false"
    except ZeroDivisionError:
        return "err:ZeroDivisionError"
    except Exception as e:  # noqa
        return "err:Other(%s)" % type(e).__name__


def _chunk(args):
    """one worker: enumerate sequences of a given prefix; returns (lines, expect, spec_failures, count)"""
    alphabet, maxlen, prefix, ns, tols, flavours = args
    import warnings
    warnings.filterwarnings("ignore")
    lines, expect, fails = [], [], []
    for L in range(len(prefix), maxlen + 1):
        for tail in itertools.product(alphabet, repeat=L - len(prefix)):
            seq = list(prefix) + list(tail)
            if not seq:
                continue
            for n in ns:
                for ta in tols:
                    for tr in tols:
                        es = {"n_iter_no_change": n}
                        if ta is not None:
                            es["tol_abs"] = ta
                        if tr is not None:
                            es["tol_rel"] = tr
                        want = "true" if spec_rule(seq, n, ta, tr) else "false"
                        for flv in flavours:
                            sc = [np.float64(x) for x in seq] if flv == "np" else [float(x) for x in seq]
                            got = _call_real(sc, es)
                            lines.append(f"nochange {flv} {n} {tok_opt(ta, tok_f)} {tok_opt(tr, tok_f)} {len(seq)} " + " ".join(tok_f(x) for x in seq))
                            expect.append(got)
                            if got != want and len(fails) < 5:
                                fails.append(dict(signature="C13|no_change-deviates-from-documented-rule" if not got.startswith("err") else "C13|no_change-raises",
                                                  detail=f"no_change({seq}, {es}) [{flv}] = {got}, documented rule = {want}", case=dict(scores=seq, es=es, flv=flv)))
    return lines, expect, fails


def function_level(quick):
    alphabet = [-1, 0, 1, 2] if quick else [-1, 0, 0.5, 1, 2]
    maxlen = 6 if quick else 7
    ns = [1, 2, 3] if quick else [1, 2, 3, 4]
    tols = [None, 0.5, 50]
    prefixes = [(a, b) for a in alphabet for b in alphabet] + [(a,) for a in alphabet]
    jobs = [(alphabet, maxlen, p, ns, tols, ("py", "np")) for p in prefixes if len(p) == 2] + \
           [(alphabet, 1, p, ns, tols, ("py", "np")) for p in prefixes if len(p) == 1]
    n = 0
    dis, fails = [], []
    with ProcessPoolExecutor(max_workers=14) as ex:
        for lines, expect, fl in ex.map(_chunk, jobs):
            got = C.run_driver(lines)
            n += len(lines)
            fails += fl
            for l, e, g in zip(lines, expect, got):
                if e != g and len(dis) < 10:
                    dis.append(dict(case=None, diff=dict(cmd=l, real=e, model=g)))
    return n, dis, fails, dict(alphabet=alphabet, maxlen=maxlen, ns=ns, tols=tols)


def random_long(r, k):
    lines, expect, fails = [], [], []
    for _ in range(k):
        L = r.randrange(2, 60)
        seq = [r.randrange(-16, 17) / 8 for _ in range(L)]
        n = r.choice([1, 2, 3, 5, 10, 20])
        ta = r.choice([None, 0.125, 0.5, 3])
        tr = r.choice([None, 1, 50, 200])
        es = {"n_iter_no_change": n}
        if ta is not None:
            es["tol_abs"] = ta
        if tr is not None:
            es["tol_rel"] = tr
        # only cases whose relative test is exact in floating point (divisor a power of two) or not tight
        qs = [Fraction(s) for s in seq]
        if len(qs) > n and tr is not None:
            be = max(qs[:len(qs) - n]); bl = max(qs[len(qs) - n:])
            if be != 0 and bl > be:
                exact = (bl - be) / abs(be) * 100
                if abs(exact - tr) < Fraction(1, 10 ** 6) and abs(be).denominator * abs(be).numerator not in (1, 2, 4, 8):
                    continue
        want = "true" if spec_rule(seq, n, ta, tr) else "false"
        for flv in ("py", "np"):
            sc = [np.float64(x) for x in seq] if flv == "np" else seq
            got = _call_real(sc, es)
            lines.append(f"nochange {flv} {n} {tok_opt(ta, tok_f)} {tok_opt(tr, tok_f)} {len(seq)} " + " ".join(tok_f(x) for x in seq))
            expect.append(got)
            if got != want:
                fails.append(dict(signature="C13|no_change-deviates-from-documented-rule", detail=f"no_change({seq}, {es}) [{flv}] = {got}, rule = {want}", case=dict(scores=seq, es=es)))
    got = C.run_driver(lines)
    dis = [dict(case=None, diff=dict(cmd=l, real=e, model=g)) for l, e, g in zip(lines, expect, got) if e != g][:10]
    return len(lines), dis, fails


def monitor(out):
    real = out["real"]
    opt, spec = real["opt"], real["spec"]
    fails = D.raise_failures("C13", out)
    tag = D.opt_tag(spec)
    rows = opt.results_mang.results_list
    for idx, r in enumerate(real["records"]):
        c = r["spec"]
        if r["exc"] is not None or not c.early_stopping or c.max_score is not None or c.max_time is not None:
            continue
        es = c.early_stopping
        snap = r["snapshot"]
        allscores = [float(row["score"]) for row in rows[:snap["rows"]]]   # score_l accumulates over calls
        n0 = r["rows0"]
        n, ta, tr = es["n_iter_no_change"], es.get("tol_abs"), es.get("tol_rel")
        stop_at = None
        for k in range(n0 + 1, n0 + c.n_iter + 1):
            if k > len(allscores):
                break
            if spec_rule(allscores[:k], n, ta, tr):
                stop_at = k - n0
                break
        n_new = snap["rows"] - n0
        if stop_at is not None and n_new != stop_at:
            fails.append(dict(signature=f"C13|{tag}|wrong-stop-step", detail=f"early_stopping={es}: rule first holds after step {stop_at} of the call, rows={n_new}", case=spec))
        if stop_at is None and n_new != c.n_iter:
            fails.append(dict(signature=f"C13|{tag}|stopped-without-rule", detail=f"early_stopping={es}: rule never holds, rows={n_new} != n_iter={c.n_iter}", case=spec))
    return fails


def scenarios(r, n):
    out = []
    for _ in range(n):
        spec = drvgen.base_scenario(r, cheap_bias=0.9, constraint_p=0.1)
        calls, script = [], []
        for _c in range(r.choice([1, 1, 2])):
            n_iter = r.choice([3, 6, 10, 16]) if spec["opt"] not in gen.SMBO else r.choice([3, 6, 8])
            es = {"n_iter_no_change": r.choice([1, 2, 3, 5])}
            if r.random() < 0.5:
                es["tol_abs"] = r.choice([None, 0.5, 2])
            if r.random() < 0.5:
                es["tol_rel"] = r.choice([None, 50, 200])
            c = dict(n_iter=n_iter, memory="off", early_stopping=es, verbosity=False)
            k = r.random()
            if k < 0.1:      # combined criteria (correspondence only)
                c["max_score"] = r.choice([1.5, 1e9])
            elif k < 0.18:
                c["max_time"] = r.choice([1, 1000])
            calls.append(c)
            script += [r.choice([-1, 0, 0.5, 1, 2, 4]) for _ in range(n_iter)]
        spec["calls"] = calls
        spec["script"] = script + [0.0] * 4
        spec["objective"]["np"] = r.random() < 0.4
        out.append(spec)
    return out


def run():
    chk = Check("C13", props_modules=["GFO.Props.C13", "GFO.Gen.StopGenCheck", "GFO.Gen.DriverGenCheck"], gen_steps=(translators.gen_stop, translators.gen_driver,))
    chk.build_and_audit()
    r = C.rng("C13")
    quick = C.tier() != "thorough"
    fl = chk.stage('function-level exhaustive', function_level, quick)
    n, dis, fails, cfg = fl if fl else (0, [], [], {})
    chk.corr("function-level no_change: EXHAUSTIVE over all sequences of the alphabet up to the length bound x n x tolerances x python/numpy floats", n, dis,
             {("fn", "exhaustive", str(cfg))}, [cfg])
    chk.monitor("documented rule (exact rationals) vs no_change on the same enumeration", n, fails)
    fl2 = chk.stage('function-level random', random_long, r, C.T(1500, 20000))
    n2, dis2, fails2 = fl2 if fl2 else (0, [], [])
    chk.corr("function-level no_change: random longer sequences (length <= 60, values k/8)", n2, dis2, {("fn", "random-long")})
    chk.monitor("documented rule vs no_change on random longer sequences", n2, fails2)
    specs = scenarios(r, C.T(100, 1000))
    fl = D.run_specs(chk, "driver-level stop step under early_stopping vs search.py/_stop_run.py", specs, monitor)
    chk.monitor("C13 stop step on the real runs (scripted dyadic sequences, python and numpy scores, repeated calls)", len(specs), fl)
    chk.exhaustive = True
    chk.notes.append("exhaustive enumeration: %s; dyadic alphabet keeps float arithmetic exact" % cfg)
    scen.shutdown_manager()
    return chk.finish()
