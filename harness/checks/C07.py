"""C07 - a fixed random_state makes a run exactly reproducible."""
import contextlib
import copy
import random

import numpy as np

from .. import common as C, gen, scen, translators
from ..runner import Check
from . import bkgen, drvcommon as D

PY_FUNCS = ["random", "uniform", "randint", "choice", "choices", "sample", "shuffle"]
NP_FUNCS = ["randint", "uniform", "choice", "normal", "laplace", "logistic", "gumbel", "random_sample", "random", "rand", "randn", "permutation", "shuffle"]


@contextlib.contextmanager
def rng_trace(log):
    """log seed / draw events on the two global generators (pass-through wrappers)"""
    saved = []

    def wrap(mod, name, tag):
        orig = getattr(mod, name)

        def w(*a, **k):
            log.append((tag, name))
            return orig(*a, **k)
        saved.append((mod, name, orig))
        setattr(mod, name, w)

    wrap(random, "seed", "pyseed")
    wrap(np.random, "seed", "npseed")
    for f in PY_FUNCS:
        wrap(random, f, "pydraw")
    for f in NP_FUNCS:
        if hasattr(np.random, f):
            wrap(np.random, f, "npdraw")
    import gradient_free_optimizers.optimizers.core_optimizer.core_optimizer as co
    saved_dist = dict(co.dist_dict)
    for k, fn in saved_dist.items():
        def w(*a, _fn=fn, _k=k, **kw):
            log.append(("npdraw", _k))
            return _fn(*a, **kw)
        co.dist_dict[k] = w
    try:
        yield
    finally:
        for mod, name, orig in saved:
            setattr(mod, name, orig)
        co.dist_dict.update(saved_dist)


def ambient(k):
    random.seed(1000 + 17 * k)
    np.random.seed(2000 + 31 * k)
    for _ in range(k * 3):
        random.random(); np.random.random_sample()


def run_once(spec, random_state, amb, nth_process=None, trace=None):
    space = gen.build_space(spec["space"])
    names = list(space)
    f = gen.build_objective(spec["objective"], names)
    cls = gen.get_class(spec["opt"])
    kw = dict(spec.get("opt_kwargs", {}))
    import inspect
    accepted = set(inspect.signature(cls.__init__).parameters)
    kw = {k: v for k, v in kw.items() if k in accepted}
    if spec.get("constraint"):
        kw["constraints"] = [gen.build_constraint(spec["constraint"], spec["space"])]
    ambient(amb)
    ctx = rng_trace(trace) if trace is not None else contextlib.nullcontext()
    with ctx:
        opt = cls(space, initialize=dict(spec["initialize"]), random_state=random_state, nth_process=nth_process, **kw)
        n_construct = len(trace) if trace is not None else 0
    with scen.time_limit(scen.WATCHDOG_S * 2):
        opt.search(f, n_iter=spec["n_iter"], verbosity=False)
    return opt, n_construct


def same(a, b):
    return D.frames_equal(a.search_data, b.search_data) and D.same_num(a.best_score, b.best_score) and \
        {k: float(v) for k, v in (a.best_para or {}).items()} == {k: float(v) for k, v in (b.best_para or {}).items()}


def cases(r, quick):
    out = []
    for name in gen.ALL_OPTIMIZERS:
        for _ in range((1 if name in gen.SMBO else 2) if quick else (4 if name in gen.SMBO else 10)):
            sp = bkgen.scenario(r, name, constraint_p=0.3)
            sp["n_iter"] = 10 if name in gen.SMBO else r.choice([15, 30])
            out.append(sp)
    return out


def run():
    chk = Check("C07", gen_steps=(translators.gen_entropy,))
    chk.build_and_audit()
    r = C.rng("C07")
    quick = C.tier() != "thorough"

    def stage():
        fails, keys, dis, n = [], set(), [], 0
        for spec in cases(r, quick):
            tag = D.opt_tag(spec)
            s = r.randrange(0, 2 ** 31 - 3)
            try:
                tr = []
                a, nc = run_once(spec, s, 0, trace=tr)
                b, _ = run_once(spec, s, r.choice([1, 2, 5]))
            except scen.StepTimeout:
                D.SKIPPED_RAISES.append(f"{tag}: watchdog (C08)")
                continue
            except Exception as e:  # noqa
                D.SKIPPED_RAISES.append(f"{tag}: {type(e).__name__}")
                continue
            n += 2
            if not same(a, b):
                fails.append(dict(signature=f"C07|{tag}|same-seed-different-run", detail=f"random_state={s}: two runs under different ambient generator states differ", case=dict(spec, random_state=s)))
            if a.random_seed != s:
                fails.append(dict(signature=f"C07|{tag}|random_seed!=random_state", detail=f"{a.random_seed} != {s}", case=spec))
            # trace grammar: construction starts by seeding both generators, nothing is drawn before
            head = [t for t in tr[:nc]][:2]
            if [h[0] for h in head] != ["pyseed", "npseed"]:
                dis.append(dict(case=spec, diff=dict(what="RNG trace of the constructor must start with random.seed, np.random.seed (seedFnOrder)", real=str(tr[:4]), model="[pyseed, npseed, …]")))
            # random_state=None is reproduced by its random_seed attribute
            try:
                tr2 = []
                c, nc2 = run_once(spec, None, 3, trace=tr2)
                d, _ = run_once(spec, c.random_seed, 4)
                n += 2
                if not same(c, d):
                    fails.append(dict(signature=f"C07|{tag}|random_seed-does-not-reproduce", detail=f"random_state=None run is not reproduced by random_state=random_seed={c.random_seed}", case=spec))
                head2 = [h[0] for h in tr2[:3]]
                if head2 != ["npdraw", "pyseed", "npseed"]:
                    dis.append(dict(case=spec, diff=dict(what="constructor with random_state=None: one numpy draw, then both seeds", real=str(tr2[:4]), model="[npdraw, pyseed, npseed, …]")))
            except scen.StepTimeout:
                D.SKIPPED_RAISES.append(f"{tag}: watchdog (C08)")
            # nth_process offset
            for nth in (0, 3):
                try:
                    e, _ = run_once(dict(spec, n_iter=1), s, 0, nth_process=nth)
                    if e.random_seed != s + nth:
                        fails.append(dict(signature=f"C07|{tag}|random_seed!=random_state+nth_process", detail=f"{e.random_seed} != {s}+{nth}", case=spec))
                except Exception:
                    pass
            keys.add((spec["opt"], "constraint" if spec.get("constraint") else "free", "draws-in-constructor" if nc > 2 else "none"))
        return n, fails, keys, dis

    st = chk.stage("paired runs and RNG traces", stage)
    if st:
        n, fails, keys, dis = st
        chk.corr("RNG event traces of real constructions vs the seeding grammar of the model / generated seedFnOrder", n // 2, dis, keys)
        chk.monitor("paired runs: same integer seed under different ambient generator states; random_state=None reproduced by random_seed; nth_process offset", n, fails)
    chk.assumptions.append("the generators (Mersenne Twister, numpy legacy RandomState, sklearn drawing from numpy's singleton) are deterministic functions of their state; "
                           "the ast census (harness/translators.py:gen_entropy) can miss dynamically constructed entropy (getattr/eval) - none exists today")
    scen.shutdown_manager()
    return chk.finish()
