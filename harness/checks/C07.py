"""C07 - a fixed random_state makes a run exactly reproducible."""
import contextlib
import copy
import random

import numpy as np

from .. import common as C, gen, scen, translators
from ..runner import Check
from . import bkgen, drvcommon as D

PY_FUNCS = ["random", "uniform", "randint", "choice", "choices", "sample", "shuffle"]
NP_FUNCS = ["randint", "uniform", "choice", "normal", "laplace", "logistic", "gumbel", "random_sample", "random", "rand", "randn", "permutation", "shuffle"]


@contextlib.contextmanager
def rng_trace(log):
    """log seed / draw events on the two global generators (pass-through wrappers)"""
    saved = []

    def wrap(mod, name, tag):
        orig = getattr(mod, name)

        def w(*a, **k):
            log.append((tag, name))
            return orig(*a, **k)
        saved.append((mod, name, orig))
        setattr(mod, name, w)

    wrap(random, "seed", "pyseed")
    wrap(np.random, "seed", "npseed")
    for f in PY_FUNCS:
        wrap(random, f, "pydraw")
    for f in NP_FUNCS:
        if hasattr(np.random, f):
            wrap(np.random, f, "npdraw")
    import gradient_free_optimizers.optimizers.core_optimizer.core_optimizer as co
    saved_dist = dict(co.dist_dict)
    for k, fn in saved_dist.items():
        def w(*a, _fn=fn, _k=k, **kw):
            log.append(("npdraw", _k))
            return _fn(*a, **kw)
        co.dist_dict[k] = w
    try:
        yield
    finally:
        for mod, name, orig in saved:
            setattr(mod, name, orig)
        co.dist_dict.update(saved_dist)


def ambient(k):
    random.seed(1000 + 17 * k)
    np.random.seed(2000 + 31 * k)
    for _ in range(k * 3):
        random.random(); np.random.random_sample()


def run_once(spec, random_state, amb, nth_process=None, trace=None):
    space = gen.build_space(spec["space"])
    names = list(space)
    f = gen.build_objective(spec["objective"], names)
    cls = gen.get_class(spec["opt"])
    kw = dict(spec.get("opt_kwargs", {}))
    import inspect
    accepted = set(inspect.signature(cls.__init__).parameters)
    kw = {k: v for k, v in kw.items() if k in accepted}
    if spec.get("constraint"):
        kw["constraints"] = [gen.build_constraint(spec["constraint"], spec["space"])]
    ambient(amb)
    ctx = rng_trace(trace) if trace is not None else contextlib.nullcontext()
    with ctx:
        opt = cls(space, initialize=dict(spec["initialize"]), random_state=random_state, nth_process=nth_process, **kw)
        n_construct = len(trace) if trace is not None else 0
    with scen.time_limit(scen.WATCHDOG_S * 2):
        opt.search(f, n_iter=spec["n_iter"], verbosity=False)
    return opt, n_construct


def same(a, b):
    return D.frames_equal(a.search_data, b.search_data) and D.same_num(a.best_score, b.best_score) and \
        {k: float(v) for k, v in (a.best_para or {}).items()} == {k: float(v) for k, v in (b.best_para or {}).items()}


def _defaults_snapshot(cls):
    """deep copy of every default argument value along the MRO (a mutable default that a run alters is hidden state
    shared by later instances: the run is then no longer a function of (random_state, arguments))"""
    snap = {}
    for k in cls.__mro__:
        init = k.__dict__.get("__init__")
        if init is None or not hasattr(init, "__defaults__"):
            continue
        snap[k.__qualname__] = (copy.deepcopy(init.__defaults__), copy.deepcopy(init.__kwdefaults__))
    return snap


def _dims_space(n_dims, size):
    return {f"x{i}": np.arange(-(size // 2), size - size // 2, 1) for i in range(n_dims)}


def repeat_cases(r, quick):
    """configurations whose start-up tops up or reshapes the initialisation (large populations, many dimensions) and
    plain ones; `how` says how the `initialize` argument is supplied"""
    out = []
    for name in gen.ALL_OPTIMIZERS:
        variants = [dict(n_dims=2, size=9, kw={})]
        if name in gen.POPULATION:
            variants.append(dict(n_dims=2, size=9, kw={"population": r.choice([11, 13, 15, 20])}))
        if name == "DownhillSimplexOptimizer":
            variants.append(dict(n_dims=r.choice([10, 11, 12]), size=5, kw={}))
        if name in gen.SMBO and quick:
            variants = variants[:1]
        for v in variants:
            for how in ("default", "shared-dict"):
                out.append(dict(opt=name, how=how, n_iter=8 if name in gen.SMBO else 25, **v))
    return out


def repeat_runs(case, s):
    """three optimizers built one after the other IN THIS PROCESS with identical arguments"""
    cls = gen.get_class(case["opt"])
    space = _dims_space(case["n_dims"], case["size"])
    names = list(space)

    def f(p):
        return -sum((float(p[k]) - 1) ** 2 for k in names)
    shared = {"grid": 3, "random": 2, "vertices": 2}
    shared0 = copy.deepcopy(shared)
    before = _defaults_snapshot(cls)
    runs = []
    for k in range(3):
        ambient(k)
        kw = dict(case["kw"])
        if case["how"] == "shared-dict":
            kw["initialize"] = shared
        opt = cls(space, random_state=s, **kw)
        with scen.time_limit(scen.WATCHDOG_S * 2):
            opt.search(f, n_iter=case["n_iter"], verbosity=False)
        runs.append(opt)
    after = _defaults_snapshot(cls)
    return runs, repr(before) == repr(after), shared == shared0


def cases(r, quick):
    out = []
    for name in gen.ALL_OPTIMIZERS:
        for _ in range((1 if name in gen.SMBO else 2) if quick else (4 if name in gen.SMBO else 10)):
            sp = bkgen.scenario(r, name, constraint_p=0.3)
            sp["n_iter"] = 10 if name in gen.SMBO else r.choice([15, 30])
            out.append(sp)
    # corpus: optimizers that build an inner optimizer and draw AFTER construction (fixed: d4e3c2e) - grid search under
    # constraints falls back to random positions
    r2 = C.rng("C07-grid-constrained")
    for _ in range(C.T(4, 20)):
        sp = bkgen.scenario(r2, "GridSearchOptimizer", constraint_p=0.0, sizes=[3, 5, 7, 10])
        sp["constraint"] = gen.gen_constraint(r2, sp["space"], kinds=("mask", "half", "parity"))
        sp["n_iter"] = 25
        out.append(sp)
    return out


def escalate(chk):
    """the entropy census (or another obligation) broke and the paired runs found nothing: many more paired runs - every optimizer on
    several scenarios, the surrogate optimizers with candidate subsampling forced on (`sampling={"random": small}` on spaces that are
    larger), populations larger than the start-up list, constraints that force the random fallbacks"""
    r = C.rng("C07-escalate")
    fails, n = [], 0
    specs = []
    for name in gen.ALL_OPTIMIZERS:
        for _ in range(3 if name in gen.SMBO else 5):
            sp = bkgen.scenario(r, name, constraint_p=0.5)
            sp["n_iter"] = 12 if name in gen.SMBO else 30
            specs.append(sp)
        if name in gen.SMBO and name != "DirectAlgorithm":
            for _ in range(4):
                sp = bkgen.scenario(r, name, constraint_p=0.2, sizes=[5, 10])
                sp["opt_kwargs"]["sampling"] = {"random": r.choice([3, 5, 10])}
                sp["n_iter"] = 14
                specs.append(sp)
    for spec in specs:
        tag = D.opt_tag(spec)
        s = r.randrange(0, 2 ** 31 - 3)
        try:
            a, _ = run_once(spec, s, 0)
            b, _ = run_once(spec, s, r.choice([1, 2, 5]))
        except C.Infra:
            raise
        except Exception:  # noqa
            continue
        n += 2
        if not same(a, b):
            fails.append(dict(signature=f"C07|{tag}|same-seed-different-run", detail=f"random_state={s}: two runs under different ambient generator states differ", case=dict(spec, random_state=s)))
    chk.monitor("ESCALATED search (an obligation broke): many more paired runs, candidate subsampling of the surrogate optimizers forced on", n, fails)


def run():
    chk = Check("C07", props_modules=["GFO.Props.C07", "GFO.Gen.RngGenCheck"], gen_steps=(translators.gen_entropy, translators.gen_rng))
    chk.build_and_audit()
    r = C.rng("C07")
    quick = C.tier() != "thorough"

    def stage():
        fails, keys, dis, n = [], set(), [], 0
        for spec in cases(r, quick):
            tag = D.opt_tag(spec)
            s = r.randrange(0, 2 ** 31 - 3)
            try:
                tr = []
                a, nc = run_once(spec, s, 0, trace=tr)
                b, _ = run_once(spec, s, r.choice([1, 2, 5]))
            except scen.StepTimeout:
                D.SKIPPED_RAISES.append(f"{tag}: watchdog (C08)")
                continue
            except Exception as e:  # noqa
                D.SKIPPED_RAISES.append(f"{tag}: {type(e).__name__}")
                continue
            n += 2
            if not same(a, b):
                fails.append(dict(signature=f"C07|{tag}|same-seed-different-run", detail=f"random_state={s}: two runs under different ambient generator states differ", case=dict(spec, random_state=s)))
            if a.random_seed != s:
                fails.append(dict(signature=f"C07|{tag}|random_seed!=random_state", detail=f"{a.random_seed} != {s}", case=spec))
            # trace grammar: construction starts by seeding both generators, nothing is drawn before
            head = [t for t in tr[:nc]][:2]
            if [h[0] for h in head] != ["pyseed", "npseed"]:
                dis.append(dict(case=spec, diff=dict(what="RNG trace of the constructor must start with random.seed, np.random.seed (seedFnOrder)", real=str(tr[:4]), model="[pyseed, npseed, …]")))
            # random_state=None is reproduced by its random_seed attribute
            try:
                tr2 = []
                c, nc2 = run_once(spec, None, 3, trace=tr2)
                d, _ = run_once(spec, c.random_seed, 4)
                n += 2
                if not same(c, d):
                    fails.append(dict(signature=f"C07|{tag}|random_seed-does-not-reproduce", detail=f"random_state=None run is not reproduced by random_state=random_seed={c.random_seed}", case=spec))
                head2 = [h[0] for h in tr2[:3]]
                if head2 != ["npdraw", "pyseed", "npseed"]:
                    dis.append(dict(case=spec, diff=dict(what="constructor with random_state=None: one numpy draw, then both seeds", real=str(tr2[:4]), model="[npdraw, pyseed, npseed, …]")))
            except scen.StepTimeout:
                D.SKIPPED_RAISES.append(f"{tag}: watchdog (C08)")
            except C.Infra:
                raise
            except Exception as e:  # noqa - a run the library itself aborts (e.g. no feasible candidate row) is no statement about C07
                D.SKIPPED_RAISES.append(f"{tag}: {type(e).__name__} (random_state=None pair)")
            # nth_process offset
            for nth in (0, 3):
                try:
                    e, _ = run_once(dict(spec, n_iter=1), s, 0, nth_process=nth)
                    if e.random_seed != s + nth:
                        fails.append(dict(signature=f"C07|{tag}|random_seed!=random_state+nth_process", detail=f"{e.random_seed} != {s}+{nth}", case=spec))
                except Exception:
                    pass
            keys.add((spec["opt"], "constraint" if spec.get("constraint") else "free", "draws-in-constructor" if nc > 2 else "none"))
        return n, fails, keys, dis

    st = chk.stage("paired runs and RNG traces", stage)
    if st:
        n, fails, keys, dis = st
        chk.corr("RNG event traces of real constructions vs the seeding grammar of the model / generated seedFnOrder", n // 2, dis, keys)
        chk.monitor("paired runs: same integer seed under different ambient generator states; random_state=None reproduced by random_seed; nth_process offset", n, fails)
    def stage2():
        fails, keys, n = [], set(), 0
        for case in repeat_cases(r, quick):
            s = r.randrange(0, 2 ** 31 - 3)
            tag = f"{case['opt']}|{case['how']}|{sorted(case['kw'])}|dims={case['n_dims']}"
            try:
                runs, defaults_same, shared_same = repeat_runs(case, s)
            except scen.StepTimeout:
                D.SKIPPED_RAISES.append(f"{tag}: watchdog (C08)")
                continue
            except C.Infra:
                raise
            except Exception as e:  # noqa
                D.SKIPPED_RAISES.append(f"{tag}: {type(e).__name__}")
                continue
            n += 3
            for k in (1, 2):
                if not same(runs[0], runs[k]):
                    fails.append(dict(signature=f"C07|{tag}|same-seed-same-arguments-run-{k + 1}-differs-from-run-1",
                                      detail=f"random_state={s}: optimizer number {k + 1} built in the same process with identical arguments does not reproduce the first", case=dict(case, random_state=s)))
                    break
            # (a mutated default / caller dict alone is not a verdict: the property is about the runs; it only feeds the key)
            keys.add((case["opt"], case["how"], tuple(sorted(case["kw"])), case["n_dims"], defaults_same, shared_same))
        return n, fails, keys

    st2 = chk.stage("repeated construction in one process", stage2)
    if st2:
        n2, fails2, keys2 = st2
        chk.monitor("three optimizers built one after the other in one process with identical (default / shared) arguments reproduce each other", n2, fails2, keys2)
    chk.assumptions.append("the generators (Mersenne Twister, numpy legacy RandomState, sklearn drawing from numpy's singleton) are deterministic functions of their state; "
                           "the ast census (harness/translators.py:gen_entropy) can miss dynamically constructed entropy (getattr/eval) - none exists today")
    if chk.needs_escalation():
        chk.stage("escalated search", escalate, chk)
    scen.shutdown_manager()
    return chk.finish()
