"""C11 - memory_warm_start rows are trusted verbatim and never re-evaluated."""
import itertools

import numpy as np
import pandas as pd

from .. import common as C, gen, scen, drv, translators
from ..runner import Check
from . import drvgen, drvcommon as D
from .C20 import converter_cases


def monitor(out):
    real = out["real"]
    opt, spec, f, names = real["opt"], real["spec"], real["f"], real["names"]
    fails = D.raise_failures("C11", out)
    if any(r["exc"] for r in real["records"]):
        return fails
    tag = D.opt_tag(spec)
    rows = opt.results_mang.results_list
    paras = real["rec"].call_paras
    proxy_seen = False
    for r in real["records"]:
        c = r["spec"]
        carried = proxy_seen and drv.mem_mode(c.memory) == "shared"   # the user's dict still holds earlier entries
        proxy_seen = proxy_seen or drv.mem_mode(c.memory) == "shared"
        df = c.memory_warm_start
        if not isinstance(df, pd.DataFrame) or df.empty or not set(names) <= set(df.columns) or drv.mem_mode(c.memory) == "off":
            continue
        warm = {}
        for _, rw in df.iterrows():
            warm[tuple(float(rw[n]) for n in names)] = rw["score"]   # later duplicates overwrite, like dict(zip())
        snap = r["snapshot"]
        called = [tuple(float(p[n]) for n in names) for p in paras[r["calls0"]:r["calls1"]]]
        hit = [k for k in called if k in warm]
        if hit:
            fails.append(dict(signature=f"C11|{tag}|warm-row-re-evaluated", detail=f"{len(hit)} warm-start parameter sets were passed to the objective, e.g. {hit[0]}", case=spec))
        for row in rows[r["rows0"]:snap["rows"]]:
            key = tuple(float(row[n]) for n in names)
            if key in warm:
                if not D.same_num(row["score"], warm[key]):
                    fails.append(dict(signature=f"C11|{tag}|warm-score-not-verbatim", detail=f"{key}: row score {row['score']} != dataframe score {warm[key]}", case=spec))
                    break
            elif not carried:
                res = f({n: row[n] for n in names})
                s = res[0] if isinstance(res, tuple) else res
                if not D.same_num(row["score"], s):
                    fails.append(dict(signature=f"C11|{tag}|absent-row-wrong", detail=f"{key}: row score {row['score']} != objective {s}", case=spec))
                    break
        sc = [row["score"] for row in rows[r["rows0"]:snap["rows"]] if D.isfinite(row["score"])]
        if sc and D.isfinite(snap["best_score"]) and float(snap["best_score"]) != max(float(s) for s in sc):
            fails.append(dict(signature=f"C11|{tag}|best-ignores-warm", detail="best_score is not the max of the (warm) scores", case=spec))
    return fails


def scenarios(r, n):
    out = []
    for _ in range(n):
        spec = drvgen.base_scenario(r, cheap_bias=0.9, constraint_p=0.1, allow_single=False)
        spec["space"] = gen.gen_space(r, ndims=r.choice([1, 2, 2, 3]), sizes=[2, 3, 5, 10], orders=("asc", "desc", "shuf", "shuf"))
        spec["objective"] = gen.gen_objective(r, spec["space"], kinds=("lin", "peak", "plateau"))
        spec["constraint"] = None
        k = r.choice([1, 2, 3])
        calls = []
        for j in range(k):
            warm = r.choice(["subset", "all", "extra", "subset"]) if j == 0 else r.choice(["prev", "prev", "subset", "none", "empty", "missing"])
            calls.append(dict(n_iter=r.choice([4, 8, 15, 25]) if spec["opt"] not in gen.SMBO else 8, memory=r.choice(["on", "on", "proxy"]),
                              warm=warm, verbosity=False))
        spec["calls"] = calls
        out.append(spec)
    return out


def run():
    chk = Check("C11", props_modules=["GFO.Props.C11", "GFO.Gen.MemGenCheck", "GFO.Gen.ConvGenCheck"], gen_steps=(translators.gen_memory, translators.gen_converter))
    chk.build_and_audit()
    r = C.rng("C11")
    quick = C.tier() != "thorough"
    # function level: loader / wrapper key agreement on all array orders
    fl = chk.stage("function-level converter", converter_cases, r, quick, only=("vs2ps", "df2md", "v2p")) or dict(n=0, dis=[], keys=set(), samples=[], fails_c20=[], fails_c11=[])
    chk.corr("function-level values2positions / dataframe2memory_dict / value2position vs converter.py", fl["n"], fl["dis"], fl["keys"], fl["samples"])
    chk.monitor("loader key == wrapper key on members of the space (any order)", fl["n"], fl["fails_c11"])
    specs = scenarios(r, C.T(100, 1000))
    fails = D.run_specs(chk, "driver-level warm-started memory vs _memory.py / search.py", specs, monitor)
    chk.monitor("C11 statement on the real runs (call log vs dataframe, verbatim scores, chained runs)", len(specs), fails)
    scen.shutdown_manager()
    return chk.finish()
