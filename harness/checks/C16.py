"""C16 - grid search enumerates the whole space without repetition."""
import itertools
import math

import numpy as np

from .. import common as C, gen, scen, translators
from ..runner import Check


def shapes(quick, r):
    out = []
    for nd in (1, 2, 3, 4):
        for shape in itertools.product(range(1, 7), repeat=nd):
            S = int(np.prod(shape))
            if quick and S > 120:
                continue
            if quick and nd == 4 and max(shape) > 3:
                continue
            out.append(list(shape))
    rnd = []
    for _ in range(C.T(4, 30)):
        rnd.append([r.choice([7, 13, 31, 100, 250, 1000]), r.choice([2, 3, 5, 9])])
    return out, rnd


def divisors(S):
    return [d for d in range(1, S + 1) if S % d == 0]


def run_real(shape, direction, s, n_steps, initialize=None):
    from gradient_free_optimizers import GridSearchOptimizer
    space = {f"x{i}": np.arange(k) for i, k in enumerate(shape)}
    opt = GridSearchOptimizer(space, initialize=initialize or {"random": 1}, step_size=s, direction=direction, random_state=0)
    n_init = opt.init.n_inits
    with scen.time_limit(60):
        opt.search(lambda p: 0.0, n_iter=n_init + n_steps, memory=False, verbosity=False)
    pts = [[int(x) for x in p] for p in opt.pos_l[n_init:n_init + n_steps]]
    d = getattr(opt.grid_search_opt, "direction_calc", None)
    return pts, d


def run():
    chk = Check("C16", props_modules=["GFO.Props.C16", "GFO.Props.GridRuns", "GFO.Gen.GridGenCheck"], gen_steps=(translators.gen_grid,))
    chk.build_and_audit()
    r = C.rng("C16")
    quick = C.tier() != "thorough"

    def stage():
        lines, expect, meta, fails, keys = [], [], [], [], set()
        sh, rnd = shapes(quick, r)
        for shape in sh + rnd:
            S = int(np.prod(shape))
            divs = divisors(S)
            if shape in rnd:
                divs = [1, r.choice(divs)]
            elif quick and len(divs) > 4:
                divs = [1, divs[1], divs[-2], divs[-1]]
            start = int(np.round(np.power(S, 1 / len(shape))))
            for direction in ("diagonal", "orthogonal"):
                for s in divs:
                    n_steps = S if S <= 3000 else 3000
                    inits = {"random": 1} if r.random() < 0.8 else r.choice([{"vertices": 2, "grid": 2}, {"random": 3}])
                    pts, d = run_real(shape, direction, s, n_steps, inits)
                    if len({tuple(p) for p in pts}) != len(pts):
                        fails.append(dict(signature=f"C16|{direction}|repeated-position", detail=f"shape={shape} step_size={s}: {len(set(map(tuple, pts)))} distinct positions in {len(pts)} steps",
                                          case=dict(shape=shape, direction=direction, step_size=s)))
                    if any(not (0 <= c < k) for p in pts for c, k in zip(p, shape)):
                        fails.append(dict(signature=f"C16|{direction}|position-outside-box", detail=f"shape={shape} step_size={s}", case=dict(shape=shape, direction=direction, step_size=s)))
                    dims_tok = C.tok_list(shape, str)
                    if direction == "diagonal":
                        lines.append(f"gdir {S} {start}"); expect.append(str(int(d))); meta.append((shape, direction, s))
                        lines.append(f"gdiag {dims_tok} {s} {int(d)} {n_steps}")
                    else:
                        lines.append(f"gorth {dims_tok} {s} {n_steps}")
                    expect.append(C.show_list(pts, lambda p: C.show_list(p, str))); meta.append((shape, direction, s))
                    keys.add((len(shape), direction, "s=1" if s == 1 else ("s=S" if s == S else "s|S"), min(S, 50)))
        got = C.run_driver(lines, timeout=1200)
        dis = []
        for l, e, g, mt in zip(lines, expect, got, meta):
            if e != g and len(dis) < 10:
                dis.append(dict(case=dict(shape=mt[0], direction=mt[1], step_size=mt[2]), diff=dict(cmd=l[:200], real=e[:400], model=g[:400])))
        return len(lines), dis, fails, keys, len(sh), len(rnd)

    st = chk.stage("backend-level grid positions", stage)
    if st:
        n, dis, fails, keys, nsh, nrnd = st
        chk.corr("backend-level: pos_l of the iteration phase vs diagPos/orthPos, get_direction vs getDirection; EXHAUSTIVE over shapes with sizes 1-6 in 1-4 dims (quick: |S| <= 120), both directions, step sizes dividing |S|, plus large 2-d shapes",
                 n, dis, keys, [dict(shapes=nsh, random_large=nrnd)])
        chk.monitor("C16 statement on the real runs: the first |S| iteration steps are pairwise distinct and in the box", n, fails)
    chk.exhaustive = True
    chk.assumptions.append("orthogonal int(x / |S|) is float division: exact below 2^53; numpy int64 products do not overflow below 10^18")
    from . import localgen
    localgen.add_grid_to(chk, C.rng("C16-grid"), C.T(60, 600), constraint_p=0.3)
    return chk.finish()
