"""C01 - every evaluated point is a genuine point of the search space."""
import math

import numpy as np

from .. import common as C, gen, scen, bkd, translators
from ..common import tok_f, tok_list
from ..runner import Check
from . import bkgen, drvcommon as D


def is_int_like(x):
    return isinstance(x, (int, np.integer)) or (isinstance(x, (float, np.floating)) and float(x).is_integer())


def monitor(out, blog):
    """the statement of C01 on one real run"""
    real = out["real"]
    opt, spec, names, space = real["opt"], real["spec"], real["names"], real["space"]
    tag = D.opt_tag(spec)
    fails = []
    sizes = [len(space[n]) for n in names]
    for i, p in enumerate(opt.pos_l):
        arr = np.asarray(p)
        if arr.dtype.kind not in "iu" or len(arr) != len(sizes) or any(not (0 <= int(v) < k) for v, k in zip(arr, sizes)):
            fails.append(dict(signature=f"C01|{tag}|position-outside-space", detail=f"step {i}: reported position {arr.tolist()} dtype={arr.dtype} sizes={sizes}", case=spec))
            break
    # the parameter set handed to the objective is space[k][pos[k]] of the reported position
    rows = opt.results_mang.results_list
    for i, (row, p) in enumerate(zip(rows, opt.pos_l)):
        try:
            ok = all(0 <= int(p[k]) < sizes[k] and D.same_num(row[n], space[n][int(p[k])]) for k, n in enumerate(names))
        except Exception:
            ok = False
        if not ok:
            fails.append(dict(signature=f"C01|{tag}|evaluated!=reported", detail=f"step {i}: row {row} vs reported position {list(map(int, p))}", case=spec))
            break
    fresh = real["rec"].call_paras
    for para in fresh:
        if any(not any(D.same_num(para[n], v) for v in space[n]) for n in names):
            fails.append(dict(signature=f"C01|{tag}|objective-arg-off-space", detail=str(para), case=spec))
            break
    # positions handed to the constraints
    for pos, _verdict, step, maxp in blog.constraint:
        if len(pos) != len(maxp) or any((not is_int_like(v)) or not (0 <= int(v) <= m) for v, m in zip(pos, maxp)):
            fails.append(dict(signature=f"C01|{tag}|constraint-arg-outside-space", detail=f"step {step}: not_in_constraint({pos}) max_positions={maxp}", case=spec))
            break
    return fails


def kernel_level(r, quick):
    """function-level correspondence of the position kernels on boundary vectors"""
    from gradient_free_optimizers import HillClimbingOptimizer
    from gradient_free_optimizers.optimizers.pop_opt._particle import Particle
    from gradient_free_optimizers.optimizers.core_optimizer.init_positions import Initializer
    from gradient_free_optimizers.optimizers.core_optimizer.converter import Converter
    lines, expect = [], []
    keys = set()
    special = [0.0, -0.0, 0.5, -0.5, 1.5, 2.5, -0.49, 0.49, 1e-9, -1e-9, 1e18, -1e18, 3e30, float("inf"), float("-inf"), float("nan")]
    for _ in range(C.T(60, 600)):
        nd = r.choice([1, 2, 3, 4])
        sizes = [r.choice([1, 2, 3, 5, 10, 31, 100, 1000]) for _ in range(nd)]
        space = {f"x{i}": np.arange(k) for i, k in enumerate(sizes)}
        opt = HillClimbingOptimizer(space, initialize={"random": 1}, random_state=0)
        maxp = [k - 1 for k in sizes]
        sentinel = np.array(maxp)
        opt.move_random = lambda s=sentinel: s
        S = int(np.prod(sizes))
        for _j in range(12):
            vec = []
            for k in sizes:
                c = r.random()
                if c < 0.35:
                    vec.append(r.choice(special))
                elif c < 0.6:
                    vec.append((k - 1) + r.choice([0.5, 0.49, 0.51, 1.5, -0.5]))
                else:
                    vec.append(r.uniform(-2, k + 1))
            try:
                out = opt.conv2pos(np.array(vec, dtype=float))
                exp = C.show_pos(out)
            except Exception as e:  # noqa
                exp = "err:" + type(e).__name__
            lines.append(f"conv2pos {tok_list(maxp, str)} {S} {tok_list(vec, tok_f)} {tok_list(maxp, str)}")
            expect.append(exp)
            keys.add(("conv2pos", "nan" if any(math.isnan(v) for v in vec) else ("inf" if any(math.isinf(v) for v in vec) else "finite"),
                      "far" if exp == C.show_pos(sentinel) else "near"))
        # _move_part
        part = Particle(space, initialize={"random": 1}, random_state=0)
        for _j in range(8):
            pos = np.array([r.randrange(k) for k in sizes])
            velo = np.array([r.choice(special + [r.uniform(-5, 5) for _ in range(6)]) for _ in sizes], dtype=float)
            out = part._move_part(pos, velo)
            lines.append(f"movepart {tok_list(maxp, str)} {tok_list(pos, str)} {tok_list(velo, tok_f)}")
            expect.append(C.show_pos(out))
            keys.add(("movepart", "nan" if any(math.isnan(v) for v in velo) else "ok"))
        # the clip / cast expression at the end of move_spiral (numpy semantics of clip -> astype(int))
        for _j in range(6):
            v = np.array([r.choice(special + [r.uniform(-3, k + 2) for _ in range(6)]) for k in sizes], dtype=float)
            out = np.clip(v, [0] * nd, np.array(maxp)).astype(int)
            lines.append(f"spiralclip {tok_list(maxp, str)} {tok_list(v, tok_f)}")
            expect.append(C.show_pos(out))
            keys.add(("spiralclip",))
        # _init_grid_search per dimension
        n_pos = r.choice([1, 2, 4, 8, 9, 27])
        p_per_dim = int(np.power(n_pos, 1 / nd))
        init = Initializer(Converter(space), {"grid": n_pos})
        grid = [np.asarray(p) for p in init.init_positions_l[:max(0, p_per_dim ** nd)]]
        for k, size in enumerate(sizes):
            coords = sorted({int(p[k]) for p in grid}) if grid and p_per_dim > 0 else []
            model_line = f"initgrid {size - 1} {p_per_dim}"
            lines.append(model_line)
            exp_list = [n * int((size - 1) / (p_per_dim + 1)) for n in range(1, p_per_dim + 1)]
            # the real positions must be exactly these coordinates (as a set) ...
            if coords and sorted(set(exp_list)) != coords:
                expect.append("REAL-DIFFERS " + str(coords))
            else:
                expect.append(C.show_list(exp_list, str))
            keys.add(("initgrid", min(p_per_dim, 3)))
    got = C.run_driver(lines)
    dis = [dict(case=None, diff=dict(cmd=l, real=e, model=g)) for l, e, g in zip(lines, expect, got) if e != g][:15]
    return len(lines), dis, keys


def dtype_boundaries(r, quick):
    """index arithmetic at the edges of the small integer types: a dimension of 127 … 300 elements (the candidate grids of the surrogate
    optimizers are built with the narrowest integer dtype that holds `max_dim`), alone or beside a short dimension"""
    out = []
    names = list(gen.SMBO) + ["DirectAlgorithm", "GridSearchOptimizer", "PatternSearch", "ParticleSwarmOptimizer", "HillClimbingOptimizer"]
    for name in names:
        big = [] if (quick or name in gen.SMBO) else [65534, 65535, 65536, 70000]
        for size in ([200] if quick else [127, 128, 129, 200, 254, 255, 256, 300] + big):
            for second in ([None] if quick else [None, 7]):
                space = {"x0": [float(i) * 0.5 - 3 for i in range(size)]}
                if second:
                    space["x1"] = list(range(second))
                sp = dict(opt=name, space=space, initialize={"random": 3, "vertices": 1}, opt_kwargs={}, seed=r.randrange(100000),
                          objective=gen.gen_objective(r, space, kinds=("lin", "peak")), constraint=None, durs=[0],
                          calls=[dict(n_iter=12 if name in gen.SMBO else 30, memory="on", verbosity=False)])
                if r.random() < 0.4:
                    sp["constraint"] = gen.gen_constraint(r, space, kinds=("half", "parity"))
                out.append(sp)
    return out


def backend_runs(r, quick):
    specs = bkgen.all_optimizer_scenarios(r, C.T(6, 40), constraint_p=0.45) + dtype_boundaries(r, quick)
    fails, keys, samples, n_nan = [], set(), [], 0
    kdis, klines, kexp = [], [], []
    for spec in specs:
        blog = bkd.Log()
        with bkd.capture(blog):
            out = scen.run_scenario(spec, with_model=False, blog=blog)
        real = out["real"]
        if any(rc["exc"] for rc in real["records"]):
            D.SKIPPED_RAISES.append(f"{D.opt_tag(spec)}: {type([rc['exc'] for rc in real['records'] if rc['exc']][0]).__name__}")
        fails += monitor(out, blog)
        n_nan += blog.nan_in_conv2pos
        if blog.nan_in_conv2pos:
            fails.append(dict(signature=f"C01|{D.opt_tag(spec)}|nan-enters-conv2pos", detail="a nan coordinate reached conv2pos (hypothesis of conv2pos_inSpace violated)", case=spec))
        keys.add((spec["opt"], "constraint" if spec["constraint"] else "free", "multi" if len(spec["calls"]) > 1 else "single",
                  "size1" if any(len(v) == 1 for v in spec["space"].values()) else "nosize1"))
        # kernel-level replay of the recorded conv2pos / _move_part calls of this run (near branch only: rnd unknown)
        for vec, outp, _st, maxp, S in blog.conv2pos[:40]:
            klines.append(f"conv2pos {tok_list(maxp, str)} {S} {tok_list(vec, tok_f)} {tok_list(outp, str)}")
            kexp.append(C.show_pos(outp))
        for pos, velo, outp, maxp in blog.move_part[:40]:
            klines.append(f"movepart {tok_list(maxp, str)} {tok_list(pos, str)} {tok_list(velo, tok_f)}")
            kexp.append(C.show_pos(outp))
        if len(samples) < 2:
            samples.append(dict(spec=spec, conv2pos_calls=len(blog.conv2pos), constraint_calls=len(blog.constraint)))
    got = C.run_driver(klines) if klines else []
    for l, e, g in zip(klines, kexp, got):
        if e != g and len(kdis) < 10:
            kdis.append(dict(case=None, diff=dict(cmd=l[:300], real=e, model=g)))
    return len(specs), fails, keys, samples, len(klines), kdis


def escalate(chk, names):
    """a translator or a correspondence broke: many more real runs of the optimizers the broken cases name (all optimizers with a repair
    step when none is named), under non-convex constraints on tiny and huge dimensions"""
    r = C.rng("C01-escalate")
    names = [n for n in names if n in gen.ALL_OPTIMIZERS] or [n for n in gen.ALL_OPTIMIZERS if n not in ("RandomSearchOptimizer",)]
    fails, n = [], 0
    for name in names[:8]:
        for _ in range(20 if len(names) > 3 else 40):
            sp = bkgen.scenario(r, name, constraint_p=0.0, sizes=[1, 2, 3, 5, 100], iters=50)
            if len(sp["space"]) >= 2 and gen.space_size(sp["space"]) >= 4:
                sp["constraint"] = gen.gen_constraint(r, sp["space"], kinds=("ring", "band", "paritysum", "mask", "half"))
            blog = bkd.Log()
            with bkd.capture(blog):
                out = scen.run_scenario(sp, with_model=False, blog=blog)
            n += 1
            fails += monitor(out, blog)
            if len(fails) > 20:
                break
    chk.monitor("ESCALATED search (a translator or correspondence broke): C01 statement on many more real runs of the optimizers named by the broken cases", n, fails)


def run():
    chk = Check("C01", props_modules=["GFO.Props.C01", "GFO.Props.LocalRuns", "GFO.Props.PopRuns", "GFO.Props.EvoRuns", "GFO.Props.PatternRuns", "GFO.Props.PowellRuns", "GFO.Props.SimplexRuns", "GFO.Props.DirectRuns", "GFO.Props.SmboPosRuns", "GFO.Props.InitSpace", "GFO.Props.GridRuns", "GFO.Gen.CoreGenCheck", "GFO.Gen.LocalGenCheck", "GFO.Gen.InitGenCheck", "GFO.Gen.PopIterGenCheck", "GFO.Gen.PatternGenCheck", "GFO.Gen.PowellGenCheck"], gen_steps=(translators.gen_core, translators.gen_local, translators.gen_init, translators.gen_popiter, translators.gen_pattern, translators.gen_powell, translators.gen_pins))
    chk.build_and_audit()
    r = C.rng("C01")
    quick = C.tier() != "thorough"
    kl = chk.stage("kernel-level", kernel_level, r, quick)
    if kl:
        n, dis, keys = kl
        chk.corr("function-level conv2pos / _move_part / clip-cast / _init_grid_search on boundary vectors (+-0.5 ties, max+0.5, huge, +-inf, nan)", n, dis, keys,
                 [dict(kernels=["conv2pos", "movepart", "spiralclip", "initgrid"])])
    br = chk.stage("backend runs", backend_runs, r, quick)
    if br:
        n, fails, keys, samples, nk, kdis = br
        chk.corr("recorded conv2pos / _move_part calls of real runs replayed on the kernel models", nk, kdis, set(), samples)
        chk.monitor("C01 statement on real runs of all 22 optimizers (positions, objective and constraint arguments, nan audit)", n, fails, keys)
    chk.assumptions.append("float expressions feeding the kernels (simplex reflection, PSO velocity, spiral rotation, DE mutant, pattern offsets) are oracle inputs; "
                           "NoNan on them is audited on every recorded conv2pos call")
    from . import localgen
    localgen.add_to(chk, C.rng("C01-local"), C.T(8, 80), constraint_p=0.3)
    localgen.add_grid_to(chk, C.rng("C01-grid"), C.T(30, 300), constraint_p=0.3)
    localgen.add_pt_to(chk, C.rng("C01-pt"), C.T(20, 200), constraint_p=0.3)
    localgen.add_pattern_to(chk, C.rng("C01-pattern"), C.T(20, 200), constraint_p=0.3, nonfinite_p=0.0)
    localgen.add_powell_to(chk, C.rng("C01-powell"), C.T(20, 200), constraint_p=0.3, nonfinite_p=0.0)
    localgen.add_simplex_to(chk, C.rng("C01-simplex"), C.T(20, 200), constraint_p=0.3, nonfinite_p=0.0)
    localgen.add_direct_to(chk, C.rng("C01-direct"), C.T(20, 200), constraint_p=0.3, nonfinite_p=0.0)
    localgen.add_smbo_to(chk, C.rng("C01-smbo"), C.T(4, 30), constraint_p=0.3, nonfinite_p=0.0)
    if chk.needs_escalation():
        chk.stage("escalated search", escalate, chk, chk.broken_opts())
    scen.shutdown_manager()
    return chk.finish()
