"""C18 - step API and public facades are equivalent to search() / backend classes."""
import copy
import inspect

import numpy as np

from .. import common as C, gen, scen, translators
from ..runner import Check
from . import drvgen, drvcommon as D


def monitor(out):
    return D.raise_failures("C18", out)


def scenarios(r, n):
    out = []
    for _ in range(n):
        spec = drvgen.base_scenario(r, cheap_bias=0.85, constraint_p=0.2)
        drvgen.history(r, spec, ncalls=r.choice([1, 2, 2, 3]), criteria=0.2)
        via = r.choice(["stepapi", "stepapi", "search"])     # both entry points are replayed on the driver model
        for c in spec["calls"]:
            c["via"] = via if not (c.get("max_score") is not None or c.get("max_time") is not None or c.get("early_stopping")) else "search"
            c["verbosity"] = False
        out.append(spec)
    return out


def paired_stepapi(r, n):
    """the same case driven by search() and by the step API: identical search_data and best"""
    fails, keys = [], set()
    classes = list(gen.ALL_OPTIMIZERS)
    for k in range(n):
        opt = classes[k % len(classes)]
        spec = drvgen.base_scenario(r, opt=opt, constraint_p=0.2)
        drvgen.history(r, spec, ncalls=r.choice([1, 2, 2, 3]))
        for c in spec["calls"]:
            c["verbosity"] = False
        if len(spec["calls"]) > 1 and opt not in gen.SMBO:
            spec["calls"][-1]["n_iter"] = max(spec["calls"][-1]["n_iter"], 12)     # later runs must reach the iteration phase
        a = copy.deepcopy(spec); b = copy.deepcopy(spec)
        for c in b["calls"]:
            c["via"] = "stepapi"
        ra, rb = D.paired(a, b)
        if any(x["exc"] for x in ra["records"]) or any(x["exc"] for x in rb["records"]):
            ea = [type(x["exc"]).__name__ for x in ra["records"] if x["exc"]]
            eb = [type(x["exc"]).__name__ for x in rb["records"] if x["exc"]]
            if ea != eb:
                fails.append(dict(signature=f"C18|{D.opt_tag(spec)}|stepapi-raises-differently", detail=f"{ea} vs {eb}", case=spec))
            continue
        same = D.frames_equal(ra["opt"].search_data, rb["opt"].search_data)
        for x, y in zip(ra["records"], rb["records"]):
            same = same and D.same_num(x["snapshot"]["best_score"], y["snapshot"]["best_score"]) and x["snapshot"]["best_para"] == y["snapshot"]["best_para"]
        if not same:
            fails.append(dict(signature=f"C18|{D.opt_tag(spec)}|stepapi!=search", detail="search_data/best differ between search() and init_search/search_step/finish_search", case=spec))
        keys.add((opt, "stepapi-pair"))
    return fails, keys


NONDEFAULT = {
    "epsilon": 0.7, "distribution": "laplace", "n_neighbours": 5, "p_accept": 0.9, "repulsion_factor": 3, "annealing_rate": 0.8,
    "start_temp": 3, "n_iter_restart": 3, "rand_rest_p": 0.35, "population": 4, "inertia": 0.3, "cognitive_weight": 0.9,
    "social_weight": 0.2, "temp_weight": 0.6, "decay_rate": 0.9, "n_iter_swap": 3, "mutation_rate": 0.8, "crossover_rate": 0.2,
    "offspring": 5, "n_parents": 2, "step_size": 2, "direction": "orthogonal", "n_positions": 3, "pattern_size": 0.4, "reduction": 0.7,
    "iters_p_dim": 4, "simplex_step": None, "alpha": 0.8, "gamma": 1.7, "beta": 0.4, "sigma": 0.6, "xi": 0.2, "max_sample_size": 1000,
    "replacement": False, "gamma_tpe": 0.4, "tree_para": {"n_estimators": 7}, "sampling": {"random": 200}, "crossover": "discrete-recombination",
}


def facade_pairs(r, quick):
    """facade vs type(X, (Backend, Search), {}) with one-at-a-time and joint non-default constructor values, equal seed"""
    import gradient_free_optimizers as gfo
    import gradient_free_optimizers.optimizers as backends
    from gradient_free_optimizers.search import Search
    fails, keys, n = [], set(), 0
    space = {"x0": np.arange(0, 8), "x1": np.array([0.5, 0.25, 1.0, 2.0])}

    def f(p):
        return -(float(p["x0"]) - 5) ** 2 - float(p["x1"])

    for name in gen.ALL_OPTIMIZERS:
        facade = getattr(gfo, name)
        backend = facade.__mro__[1]
        twin = type(name + "Twin", (backend, Search), {})
        params = [p for p in inspect.signature(facade.__init__).parameters if p not in ("self", "search_space", "initialize", "constraints", "random_state", "nth_process")]
        settings = [{}] + [{p: NONDEFAULT[p]} for p in params if p in NONDEFAULT and NONDEFAULT[p] is not None]
        joint = {p: NONDEFAULT[p] for p in params if p in NONDEFAULT and NONDEFAULT[p] is not None}
        if joint:
            settings.append(joint)
        if quick and len(settings) > 5:
            settings = [settings[0]] + r.sample(settings[1:-1], 3) + [settings[-1]]
        for kw in settings:
            n += 1
            res = []
            for cls in (facade, twin):
                try:
                    o = cls(space, initialize={"random": 3, "vertices": 2}, random_state=11, **kw)
                    with scen.time_limit(scen.WATCHDOG_S):
                        o.search(f, n_iter=9 if name in gen.SMBO else 18, verbosity=False)
                    res.append((o.search_data, o.best_score, o.best_para))
                except C.Infra:
                    raise
                except Exception as e:  # noqa
                    res.append(("exc", type(e).__name__, str(e)[:80]))
            a, b = res
            if (a[0] is "exc") != (b[0] is "exc") or (a[0] is not "exc" and not (D.frames_equal(a[0], b[0]) and D.same_num(a[1], b[1]) and a[2] == b[2])):
                fails.append(dict(signature=f"C18|{name}|facade!=backend+Search|{sorted(kw)}", detail=f"constructor kwargs {kw}: facade and backend+Search differ", case=dict(opt=name, kw={k: str(v) for k, v in kw.items()})))
            keys.add((name, "facade", tuple(sorted(kw))))
    return fails, keys, n


def run():
    chk = Check("C18", props_modules=["GFO.Props.C18", "GFO.Gen.DriverGenCheck"], gen_steps=(translators.gen_facades, translators.gen_driver))
    chk.build_and_audit()
    r = C.rng("C18")
    quick = C.tier() != "thorough"
    specs = scenarios(r, C.T(80, 800))
    fails = D.run_specs(chk, "driver-level stepApi model vs init_search/search_step/finish_search", specs, monitor)
    chk.monitor("step API runs complete", len(specs), fails)
    n = C.T(44, 440)
    pf, pk = paired_stepapi(r, n)
    chk.monitor("paired runs: search() vs step API, all 22 classes", n * 2, pf, pk)
    ff, fk, fn = facade_pairs(r, quick)
    chk.monitor("paired runs: facade vs backend+Search with non-default constructor values (one at a time and jointly)", fn * 2, ff, fk)
    chk.notes.append("generated obligation: GFO.Gen.facades_forward_checked over the table regenerated from optimizer_search/*.py (decide +kernel)")
    chk.assumptions.append("the ast extractor harness/translators.py:gen_facades (it refuses any __init__ it cannot read as parameters + one super().__init__(**kw) call)")
    scen.shutdown_manager()
    return chk.finish()
