"""C06 - memory is a transparent cache: at most one objective call per point (single process + shared manager dict)."""
import copy
import multiprocessing
import os
from multiprocessing.managers import DictProxy, SyncManager

from .. import common as C, gen, scen, drv, translators
from ..runner import Check
from . import drvgen, drvcommon as D


def monitor(out):
    real = out["real"]
    opt, spec, f, names = real["opt"], real["spec"], real["f"], real["names"]
    fails = D.raise_failures("C06", out)
    if any(r["exc"] for r in real["records"]):
        return fails
    tag = D.opt_tag(spec)
    conv = opt.conv
    paras = real["rec"].call_paras
    for r in real["records"]:
        c = r["spec"]
        if drv.mem_mode(c.memory) == "off":
            continue
        snap = r["snapshot"]
        seen = [tuple(float(p[n]) for n in names) for p in paras[r["calls0"]:r["calls1"]]]
        if len(set(seen)) != len(seen):
            fails.append(dict(signature=f"C06|{tag}|objective-called-twice", detail="a parameter set was passed to the objective twice within one search call", case=spec))
        md = snap["memory_dict"]
        if c.memory_warm_start is None and drv.mem_mode(c.memory) == "fresh":
            evaluated = {tuple(int(x) for x in conv.value2position(conv.position2value(p))) for p in opt.pos_l[r["rows0"]:snap["rows"]]}
            keys = {tuple(int(x) for x in k) for k in md}
            if keys != evaluated:
                fails.append(dict(signature=f"C06|{tag}|memory_dict-keys", detail=f"memory_dict keys {sorted(keys)[:6]} != evaluated positions {sorted(evaluated)[:6]}", case=spec))
            for k, v in md.items():
                try:
                    para = conv.value2para(conv.position2value(list(k)))
                except Exception:
                    fails.append(dict(signature=f"C06|{tag}|memory_dict-key-not-a-position", detail=f"memory_dict key {k} is not a position of the space", case=spec))
                    break
                res = f(para)
                s = res[0] if isinstance(res, tuple) else res
                sv = v[0] if isinstance(v, tuple) else v
                if not D.same_num(s, sv):
                    fails.append(dict(signature=f"C06|{tag}|memory_dict-value", detail=f"memory_dict[{k}] = {sv} but objective gives {s}", case=spec))
                    break
    return fails


def scenarios(r, n):
    out = []
    for _ in range(n):
        spec = drvgen.base_scenario(r, cheap_bias=0.9, constraint_p=0.15)
        # small spaces: many revisits
        spec["space"] = gen.gen_space(r, ndims=r.choice([1, 2, 2, 3]), sizes=[1, 2, 3, 5])
        spec["objective"] = gen.gen_objective(r, spec["space"])
        spec["constraint"] = None
        drvgen.history(r, spec, memory_choices=("on", "on", "on", "proxy"))
        for c in spec["calls"]:
            c["n_iter"] = max(c["n_iter"], r.choice([8, 15, 25])) if spec["opt"] not in gen.SMBO else c["n_iter"]
        out.append(spec)
    return out


def paired_memory(r, n):
    """memory=True vs memory=False with the same seed: identical search_data and best result"""
    fails, keys = [], set()
    for _ in range(n):
        spec = drvgen.base_scenario(r, cheap_bias=0.85, constraint_p=0.2)
        spec["space"] = gen.gen_space(r, ndims=r.choice([1, 2, 3]), sizes=[2, 3, 5, 10], orders=("asc", "desc", "shuf"))
        spec["objective"] = gen.gen_objective(r, spec["space"])
        spec["constraint"] = None
        drvgen.history(r, spec, ncalls=1)
        spec["calls"][0]["n_iter"] = 12 if spec["opt"] in gen.SMBO else r.choice([10, 20, 40])
        a = copy.deepcopy(spec); b = copy.deepcopy(spec)
        a["calls"][0]["memory"] = "on"; b["calls"][0]["memory"] = "off"
        ra, rb = D.paired(a, b)
        if ra["records"][0]["exc"] or rb["records"][0]["exc"]:
            continue
        sa, sb = ra["records"][0]["snapshot"], rb["records"][0]["snapshot"]
        same = D.frames_equal(ra["opt"].search_data, rb["opt"].search_data) and D.same_num(sa["best_score"], sb["best_score"]) \
            and sa["best_para"] == sb["best_para"]
        if not same:
            fails.append(dict(signature=f"C06|{D.opt_tag(spec)}|memory-changes-result", detail="search_data/best differ between memory=True and memory=False (same seed)", case=spec))
        hits = sa["rows"] - ra["rec"].ncalls
        keys.add((spec["opt"], "paired", "hits" if hits else "nohits"))
    return fails, keys


# ----------------------------------------------------------------------------- shared manager dict

class LogDict(dict):
    """server-side dict that logs every proxy call in the order the manager serialises them"""

    def __init__(self):
        super().__init__()
        self._log = []

    def __contains__(self, k):
        r = super().__contains__(k)
        self._log.append(("c", k, r))
        return r

    def __getitem__(self, k):
        try:
            v = super().__getitem__(k)
        except KeyError:
            self._log.append(("g", k, KeyError))
            raise
        self._log.append(("g", k, v))
        return v

    def __setitem__(self, k, v):
        super().__setitem__(k, v)
        self._log.append(("s", k, v))

    def get_log(self):
        return list(self._log)

    def snapshot(self):
        return dict(super().items())


class LogDictProxy(DictProxy):
    _exposed_ = tuple(DictProxy._exposed_) + ("get_log", "snapshot")

    def get_log(self):
        return self._callmethod("get_log")

    def snapshot(self):
        return self._callmethod("snapshot")


class LogManager(SyncManager):
    pass


LogManager.register("LogDict", LogDict, LogDictProxy)


def _worker(args):
    spec, proxy, nth = args
    import warnings
    warnings.filterwarnings("ignore")
    space = gen.build_space(spec["space"])
    names = list(space)
    f = gen.build_objective(spec["objective"], names)
    cls = gen.get_class(spec["opt"])
    opt = cls(space, random_state=spec["seed"] + nth, initialize=spec["initialize"])
    calls = []

    def obj(para):
        calls.append(tuple(float(para[n]) for n in names))
        return f(para)

    opt.search(obj, n_iter=spec["n_iter"], memory=proxy, verbosity=False)
    rows = [dict(r) for r in opt.results_mang.results_list]
    pos = [[int(x) for x in p] for p in opt.pos_l]
    return dict(rows=rows, pos=pos, calls=calls)


def shared_runs(r, n_runs, procs_choices):
    fails, keys, dis, samples = [], set(), [], []
    lines_all, expect_all = [], []
    mgr = LogManager()
    mgr.start()
    try:
        for _ in range(n_runs):
            nproc = r.choice(procs_choices)
            space = gen.gen_space(r, ndims=r.choice([1, 2]), sizes=[2, 3, 5], orders=("asc", "desc", "shuf"))
            spec = dict(opt=r.choice(["RandomSearchOptimizer", "HillClimbingOptimizer", "RandomRestartHillClimbingOptimizer", "GridSearchOptimizer"]),
                        space=space, objective=gen.gen_objective(r, space, kinds=("lin", "peak", "plateau")),
                        initialize={"random": 2, "vertices": 1}, seed=r.randrange(1000), n_iter=r.choice([6, 10, 15]))
            spec["objective"].pop("np", None)
            proxy = mgr.LogDict()
            with multiprocessing.get_context("fork").Pool(nproc) as pool:
                res = pool.map(_worker, [(spec, proxy, k) for k in range(nproc)])
            log = proxy.get_log()
            final = proxy.snapshot()
            sp = gen.build_space(space)
            names = list(sp)
            f = gen.build_objective(spec["objective"], names)
            from gradient_free_optimizers.optimizers.core_optimizer.converter import Converter
            conv = Converter(sp)
            # property monitor on the real run
            evaluated = set()
            for w in res:
                for row, pos in zip(w["rows"], w["pos"]):
                    para = conv.value2para(conv.position2value(pos))
                    exp = f(para)
                    s = exp[0] if isinstance(exp, tuple) else exp
                    if not D.same_num(row["score"], s):
                        fails.append(dict(signature="C06|shared|reported-score-wrong", detail=f"{row} but objective gives {s}", case=spec))
                    evaluated.add(tuple(int(x) for x in conv.value2position(conv.position2value(pos))))
            if {tuple(int(x) for x in k) for k in final} != evaluated:
                fails.append(dict(signature="C06|shared|final-dict-not-union", detail=f"{sorted(final)[:8]} vs {sorted(evaluated)[:8]}", case=spec))
            # schedule correspondence: replay the logged global schedule on GFO.Model.Shared
            nd = len(names)
            lines = [C.space_line(sp), "sreset"]
            expect = ["ok", "ok"]
            for kind, k, v in log:
                kt = " ".join(str(int(x)) for x in k)
                if kind == "c":
                    lines.append(f"sop c {kt}")
                    expect.append("bool:" + ("true" if v else "false"))
                elif kind == "g":
                    lines.append(f"sop g {kt}")
                    expect.append("keyerror" if v is KeyError else "val:" + drv.show_res(v))
                else:
                    lines.append(f"sop s {kt} {drv.res_tokens(v)}")
                    expect.append("unit")
            lines.append("sdict")
            expect.append("{" + ";".join(drv.show_pos(k) + ":" + drv.show_res(v) for k, v in sorted((tuple(int(x) for x in k), v) for k, v in final.items())) + "}")
            got = C.run_driver(lines)
            d = drv.compare(lines, expect, got)
            if d is not None:
                dis.append(dict(case=spec, diff=d))
            both_missed = sum(1 for kind, _k, _v in log if kind == "s") - len(final)
            keys.add(("shared", nproc, "double-evaluation" if both_missed > 0 else "no-double"))
            if len(samples) < 1:
                samples.append(dict(spec=spec, nproc=nproc, schedule_len=len(log), double_evaluations=both_missed))
    finally:
        mgr.shutdown()
    return fails, keys, dis, samples


def run():
    chk = Check("C06", props_modules=["GFO.Props.C06", "GFO.Gen.MemGenCheck"], gen_steps=(translators.gen_memory,))
    chk.build_and_audit()
    r = C.rng("C06")
    quick = C.tier() != "thorough"
    specs = scenarios(r, C.T(120, 1200))
    fails = D.run_specs(chk, "driver-level Memory wrapper / memory_dict vs _memory.py", specs, monitor)
    chk.monitor("C06 single-process statement (call log, memory_dict)", len(specs), fails)
    n_pairs = C.T(40, 400)
    pm = chk.stage('paired memory runs', paired_memory, r, n_pairs)
    pf, pk = pm if pm else ([], set())
    chk.monitor("paired runs memory=True / memory=False, same seed", n_pairs * 2, pf, pk)
    n_sh = C.T(8, 120)
    sh = chk.stage('shared manager dict runs', shared_runs, r, n_sh, [2, 3] if quick else [2, 3, 4, 5, 6])
    sf, sk, sd, ss = sh if sh else ([], set(), [], [])
    chk.corr("shared manager dict: recorded global schedule replayed on GFO.Model.Shared (sRun)", n_sh, sd, sk, ss)
    chk.monitor("shared dict: reported scores = objective(parameters), final dict = union of evaluated points", n_sh, sf)
    chk.assumptions.append("multiprocessing.managers serialises every proxy call (each contains/getitem/setitem is atomic); a real run exhibits only the schedules the OS produces - the theorems GFO.C06.shared_* cover all of them")
    scen.shutdown_manager()
    return chk.finish()
