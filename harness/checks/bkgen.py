"""Scenario generators for the backend-level checks (C01 C02 C08 C15 C19): all 22 optimizers x hazardous
configurations (epsilon > 1, every distribution, rand_rest_p, tiny/large populations, step sizes, sampling),
space shapes (size-1 dims, descending/unsorted), constraints with feasible fraction >= 25 %."""
from .. import gen
from . import drvgen

HC_FAMILY = ["HillClimbingOptimizer", "StochasticHillClimbingOptimizer", "RepulsingHillClimbingOptimizer",
             "SimulatedAnnealingOptimizer", "RandomRestartHillClimbingOptimizer", "RandomAnnealingOptimizer"]


def opt_kwargs(r, name):
    kw = gen.gen_opt_kwargs(r, name)
    if name in ("ParticleSwarmOptimizer", "SpiralOptimization", "ParallelTemperingOptimizer", "EvolutionStrategyOptimizer",
                "GeneticAlgorithmOptimizer", "DifferentialEvolutionOptimizer"):
        kw["population"] = r.choice([1, 2, 3, 4, 5, 10, 15])
    if name == "ParticleSwarmOptimizer":
        kw.update(inertia=r.choice([0.1, 0.5, 1.5]), cognitive_weight=r.choice([0.1, 0.5, 2.0]), social_weight=r.choice([0.1, 0.5, 2.0]))
    if name == "SpiralOptimization":
        kw["decay_rate"] = r.choice([0.8, 0.99, 1.1])
    if name == "GeneticAlgorithmOptimizer":
        kw.update(n_parents=r.choice([1, 2, 2, 3, 6]), offspring=r.choice([1, 3, 10]), crossover_rate=r.choice([0.5, 0.5, 2.0]))
    if name == "GridSearchOptimizer":
        kw["step_size"] = r.choice([1, 1, 2, 3, 7])
    if name == "DownhillSimplexOptimizer":
        kw.update(alpha=r.choice([0.5, 1, 2]), gamma=r.choice([1.5, 2, 4]), beta=r.choice([0.25, 0.5]), sigma=r.choice([0.25, 0.5]))
    if name == "PatternSearch":
        kw.update(n_positions=r.choice([1, 2, 4, 8]), pattern_size=r.choice([0.1, 0.25, 0.9]), reduction=r.choice([0.5, 0.9]))
    if name == "PowellsMethod":
        kw["iters_p_dim"] = r.choice([2, 5, 10])
    if name in ("BayesianOptimizer", "TreeStructuredParzenEstimators", "ForestOptimizer", "LipschitzOptimizer"):
        kw["max_sample_size"] = r.choice([50, 1000, 10000000])
        kw["replacement"] = r.choice([True, False])
        if r.random() < 0.5:
            kw["sampling"] = {"random": r.choice([20, 100, 1000000])}
    if name not in ("GridSearchOptimizer", "RandomSearchOptimizer") and r.random() < 0.35:
        kw["rand_rest_p"] = r.choice([0.1, 0.5, 1])
    return kw


def scenario(r, name, constraint_p=0.5, smbo_iters=10, iters=None, sizes=None, nonfinite_p=0.0):
    nd = r.choice([1, 2, 2, 3, 4]) if name not in gen.SMBO else r.choice([1, 2, 2, 3])
    sz = sizes or ([1, 2, 3, 5, 10, 31, 100] if name not in gen.SMBO else [1, 2, 3, 5, 10])
    space = gen.gen_space(r, ndims=nd, sizes=sz)
    spec = dict(opt=name, space=space, initialize=gen.gen_initialize(r), opt_kwargs=opt_kwargs(r, name), seed=r.randrange(100000),
                objective=gen.gen_objective(r, space), constraint=None, durs=[0])
    if r.random() < constraint_p and gen.space_size(space) >= 4:
        spec["constraint"] = gen.gen_constraint(r, space)
    if nonfinite_p and r.random() < nonfinite_p:
        spec["objective"] = gen.gen_nonfinite(r, spec["objective"])
    n = iters or (smbo_iters if name in gen.SMBO else r.choice([15, 25, 40]))
    k = r.choice([1, 1, 2])
    spec["calls"] = [dict(n_iter=max(1, n // k + r.choice([0, 1, 3])), memory=r.choice(["on", "off"]), verbosity=False) for _ in range(k)]
    return spec


def all_optimizer_scenarios(r, per_opt, **kw):
    out = []
    for name in gen.ALL_OPTIMIZERS:
        for _ in range(per_opt if name not in gen.SMBO else max(1, per_opt // 3)):
            out.append(scenario(r, name, **kw))
    return out
