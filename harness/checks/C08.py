"""C08 - every search step terminates under satisfiable constraints (no livelock)."""
import collections

import numpy as np

from .. import common as C, gen, scen, bkd, translators
from ..runner import Check
from . import bkgen, drvcommon as D

CAP = 10_000
SINGLE_LOOP = ("HillClimbingOptimizer", "StochasticHillClimbingOptimizer", "RepulsingHillClimbingOptimizer", "SimulatedAnnealingOptimizer",
               "RandomSearchOptimizer", "RandomRestartHillClimbingOptimizer", "RandomAnnealingOptimizer")


def corpus():
    """minimised past witnesses: run first"""
    out = []
    # diagonal grid: infeasible pointer at a pass boundary / residue class without a feasible point (fixed 602b8e7)
    for s in (1, 3):
        out.append(dict(opt="GridSearchOptimizer", space={"x0": [3, 1, 2], "x1": [0.5]}, initialize={"random": 1}, opt_kwargs={"step_size": s, "direction": "diagonal"},
                        seed=0, objective={"kind": "const", "w": [0, 0], "c": 0, "center": [3, 0.5], "q": 2}, constraint={"kind": "parity", "dim": 0, "salt": 0, "k": 3, "frac": 0.5},
                        durs=[0], calls=[dict(n_iter=8, memory="off")]))
    # PSO: deterministic linear move onto an infeasible point (fixed d993248)
    for seed in range(4):
        out.append(dict(opt="ParticleSwarmOptimizer", space={"x0": list(range(6)), "x1": list(range(6))}, initialize={"random": 2, "vertices": 2},
                        opt_kwargs={"population": 3}, seed=seed, objective={"kind": "peak", "w": [1, 1], "c": 0, "center": [0, 0], "q": 2},
                        constraint={"kind": "parity", "dim": 0, "salt": 0, "k": 2, "frac": 0.5}, durs=[0], calls=[dict(n_iter=40, memory="off")]))
    return out


def geometries(r, space):
    kinds = ["half", "parity", "band", "mask", "paritysum"]
    out = []
    for kind in kinds:
        for _ in range(6):
            spec = {"kind": kind, "dim": r.randrange(len(space)), "salt": r.randrange(10_000), "k": r.choice([2, 3]), "frac": r.choice([0.3, 0.5, 0.75])}
            if gen.feasible_fraction(spec, space, r) >= 0.25:
                out.append(spec)
                break
    return out


def scenarios(r, quick):
    specs = list(corpus())
    for name in gen.ALL_OPTIMIZERS:
        for _ in range((1 if name in gen.SMBO else 3) if quick else (4 if name in gen.SMBO else 20)):
            base = bkgen.scenario(r, name, constraint_p=0.0, sizes=[1, 2, 3, 5, 10] if name in gen.SMBO else [1, 2, 3, 5, 10, 31])
            if gen.space_size(base["space"]) < 4:
                continue
            for cons in geometries(r, base["space"])[: (2 if quick else 5)]:
                s = dict(base, constraint=cons, seed=r.randrange(100000))
                specs.append(s)
    return specs


def run_one(spec):
    blog = bkd.Log()
    with bkd.capture(blog):
        out = scen.run_scenario(spec, with_model=False, blog=blog)
    real = out["real"]
    tag = D.opt_tag(spec)
    fails, dis = [], []
    per_step = collections.Counter(e[2] for e in blog.constraint)
    worst = max(per_step.values()) if per_step else 0
    for rc in real["records"]:
        if rc["exc"] is not None and type(rc["exc"]).__name__ == "StepTimeout":
            fails.append(dict(signature=f"C08|{spec['opt']}|step-did-not-return", detail=f"search() did not return within {scen.WATCHDOG_S}s under constraint {spec['constraint']} "
                              f"({len(blog.constraint)} constraint evaluations so far, {worst} in one step)", case=spec))
        elif rc["exc"] is not None:
            D.SKIPPED_RAISES.append(f"{tag}: {type(rc['exc']).__name__}")
    if worst > CAP and not fails:
        fails.append(dict(signature=f"C08|{spec['opt']}|constraint-evaluations-per-step>{CAP}", detail=f"{worst} constraint evaluations in one step", case=spec))
    # shape correspondence for the single-kernel optimizers: the step's constraint log is a sequence of firstFeasible runs
    # (False* True)+ - conv2pos's far-outside fallback nests a move_random loop inside move_climb - so it ENDS with True
    if spec["opt"] in SINGLE_LOOP and not fails:
        by_step = collections.defaultdict(list)
        for pos, v, st, _m in blog.constraint:
            by_step[st].append(v)
        n0 = real["opt"].init.n_inits
        for st, vs in by_step.items():
            if st >= n0 and not vs[-1]:
                dis.append(dict(case=spec, diff=dict(what="constraint log of one step must be (False* True)+ (firstFeasible runs), i.e. end with True", real=str(vs[-20:]), model="(F*T)+")))
                break
    return fails, dis, worst


def escalate(chk, names):
    """a translator or the log-shape correspondence broke and no step ran away: many more constrained runs (all geometries, tiny and
    long dimensions) of the optimizers the broken cases name - all optimizers when none is named (a translator names none)"""
    r = C.rng("C08-escalate")
    names = [n for n in names if n in gen.ALL_OPTIMIZERS] or [n for n in gen.ALL_OPTIMIZERS if n not in gen.SMBO]
    fails, n = [], 0
    for name in names:
        for _ in range(12 if len(names) > 4 else 40):
            base = bkgen.scenario(r, name, constraint_p=0.0, sizes=[2, 3, 3, 5, 10, 31])
            if gen.space_size(base["space"]) < 4:
                continue
            for cons in geometries(r, base["space"])[:3]:
                fl, _ds, _w = run_one(dict(base, constraint=cons, seed=r.randrange(100000)))
                fails += fl
                n += 1
            if len(fails) > 10:
                break
    chk.monitor("ESCALATED search (a translator or correspondence broke): C08 statement on many more constrained runs", n, fails)


def run():
    chk = Check("C08", props_modules=["GFO.Props.C08", "GFO.Gen.CoreGenCheck", "GFO.Gen.PopIterGenCheck", "GFO.Gen.PatternGenCheck", "GFO.Gen.PowellGenCheck"], gen_steps=(translators.gen_core, translators.gen_popiter, translators.gen_pattern, translators.gen_powell, translators.gen_pins))
    chk.build_and_audit()
    r = C.rng("C08")
    quick = C.tier() != "thorough"

    def stage():
        fails, dis, keys, hist = [], [], set(), collections.Counter()
        specs = scenarios(r, quick)
        for spec in specs:
            fl, ds, worst = run_one(spec)
            fails += fl
            dis += ds[:1]
            keys.add((spec["opt"], spec["constraint"]["kind"], "retries>10" if worst > 10 else "few"))
            hist[min(worst, 1000) // 10 * 10] += 1
        return len(specs), fails, dis[:10], keys, dict(sorted(hist.items()))

    st = chk.stage("constrained runs", stage)
    if st:
        n, fails, dis, keys, hist = st
        chk.corr("backend-level: per-step constraint log of the single-kernel optimizers has the shape (False* True)+ (runs of firstFeasible)", n, dis, keys,
                 [dict(max_constraint_evaluations_per_step_histogram=hist)])
        chk.monitor(f"C08 statement: no step exceeds {CAP} constraint evaluations or the watchdog; all 22 optimizers x half-spaces, parity/band lattices, random masks (feasible fraction >= 25 %), tiny/unsorted dimensions; past witnesses first",
                    n, fails)
    if chk.needs_escalation():
        chk.stage("escalated search", escalate, chk, chk.broken_opts())
    chk.assumptions.append("'bounded' for randomised loops is in expectation and rests on the i.i.d./full-support behaviour of the generators (trusted); move_climb's acceptance probability under the actual distributions is not quantified, only its no-dead-state structure")
    scen.shutdown_manager()
    return chk.finish()
