"""C12 - max_score stops the search exactly when the target is reached."""
import math

import numpy as np

from .. import common as C, gen, scen, translators
from ..common import tok_f, tok_opt
from ..runner import Check
from . import drvgen, drvcommon as D

THRESH = [0, 0.0, -0.0, -1.5, 2, 3.25, -7, 1e-9, -1e-9, 100.0]
VALS = [-8.0, -1.5, -1e-9, -0.0, 0.0, 1e-9, 0.5, 2.0, 3.25, 7.0, 100.0]


def monitor(out):
    real = out["real"]
    opt, spec = real["opt"], real["spec"]
    fails = D.raise_failures("C12", out)
    tag = D.opt_tag(spec)
    rows = opt.results_mang.results_list
    for r in real["records"]:
        c = r["spec"]
        if r["exc"] is not None or c.max_score is None or c.max_time is not None or c.early_stopping:
            continue
        snap = r["snapshot"]
        scores = [row["score"] for row in rows[r["rows0"]:snap["rows"]]]
        m = float(c.max_score)
        reached = [i for i, s in enumerate(scores) if float(s) >= m]
        n_new = len(scores)
        if reached and n_new != reached[0] + 1:
            fails.append(dict(signature=f"C12|{tag}|ran-past-target", detail=f"max_score={c.max_score}: first step reaching it is {reached[0]}, rows={n_new}", case=spec))
        if not reached and n_new != c.n_iter:
            fails.append(dict(signature=f"C12|{tag}|stopped-without-reaching", detail=f"max_score={c.max_score}: no step reached it, rows={n_new} != n_iter={c.n_iter}", case=spec))
        if (float(snap["best_score"]) >= m) != bool(reached):
            fails.append(dict(signature=f"C12|{tag}|best_score-vs-reached", detail=f"best_score={snap['best_score']} m={m} reached={bool(reached)}", case=spec))
    return fails


def scenarios(r, n):
    out = []
    for _ in range(n):
        spec = drvgen.base_scenario(r, cheap_bias=0.9, constraint_p=0.1)
        k = r.choice([1, 2, 3])
        calls, script = [], []
        for _c in range(k):
            n_iter = r.choice([1, 3, 6, 10, 14])
            if spec["opt"] in gen.SMBO:
                n_iter = min(n_iter, 8)
            c = dict(n_iter=n_iter, memory="off", max_score=r.choice(THRESH), verbosity=r.choice(drvgen.VERBS[:3]))
            k = r.random()
            if k < 0.12:     # combined criteria exercise the if/elif chain of StopRun.check (correspondence only)
                c["early_stopping"] = {"n_iter_no_change": r.choice([2, 1000])}
            elif k < 0.2:
                c["max_time"] = r.choice([1, 1000])
            calls.append(c)
            script += [r.choice(VALS) for _ in range(n_iter)]
        spec["calls"] = calls
        spec["script"] = script + [0.0] * 4
        if r.random() < 0.4:   # real objective instead of a script, memory on
            spec.pop("script")
            spec["objective"].pop("nonfinite", None)
            for c in calls:
                c["memory"] = "on"
        out.append(spec)
    return out


def function_level():
    from gradient_free_optimizers._stop_run import score_exceeded, StopRun
    lines, expect = [], []
    vals = [-np.inf, -7, -1e-9, -0.0, 0, 0.0, 1e-9, 0.5, 2, np.inf, np.float64(0.0), np.float64(-2.5), float("nan")]
    for sb in vals:
        for ms in [None] + vals[:-1]:
            lines.append(f"scoreexc {tok_f(sb)} {tok_opt(ms, tok_f)}")
            expect.append("true" if score_exceeded(sb, ms) else "false")
            st = StopRun(0, None, ms, None)
            st.update(sb, [sb])
            lines.append(f"stopcheck py 0 0 - {tok_opt(ms, tok_f)} 0 - - - {tok_f(sb)} 1 {tok_f(sb)}")
            expect.append("true" if st.check() else "false")
    got = C.run_driver(lines)
    dis = [dict(case=None, diff=dict(cmd=l, real=e, model=g)) for l, e, g in zip(lines, expect, got) if e != g]
    return len(lines), dis


def run():
    chk = Check("C12", props_modules=["GFO.Props.C12", "GFO.Gen.StopGenCheck", "GFO.Gen.DriverGenCheck"], gen_steps=(translators.gen_stop, translators.gen_driver,))
    chk.build_and_audit()
    r = C.rng("C12")
    quick = C.tier() != "thorough"
    fl = chk.stage('function-level', function_level)
    n, dis = fl if fl else (0, [])
    chk.corr("function-level score_exceeded / StopRun.check on a (score_best, max_score) grid incl. 0, -0.0, inf, nan", n, dis,
             {("fn", "grid")}, [dict(grid="13 x 13 values incl. 0, 0.0, -0.0, +-1e-9, +-inf, nan, numpy floats")])
    specs = scenarios(r, C.T(150, 1500))
    fails = D.run_specs(chk, "driver-level stop step under max_score vs search.py/_stop_run.py", specs, monitor)
    chk.monitor("C12 statement on the real runs (scripted score sequences, thresholds incl. 0 / -0.0 / negative)", len(specs), fails)
    scen.shutdown_manager()
    return chk.finish()
