"""C04 - search_data is a faithful, ordered record of what was evaluated."""
from .. import common as C, gen, scen, translators
from ..runner import Check
from . import drvgen, drvcommon as D


def monitor(out):
    real = out["real"]
    opt, spec, f, names = real["opt"], real["spec"], real["f"], real["names"]
    fails = D.raise_failures("C04", out)
    if any(r["exc"] for r in real["records"]):
        return fails
    tag = D.opt_tag(spec)
    rows = opt.results_mang.results_list
    conv = opt.conv
    if len(rows) != len(opt.pos_l):
        fails.append(dict(signature=f"C04|{tag}|row-count", detail=f"{len(rows)} rows for {len(opt.pos_l)} steps", case=spec))
        return fails
    warm_calls = [r for r in real["records"] if r["spec"].memory_warm_start is not None]
    for i, (row, pos) in enumerate(zip(rows, opt.pos_l)):
        para = conv.value2para(conv.position2value(pos))
        if warm_calls:
            # rows of warm-started calls may legitimately carry the dataframe score (C11): params only
            ok = all(D.same_num(row.get(n), para[n]) for n in names)
            msg = "parameters differ from the reported position"
        else:
            ok, msg = D.row_matches(row, para, f(para), names)
        if not ok:
            fails.append(dict(signature=f"C04|{tag}|row-mismatch", detail=f"row {i} pos {list(map(int, pos))}: {msg}", case=spec))
            break
    # order: the parameter sets the objective really saw appear in search_data in the same order
    it = iter(rows)
    for p in real["rec"].call_paras:
        for row in it:
            if all(D.same_num(row.get(n), p[n]) for n in names):
                break
        else:
            fails.append(dict(signature=f"C04|{tag}|order", detail="objective call log is not a subsequence of search_data", case=spec))
            break
    # the DataFrame is the list of dicts
    import pandas as pd
    if not D.frames_equal(opt.search_data, pd.DataFrame(rows)):
        fails.append(dict(signature=f"C04|{tag}|dataframe", detail="search_data != DataFrame(results_list)", case=spec))
    return fails


def scenarios(r, n):
    out = []
    for _ in range(n):
        spec = drvgen.base_scenario(r, cheap_bias=0.9, constraint_p=0.15)
        spec["objective"]["metrics"] = r.choice([None, "plain", "plain", "collide", "numpy", "scorekey"])
        if spec["objective"]["metrics"] is None:
            del spec["objective"]["metrics"]
        drvgen.history(r, spec, memory_choices=("on", "on", "off", "proxy"))
        out.append(spec)
    return out


def run():
    chk = Check("C04", props_modules=["GFO.Props.C04", "GFO.Gen.MemGenCheck"], gen_steps=(translators.gen_memory,))
    chk.build_and_audit()
    r = C.rng("C04")
    quick = C.tier() != "thorough"
    specs = scenarios(r, C.T(140, 1500))
    fails = D.run_specs(chk, "driver-level rows/memory vs search.py, _results_manager.py, _memory.py", specs, monitor)
    chk.monitor("C04 statement on the real runs (recompute objective per row, order, DataFrame)", len(specs), fails)
    scen.shutdown_manager()
    return chk.finish()
