"""C02 - constraints hold for every parameter set the objective is evaluated on."""
import numpy as np

from .. import common as C, gen, scen, bkd, initcap, translators
from ..runner import Check
from . import bkgen, drvcommon as D


def init_level(r, n, with_constraints=True):
    """function-level: real Initializer vs GFO.Model.Init.setPos given the recorded draws and constraint verdicts"""
    lines, expect, meta, keys, fails = [], [], [], set(), []
    for _ in range(n):
        space = gen.gen_space(r, ndims=r.choice([1, 2, 2, 3, 4]), sizes=[1, 2, 3, 5, 10, 31])
        ini = initcap.gen_initialize(r, space)
        cons = gen.gen_constraint(r, space) if (with_constraints and r.random() < 0.6 and gen.space_size(space) >= 4) else None
        extra = r.choice([0, 0, 0, 2, 5])
        try:
            with scen.time_limit(20):
                l, e, info = initcap.case_lines(space, ini, cons, extra)
        except scen.StepTimeout:
            D.SKIPPED_RAISES.append("Initializer: watchdog (C08)")
            continue
        lines += l; expect += e; meta += [None, dict(space=space, initialize={k: (v if not isinstance(v, list) else [dict(w) for w in v]) for k, v in ini.items()}, constraint=cons, extra=extra)]
        keys.add((tuple(sorted(ini)), "constraint" if cons else "free", "pad" if extra else "nopad", "filtered" if info["draws"] > ini.get("random", 0) + extra else "unfiltered"))
        # monitor on the real list
        if cons:
            cfn = info["cons"][0]
            conv = info["conv"]
            for p in info["result"]:
                if not cfn(conv.value2para(conv.position2value(p))):
                    fails.append(dict(signature="C02|Initializer|infeasible-initial-position", detail=f"{p} in init_positions_l violates the constraint", case=meta[-1]))
                    break
        if len(info["result"]) != info["n_inits"]:
            fails.append(dict(signature="C02|Initializer|init-list-length", detail=f"len(init_positions_l)={len(info['result'])} n_inits={info['n_inits']}", case=meta[-1]))
    got = C.run_driver(lines)
    dis = [dict(case=m, diff=dict(cmd=l[:400], real=e[:400], model=g[:400])) for l, e, g, m in zip(lines, expect, got, meta) if e != g][:10]
    return len(lines) // 2, dis, keys, fails


def monitor(out, blog):
    real = out["real"]
    opt, spec, names = real["opt"], real["spec"], real["names"]
    tag = D.opt_tag(spec)
    fails = []
    if not spec.get("constraint"):
        return fails
    cfn = gen.build_constraint(spec["constraint"], spec["space"])
    for para in real["rec"].call_paras:
        if not cfn(para):
            fails.append(dict(signature=f"C02|{tag}|objective-evaluated-on-infeasible-point", detail=f"objective called with {para}", case=spec))
            break
    for i, row in enumerate(opt.results_mang.results_list):
        if not cfn({n: row[n] for n in names}):
            fails.append(dict(signature=f"C02|{tag}|infeasible-row-in-search_data", detail=f"row {i}: {row}", case=spec))
            break
    for r in real["records"]:
        if r["exc"] is None and r["snapshot"]["best_para"] is not None and not cfn(r["snapshot"]["best_para"]):
            fails.append(dict(signature=f"C02|{tag}|infeasible-best_para", detail=str(r["snapshot"]["best_para"]), case=spec))
    # shape of iterate: the emitted position passed a constraint check at or before its step
    passed = set()
    k = 0
    log = blog.constraint
    for step, p in enumerate(opt.pos_l):
        while k < len(log) and log[k][2] <= step:
            if log[k][1]:
                passed.add(tuple(int(x) for x in log[k][0]))
            k += 1
        if tuple(int(x) for x in p) not in passed:
            fails.append(dict(signature=f"C02|{tag}|emitted-position-never-checked", detail=f"step {step}: position {list(map(int, p))} was emitted without a positive constraint check", case=spec))
            break
    return fails


def targeted(r):
    """configurations named in the property text"""
    out = []
    space3 = {"x0": list(range(10)), "x1": list(range(10)), "x2": list(range(10))}
    for seed in range(3):
        for cons in ({"kind": "paritysum", "dim": 0, "salt": 1, "k": 2, "frac": 0.5}, {"kind": "half", "dim": 1, "salt": 1, "k": 2, "frac": 0.5}):
            out.append(dict(opt="DownhillSimplexOptimizer", space=space3, initialize={"random": 1}, opt_kwargs={}, seed=seed,
                            objective=gen.gen_objective(r, space3, kinds=("peak",)), constraint=cons, durs=[0], calls=[dict(n_iter=12, memory="on")]))
            for direction in ("diagonal", "orthogonal"):
                sp2 = {"x0": [3, 1, 2, 0, 5, 4], "x1": [0.5, 0.25, 1.0, 2.0, 3.0]}
                out.append(dict(opt="GridSearchOptimizer", space=sp2, initialize={"random": 1}, opt_kwargs={"direction": direction, "step_size": r.choice([1, 2, 3])},
                                seed=seed, objective=gen.gen_objective(r, sp2, kinds=("lin",)), constraint=dict(cons, dim=0), durs=[0],
                                calls=[dict(n_iter=20, memory="on"), dict(n_iter=15, memory="off")]))
            for opt in gen.POPULATION:
                sp2 = {"x0": list(range(8)), "x1": [0.5, 0.25, 1.0, 2.0]}
                out.append(dict(opt=opt, space=sp2, initialize={"random": 1, "warm_start": [{"x1": 0.25, "x0": 3}]}, opt_kwargs={"population": r.choice([5, 10, 15])},
                                seed=seed, objective=gen.gen_objective(r, sp2, kinds=("peak", "lin")), constraint=dict(cons, dim=0), durs=[0],
                                calls=[dict(n_iter=25, memory="on")]))
    return out


def backend_runs(r, quick):
    specs = targeted(r) + bkgen.all_optimizer_scenarios(r, C.T(5, 40), constraint_p=1.0)
    fails, keys, samples = [], set(), []
    for spec in specs:
        blog = bkd.Log()
        with bkd.capture(blog):
            out = scen.run_scenario(spec, with_model=False, blog=blog)
        real = out["real"]
        if any(rc["exc"] for rc in real["records"]):
            D.SKIPPED_RAISES.append(f"{D.opt_tag(spec)}: {type([rc['exc'] for rc in real['records'] if rc['exc']][0]).__name__}")
        fails += monitor(out, blog)
        retries = sum(1 for e in blog.constraint if not e[1])
        keys.add((spec["opt"], (spec.get("constraint") or {}).get("kind"), "retries" if retries else "no-retries", len(spec["calls"])))
        if len(samples) < 2:
            samples.append(dict(spec=spec, constraint_checks=len(blog.constraint), negative_checks=retries))
    return len(specs), fails, keys, samples


def escalate(chk, names):
    """a translator or a correspondence broke: many more real runs of the optimizers the broken cases name (all optimizers with a repair
    step when none is named), under non-convex constraints on roomy dimensions"""
    r = C.rng("C02-escalate")
    names = [n for n in names if n in gen.ALL_OPTIMIZERS] or [n for n in gen.ALL_OPTIMIZERS if n not in ("RandomSearchOptimizer",)]
    fails, n = [], 0
    for name in names[:8]:
        for _ in range(20 if len(names) > 3 else 40):
            sp = bkgen.scenario(r, name, constraint_p=0.0, sizes=[7, 10, 15, 21], iters=60)
            if len(sp["space"]) >= 2 and gen.space_size(sp["space"]) >= 4:
                sp["constraint"] = gen.gen_constraint(r, sp["space"], kinds=("ring", "band", "paritysum", "mask", "half"))
            blog = bkd.Log()
            with bkd.capture(blog):
                out = scen.run_scenario(sp, with_model=False, blog=blog)
            n += 1
            fails += monitor(out, blog)
            if len(fails) > 20:
                break
    chk.monitor("ESCALATED search (a translator or correspondence broke): C02 statement on many more real runs of the optimizers named by the broken cases", n, fails)


def run():
    chk = Check("C02", props_modules=["GFO.Props.C02", "GFO.Props.LocalRuns", "GFO.Props.PopRuns", "GFO.Props.EvoRuns", "GFO.Props.PatternRuns", "GFO.Props.PowellRuns", "GFO.Props.SimplexRuns", "GFO.Props.DirectRuns", "GFO.Props.SmboPosRuns", "GFO.Props.InitSpace", "GFO.Props.GridRuns", "GFO.Gen.InitGenCheck", "GFO.Gen.CoreGenCheck", "GFO.Gen.LocalGenCheck", "GFO.Gen.PopIterGenCheck", "GFO.Gen.PatternGenCheck", "GFO.Gen.PowellGenCheck"], gen_steps=(translators.gen_init, translators.gen_core, translators.gen_local, translators.gen_popiter, translators.gen_pattern, translators.gen_powell, translators.gen_pins))
    chk.build_and_audit()
    r = C.rng("C02")
    quick = C.tier() != "thorough"
    il = chk.stage("Initializer function-level", init_level, r, C.T(150, 1500))
    if il:
        n, dis, keys, fails = il
        chk.corr("function-level Initializer.set_pos / add_n_random_init_pos vs GFO.Model.Init.setPos (recorded draws and constraint verdicts)", n, dis, keys,
                 [dict(what="initialize dicts with random/grid/vertices/warm_start mixes, constraints, padding")])
        chk.monitor("initial positions of the real Initializer are feasible and n_inits many", n, fails)
    br = chk.stage("backend runs", backend_runs, r, quick)
    if br:
        n, fails, keys, samples = br
        chk.monitor("C02 statement on real runs of all 22 optimizers under constraints (objective arguments, search_data, best_para, positive check before emission)", n, fails, keys, samples)
    chk.assumptions.append("constraints are deterministic functions of the parameter set; that each optimizer's iterate has the shape 'emit only after a positive check' is established per run by the constraint log, not by a theorem per optimizer")
    from . import localgen
    localgen.add_to(chk, C.rng("C02-local"), C.T(8, 80), constraint_p=1.0)
    localgen.add_grid_to(chk, C.rng("C02-grid"), C.T(30, 300), constraint_p=1.0)
    localgen.add_pt_to(chk, C.rng("C02-pt"), C.T(20, 200), constraint_p=1.0)
    localgen.add_pattern_to(chk, C.rng("C02-pattern"), C.T(20, 200), constraint_p=1.0, nonfinite_p=0.0)
    localgen.add_powell_to(chk, C.rng("C02-powell"), C.T(20, 200), constraint_p=1.0, nonfinite_p=0.0)
    localgen.add_simplex_to(chk, C.rng("C02-simplex"), C.T(20, 200), constraint_p=1.0, nonfinite_p=0.0)
    localgen.add_direct_to(chk, C.rng("C02-direct"), C.T(20, 200), constraint_p=1.0, nonfinite_p=0.0)
    localgen.add_smbo_to(chk, C.rng("C02-smbo"), C.T(4, 30), constraint_p=1.0, nonfinite_p=0.0)
    if chk.needs_escalation():
        chk.stage("escalated search", escalate, chk, chk.broken_opts())
    scen.shutdown_manager()
    return chk.finish()
