"""C15 - non-finite scores never crash a search nor become the reported best."""
import itertools
import math
from concurrent.futures import ProcessPoolExecutor

import numpy as np

from .. import common as C, gen, scen, bkd, trk, translators
from ..runner import Check
from . import bkgen, drvcommon as D

KINDS = {"nan": float("nan"), "inf": float("inf"), "-inf": float("-inf")}


def _isnan(x):
    try:
        return math.isnan(float(x))
    except Exception:
        return False


def one_run(args):
    """one optimizer, one mask over the first k objective calls, one non-finite kind (or 'mix')"""
    name, kind, mask, k, seed, n_extra = args[:6]
    memory = args[6] if len(args) > 6 else False
    import warnings
    warnings.filterwarnings("ignore")
    import logging
    logging.disable(logging.CRITICAL)
    space = {"x0": np.arange(0, 12), "x1": np.array([0.5, 0.25, 1.0, 2.0, 4.0])}
    cls = gen.get_class(name)
    calls = []

    def f(p):
        i = len(calls)
        calls.append(1)
        if i < k and (mask >> i) & 1:
            if kind == "mix":
                return [float("nan"), float("inf"), float("-inf")][i % 3]
            return KINDS[kind]
        return -(float(p["x0"]) - 7) ** 2 - float(p["x1"])

    kw = {}
    if name in gen.POPULATION:
        kw["population"] = 4
    try:
        opt = cls(space, initialize={"random": 2, "vertices": 2}, random_state=seed, **kw)
        n_iter = k + n_extra
        with scen.time_limit(scen.WATCHDOG_S):
            opt.search(f, n_iter=n_iter, memory=memory, verbosity=False)
    except scen.StepTimeout:
        return dict(args=args, status="timeout")
    except C.Infra:
        raise
    except Exception as e:  # noqa
        import traceback
        tb = traceback.extract_tb(e.__traceback__)
        site = next((f"{fr.filename.split('/')[-1]}:{fr.name}" for fr in reversed(tb) if "gradient_free_optimizers" in fr.filename), "?")
        return dict(args=args, status="raise", exc=type(e).__name__, site=site, msg=str(e)[:120], n_init=None)
    rows = opt.results_mang.results_list
    scores = [r["score"] for r in rows]
    out = dict(args=args, status="ok", rows=len(rows), n_iter=n_iter, best=opt.best_score, problems=[])
    if len(rows) != n_iter:
        out["problems"].append(f"rows {len(rows)} != n_iter {n_iter}")
    if _isnan(opt.best_score):
        out["problems"].append("best_score is NaN")
    nonnan = [float(s) for s in scores if not _isnan(s)]
    if nonnan and float(opt.best_score) != max(nonnan):
        out["problems"].append(f"best_score {opt.best_score} != max non-nan score {max(nonnan)}")
    sizes = [12, 5]
    for p in opt.pos_l:
        if any(not (0 <= int(v) < s) for v, s in zip(p, sizes)):
            out["problems"].append(f"illegal position {list(map(int, p))} proposed")
            break
    return out


def mask_sweep(quick, names=None, seeds=(3,), memories=(False,), extra=4):
    jobs = []
    for name in (names or gen.ALL_OPTIMIZERS):
        heavy = name in gen.SMBO
        k = (4 if heavy else 6) if quick else (8 if heavy else 10)
        kinds = ["nan", "inf", "-inf"] + ([] if quick and heavy else ["mix"])
        n_init = 4
        for kind in kinds:
            for mask in range(1 << k):
                if quick and heavy and kind != "nan" and bin(mask).count("1") not in (1, k, k - 1, 4):
                    continue
                for sd in seeds:
                    for mem in memories:
                        jobs.append((name, kind, mask, k, sd, extra, mem))
    fails, keys = [], set()
    n = 0
    with ProcessPoolExecutor(max_workers=14) as ex:
        for res in ex.map(one_run, jobs, chunksize=16):
            n += 1
            name, kind, mask, k, seed, extra = res["args"][:6]
            n_init = 4
            all_init_bad = (mask & ((1 << min(k, n_init)) - 1)) == (1 << min(k, n_init)) - 1
            case = dict(optimizer=name, kind=kind, mask=mask, k=k, seed=seed, n_iter=k + extra, space="x0: arange(12), x1: [0.5,0.25,1,2,4]",
                        initialize={"random": 2, "vertices": 2})
            if res["status"] == "raise":
                cls = "no-finite-score-during-initialisation" if all_init_bad else "some-finite-score-during-initialisation"
                fails.append(dict(signature=f"C15|{name}|raises {res['exc']}@{res['site']}|{cls}", detail=f"search raised {res['exc']}: {res['msg']} (mask={mask:b}, kind={kind})", case=case))
            elif res["status"] == "timeout":
                fails.append(dict(signature=f"C15|{name}|no-return-within-watchdog", detail=f"mask={mask:b} kind={kind}", case=case))
            else:
                for p in res["problems"]:
                    fails.append(dict(signature=f"C15|{name}|{p.split(' ')[0]}", detail=f"{p} (mask={mask:b}, kind={kind})", case=case))
            keys.add((name, kind, "all-init-nonfinite" if all_init_bad else ("none" if mask == 0 else "some")))
    return n, fails, keys


def tracker_runs(r, quick):
    """valid lists / tracked pairs under non-finite objectives, replayed on GFO.Model.Tracker (shared with C19)"""
    from .C19 import run_one
    specs = bkgen.all_optimizer_scenarios(r, C.T(3, 25), constraint_p=0.2, nonfinite_p=1.0)
    dis, keys, n_ops = [], set(), 0
    for spec in specs:
        out, mon, cap = run_one(spec)
        d = trk.compare(cap)
        n_ops += len(cap.lines)
        if d is not None and len(dis) < 10:
            dis.append(dict(case=spec, diff=d))
        keys.add((spec["opt"], "tracker-nonfinite"))
    return n_ops, dis, keys


def escalate(chk, names):
    """something broke and the sweep found nothing new: the same exhaustive masks for the optimizers the broken cases name (all of them
    when none is named) with other seeds, memory on as well, and longer calls after the masked prefix"""
    names = [n for n in names if n in gen.ALL_OPTIMIZERS] or None
    n, fails, keys = mask_sweep(True, names=names, seeds=(5, 11), memories=(False, True), extra=14)
    chk.monitor("ESCALATED search (a translator or correspondence broke): all masks again with other seeds, memory on / off, longer calls", n, fails, keys)


def run():
    chk = Check("C15", props_modules=["GFO.Props.C15", "GFO.Props.LocalRuns", "GFO.Props.PopRuns", "GFO.Props.EvoRuns", "GFO.Props.PatternRuns", "GFO.Props.PowellRuns", "GFO.Props.SimplexRuns", "GFO.Props.DirectRuns", "GFO.Props.EvalTotal", "GFO.Gen.TrackerGenCheck", "GFO.Gen.PatternGenCheck", "GFO.Gen.PowellGenCheck"], gen_steps=(translators.gen_tracker, translators.gen_pattern, translators.gen_powell, translators.gen_pins))
    chk.build_and_audit()
    r = C.rng("C15")
    quick = C.tier() != "thorough"
    tr = chk.stage("tracker runs", tracker_runs, r, quick)
    if tr:
        n_ops, dis, keys = tr
        chk.corr("backend-level: valid lists and tracked pairs under non-finite objectives replayed on GFO.Model.Tracker", n_ops, dis, keys)
    ms = chk.stage("mask sweep", mask_sweep, quick)
    if ms:
        n, fails, keys = ms
        chk.monitor("C15 statement, EXHAUSTIVE over all masks on the first k objective calls x {nan, +inf, -inf, mixture} for every optimizer (quick: k=6, model-based k=4; thorough: k=10 / 8)",
                    n, fails, keys, [dict(space="12 x 5", initialize={"random": 2, "vertices": 2}, kinds=list(KINDS) + ["mix"])])
    chk.exhaustive = True
    chk.assumptions.append("sklearn's reaction to degenerate training data is an oracle; construction sites that read the valid lists (simplex, Powell, pattern, Lipschitz, forest) are examined by the monitor only")
    from . import localgen
    localgen.add_to(chk, C.rng("C15-local"), C.T(8, 80), constraint_p=0.3, nonfinite_p=1.0)
    localgen.add_pt_to(chk, C.rng("C15-pt"), C.T(20, 200), constraint_p=0.3, nonfinite_p=1.0)
    localgen.add_pattern_to(chk, C.rng("C15-pattern"), C.T(20, 200), constraint_p=0.3, nonfinite_p=1.0)
    localgen.add_powell_to(chk, C.rng("C15-powell"), C.T(20, 200), constraint_p=0.3, nonfinite_p=1.0)
    localgen.add_simplex_to(chk, C.rng("C15-simplex"), C.T(20, 200), constraint_p=0.3, nonfinite_p=1.0)
    localgen.add_direct_to(chk, C.rng("C15-direct"), C.T(20, 200), constraint_p=0.3, nonfinite_p=1.0)
    if chk.needs_escalation():
        chk.stage("escalated search", escalate, chk, chk.broken_opts())
    scen.shutdown_manager()
    return chk.finish()
