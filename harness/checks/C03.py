"""C03 - search(n_iter=N) performs exactly N steps; step accounting is exact."""
from .. import common as C, gen, scen, translators
from ..runner import Check
from . import drvgen


def monitor(out):
    """the statement of C03 evaluated on the real run"""
    real = out["real"]
    opt, spec = real["opt"], real["spec"]
    fails = []
    total = 0
    n_inits = opt.init.n_inits
    pop = spec["opt_kwargs"].get("population")
    tag = f"{spec['opt']}" + (f"|population={pop}" if pop is not None else "")
    for r in real["records"]:
        c = r["spec"]
        if r["exc"] is not None and type(r["exc"]).__name__ == "StepTimeout":
            from . import drvcommon as D
            D.SKIPPED_RAISES.append(f"{tag}: watchdog (C08)")
            break
        if r["exc"] is not None:
            import traceback
            tb = traceback.extract_tb(r["exc"].__traceback__)
            site = next((f"{fr.filename.split('/')[-1]}:{fr.name}" for fr in reversed(tb) if "gradient_free_optimizers" in fr.filename), "?")
            fails.append(dict(signature=f"C03|{tag}|raises {type(r['exc']).__name__}@{site}",
                              detail=f"search(n_iter={c.n_iter}) raised {type(r['exc']).__name__}: {r['exc']}", case=spec))
            break
        snap = r["snapshot"]
        crit = c.max_time is not None or c.max_score is not None or bool(c.early_stopping)
        n_new = snap["rows"] - r["rows0"]
        total = snap["rows"]
        bad = []
        if not crit and n_new != c.n_iter:
            bad.append(f"rows added {n_new} != n_iter {c.n_iter}")
        if n_new > c.n_iter:
            bad.append(f"rows added {n_new} > n_iter {c.n_iter}")
        if snap["ninit"] + snap["niter"] != snap["rows"]:
            bad.append(f"n_init_total {snap['ninit']} + n_iter_total {snap['niter']} != rows {snap['rows']}")
        if snap["ninit"] != min(n_inits, snap["rows"]):
            bad.append(f"n_init_total {snap['ninit']} != min(n_inits {n_inits}, rows {snap['rows']})")
        if snap["nevalT"] != snap["rows"] or snap["niterT"] != snap["rows"]:
            bad.append(f"eval_times {snap['nevalT']} / iter_times {snap['niterT']} != rows {snap['rows']}")
        # init rows first within the call
        kinds = [e[0] for e in r["ev"] if e[0] in ("I", "T")]
        if "".join(kinds) != "I" * kinds.count("I") + "T" * kinds.count("T"):
            bad.append("iteration step before an initialisation step")
        for b in bad:
            fails.append(dict(signature=f"C03|{tag}|{b.split(' ')[0]}", detail=b, case=spec))
    if not any(r["exc"] for r in real["records"]):
        if len(opt.search_data) != total:
            fails.append(dict(signature=f"C03|{tag}|search_data-length", detail="len(search_data) != results_list", case=spec))
        for e, i in zip(opt.eval_times, opt.iter_times):
            if not (i >= e >= 0):
                fails.append(dict(signature=f"C03|{tag}|times", detail=f"iter_time {i} >= eval_time {e} >= 0 violated", case=spec))
                break
    return fails


def scenarios(r, n):
    out = []
    for k in range(n):
        spec = drvgen.base_scenario(r, cheap_bias=0.85)
        drvgen.history(r, spec, criteria=0.35)
        spec["durs"] = r.choice([[0], [1], [0.25, 0, 2], [0, 0, 1]])
        # print_times divides by the total iteration time: only with non-zero durations
        for c in spec["calls"]:
            if c["verbosity"] and r.random() < 0.3 and 0 not in spec["durs"]:
                c["verbosity"] = ["progress_bar", "print_results", "print_times"]
        out.append(spec)
    return out


def hazard_scenarios(r):
    """small populations, N below the population, single-point spaces (the quantifier's corners)"""
    out = []
    for opt in gen.POPULATION:
        for pop in (1, 2, 3):
            space = {"x0": [0, 1, 2, 3, 4], "x1": [0.5, 0.25, 1.0]}
            spec = dict(opt=opt, space=space, initialize={"random": 2, "vertices": 1}, opt_kwargs={"population": pop},
                        seed=r.randrange(1000), objective=gen.gen_objective(r, space, kinds=("lin", "peak")),
                        constraint=None, durs=[0], calls=[dict(n_iter=pop + 1, memory="on"), dict(n_iter=12, memory="on")])
            out.append(spec)
    for opt in gen.ALL_OPTIMIZERS:
        space = {"x0": [7]} if r.random() < 0.5 else {"x0": [7], "x1": [1.5]}
        spec = dict(opt=opt, space=space, initialize={"random": 1, "vertices": 1}, opt_kwargs={}, seed=r.randrange(1000),
                    objective=gen.gen_objective(r, space, kinds=("lin",)), constraint=None, durs=[0],
                    calls=[dict(n_iter=2, memory="on"), dict(n_iter=6, memory="off")])
        out.append(spec)
    return out


def run():
    chk = Check("C03", props_modules=["GFO.Props.C03", "GFO.Gen.DriverGenCheck"], gen_steps=(translators.gen_driver,))
    chk.build_and_audit()
    r = C.rng("C03")
    quick = C.tier() != "thorough"
    specs = hazard_scenarios(r) + scenarios(r, C.T(120, 1200))
    stub = stub_scenarios(r, C.T(40, 300))
    outs = scen.run_batch(specs + stub)
    dis, fails, keys, samples = [], [], set(), []
    for spec, o in outs:
        keys.add(scen.branch_key(o))
        if o["diff"] is not None:
            dis.append(dict(case=spec, diff=o["diff"]))
        fails += monitor(o)
        if len(samples) < 3:
            samples.append(dict(spec=spec, model_output_tail=o["got"][-1:] if o["got"] else None))
    chk.corr("driver-level searchCall vs Search.search (rows, counters, phases, times)", len(outs), dis, keys, samples)
    chk.monitor("C03 statement on the real runs", len(outs), fails)
    chk.notes.append("stub backends: %d scenarios; real optimizers: %d scenarios (incl. hazard corners)" % (len(stub), len(specs)))
    scen.shutdown_manager()
    return chk.finish()


def stub_scenarios(r, n):
    out = []
    for _ in range(n):
        space = drvgen.small_space(r)
        names = list(space)
        n_inits = r.choice([0, 1, 2, 3, 5])
        calls = []
        total = 0
        for _c in range(r.choice([1, 2, 3])):
            k = r.choice([1, 2, 3, 4, 7])
            total += k
            calls.append(dict(n_iter=k, memory=r.choice(["on", "off"]), verbosity=False))
        pos = [[r.randrange(len(space[nm])) for nm in names] for _ in range(total + 2)]
        out.append(dict(opt="stub", space=space, stub_positions=pos, stub_ninits=n_inits, opt_kwargs={},
                        objective=gen.gen_objective(r, space), calls=calls, durs=r.choice([[0], [1, 0.5]])))
    return out
