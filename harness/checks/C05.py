"""C05 - best_score / best_para are the true best of the evaluated rows."""
import copy
import math

from .. import common as C, gen, scen, translators
from ..runner import Check
from . import drvgen, drvcommon as D


def monitor(out):
    real = out["real"]
    opt, spec, f, names = real["opt"], real["spec"], real["f"], real["names"]
    fails = D.raise_failures("C05", out)
    tag = D.opt_tag(spec)
    rows = opt.results_mang.results_list
    for r in real["records"]:
        if r["exc"] is not None:
            break
        snap = r["snapshot"]
        new = rows[r["rows0"]:snap["rows"]]
        scores = [row["score"] for row in new]
        nonnan = [s for s in scores if not (isinstance(s, float) and math.isnan(s)) and not _isnan(s)]
        bs = snap["best_score"]
        if _isnan(bs):
            fails.append(dict(signature=f"C05|{tag}|nan-best", detail="best_score is NaN", case=spec))
            continue
        if not nonnan:
            continue
        mx = max(float(s) for s in nonnan)
        if float(bs) != mx and not (mx == float("-inf") and float(bs) == float("-inf")):
            fails.append(dict(signature=f"C05|{tag}|best-not-max", detail=f"best_score {bs} != max of the call's scores {mx}", case=spec))
            continue
        if mx == float("-inf"):
            if snap["best_para"] is None:
                fails.append(dict(signature="C05|any|all-neginf-best_para-None",
                                  detail="every score of the call is -inf/nan: best_para is None although rows attain the maximum", case=spec))
            continue
        first = next(row for row in new if not _isnan(row["score"]) and float(row["score"]) == mx)
        bp = snap["best_para"]
        if bp is None or any(not D.same_num(bp[n], first[n]) for n in names):
            fails.append(dict(signature=f"C05|{tag}|best-para-not-first", detail=f"best_para {bp} is not the first row attaining {mx}", case=spec))
            continue
        for n in names:
            if not any(D.same_num(bp[n], v) for v in real["space"][n]):
                fails.append(dict(signature=f"C05|{tag}|best-para-off-space", detail=f"{n}={bp[n]}", case=spec))
        if spec.get("constraint"):
            c = gen.build_constraint(spec["constraint"], spec["space"])
            if not c(bp):
                fails.append(dict(signature=f"C05|{tag}|best-para-infeasible", detail=str(bp), case=spec))
        res = f(bp)
        s = res[0] if isinstance(res, tuple) else res
        if r["spec"].memory_warm_start is None and not D.same_num(s, bs):
            fails.append(dict(signature=f"C05|{tag}|objective(best_para)!=best_score", detail=f"{s} != {bs}", case=spec))
    return fails


def _isnan(x):
    try:
        return math.isnan(float(x))
    except Exception:
        return False


def scenarios(r, n):
    out = []
    for _ in range(n):
        spec = drvgen.base_scenario(r, cheap_bias=0.9, constraint_p=0.3)
        spec["objective"] = gen.gen_objective(r, spec["space"], kinds=("plateau", "plateau", "const", "signed", "lin", "peak"))
        if r.random() < 0.45:
            spec["objective"] = gen.gen_nonfinite(r, spec["objective"], kinds=r.choice([("nan",), ("nan", "inf", "-inf"), ("-inf",), ("inf",)]))
        drvgen.history(r, spec)
        out.append(spec)
    return out


def verbosity_pairs(r, n):
    fails, keys = [], set()
    for _ in range(n):
        spec = drvgen.base_scenario(r, cheap_bias=1.0, constraint_p=0.2)
        spec["objective"] = gen.gen_objective(r, spec["space"], kinds=("plateau", "const", "lin", "peak"))
        drvgen.history(r, spec, ncalls=r.choice([1, 2]))
        spec["durs"] = [1]
        variants = []
        for verb in (False, [], ["progress_bar"], ["print_results"], ["progress_bar", "print_results", "print_times"]):
            s2 = copy.deepcopy(spec)
            for c in s2["calls"]:
                c["verbosity"] = verb
            variants.append(scen.run_scenario(s2, with_model=False)["real"])
        base = variants[0]
        for v, verb in zip(variants[1:], ("[]", "progress_bar", "print_results", "all")):
            if any(a["exc"] or b["exc"] for a, b in zip(base["records"], v["records"])):
                continue
            same = D.frames_equal(base["opt"].search_data, v["opt"].search_data) and all(
                D.same_num(a["snapshot"]["best_score"], b["snapshot"]["best_score"]) and a["snapshot"]["best_para"] == b["snapshot"]["best_para"]
                for a, b in zip(base["records"], v["records"]))
            if not same:
                fails.append(dict(signature=f"C05|{D.opt_tag(spec)}|verbosity-changes-result", detail=f"verbosity={verb} vs False", case=spec))
        keys.add((spec["opt"], "verbosity-matrix"))
    return fails, keys


def run():
    chk = Check("C05", props_modules=["GFO.Props.C05", "GFO.Gen.StopGenCheck", "GFO.Gen.MemGenCheck"], gen_steps=(translators.gen_stop, translators.gen_memory))
    chk.build_and_audit()
    r = C.rng("C05")
    quick = C.tier() != "thorough"
    specs = scenarios(r, C.T(140, 1500))
    fails = D.run_specs(chk, "driver-level best_score/best_pos/best_para vs _progress_bar.py + finish_search", specs, monitor)
    chk.monitor("C05 statement on the real runs (ties, plateaus, signs, non-finite)", len(specs), fails)
    vf, vk = verbosity_pairs(r, C.T(12, 150))
    chk.monitor("verbosity matrix: 5 verbosity settings give identical search_data / best", (C.T(12, 150)) * 5, vf, vk)
    scen.shutdown_manager()
    return chk.finish()
