"""Shared skeleton of the driver-level checks: run scenarios through real code + model, collect
disagreements, evaluate the property monitor on every real run."""
import math
import traceback

import numpy as np

from .. import common as C, gen, scen
from ..runner import Check


def exc_site(exc):
    tb = traceback.extract_tb(exc.__traceback__)
    return next((f"{fr.filename.split('/')[-1]}:{fr.name}" for fr in reversed(tb) if "gradient_free_optimizers" in fr.filename), "?")


def opt_tag(spec):
    pop = spec.get("opt_kwargs", {}).get("population")
    return spec["opt"] + (f"|population={pop}" if pop is not None else "")


RAISE_OWNERS = ("C03", "C15")
SKIPPED_RAISES = []


def raise_failures(pid, out):
    """an exception escaping search() is a failing input of C03 ("completes without raising") and C15 (non-finite
    scores); the other driver-level checks do not claim it - they skip the run and count it"""
    fails = []
    if pid not in RAISE_OWNERS:
        for r in out["real"]["records"]:
            if r["exc"] is not None:
                SKIPPED_RAISES.append(f"{opt_tag(out['real']['spec'])}: {type(r['exc']).__name__}")
        return fails
    spec = out["real"]["spec"]
    for r in out["real"]["records"]:
        if r["exc"] is not None and type(r["exc"]).__name__ == "StepTimeout":
            SKIPPED_RAISES.append(f"{opt_tag(spec)}: watchdog (C08)")
            continue
        if r["exc"] is not None:
            fails.append(dict(signature=f"{pid}|{opt_tag(spec)}|raises {type(r['exc']).__name__}@{exc_site(r['exc'])}",
                              detail=f"search raised {type(r['exc']).__name__}: {r['exc']}", case=spec))
    return fails


def run_specs(chk, name, specs, monitor, batch=80):
    dis, fails, keys, samples = [], [], set(), []
    n = 0
    for i in range(0, len(specs), batch):
        outs = scen.run_batch(specs[i:i + batch])
        for spec, o in outs:
            n += 1
            keys.add(scen.branch_key(o))
            if o["diff"] is not None:
                dis.append(dict(case=spec, diff=o["diff"]))
            try:
                fails += monitor(o)
            except Exception as e:  # the monitor cannot make sense of what the implementation produced
                if not any(b.get("name") == "monitor:" + name for b in chk.broken):
                    chk.broken.append(dict(kind="correspondence", name="monitor:" + name, case=spec,
                                           detail=f"property monitor could not evaluate the real run: {type(e).__name__}: {e}",
                                           traceback=traceback.format_exc()[-1500:]))
            if len(samples) < 2:
                samples.append(dict(spec=spec, model_result_line=(o["got"][-1] if o["got"] else None)))
    chk.corr(name, n, dis, keys, samples)
    return fails


def isfinite(x):
    try:
        xf = float(x)
        return not (math.isnan(xf) or math.isinf(xf))
    except Exception:
        return False


def same_num(a, b):
    try:
        fa, fb = float(a), float(b)
    except Exception:
        return a == b
    if math.isnan(fa) and math.isnan(fb):
        return True
    return fa == fb


def row_matches(row, para, result, names):
    """row == {**metrics, 'score': score, **para} for the objective result `result`"""
    if isinstance(result, tuple):
        score, metrics = result[0], dict(result[1])
    else:
        score, metrics = result, {}
    metrics = {k: v for k, v in metrics.items()}
    metrics["score"] = score
    expect = {**metrics, **{n: para[n] for n in names}}
    if set(expect) != set(row):
        return False, f"keys {sorted(map(str, row))} != {sorted(map(str, expect))}"
    for k, v in expect.items():
        if not same_num(row[k], v):
            return False, f"cell {k!r}: {row[k]!r} != {v!r}"
    return True, ""


def frames_equal(a, b):
    """canonical equality of two search_data frames (NaN == NaN, column order ignored)"""
    if a.shape[0] != b.shape[0] or set(a.columns) != set(b.columns):
        return False
    for col in a.columns:
        for x, y in zip(a[col].tolist(), b[col].tolist()):
            if not same_num(x, y):
                return False
    return True


def paired(spec_a, spec_b):
    """run two scenarios on the real code only; returns their `real` dicts"""
    oa = scen.run_scenario(spec_a, with_model=False)
    ob = scen.run_scenario(spec_b, with_model=False)
    return oa["real"], ob["real"]
