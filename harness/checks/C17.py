"""C17 - model-based proposals maximise the acquisition over sound training data."""
import math

import numpy as np
import pandas as pd

from .. import translators, common as C, gen, scen
from ..common import tok_f, tok_list
from ..runner import Check
from . import drvcommon as D

MODEL_BASED = ["BayesianOptimizer", "ForestOptimizer", "TreeStructuredParzenEstimators", "LipschitzOptimizer"]


def _finite(x):
    try:
        return not (math.isnan(float(x)) or math.isinf(float(x)))
    except Exception:
        return False


def gen_case(r, name, quick):
    nd = r.choice([1, 2, 2, 3])
    space = gen.gen_space(r, ndims=nd, sizes=[2, 3, 5, 10] if nd > 1 else [5, 10, 31])
    names = list(space)
    kw = {"replacement": r.choice([True, False])}
    if name == "BayesianOptimizer":
        kw["xi"] = r.choice([0.01, 0.3])
    if name == "TreeStructuredParzenEstimators":
        kw["gamma_tpe"] = r.choice([0.2, 0.5])
    if name == "ForestOptimizer":
        kw["tree_regressor"] = r.choice(["extra_tree", "random_forest", "gradient_boost"])
        kw["xi"] = r.choice([0.01, 0.3])
    if r.random() < 0.3:
        kw["sampling"] = {"random": r.choice([5, 20])}
    obj = gen.gen_objective(r, space, kinds=("lin", "peak", "plateau"))
    obj.pop("metrics", None)
    if r.random() < 0.4:
        obj = gen.gen_nonfinite(r, obj)
    warm = None
    if r.random() < 0.5:
        rows = []
        for _ in range(r.choice([1, 3, 6])):
            row = {n: r.choice(space[n]) for n in names}
            c = r.random()
            if c < 0.2:
                row[names[0]] = 987654          # out of space
            row["score"] = r.choice([1.5, -2.0, 0.25, float("nan"), float("inf")]) if r.random() < 0.3 else r.choice([1.5, -2.0, 0.25, 7.0])
            rows.append(row)
        warm = rows
    return dict(opt=name, space=space, opt_kwargs=kw, objective=obj, warm=warm, seed=r.randrange(10000),
                initialize={"random": r.choice([2, 3]), "vertices": r.choice([0, 2])}, n_iter=r.choice([8, 12]) if quick else r.choice([10, 18]))


def run_case(spec):
    """returns (fails, protocol lines, expected, key)"""
    import gradient_free_optimizers.optimizers.global_opt.lipschitz_optimization as lip
    space = gen.build_space(spec["space"])
    names = list(space)
    f = gen.build_objective(spec["objective"], names)
    cls = gen.get_class(spec["opt"])
    kw = dict(spec["opt_kwargs"])
    if spec["warm"] is not None:
        kw["warm_start_smbo"] = pd.DataFrame(spec["warm"])
    opt = cls(space, initialize=dict(spec["initialize"]), random_state=spec["seed"], **kw)
    tag = f"{spec['opt']}|replacement={spec['opt_kwargs']['replacement']}"
    fails, lines, expect = [], [C.space_line(space)], ["ok"]
    rec = dict(acq=None, cands=None)
    proposals = []          # (position, came from the model?) of the iteration phase
    history = []            # (pos, score) of every evaluation

    # --- capture the acquisition vector and the candidate set it was computed on
    if spec["opt"] == "LipschitzOptimizer":
        orig_calc = lip.LipschitzFunction.calculate

        def calc(self_, X, Y, sb):
            out = orig_calc(self_, X, Y, sb)
            rec["acq"] = np.ma.getdata(out).ravel().copy() if hasattr(out, "mask") else np.asarray(out).ravel().copy()
            rec["cands"] = np.asarray(self_.position_l).copy()
            return out
        lip.LipschitzFunction.calculate = calc
    else:
        orig_ei = opt._expected_improvement

        def ei():
            out = orig_ei()
            rec["acq"] = np.asarray(out).ravel().copy()
            rec["cands"] = np.asarray(opt.pos_comb).copy()
            return out
        opt._expected_improvement = ei
    orig_it = opt.iterate
    n_warm = len(opt.X_sample)
    warm_X = [[int(x) for x in p] for p in opt.X_sample]
    warm_Y = list(opt.Y_sample)
    # warm filter correspondence
    if spec["warm"] is not None:
        rows = " ".join(" ".join(tok_f(rw[n]) for n in names) + " " + tok_f(rw["score"]) for rw in spec["warm"])
        lines.append(f"xwarmfilter {len(spec['warm'])} {rows}")
        conv = opt.conv
        kept = [(conv.position2value(p), y) for p, y in zip(opt.X_sample, opt.Y_sample)]
        expect.append(C.show_list(kept, lambda e: C.show_list(e[0], C.tok_rat) + ":" + tok_f(e[1])))
        bad = [(v, y) for v, y in kept if not math.isfinite(float(y))]
        if bad:
            fails.append(dict(signature=f"C17|{tag}|non-finite-score-in-training-data", detail=f"warm start left (values, score) = {bad[0]} in X_sample/Y_sample", case=spec))
        for v, y in kept:
            ys = [rw["score"] for rw in spec["warm"] if all(math.isfinite(float(rw[n])) for n in names) and tuple(float(rw[n]) for n in names) == tuple(float(x) for x in v)]
            if not any((float(y) == float(t)) for t in ys if math.isfinite(float(t))):
                fails.append(dict(signature=f"C17|{tag}|training-score-not-of-its-row", detail=f"training pair {(v, y)}: no valid warm start row has these values with this score (rows with these values have scores {ys})", case=spec))
                break
    lines.append("xreset 0")
    expect.append("ok")
    if n_warm:
        lines.append("xwarm " + str(n_warm) + " " + " ".join(tok_list(p, str) + " " + tok_f(y) for p, y in zip(warm_X, warm_Y)))
        expect.append("ok")

    def it():
        rec["acq"] = None
        p = orig_it()
        pl = [int(x) for x in np.asarray(p).ravel()]
        if rec["acq"] is not None:
            acq, cands = rec["acq"], rec["cands"]
            idx = [i for i in range(len(cands)) if [int(x) for x in cands[i]] == pl]
            if any(math.isnan(a) for a in acq):
                pass
            elif not idx or not any(acq[i] == np.max(acq) for i in idx):
                fails.append(dict(signature=f"C17|{tag}|proposal-not-argmax", detail=f"proposed {pl}: acquisition {acq[idx[0]] if idx else None} but the maximum over the candidate set is {np.max(acq)}", case=spec))
            # selection correspondence with numpy's own permutation
            perm = np.argsort(acq)
            lines.append(f"xsel {tok_list(acq, tok_f)} {tok_list(perm, str)}")
            chosen = int(perm[-1])
            expect.append(f"sorted=true idx={chosen}")
            if [int(x) for x in cands[chosen]] != pl and not (idx and acq[idx[0]] == acq[chosen]):
                fails.append(dict(signature=f"C17|{tag}|proposal-not-last-of-argsort", detail=f"proposed {pl}, argsort's last candidate is {cands[chosen].tolist()}", case=spec))
            proposals.append((pl, True))
        else:
            proposals.append((pl, False))
        return p
    opt.iterate = it

    def obj(p):
        return f(p)

    exc = None
    try:
        with scen.time_limit(scen.WATCHDOG_S * 3):
            # drive step by step to compare X/Y after every evaluation
            opt.init_search(obj, spec["n_iter"], None, None, None, True, None, False)
            for i in range(spec["n_iter"]):
                opt.search_step(i)
                pos = [int(x) for x in opt.pos_l[-1]]
                score = opt.score_l[-1]
                history.append((pos, score))
                lines.append("xpos " + tok_list(pos, str))
                expect.append("ok")
                lines.append("xscore " + tok_f(score))
                expect.append(f"X={C.show_list([[int(x) for x in p] for p in opt.X_sample], C.show_pos)} Y={C.show_list(opt.Y_sample, tok_f)} ncands=0")
                # property monitor: training set == warm rows ++ finite-scored evaluations, in order
                want = list(zip(warm_X, warm_Y)) + [(p, s) for p, s in history if _finite(s)]
                have = list(zip([[int(x) for x in p] for p in opt.X_sample], opt.Y_sample))
                if len(opt.X_sample) != len(opt.Y_sample) or [(p, float(s)) for p, s in have] != [(p, float(s)) for p, s in want]:
                    fails.append(dict(signature=f"C17|{tag}|training-set-unsound", detail=f"after step {i}: (X,Y) = {have[-3:]} (len {len(opt.X_sample)}/{len(opt.Y_sample)}), expected tail {want[-3:]}", case=spec))
                    break
            opt.finish_search()
    except scen.StepTimeout:
        D.SKIPPED_RAISES.append(f"{spec['opt']}: watchdog")
    except Exception as e:  # noqa
        exc = e
        D.SKIPPED_RAISES.append(f"{spec['opt']}: {type(e).__name__}")
    finally:
        if spec["opt"] == "LipschitzOptimizer":
            lip.LipschitzFunction.calculate = orig_calc
    if not spec["opt_kwargs"]["replacement"]:
        model_props = [tuple(p) for p, m in proposals if m]
        if len(set(model_props)) != len(model_props):
            fails.append(dict(signature=f"C17|{tag}|position-proposed-twice-without-replacement", detail=f"model-based proposals {model_props}", case=spec))
    key = (spec["opt"], spec["opt_kwargs"]["replacement"], "warm" if spec["warm"] else "nowarm", "nonfinite" if "nonfinite" in spec["objective"] else "finite",
           "sampled" if "sampling" in spec["opt_kwargs"] else "full", "fallback" if any(not m for _p, m in proposals) else "model")
    return fails, lines, expect, key


def escalate(chk):
    """a translator / correspondence of the surrogate-model bookkeeping broke: runs aimed at the clauses that are rarely exercised -
    replacement=False under objectives whose non-finite region covers half of the space, subsampling, warm starts"""
    r = C.rng("C17-escalate")
    fails, n = [], 0
    for name in MODEL_BASED:
        for _ in range(12):
            spec = gen_case(r, name, False)
            spec["opt_kwargs"]["replacement"] = False
            base = {k: v for k, v in spec["objective"].items() if k != "nonfinite"}
            spec["objective"] = dict(base, nonfinite=dict(mod=2, res=r.choice([0, 1]), vals=[r.choice(["nan", "inf", "-inf"]) for _ in range(3)], salt=r.randrange(1000)))
            spec["n_iter"] = 16
            fl, _lines, _expect, _key = run_case(spec)
            fails += fl
            n += 1
    chk.monitor("ESCALATED search (a translator or correspondence broke): C17 statement on runs aimed at replacement=False with large non-finite regions", n, fails)


def run():
    chk = Check("C17", props_modules=["GFO.Props.C17", "GFO.Props.SmboRuns", "GFO.Props.DirectSelect", "GFO.Gen.SmboGenCheck", "GFO.Gen.TrackerGenCheck", "GFO.Gen.DirectGenCheck"], gen_steps=(translators.gen_smbo, translators.gen_tracker, translators.gen_direct))
    chk.build_and_audit()
    r = C.rng("C17")
    quick = C.tier() != "thorough"

    def stage():
        fails, keys, dis, n = [], set(), [], 0
        all_lines, all_expect, owners = [], [], []
        for name in MODEL_BASED:
            for _ in range(C.T(5, 40)):
                spec = gen_case(r, name, quick)
                fl, lines, expect, key = run_case(spec)
                fails += fl
                keys.add(key)
                n += 1
                # X/Y lines: ncands is not tracked by the replay (candidate removal is checked by the monitor): mask it
                all_lines += lines + ["mark"]
                all_expect.append((spec, lines, expect))
        got = C.run_driver(all_lines, timeout=1200)
        chunks, cur = [], []
        for l in got:
            if l == "----":
                chunks.append(cur); cur = []
            else:
                cur.append(l)
        n_lines = 0
        for (spec, lines, expect), ch in zip(all_expect, chunks):
            for l, e, g in zip(lines, expect, ch):
                n_lines += 1
                g2 = g.rsplit(" ncands=", 1)[0] if g.startswith("X=") else g
                e2 = e.rsplit(" ncands=", 1)[0] if e.startswith("X=") else e
                if e2 != g2 and len(dis) < 10:
                    dis.append(dict(case=spec, diff=dict(cmd=l[:300], real=e2[:400], model=g2[:400])))
        return n, fails, keys, dis, n_lines

    st = chk.stage("model-based runs", stage)
    if st:
        n, fails, keys, dis, n_lines = st
        chk.corr("backend-level: X_sample/Y_sample after every step, arg-max selection with numpy's own argsort permutation, warm_start_smbo filter vs GFO.Model.Smbo", n_lines, dis, keys)
        chk.monitor("C17 statement on real runs of the four model-based optimizers (options, non-finite regions, replacement, warm_start_smbo with in-space / out-of-space / non-finite rows)", n, fails)
    chk.assumptions.append("acquisition formulas (expected improvement, density ratio, Lipschitz bound), the surrogates and argsort are oracles: the monitor reads the acquisition vector the real code computed")
    scen.shutdown_manager()
    from . import localgen
    localgen.add_smbo_to(chk, C.rng("C17-smbo"), C.T(6, 40), constraint_p=0.4, nonfinite_p=0.3)
    localgen.add_direct_to(chk, C.rng("C17-direct"), C.T(20, 200), constraint_p=0.4, nonfinite_p=0.2)
    if chk.needs_escalation():
        chk.stage("escalated search", escalate, chk)
    return chk.finish()
