"""C14 - max_time: no step starts after the time budget is exhausted (virtual clock)."""
from .. import common as C, gen, scen, translators
from ..runner import Check
from . import drvgen, drvcommon as D


def monitor(out):
    real = out["real"]
    opt, spec = real["opt"], real["spec"]
    fails = D.raise_failures("C14", out)
    tag = D.opt_tag(spec)
    for r in real["records"]:
        c = r["spec"]
        if r["exc"] is not None or c.max_time is None:
            continue
        other = c.max_score is not None or bool(c.early_stopping)
        snap = r["snapshot"]
        durs = opt.eval_times[r["rows0"]:snap["rows"]]
        T = c.max_time
        elapsed, first = 0, None
        for k, dt in enumerate(durs):
            elapsed += dt
            if elapsed > T and first is None:
                first = k + 1
        n_new = len(durs)
        if first is not None and (n_new > first or (n_new != first and not other)):
            fails.append(dict(signature=f"C14|{tag}|step-started-after-deadline", detail=f"T={T} durations={durs}: rows={n_new}, deadline passed after step {first}", case=spec))
        if first is None and n_new != c.n_iter and not other:
            fails.append(dict(signature=f"C14|{tag}|stopped-before-deadline", detail=f"T={T} durations={durs}: rows={n_new} != n_iter={c.n_iter}", case=spec))
    return fails


def scenarios(r, n):
    out = []
    for _ in range(n):
        spec = drvgen.base_scenario(r, cheap_bias=0.9, constraint_p=0.1)
        spec["durs"] = r.choice([[1], [0.5, 0, 2], [0, 0, 0, 3], [0.25], [2, 1, 0.5, 0.125], [0]])
        calls = []
        for _c in range(r.choice([1, 2, 3])):
            n_iter = r.choice([1, 4, 8, 12]) if spec["opt"] not in gen.SMBO else r.choice([1, 4, 8])
            c = dict(n_iter=n_iter, memory=r.choice(["on", "off"]), max_time=r.choice([0.5, 1, 2, 2.5, 3, 7, 100]),
                     verbosity=r.choice(drvgen.VERBS[:3]))
            k = r.random()
            if k < 0.2:      # combined with the other criteria: the time budget must still be honoured
                c["early_stopping"] = {"n_iter_no_change": r.choice([2, 5, 1000])}
            elif k < 0.35:
                c["max_score"] = r.choice([-1e9, 1e9, 0])
            elif k < 0.45:
                c["early_stopping"] = {"n_iter_no_change": 1000}; c["max_score"] = 1e9
            calls.append(c)
        spec["calls"] = calls
        out.append(spec)
    return out


def function_level():
    import gradient_free_optimizers._stop_run as sr
    from ..drv import VClock
    from ..common import tok_f, tok_opt, tok_rat
    lines, expect = [], []
    clock = VClock(0)
    saved = sr.time
    sr.time = clock
    try:
        for now in (0, 0.5, 1, 2, 2.5, 10):
            for start in (0, 0.5, 1):
                for mt in (None, 0, 0.5, 1, 1.5, 2, 9.5):
                    clock.now = now
                    lines.append(f"timeexc {tok_rat(now)} {tok_rat(start)} {tok_opt(mt, tok_f)}")
                    expect.append("true" if sr.time_exceeded(start, mt) else "false")
    finally:
        sr.time = saved
    got = C.run_driver(lines)
    dis = [dict(case=None, diff=dict(cmd=l, real=e, model=g)) for l, e, g in zip(lines, expect, got) if e != g]
    return len(lines), dis


def stopcheck_level():
    """StopRun.check with every combination of the three criteria (order of the if/elif chain)"""
    import gradient_free_optimizers._stop_run as sr
    from ..drv import VClock
    from ..common import tok_f, tok_opt, tok_rat
    lines, expect = [], []
    clock = VClock(0)
    saved = sr.time
    sr.time = clock
    try:
        for now in (0.5, 2):
            for mt in (None, 1):
                for ms in (None, 3):
                    for sb in (1, 5):
                        for es in (None, {"n_iter_no_change": 2}, {"n_iter_no_change": 2, "tol_abs": 0.5}):
                            for scores in ([1, 1, 1, 1], [1, 2, 3, 4], [1, 5, 5.25, 5.25]):
                                clock.now = now
                                st = sr.StopRun(0, mt, ms, es)
                                st.update(sb, [float(x) for x in scores])
                                try:
                                    res = "true" if st.check() else "false"
                                except Exception as e:  # noqa
                                    res = "err:" + type(e).__name__
                                es_tok = "0 - - -" if not es else f"1 {es['n_iter_no_change']} {tok_opt(es.get('tol_abs'), tok_f)} -"
                                lines.append(f"stopcheck py {tok_rat(now)} 0 {tok_opt(mt, tok_f)} {tok_opt(ms, tok_f)} {es_tok} {tok_f(sb)} {len(scores)} " + " ".join(tok_f(x) for x in scores))
                                expect.append(res)
    finally:
        sr.time = saved
    got = C.run_driver(lines)
    dis = [dict(case=None, diff=dict(cmd=l, real=e, model=g)) for l, e, g in zip(lines, expect, got) if e != g]
    return len(lines), dis[:10]


def run():
    chk = Check("C14", props_modules=["GFO.Props.C14", "GFO.Gen.StopGenCheck", "GFO.Gen.DriverGenCheck"], gen_steps=(translators.gen_stop, translators.gen_driver,))
    chk.build_and_audit()
    r = C.rng("C14")
    quick = C.tier() != "thorough"
    fl = chk.stage('function-level', function_level)
    n, dis = fl if fl else (0, [])
    chk.corr("function-level time_exceeded on a (now, start, max_time) grid incl. exact hits", n, dis, {("fn", "grid")},
             [dict(grid="6 x 3 x 7 incl. exact hits of T and max_time in {None, 0}")])
    sl = chk.stage('function-level StopRun.check', stopcheck_level)
    if sl:
        chk.corr("function-level StopRun.check with every combination of max_time / max_score / early_stopping", sl[0], sl[1], {("fn", "stopcheck-combos")})
    specs = scenarios(r, C.T(150, 1500))
    fails = D.run_specs(chk, "driver-level stop step under max_time (virtual clock) vs search.py/_stop_run.py/_times_tracker.py", specs, monitor)
    chk.monitor("C14 statement on the real runs (duration schedules with zeros, exact hits, cache hits)", len(specs), fails)
    chk.assumptions.append("real wall-clock behaviour (time.time resolution, step-internal overhead) is outside the model: the property is stated against the substituted clock")
    scen.shutdown_manager()
    return chk.finish()
