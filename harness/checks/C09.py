"""C09 - score-using optimizers are directed towards higher scores."""
import numpy as np
from concurrent.futures import ProcessPoolExecutor

from .. import common as C, gen, scen, translators
from ..common import tok_f, tok_list
from ..runner import Check
from . import drvcommon as D

BLIND = ["RandomSearchOptimizer", "GridSearchOptimizer"]


def landscape(r, nd):
    """unimodal, maximiser near one corner, minimiser far away; three sign regimes via an offset"""
    sizes = [r.choice([15, 25, 40]) for _ in range(nd)]
    corner = [r.choice([0, 1]) for _ in range(nd)]
    opt = [int(c * (s - 1) * 0.9 + (1 - c) * (s - 1) * 0.1) for c, s in zip(corner, sizes)]
    offset = r.choice(["pos", "neg", "mixed"])
    return dict(sizes=sizes, opt=opt, offset=offset)


def make_f(ls, sign):
    sizes, opt, offset = ls["sizes"], ls["opt"], ls["offset"]
    span = sum((s - 1) ** 2 for s in sizes)
    shift = {"pos": span + 10.0, "neg": -10.0, "mixed": span / 2.0}[offset]

    def f(p):
        v = shift - sum((float(p[f"x{i}"]) - o) ** 2 for i, o in enumerate(opt))
        return sign * v
    return f


def one_pair(args):
    name, ls, seed, n_iter = args[:4]
    kw = args[4] if len(args) > 4 else {}
    label = args[5] if len(args) > 5 else name
    import warnings, logging
    warnings.filterwarnings("ignore")
    logging.disable(logging.CRITICAL)
    space = {f"x{i}": np.arange(s) for i, s in enumerate(ls["sizes"])}
    cls = gen.get_class(name)
    res = []
    f_true = make_f(ls, 1)
    for sign in (1, -1):
        try:
            opt = cls(space, random_state=seed, **kw)
            with scen.time_limit(120):
                opt.search(make_f(ls, sign), n_iter=n_iter, verbosity=False)
        except C.Infra:
            raise
        except Exception as e:  # noqa
            return dict(name=label, seed=seed, error=type(e).__name__)
        vals = [f_true({k: row[k] for k in space}) for row in opt.results_mang.results_list]
        half = vals[len(vals) // 2:]
        res.append((float(np.mean(half)), [tuple(int(x) for x in p) for p in opt.pos_l], vals))
    # a run that ends by evaluating ONE point whose score is exactly 0 over and over (LipschitzOptimizer's masked zero entries)
    stuck0 = any(len(set(r_[1][-8:])) == 1 and len(r_[1]) >= 8 and r_[2][-1] == 0 for r_ in res)
    return dict(name=label, seed=seed, up=res[0][0], down=res[1][0], same_points=res[0][1] == res[1][1], stuck0=stuck0)


def sign_test(r, quick, names, seeds, variants=True):
    jobs = []
    for name in names:
        n_iter = 40 if name in gen.SMBO else 150
        nls = 1 if quick else 3
        for k in range(nls):
            ls = landscape(C.rng(f"C09-ls-{name}-{k}"), 2 if name in gen.SMBO else r.choice([1, 2, 3]))
            for sd in seeds:
                jobs.append((name, ls, sd, n_iter))
        if name in gen.SMBO and name != "LipschitzOptimizer" and variants:
            # candidate subsampling active: the surrogate is evaluated on a random subset of the space
            ls = dict(landscape(C.rng(f"C09-ls-sub-{name}"), 2), sizes=[40, 40])
            ls["opt"] = [int(o * 39 / max(1, s - 1)) for o, s in zip(ls["opt"], landscape(C.rng(f"C09-ls-sub-{name}"), 2)["sizes"])]
            for sd in seeds:
                jobs.append((name, ls, sd, n_iter, {"sampling": {"random": 100}}, name + "|sampling.random=100"))
    out = {}
    with ProcessPoolExecutor(max_workers=14) as ex:
        for res in ex.map(one_pair, jobs, chunksize=2):
            out.setdefault(res["name"], []).append(res)
    return out


def function_level(r):
    from gradient_free_optimizers.optimizers.local_opt.hill_climbing_optimizer import max_list_idx
    lines, expect = [], []
    for _ in range(400):
        l = [r.choice([-2.0, -0.5, 0.0, 1.0, 1.0, 3.5, 7.0]) for _ in range(r.choice([1, 2, 3, 5, 8]))]
        lines.append("maxidx " + tok_list(l, tok_f))
        expect.append(str(max_list_idx(l)))
    got = C.run_driver(lines)
    dis = [dict(case=None, diff=dict(cmd=l, real=e, model=g)) for l, e, g in zip(lines, expect, got) if e != g][:10]
    return len(lines), dis


def run():
    chk = Check("C09", props_modules=["GFO.Props.C09", "GFO.Props.GaSelect", "GFO.Props.SmboRuns", "GFO.Props.DirectSelect", "GFO.Props.SortPop", "GFO.Gen.PopGenCheck", "GFO.Gen.SmboGenCheck", "GFO.Gen.GaGenCheck"], gen_steps=(translators.gen_pop, translators.gen_smbo, translators.gen_tracker, translators.gen_ga))
    chk.build_and_audit()
    r = C.rng("C09")
    quick = C.tier() != "thorough"
    fl = chk.stage("function-level", function_level, r)
    if fl:
        chk.corr("function-level max_list_idx (hill-climbing window pick) vs Tracker.maxListIdx incl. ties", fl[0], fl[1], {("maxidx",)})

    def stage():
        seeds = [C.rng(f"C09-seed-{i}").randrange(100000) for i in range(C.T(6, 20))]
        fails, keys = [], set()
        res = sign_test(r, quick, gen.ALL_OPTIMIZERS, seeds)
        n = 0
        summary = {}
        for name, rs in sorted(res.items()):
            ok = [x for x in rs if "error" not in x]
            n += 2 * len(rs)
            if name in BLIND:
                bad = [x for x in ok if not x["same_points"]]
                if bad:
                    fails.append(dict(signature=f"C09|{name}|score-blind-optimizer-depends-on-scores", detail=f"run on f and on -f evaluate different points (seed {bad[0]['seed']})", case=dict(opt=name, seed=bad[0]["seed"])))
                keys.add((name, "blind"))
                summary[name] = "same points in %d/%d pairs" % (len(ok) - len(bad), len(ok))
                continue
            if not ok:
                continue
            # sequential paired sign test with a wide margin: healthy optimizers favour f in 90-100 % of the pairs.
            #   all pairs favour f -> directed;   otherwise the seed set is doubled (pass at >= 90 %), then grown to
            #   6 x the first set; final verdict: NOT directed iff fewer than 70 % of all pairs favour f.
            def fr():
                return sum(1 for x in ok if x["up"] > x["down"]) / len(ok)
            frac = fr()
            stage_no = 0
            while True:
                if frac == 1.0 or (stage_no >= 1 and frac >= 0.9) or stage_no >= 2:
                    break
                stage_no += 1
                k = len(seeds) * (1 if stage_no == 1 else 4)
                more = sign_test(r, quick, [name.split('|')[0]], [C.rng(f"C09-seed{stage_no + 1}-{i}").randrange(100000) for i in range(k)], variants="|" in name)
                add = [x for x in more.get(name, []) if "error" not in x]
                n += 2 * len(more.get(name, []))
                if not add:
                    break
                ok += add
                frac = fr()
            summary[name] = "%d/%d pairs favour f (%.0f %%)" % (sum(1 for x in ok if x["up"] > x["down"]), len(ok), 100 * frac)
            if frac < 0.7:
                sig = f"C09|{name}|not-directed"
                free = [x for x in ok if not x.get("stuck0")]
                if name.startswith("LipschitzOptimizer") and len(free) < len(ok) and free and sum(1 for x in free if x["up"] > x["down"]) / len(free) >= 0.9:
                    # every pair that does not favour f ends stuck at a zero-score sample: the known mechanism, nothing else
                    sig += "|only-runs-stuck-at-a-zero-score-sample"
                    summary[name] += "; without the %d runs stuck at a zero-score sample: %d/%d" % (len(ok) - len(free), sum(1 for x in free if x["up"] > x["down"]), len(free))
                fails.append(dict(signature=sig, detail=f"paired sign test: {summary[name]}", case=dict(opt=name, seeds=[x["seed"] for x in ok][:10], results=[(round(x["up"], 2), round(x["down"], 2)) for x in ok][:10])))
            keys.add((name, "directed" if frac >= 0.9 else ("margin" if frac >= 0.7 else "not-directed")))
        return n, fails, keys, summary

    st = chk.stage("paired sign test", stage)
    if st:
        n, fails, keys, summary = st
        chk.monitor("paired runs on f and -f (unimodal, optimum near a corner, 3 sign regimes): score-blind optimizers evaluate identical points; every other optimizer (and the surrogate optimizers with candidate subsampling on) must favour f: sequential test - all pairs, else seed set doubled (>= 90 %), else 6 x seeds; fewer than 70 % of all pairs favouring f is a failing input",
                    n, fails, keys, [summary])
    from . import localgen
    # the decision sites whose orientation is a theorem about a complete model are tied to the code here: GA's parent selection
    # (GaSelect), ES's sort (checked argsort), the acquisition ordering of the surrogate optimizers (SmboRuns) and DIRECT's selection
    localgen.add_pt_to(chk, C.rng("C09-ea"), C.T(30, 200), constraint_p=0.2, nonfinite_p=0.1,
                       names=["GeneticAlgorithmOptimizer", "EvolutionStrategyOptimizer"])
    localgen.add_smbo_to(chk, C.rng("C09-smbo"), C.T(3, 20), constraint_p=0.2, nonfinite_p=0.1)
    localgen.add_direct_to(chk, C.rng("C09-direct"), C.T(10, 100), constraint_p=0.2, nonfinite_p=0.1)
    chk.assumptions.append("the statistical half of C09 ('seed for seed higher') is examined by the paired sign test only - it is not a theorem about any executable model")
    scen.shutdown_manager()
    return chk.finish()
