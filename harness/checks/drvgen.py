"""Scenario generators for the driver-level checks (C03 C04 C05 C06 C12 C13 C14 C18 share them)."""
from .. import gen

VERBS = [False, [], ["progress_bar"], ["print_results"], ["progress_bar", "print_results"]]


def small_space(r, allow_single=True):
    sizes = [1, 2, 3, 5, 10] if allow_single else [2, 3, 5, 10]
    return gen.gen_space(r, ndims=r.choice([1, 1, 2, 2, 3]), sizes=sizes)


def n_iter_choices(r, n_inits, pop=None):
    c = [1, 2, 3, max(1, n_inits - 1), n_inits, n_inits + 1, n_inits + 4, n_inits + 9]
    if pop:
        c += [max(1, pop - 1), pop, pop + 1, 2 * pop + 1]
    return r.choice(c)


def base_scenario(r, opt=None, cheap_bias=0.8, constraint_p=0.25, allow_single=True):
    if opt is None:
        opt = r.choice(gen.CHEAP) if r.random() < cheap_bias else r.choice(gen.ALL_OPTIMIZERS)
    space = small_space(r, allow_single)
    ini = gen.gen_initialize(r)
    kw = gen.gen_opt_kwargs(r, opt)
    spec = dict(opt=opt, space=space, initialize=ini, opt_kwargs=kw, seed=r.randrange(10_000),
                objective=gen.gen_objective(r, space), constraint=None, durs=[0])
    if r.random() < constraint_p and gen.space_size(space) >= 4:
        spec["constraint"] = gen.gen_constraint(r, space)
    return spec


def est_n_inits(spec):
    ini = spec["initialize"]
    n = sum(v for k, v in ini.items() if isinstance(v, int)) + len(ini.get("warm_start", []))
    pop = spec["opt_kwargs"].get("population")
    if spec["opt"] in gen.POPULATION:
        pop = pop if pop is not None else (5 if spec["opt"] == "ParallelTemperingOptimizer" else 10)
        n = max(n, pop)
    return n, pop


def history(r, spec, ncalls=None, criteria=False, memory_choices=("on", "on", "off"), smbo_cap=12):
    n_inits, pop = est_n_inits(spec)
    k = ncalls or r.choice([1, 1, 2, 3, 4])
    calls = []
    for _ in range(k):
        n = n_iter_choices(r, n_inits, pop)
        if spec["opt"] in gen.SMBO:
            n = min(n, smbo_cap)
        c = dict(n_iter=n, memory=r.choice(memory_choices), verbosity=r.choice(VERBS), via="search")
        if criteria and r.random() < criteria:
            kind = r.choice(["max_score", "early", "max_time"])
            if kind == "max_score":
                c["max_score"] = r.choice([-5, 0, 0.5, 3, 10])
            elif kind == "early":
                c["early_stopping"] = {"n_iter_no_change": r.choice([1, 2, 3])}
            else:
                c["max_time"] = r.choice([1, 2, 5])
        calls.append(c)
    spec["calls"] = calls
    return spec
