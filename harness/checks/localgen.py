"""Whole-optimizer correspondence stage shared by C01 C02 C15 C19: the six optimizers that are modelled completely
(GFO.Model.Local) run on recorded generator / constraint tapes."""
from .. import common as C, loc, gen
from . import bkgen


def specs(r, per_opt, constraint_p=0.5, nonfinite_p=0.0, sizes=None):
    out = []
    for name in loc.LOCAL_OPTIMIZERS:
        for _ in range(per_opt):
            sp = bkgen.scenario(r, name, constraint_p=constraint_p, nonfinite_p=nonfinite_p, sizes=sizes)
            if r.random() < 0.3:
                sp["opt_kwargs"]["rand_rest_p"] = r.choice([0.2, 0.5, 1])
            out.append(sp)
    return out


def stage(chk, r, per_opt, **kw):
    """returns (n, disagreements, keys, samples)"""
    sps = specs(r, per_opt, **kw)
    dis, keys, samples = [], set(), []
    n = 0
    for i in range(0, len(sps), 60):
        for s, o in loc.run_local_batch(sps[i:i + 60]):
            n += 1
            raised = any(rc["exc"] is not None for rc in o["real"]["records"])
            keys.add((s["opt"], tuple(sorted(o["tape_kinds"])), bool(s.get("constraint")), "raised" if raised else "ok",
                      gen.flavour(s["objective"])))
            if o["diff"] is not None:
                dis.append(dict(case=s, diff=o["diff"]))
            elif len(samples) < 2:
                samples.append(dict(opt=s["opt"], tape_entries=o["tape_len"], tape_kinds=o["tape_kinds"], model_last_line=o["got"][-1][:300]))
    return n, dis, keys, samples


NAME = ("whole optimizer (HillClimbing, StochasticHC, SimulatedAnnealing, RepulsingHC, RandomRestartHC, RandomSearch): "
        "GFO.Model.Local driven through the driver model by the recorded generator/constraint tape must emit the same positions, rows, "
        "trace, best result and final tracker state and consume the tape exactly")


def add_to(chk, r, per_opt, **kw):
    st = chk.stage("whole-optimizer tape correspondence", stage, chk, r, per_opt, **kw)
    if st:
        n, dis, keys, samples = st
        chk.corr(NAME, n, dis, keys, samples)


# ----------------------------------------------------------------------------- GridSearchOptimizer, complete model

GRID_NAME = ("whole optimizer GridSearchOptimizer (outer + inner diagonal/orthogonal object): GFO.Model.GridBackend driven through the driver model "
             "by the recorded constraint verdicts / fallback positions must emit the same positions, rows, trace, best result, both trackers, "
             "pointer and direction and consume the tape exactly")


def grid_specs(r, n, constraint_p=0.4):
    out = []
    for _ in range(n):
        sp = bkgen.scenario(r, "GridSearchOptimizer", constraint_p=constraint_p, sizes=[1, 2, 3, 4, 5, 7, 10])
        size = gen.space_size(sp["space"])
        divs = [k for k in range(1, size + 1) if size % k == 0]
        sp["opt_kwargs"]["step_size"] = r.choice(divs + [1, 1, r.choice([2, 3, 5, 7])])
        sp["opt_kwargs"]["direction"] = r.choice(["diagonal", "orthogonal"])
        sp["calls"] = [dict(c, n_iter=c["n_iter"] + r.choice([0, 10, min(size, 120)])) for c in sp["calls"]]
        out.append(sp)
    return out


def grid_stage(chk, r, n, **kw):
    sps = grid_specs(r, n, **kw)
    dis, keys, samples = [], set(), []
    k = 0
    for i in range(0, len(sps), 60):
        for s, o in loc.run_batch(sps[i:i + 60], loc.run_grid_scenario):
            k += 1
            size = gen.space_size(s["space"])
            steps = sum(c["n_iter"] for c in s["calls"])
            keys.add((s["opt_kwargs"]["direction"], "divides" if size % s["opt_kwargs"]["step_size"] == 0 else "does-not-divide",
                      bool(s.get("constraint")), "wraps" if steps > size else "first-pass", len(s["calls"])))
            if o["diff"] is not None:
                dis.append(dict(case=s, diff=o["diff"]))
            elif len(samples) < 2:
                samples.append(dict(kwargs=s["opt_kwargs"], tape_entries=o["tape_len"], model_last_line=o["got"][-1][:200]))
    return k, dis, keys, samples


def add_grid_to(chk, r, n, **kw):
    st = chk.stage("whole-optimizer grid correspondence", grid_stage, chk, r, n, **kw)
    if st:
        k, dis, keys, samples = st
        chk.corr(GRID_NAME, k, dis, keys, samples)


# ----------------------------------------------------------------------------- population optimizers, complete models

POP_NAME = ("whole optimizer ParallelTempering / ParticleSwarm / SpiralOptimization / EvolutionStrategy / DifferentialEvolution / GeneticAlgorithm "
            "(complete members on ONE shared tape; swap draws, linear / spiral / mutant vector as oracle, checked argsort permutation, integer draws, "
            "recombination choices, outer constraint check, member repair): GFO.Model.Population / GFO.Model.Evolution driven through the "
            "driver model must emit the same positions, rows, trace, best result, the outer and every member's tracker and consume the tape exactly")


def pop_stage(chk, r, n, constraint_p=0.4, nonfinite_p=0.0, names=None):
    sps = []
    for name in (names or loc.POP):
        for _ in range(n):
            sp = bkgen.scenario(r, name, constraint_p=constraint_p, nonfinite_p=nonfinite_p)
            if name == "ParallelTemperingOptimizer":
                sp["opt_kwargs"]["n_iter_swap"] = r.choice([1, 2, 5, 10])
            sps.append(sp)
    dis, keys, samples = [], set(), []
    k = 0
    for i in range(0, len(sps), 60):
        for s, o in loc.run_batch(sps[i:i + 60], loc.run_pop_scenario):
            k += 1
            raised = any(rc["exc"] is not None for rc in o["real"]["records"])
            keys.add((s["opt"], s["opt_kwargs"].get("population"), bool(s.get("constraint")), tuple(sorted(o["tape_kinds"])),
                      "raised" if raised else "ok"))
            if o["diff"] is not None:
                dis.append(dict(case=s, diff=o["diff"]))
            elif len(samples) < 3:
                samples.append(dict(opt=s["opt"], kwargs=s["opt_kwargs"], tape_entries=o["tape_len"], tape_kinds=o["tape_kinds"]))
    return k, dis, keys, samples


def add_pt_to(chk, r, n, **kw):
    st = chk.stage("whole-optimizer population correspondence", pop_stage, chk, r, max(4, n // 2), **kw)
    if st:
        k, dis, keys, samples = st
        chk.corr(POP_NAME, k, dis, keys, samples)


# ----------------------------------------------------------------------------- PatternSearch, complete model

PAT_NAME = ("whole optimizer PatternSearch (pattern list, regeneration in finish_initialization / evaluate, pop(0), window pick; an exhausted pattern is regenerated in iterate - after its repair): GFO.Model.Pattern driven through the driver model by the recorded "
            "tape must emit the same positions, rows, trace, best result or the same exception, the tracker, the pattern list and consume the tape exactly")


def pattern_stage(chk, r, n, constraint_p=0.4, nonfinite_p=0.3):
    sps = [bkgen.scenario(r, "PatternSearch", constraint_p=constraint_p, nonfinite_p=nonfinite_p) for _ in range(n)]
    dis, keys, samples = [], set(), []
    k = 0
    for i in range(0, len(sps), 60):
        for s, o in loc.run_batch(sps[i:i + 60], loc.run_pattern_scenario):
            k += 1
            keys.add((s["opt_kwargs"].get("n_positions"), bool(s.get("constraint")), tuple(sorted(o["tape_kinds"])),
                      "raised-as-predicted" if o["raised"] and o["diff"] is None else ("raised" if o["raised"] else "ok")))
            if o["diff"] is not None:
                dis.append(dict(case=s, diff=o["diff"]))
            elif len(samples) < 2:
                samples.append(dict(kwargs=s["opt_kwargs"], tape_entries=o["tape_len"], tape_kinds=o["tape_kinds"], raised=o["raised"]))
    return k, dis, keys, samples


def add_pattern_to(chk, r, n, **kw):
    st = chk.stage("whole-optimizer pattern search correspondence", pattern_stage, chk, r, n, **kw)
    if st:
        k, dis, keys, samples = st
        chk.corr(PAT_NAME, k, dis, keys, samples)


# ----------------------------------------------------------------------------- PowellsMethod, complete model

POW_NAME = ("whole optimizer PowellsMethod (counters, new_dim with checked argsort, the inner HillClimbingOptimizer rebuilt per dimension with its own "
            "geometry, translation of inner positions, outer constraint check and repair; without a valid score new_dim takes the current position - after its repair; the known finding "
            "of the inner climber's never-evaluated tracked pair is PREDICTED by the model): GFO.Model.Powell driven through the driver model by the "
            "recorded tape must emit the same positions, rows, trace, best result or the same exception, the outer and the inner tracker, the counters "
            "and consume the tape exactly")


def powell_stage(chk, r, n, constraint_p=0.4, nonfinite_p=0.3):
    sps = [bkgen.scenario(r, "PowellsMethod", constraint_p=constraint_p, nonfinite_p=nonfinite_p) for _ in range(n)]
    dis, keys, samples = [], set(), []
    k = 0
    for i in range(0, len(sps), 60):
        for s, o in loc.run_batch(sps[i:i + 60], loc.run_powell_scenario):
            k += 1
            keys.add((s["opt_kwargs"].get("iters_p_dim"), bool(s.get("constraint")), tuple(sorted(o["tape_kinds"])),
                      "raised-as-predicted" if o["raised"] and o["diff"] is None else ("raised" if o["raised"] else "ok")))
            if o["diff"] is not None:
                dis.append(dict(case=s, diff=o["diff"]))
            elif len(samples) < 2:
                samples.append(dict(kwargs=s["opt_kwargs"], tape_entries=o["tape_len"], tape_kinds=o["tape_kinds"], raised=o["raised"]))
    return k, dis, keys, samples


def add_powell_to(chk, r, n, **kw):
    st = chk.stage("whole-optimizer Powell correspondence", powell_stage, chk, r, n, **kw)
    if st:
        k, dis, keys, samples = st
        chk.corr(POW_NAME, k, dis, keys, samples)


# ----------------------------------------------------------------------------- DownhillSimplexOptimizer, complete model

SIM_NAME = ("whole optimizer DownhillSimplexOptimizer (simplex from the valid lists, staleness test, step machine 1 -> 3 -> 1 | 4 ... -> 1 with checked "
            "argsorts, outer constraint check and repair, an evaluate that only records; the three known IndexErrors - centeroid of an empty list, "
            "shrink beyond the simplex - are PREDICTED by the model): GFO.Model.Simplex driven through the driver model by the recorded tape must emit "
            "the same positions, rows, trace, best result or the same exception, the tracker, the simplex, step and shrink index and consume the tape exactly")


def simplex_stage(chk, r, n, constraint_p=0.4, nonfinite_p=0.3):
    sps = [bkgen.scenario(r, "DownhillSimplexOptimizer", constraint_p=constraint_p, nonfinite_p=nonfinite_p) for _ in range(n)]
    dis, keys, samples = [], set(), []
    k = 0
    for i in range(0, len(sps), 60):
        for s, o in loc.run_batch(sps[i:i + 60], loc.run_simplex_scenario):
            k += 1
            keys.add((len(s["space"]), bool(s.get("constraint")), tuple(sorted(o["tape_kinds"])),
                      "raised-as-predicted" if o["raised"] and o["diff"] is None else ("raised" if o["raised"] else "ok")))
            if o["diff"] is not None:
                dis.append(dict(case=s, diff=o["diff"]))
            elif len(samples) < 2:
                samples.append(dict(kwargs=s["opt_kwargs"], tape_entries=o["tape_len"], tape_kinds=o["tape_kinds"], raised=o["raised"]))
    return k, dis, keys, samples


def add_simplex_to(chk, r, n, **kw):
    st = chk.stage("whole-optimizer downhill simplex correspondence", simplex_stage, chk, r, n, **kw)
    if st:
        k, dis, keys, samples = st
        chk.corr(SIM_NAME, k, dis, keys, samples)


# ----------------------------------------------------------------------------- Bayesian / TPE / Forest, complete model

SMBO_NAME = ("whole optimizer BayesianOptimizer / TreeStructuredParzenEstimators / ForestOptimizer / LipschitzOptimizer (X/Y training lists, candidate set with constraint "
             "filter and removal, training-failure fallback, subsampling, proposal = first row of the checked descending argsort of the acquisition "
             "vector; the ValueError / IndexError of an exhausted or empty candidate set are PREDICTED; without a valid sample Forest's training fails into the random fallback and Lipschitz proposes a random position - after their repairs): GFO.Model.SmboBackend driven through the "
             "driver model by the recorded tape must emit the same positions, rows, trace, best result or the same exception, the tracker, X_sample, "
             "Y_sample, the number of candidates and consume the tape exactly")


def smbo_stage(chk, r, n, constraint_p=0.4, nonfinite_p=0.3):
    sps = []
    for name in loc.SMBO3:
        for _ in range(n):
            sps.append(bkgen.scenario(r, name, constraint_p=constraint_p, nonfinite_p=nonfinite_p))
        # the start-up paths without any finite score (empty training set: Forest's move_random inside _training, Lipschitz's empty
        # cdist, the training-failure fallback) are rare under the general generator: a few scenarios aimed at them
        for _ in range(max(2, n // 3)):
            sp = bkgen.scenario(r, name, constraint_p=constraint_p, nonfinite_p=1.0)
            sp["initialize"] = {"random": r.choice([1, 1, 2])}
            sps.append(sp)
    dis, keys, samples = [], set(), []
    k = 0
    for i in range(0, len(sps), 30):
        for s, o in loc.run_batch(sps[i:i + 30], loc.run_smbo_scenario):
            k += 1
            keys.add((s["opt"], s["opt_kwargs"].get("replacement"), "sampling" in s["opt_kwargs"], bool(s.get("constraint")), tuple(sorted(o["tape_kinds"])),
                      "raised-as-predicted" if o["raised"] and o["diff"] is None else ("raised" if o["raised"] else "ok")))
            if o["diff"] is not None:
                dis.append(dict(case=s, diff=o["diff"]))
            elif len(samples) < 2:
                samples.append(dict(opt=s["opt"], kwargs={k_: str(v) for k_, v in s["opt_kwargs"].items()}, tape_entries=o["tape_len"], raised=o["raised"]))
    return k, dis, keys, samples


def add_smbo_to(chk, r, n, **kw):
    st = chk.stage("whole-optimizer surrogate-model correspondence", smbo_stage, chk, r, n, **kw)
    if st:
        k, dis, keys, samples = st
        chk.corr(SMBO_NAME, k, dis, keys, samples)


# ----------------------------------------------------------------------------- DirectAlgorithm, complete model

DIR_NAME = ("whole optimizer DirectAlgorithm (list of sub-space boxes: centre, biggest dimension with recorded tie coins, first-unscored selection, "
            "first strict maximum of the recorded Lipschitz bounds, numpy's array_split into three with empty parts skipped, removal of the parent, the "
            "score stored on the removed parent after a split, the whole space appended again by every finish_initialization, constraint check "
            "with move_climb(epsilon_mod=0.3) repair): GFO.Model.Direct driven through the driver model by the recorded tape must emit the same "
            "positions, rows, trace, best result or the same exception, the tracker, X_sample / Y_sample, every sub-space (sizes, centre, score, bound) "
            "and consume the tape exactly")


def direct_stage(chk, r, n, constraint_p=0.4, nonfinite_p=0.3):
    sps = [bkgen.scenario(r, "DirectAlgorithm", constraint_p=constraint_p, nonfinite_p=nonfinite_p, smbo_iters=25) for _ in range(n)]
    dis, keys, samples = [], set(), []
    k = 0
    for i in range(0, len(sps), 60):
        for s, o in loc.run_batch(sps[i:i + 60], loc.run_direct_scenario):
            k += 1
            keys.add((len(s["space"]), bool(s.get("constraint")), tuple(sorted(o["tape_kinds"])),
                      "raised-as-predicted" if o["raised"] and o["diff"] is None else ("raised" if o["raised"] else "ok")))
            if o["diff"] is not None:
                dis.append(dict(case=s, diff=o["diff"]))
            elif len(samples) < 2:
                samples.append(dict(kwargs={k_: str(v) for k_, v in s["opt_kwargs"].items()}, tape_entries=o["tape_len"], tape_kinds=o["tape_kinds"], raised=o["raised"]))
    return k, dis, keys, samples


def add_direct_to(chk, r, n, **kw):
    st = chk.stage("whole-optimizer DIRECT correspondence", direct_stage, chk, r, n, **kw)
    if st:
        k, dis, keys, samples = st
        chk.corr(DIR_NAME, k, dis, keys, samples)
