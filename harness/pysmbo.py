"""Python -> Lean translator for the bookkeeping of the surrogate-model base class (smb_opt/smbo.py): the two sample
decorators `track_X_sample` / `track_y_sample`, `_remove_position`, the decorated `init_pos` / `iterate` / `evaluate` /
`evaluate_init`, and the selection in `_propose_location`.  Statement-level translation over two pieces of state, the tracker
`t : Tracker` (through the definitions gen_tracker generates) and the samples `sm : SmboState`:

    self.X_sample.append(x) / self.Y_sample.append(x)   ->  { sm with X := sm.X ++ [x] } / Y
    del self.X_sample[-1]                               ->  { sm with X := sm.X.dropLast }
    if np.isnan(s) or np.isinf(s): A else: B            ->  if (F.isNan s || F.isInf s) then A else B
    self._evaluate_new2current(s) / self._evaluate_current2best()   ->  the generated tracker methods
    if not self.replacement: self._remove_position(self.pos_new)    ->  guarded call of the generated `remove_position`
    list(v.argsort()[::-1]) / a[idx] / a[0]             ->  reverse of the ascending permutation / fancy indexing / first row

Anything else raises `Untranslatable`."""
import ast

from .pytolean import Untranslatable


def _u(n):
    return ast.unparse(n)


LISTS = {"X_sample": "X", "Y_sample": "Y"}


def _stmts_sm(body, indent="  "):
    """statements that update `sm` (and read the local names `pos` / `score`)"""
    out = []
    for st in body:
        s = _u(st)
        if isinstance(st, ast.Expr) and isinstance(st.value, ast.Call) and isinstance(st.value.func, ast.Attribute) \
                and st.value.func.attr == "append" and _u(st.value.func.value).startswith("self.") \
                and _u(st.value.func.value)[5:] in LISTS and len(st.value.args) == 1 and isinstance(st.value.args[0], ast.Name):
            f = LISTS[_u(st.value.func.value)[5:]]
            out.append(f"{indent}let sm : SmboState := {{ sm with {f} := sm.{f} ++ [{st.value.args[0].id}] }}")
        elif isinstance(st, ast.Delete) and len(st.targets) == 1 and _u(st.targets[0]) in ("self.X_sample[-1]", "self.Y_sample[-1]"):
            f = LISTS[_u(st.targets[0])[5:-4]]
            out.append(f"{indent}let sm : SmboState := {{ sm with {f} := sm.{f}.dropLast }}")
        elif isinstance(st, ast.If):
            c = _cond(st.test)
            a = _stmts_sm(st.body, indent + "    ")
            b = _stmts_sm(st.orelse, indent + "    ") if st.orelse else []
            out.append(f"{indent}let sm : SmboState := if {c} then\n" + "\n".join(a + [f"{indent}    sm"]) +
                       f"\n{indent}  else\n" + "\n".join(b + [f"{indent}    sm"]))
        else:
            raise Untranslatable(f"sample bookkeeping statement `{s}`")
    return out


def _cond(e):
    if isinstance(e, ast.BoolOp) and isinstance(e.op, ast.Or):
        return "(" + " || ".join(_cond(v) for v in e.values) + ")"
    if isinstance(e, ast.BoolOp) and isinstance(e.op, ast.And):
        return "(" + " && ".join(_cond(v) for v in e.values) + ")"
    if isinstance(e, ast.Call) and _u(e.func) in ("np.isnan", "np.isinf") and len(e.args) == 1 and isinstance(e.args[0], ast.Name):
        return f"F.{'isNan' if _u(e.func) == 'np.isnan' else 'isInf'} {e.args[0].id}"
    raise Untranslatable(f"condition `{_u(e)}`")


def decorator_wrapper(fn, inner_name):
    """`def deco(inner): def wrapper(self, …): …; return wrapper` -> (wrapper's params, statements before the inner call,
    statements after it, whether the wrapper returns the inner result)"""
    if len(fn.body) != 2 or not isinstance(fn.body[0], ast.FunctionDef) or _u(fn.body[1]) != "return wrapper":
        raise Untranslatable(f"{fn.name}: not a plain decorator")
    w = fn.body[0]
    calls = [i for i, st in enumerate(w.body) if inner_name + "(self" in _u(st)]
    if len(calls) != 1:
        raise Untranslatable(f"{fn.name}: the wrapped method is not called exactly once")
    return w, calls[0]


def fn_track_X(fn):
    w, k = decorator_wrapper(fn, "iterate")
    if _u(w.body[k]) != "pos = iterate(self, *args, **kwargs)" or k != 0 or _u(w.body[-1]) != "return pos":
        raise Untranslatable("track_X_sample: wrapper shape")
    body = _stmts_sm(w.body[1:-1])
    return ("/-- `track_X_sample`: what the wrapper does to the samples once the wrapped method returned `pos` -/\n"
            "def track_X_sample (sm : SmboState) (pos : Pos) : SmboState :=\n" + "\n".join(body + ["  sm"]))


def fn_track_y(fn):
    w, k = decorator_wrapper(fn, "evaluate")
    if _u(w.body[k]) != "evaluate(self, score)" or k != 0:
        raise Untranslatable("track_y_sample: wrapper shape")
    body = _stmts_sm(w.body[1:])
    return ("/-- `track_y_sample`: what the wrapper does to the samples AFTER the wrapped evaluate ran -/\n"
            "def track_y_sample (sm : SmboState) (score : F) : SmboState :=\n" + "\n".join(body + ["  sm"]))


def fn_remove_position(fn):
    want = ["mask = np.all(self.all_pos_comb == position, axis=1)", "self.all_pos_comb = self.all_pos_comb[np.invert(mask)]"]
    if [_u(x) for x in fn.body] != want or [a.arg for a in fn.args.args] != ["self", "position"]:
        raise Untranslatable("_remove_position: " + "; ".join(_u(x) for x in fn.body))
    return ("/-- `_remove_position`: the rows equal to `position` in every coordinate are dropped (numpy mask, pinned) -/\n"
            "def remove_position (sm : SmboState) (position : Pos) : SmboState :=\n"
            "  { sm with cands := sm.cands.filter (fun row => !(row == position)) }")


def _eval_body(body):
    out = []
    for st in body:
        s = _u(st)
        if s == "self._evaluate_new2current(score_new)":
            out.append("  let t := Tr._evaluate_new2current t score_new")
        elif s == "self._evaluate_current2best()":
            out.append("  let t := Tr._evaluate_current2best t")
        elif s == "if not self.replacement:\n    self._remove_position(self.pos_new)":
            out.append("  let sm : SmboState := if !replacement then\n      (match t.posNew with\n       | some p => remove_position sm p\n       | none => sm)\n    else sm")
        else:
            raise Untranslatable(f"SMBO evaluate body statement `{s}`")
    return out


def fn_evaluate(fn, lean_name):
    decs = [_u(d) for d in fn.decorator_list]
    if decs != ["BaseOptimizer.track_new_score", "track_y_sample"] or [a.arg for a in fn.args.args] != ["self", "score_new"]:
        raise Untranslatable(f"{fn.name}: decorators {decs}")
    body = _eval_body(fn.body)
    return (f"/-- `{fn.name}` under `track_new_score` (outer; its wrapper is translated by gen_tracker: the score setter first, `nth_trial += 1`\n"
            f"    last) and `track_y_sample` (inner) -/\n"
            f"def {lean_name} (replacement : Bool) (t : Tracker) (sm : SmboState) (score_new : F) : Tracker × SmboState :=\n"
            "  let t := Tr.set_score_new t score_new\n" + "\n".join(body) +
            "\n  let sm := track_y_sample sm score_new\n  let t := { t with nthTrial := t.nthTrial + 1 }\n  (t, sm)")


def fn_position_method(fn, lean_name, want_decs, want_body, core_init_pos=None):
    decs = [_u(d) for d in fn.decorator_list]
    if decs != want_decs or [_u(x) for x in fn.body] != want_body:
        raise Untranslatable(f"{fn.name}: decorators {decs}, body {[_u(x) for x in fn.body]}")
    if core_init_pos is not None and [_u(d) for d in core_init_pos.decorator_list] != ["SearchTracker.track_new_pos"]:
        raise Untranslatable("CoreOptimizer.init_pos is no longer under track_new_pos")
    return (f"/-- `{fn.name}`: the position `p` the undecorated method returns goes through `track_X_sample` and `track_new_pos` -/\n"
            f"def {lean_name} (t : Tracker) (sm : SmboState) (p : Pos) : Tracker × SmboState :=\n"
            "  (Tr.track_new_pos t (some p), track_X_sample sm p)")


def fn_propose(fn):
    b = fn.body
    if len(b) != 6 or not isinstance(b[0], ast.Try):
        raise Untranslatable("_propose_location: shape")
    tr = b[0]
    if [_u(x) for x in tr.body] != ["self._training()"] or len(tr.handlers) != 1 or _u(tr.handlers[0].type) != "ValueError" \
            or _u(tr.handlers[0].body[-1]) != "return self.move_random()" or tr.orelse or tr.finalbody:
        raise Untranslatable("_propose_location: the training fallback changed")
    if _u(b[1]) != "exp_imp = self._expected_improvement()":
        raise Untranslatable("_propose_location: " + _u(b[1]))
    # index_best = list(exp_imp.argsort()[::-1])
    s2 = _u(b[2])
    if s2 == "index_best = list(exp_imp.argsort()[::-1])":
        idx = "asc.reverse"
    elif s2 == "index_best = list(exp_imp.argsort())":
        idx = "asc"
    else:
        raise Untranslatable("_propose_location: " + s2)
    if _u(b[3]) != "all_pos_comb_sorted = self.pos_comb[index_best]":
        raise Untranslatable("_propose_location: " + _u(b[3]))
    s4 = _u(b[4])
    if not (s4.startswith("pos_best = all_pos_comb_sorted[") and s4.endswith("]")):
        raise Untranslatable("_propose_location: " + s4)
    k = s4[len("pos_best = all_pos_comb_sorted["):-1]
    if k == "0":
        pick = "all_pos_comb_sorted[0]?"
    elif k == "-1":
        pick = "all_pos_comb_sorted.getLast?"
    else:
        raise Untranslatable("_propose_location: " + s4)
    if _u(b[5]) != "return pos_best":
        raise Untranslatable("_propose_location: " + _u(b[5]))
    return ("/-- `_propose_location` once training succeeded: `asc` is what `exp_imp.argsort()` returned, `pc` is `self.pos_comb` -/\n"
            "def propose_pick (pc : List Pos) (asc : List Nat) : Option Pos :=\n"
            f"  let index_best := {idx}\n"
            "  match index_best.mapM (fun i => pc[i]?) with      -- numpy fancy indexing: IndexError on an index out of range\n"
            "  | none => none\n"
            f"  | some all_pos_comb_sorted => {pick}")


FLOAT_TRAINING = ("X_sample = np.array(self.X_sample)", "Y_sample = np.array(self.Y_sample)", "Y_sample = normalize(Y_sample).reshape(-1, 1)",
                  "self.regr.fit(X_sample, Y_sample)", "best_samples, worst_samples = self._get_samples()", "(best_samples, worst_samples) = self._get_samples()",
                  "self.kd_best.fit(best_samples)", "self.kd_worst.fit(worst_samples)")


def fn_training(cls_name, fn, fin, ei):
    """`_training` of one surrogate class: numpy / sklearn statements are the oracle ("training succeeded or raised ValueError"); what is
    translated is whether the method makes generator draws of its own (ForestOptimizer's `if len(Y_sample) == 0: return self.move_random()`)"""
    early = False
    for st in fn.body:
        s = _u(st)
        if s in FLOAT_TRAINING:
            continue
        if s == "if len(Y_sample) == 0:\n    return self.move_random()":
            early = True
            continue
        if isinstance(st, ast.If) and _u(st.test) == "len(Y_sample) == 0" and len(st.body) == 1 and isinstance(st.body[0], ast.Raise) \
                and _u(st.body[0].exc).startswith("ValueError(") and not st.orelse:
            continue            # no data: the ValueError `_propose_location` turns into a random iteration - "training failed", no draws here
        raise Untranslatable(f"{cls_name}._training: `{s}`")
    if [_u(x) for x in fin.body] != ["self.all_pos_comb = self._all_possible_pos()", "return super().finish_initialization()"]:
        raise Untranslatable(f"{cls_name}.finish_initialization: " + " | ".join(_u(x) for x in fin.body))
    if _u(ei.body[0]) != "self.pos_comb = self._sampling(self.all_pos_comb)":
        raise Untranslatable(f"{cls_name}._expected_improvement no longer samples the candidates first: `{_u(ei.body[0])}`")
    body = ("if y_sample_empty then\n    match moveRandomLoop tape with          -- if len(Y_sample) == 0: return self.move_random()\n"
            "    | .error e => .error e\n    | .ok a => .ok a.2\n  else .ok tape") if early else ".ok tape"
    return (f"/-- `{cls_name}._training`: the generator draws the method itself makes before the surrogate is fitted -/\n"
            f"def {cls_name}_training_draws (y_sample_empty : Bool) (tape : Tape) : Except Err Tape :=\n  {body}")


def fn_lipschitz_iterate(fn):
    decs = [_u(d) for d in fn.decorator_list]
    guard = False
    if fn.body and _u(fn.body[0]) == "if len(self.X_sample) == 0:\n    return self.move_random()":
        guard = True
        fn = ast.FunctionDef(name=fn.name, args=fn.args, body=fn.body[1:], decorator_list=fn.decorator_list, returns=None, type_comment=None)
    want = ["self.pos_comb = self._sampling(self.all_pos_comb)", "lip_func = LipschitzFunction(self.pos_comb)",
            "upper_bound_l = lip_func.calculate(self.X_sample, self.Y_sample, self.score_best)", None,
            "all_pos_comb_sorted = self.pos_comb[index_best]", None, "return pos_best"]
    got = [_u(x) for x in fn.body]
    if decs != ["SMBO.track_new_pos", "SMBO.track_X_sample"] or len(got) != 7 or any(a != w for a, w in zip(got, want) if w is not None):
        raise Untranslatable(f"LipschitzOptimizer.iterate: {decs} {got}")
    if got[3] == "index_best = list(upper_bound_l.argsort()[::-1])":
        idx = "asc.reverse"
    elif got[3] == "index_best = list(upper_bound_l.argsort())":
        idx = "asc"
    else:
        raise Untranslatable("LipschitzOptimizer.iterate: " + got[3])
    if got[5] == "pos_best = all_pos_comb_sorted[0]":
        pick = "all_pos_comb_sorted[0]?"
    elif got[5] == "pos_best = all_pos_comb_sorted[-1]":
        pick = "all_pos_comb_sorted.getLast?"
    else:
        raise Untranslatable("LipschitzOptimizer.iterate: " + got[5])
    return ("/-- `LipschitzOptimizer.iterate` starts with `if len(self.X_sample) == 0: return self.move_random()` -/\n"
            f"def lipschitz_empty_sample_fallback : Bool := {'true' if guard else 'false'}\n\n"
            "/-- `LipschitzOptimizer.iterate` (undecorated): `asc` is what `upper_bound_l.argsort()` returned, `pc` is `self.pos_comb` -/\n"
            "def lipschitz_pick (pc : List Pos) (asc : List Nat) : Option Pos :=\n"
            f"  let index_best := {idx}\n"
            "  match index_best.mapM (fun i => pc[i]?) with\n  | none => none\n"
            f"  | some all_pos_comb_sorted => {pick}")
