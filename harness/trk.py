"""Tracker-level capture and replay (C19, C15): for every tracking object of a run (the optimizer, population
members, nested helpers) record the `pos_new` assignments and the evaluate calls with their scores, replay them
on GFO.Model.Tracker and compare the tracked (new / current / best) pairs and the valid lists after every call."""
import contextlib
import math

import numpy as np

from . import common as C, bkd
from .common import tok_f

# kind of the tracker model by the class that DEFINES the object's `evaluate`
KIND_BY_EVAL_OWNER = {
    "HillClimbingOptimizer": "hc", "RepulsingHillClimbingOptimizer": "hc",
    "StochasticHillClimbingOptimizer": "stoch", "SimulatedAnnealingOptimizer": "stoch",
    "RandomSearchOptimizer": "plain", "DiagonalGridSearchOptimizer": "plain", "OrthogonalGridSearchOptimizer": "plain",
    "Spiral": "spiral",
}


def kind_of(obj):
    for cls in type(obj).__mro__:
        if "evaluate" in cls.__dict__:
            return KIND_BY_EVAL_OWNER.get(cls.__name__)
    return None


def show_pair(p, s):
    return ("None" if p is None else C.show_pos(p)) + ":" + tok_f(s)


def show_state(o):
    return (f"new={show_pair(o.pos_new, o.score_new)} cur={show_pair(o.pos_current, o.score_current)} "
            f"best={show_pair(o.pos_best, o.score_best)} valid={len(o.scores_valid)} trial={o.nth_trial}")


class TrackerCapture:
    """installs instance-level wrappers on evaluate / evaluate_init of every modelled tracking object and a class-level
    logging setter for `pos_new`; produces protocol lines and the expected model output"""

    def __init__(self, opt):
        self.objs = []
        self.lines = ["treset"]
        self.expect = ["ok"]
        self.ids = {}
        self.unmodelled = set()
        for name, o in bkd.members(opt):
            k = kind_of(o)
            if k is None:
                self.unmodelled.add(type(o).__name__)
                continue
            if name == "self" and type(opt).__name__ in ("GridSearchOptimizer",):
                continue
            self.ids[id(o)] = len(self.ids)
            self.objs.append((name, o, k))
            self._wrap(o, k)

    def _wrap(self, o, k):
        tid = self.ids[id(o)]
        orig_init = o.evaluate_init
        orig_eval = o.evaluate

        def ev_init(score):
            r = orig_init(score)
            self.lines.append(f"t {tid} init {tok_f(score)}")
            self.expect.append(show_state(o))
            return r

        def ev(score):
            before = getattr(o, "n_transitions", 0)
            r = orig_eval(score)
            if k == "hc":
                self.lines.append(f"t {tid} hc {int(o.n_neighbours)} {tok_f(score)}")
            elif k == "stoch":
                acc = getattr(o, "n_transitions", 0) > before
                self.lines.append(f"t {tid} stoch {int(o.n_neighbours)} {tok_f(score)} {1 if acc else 0}")
            elif k == "plain":
                self.lines.append(f"t {tid} plain {tok_f(score)}")
            else:
                self.lines.append(f"t {tid} spiral {tok_f(score)}")
            self.expect.append(show_state(o))
            return r

        o.evaluate_init = ev_init
        o.evaluate = ev

    def on_pos_new(self, obj, pos):
        tid = self.ids.get(id(obj))
        if tid is None:
            return
        p = [int(x) for x in np.asarray(pos).ravel()]
        self.lines.append(f"t {tid} setpos {len(p)} " + " ".join(map(str, p)))
        self.expect.append(None)   # state line not compared for a bare assignment


@contextlib.contextmanager
def pos_new_hook(get_capture):
    """class-level logging setter for SearchTracker.pos_new"""
    from gradient_free_optimizers.optimizers.core_optimizer.search_tracker import SearchTracker
    orig = SearchTracker.__dict__["pos_new"]

    def setter(self, pos):
        orig.fset(self, pos)
        cap = get_capture()
        if cap is not None:
            cap.on_pos_new(self, pos)

    SearchTracker.pos_new = property(orig.fget, setter)
    try:
        yield
    finally:
        SearchTracker.pos_new = orig


def compare(cap):
    got = C.run_driver(cap.lines)
    for i, (l, e) in enumerate(zip(cap.lines, cap.expect)):
        g = got[i] if i < len(got) else "<missing>"
        if e is None:
            continue
        if e != g:
            return dict(index=i, cmd=l, real=e, model=g)
    return None
