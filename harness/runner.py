"""The verdict machinery shared by all checks (DESIGN 2.3): build, audit, correspondence, failing-input
search, known findings, evidence, exit code."""
import json
import os
import re
import subprocess
import sys
import time
import traceback

from . import common as C

ALLOWED_AXIOMS = {"propext", "Classical.choice", "Quot.sound"}
FORBIDDEN = re.compile(r"\b(sorry|admit|native_decide|bv_decide|implemented_by|unsafe)\b|^\s*axiom\s|maxHeartbeats\s+0")

TRUSTED_BASE = [
    "Lean 4.33.0 kernel; axioms allowed in property theorems: propext, Classical.choice, Quot.sound (audited per theorem each run)",
    "hand-written Lean model GFO/Model/* where the correspondence did not exercise it",
    "Python harness (capture wrappers, canonicalisation, protocol encoder, monitors) and the native driver's I/O glue + Lean compiler",
    "oracle inputs: objective/constraint determinism, RNG contracts, float expressions inside backends, sklearn/scipy, numpy/pandas containers",
    "translators (harness/translators.py with pytolean, pydriver, pystop, pysmbo, pyinit, pymem, pycore, pyconv, pygrid, pylocal, pypop, pypattern, pypowell): nineteen generators "
    "regenerate Lean definitions from /repo's source on every run - tracker core, driver step methods, stop object + no_change + progress bar, "
    "SMBO bookkeeping and selection, Initializer, Memory / ResultsManager wrappers and finish_search, CoreOptimizer position kernels, Converter, "
    "grid machines, set_random_seed, split / sort_pop_best_score, iterate of the local optimizers, iterate / init_pos / evaluate of ParallelTempering / ParticleSwarm / Spiral / EvolutionStrategy / DifferentialEvolution / GeneticAlgorithm, PatternSearch's and PowellsMethod's iterate / finish_initialization / evaluate, GA parent selection, DIRECT selection, facade table, entropy census - and what they generate is PROVED equal to the "
    "hand-written model (GFO/Gen/*Check.lean); trusted: the mapping tables from Python statement / expression forms to Lean terms (attribute -> model "
    "field, comparison -> IEEE comparison on F, truthiness, `int(a / b)` and `//` of naturals -> `/`, generator / constraint call -> tape read) and the "
    "numpy lines that are pinned verbatim and stand for a model function (clip-cast, mesh, fancy indexing, masks); hand-modelled methods without a "
    "translator (DownhillSimplex, DIRECT's step methods, new_dim, generate_pattern, float member moves, recombination, DE mutation, tempering swap) are "
    "source-pinned (translators.gen_pins, pristine/pins.json): a changed pin is a broken correspondence, the pin itself proves nothing",
    "complete optimizer models (all 22): the oracle tape - outputs of the two generators, numpy's argsort (checked to be a descending arrangement), "
    "constraint verdicts, float vectors of moves, acquisition values - is recorded by pass-through wrappers installed from outside and consumed in program "
    "order with the arguments of the real calls checked; the hypotheses TapeOK / GridOK (random positions and candidate-grid rows are positions of the space, "
    "drawn vectors are nan-free, the constraint is a function of the position) are assumptions about those libraries and the user's constraint, audited on "
    "every recorded tape",
]


def strip_comments(src):
    src = re.sub(r"/-.*?-/", "", src, flags=re.S)
    return "\n".join(l.split("--")[0] for l in src.split("\n"))


def theorems_in(path):
    with open(path) as f:
        src = strip_comments(f.read())
    ns = re.findall(r"^namespace\s+(\S+)", src, flags=re.M)
    prefix = ns[0] + "." if ns else ""
    return [prefix + m for m in re.findall(r"^theorem\s+([A-Za-z0-9_'.]+)", src, flags=re.M)]


class Check:
    def __init__(self, pid, props_modules=None, gen_steps=()):
        self.pid = pid
        self.t = C.Timer()
        self.props_modules = props_modules or [f"GFO.Props.{pid}"]
        self.gen_steps = gen_steps
        self.obligations = 0
        self.discharged = 0
        self.broken = []          # broken obligations / correspondences: dict(kind, name, detail, case)
        self.failures = []        # failing inputs on the real code: dict(signature, detail, case)
        self.coverage = {"corr": {}, "monitor": {}}
        self.evaluations = 0
        self.distinct = set()
        self.samples = []
        self.traces = 0
        self.notes = []
        self.exhaustive = None
        self.assumptions = []

    # ------------------------------------------------------------------ stages
    def build_and_audit(self):
        """lake build of the property modules + driver; forbidden-token grep; #print axioms of every theorem"""
        for step in self.gen_steps:
            try:
                step()
            except Exception as e:  # a translator that cannot read the source is a failed obligation
                self.broken.append(dict(kind="translator", name=getattr(step, "__name__", "gen"), detail=repr(e)))
                try:
                    from . import translators as _t
                    _t.restore_generated(getattr(step, "__name__", ""))
                except Exception:
                    pass
        ok, out = C.lake_build(targets=tuple(self.props_modules) + ("driver",))
        thms = []
        for m in self.props_modules:
            p = os.path.join(C.LEAN, *m.split(".")) + ".lean"
            thms += theorems_in(p)
        self.obligations = len(thms)
        self.theorems = thms
        if not ok:
            errs = [l for l in out.split("\n") if "error" in l][:20]
            self.broken.append(dict(kind="build", name=",".join(self.props_modules), detail="\n".join(errs) or out[-3000:]))
            self.discharged = 0
            return False
        # forbidden tokens anywhere in the library
        bad = []
        for root, _d, files in os.walk(os.path.join(C.LEAN, "GFO")):
            for fn in files:
                if fn.endswith(".lean"):
                    with open(os.path.join(root, fn)) as f:
                        for i, l in enumerate(strip_comments(f.read()).split("\n")):
                            if FORBIDDEN.search(l):
                                bad.append(f"{fn}:{i + 1}: {l.strip()}")
        if bad:
            self.broken.append(dict(kind="audit", name="forbidden-token", detail="\n".join(bad[:20])))
        # axioms
        tmp = os.path.join(C.VERIF, ".cache", f"audit_{self.pid}_{os.getpid()}.lean")
        os.makedirs(os.path.dirname(tmp), exist_ok=True)
        with open(tmp, "w") as f:
            for m in self.props_modules:
                f.write(f"import {m}\n")
            for t in thms:
                f.write(f"#print axioms {t}\n")
        try:
            p = subprocess.run(["lake", "env", "lean", tmp], cwd=C.LEAN, capture_output=True, text=True, timeout=900)
        except subprocess.TimeoutExpired:
            raise C.Infra("axiom audit timed out")
        finally:
            try:
                os.remove(tmp)
            except OSError:
                pass
        text = (p.stdout + p.stderr).replace("\n  ", " ")
        good = 0
        for t in thms:
            m = re.search(r"'" + re.escape(t) + r"' (does not depend on any axioms|depends on axioms: \[([^\]]*)\])", text)
            if not m:
                self.broken.append(dict(kind="audit", name=t, detail="no #print axioms output: " + text[-500:]))
                continue
            axs = set(a.strip() for a in (m.group(2) or "").split(",") if a.strip())
            if axs <= ALLOWED_AXIOMS:
                good += 1
            else:
                self.broken.append(dict(kind="audit", name=t, detail=f"axioms {sorted(axs - ALLOWED_AXIOMS)}"))
        self.discharged = good
        # thorough tier: the toolchain's independent re-checker replays the compiled declarations of the property modules
        if C.tier() == "thorough":
            try:
                q = subprocess.run(["lake", "env", "leanchecker", *self.props_modules], cwd=C.LEAN, capture_output=True, text=True, timeout=1800)
                self.notes.append(f"leanchecker {' '.join(self.props_modules)}: rc={q.returncode}")
                if q.returncode != 0:
                    self.broken.append(dict(kind="audit", name="leanchecker", detail=(q.stdout + q.stderr)[-1500:]))
            except subprocess.TimeoutExpired:
                raise C.Infra("leanchecker timed out")
            except FileNotFoundError:
                self.notes.append("leanchecker not found on PATH: skipped")
        return not self.broken

    def stage(self, name, fn, *a, **k):
        """run one correspondence / monitor stage; if the harness can no longer drive the implementation (changed
        signature, corrupted data, ...) that is a broken correspondence, not an infrastructure failure"""
        try:
            return fn(*a, **k)
        except C.Infra:
            raise
        except Exception as e:  # noqa
            import traceback
            self.broken.append(dict(kind="correspondence", name=name,
                                    detail=f"stage could not be evaluated against the implementation: {type(e).__name__}: {e}",
                                    traceback=traceback.format_exc()[-1500:]))
            return None

    def corr(self, name, n_cases, disagreements, nontrivial_keys=(), samples=()):
        """record a correspondence run: `disagreements` = list of dict(case=…, diff=…)"""
        c = self.coverage["corr"].setdefault(name, {"cases": 0, "disagreements": 0})
        c["cases"] += n_cases
        c["disagreements"] += len(disagreements)
        self.evaluations += n_cases
        self.traces += n_cases
        self.distinct.update(nontrivial_keys)
        for s in samples:
            if len(self.samples) < 6:
                self.samples.append(s)
        for d in disagreements:
            self.broken.append(dict(kind="correspondence", name=name, detail=d.get("diff"), case=d.get("case")))

    def monitor(self, name, n_cases, failures, nontrivial_keys=(), samples=()):
        """record a property-monitor run on the real code: `failures` = list of dict(signature, detail, case)"""
        c = self.coverage["monitor"].setdefault(name, {"cases": 0, "failures": 0})
        c["cases"] += n_cases
        c["failures"] += len(failures)
        self.evaluations += n_cases
        self.distinct.update(nontrivial_keys)
        for s in samples:
            if len(self.samples) < 6:
                self.samples.append(s)
        self.failures.extend(failures)

    # ------------------------------------------------------------------ escalation of the failing-input search
    def needs_escalation(self):
        """a proof obligation or a correspondence is broken and no failing input (other than known findings) has been found yet:
        the check may then widen its search on the real code, aimed at what broke"""
        sigs = {e["signature"] for e in load_known().get("findings", []) if e["property"] == self.pid}
        return bool(self.broken) and not any(f["signature"] not in sigs for f in self.failures)

    def broken_opts(self):
        out = []
        for b in self.broken:
            c = b.get("case")
            if isinstance(c, dict) and c.get("opt") and c["opt"] not in out:
                out.append(c["opt"])
        return out

    # ------------------------------------------------------------------ corpus of past defects
    def replay_corpus(self):
        """the concrete failing inputs of the defects repaired so far for this property (corpus/baseline_defects.py) are replayed on the
        real code: a defect that returns is a failing input with its own signature"""
        path = os.path.join(C.VERIF, "corpus", "baseline_defects.py")
        try:
            src = open(path).read()
        except OSError:
            return
        names = sorted(set(re.findall(r"^def (c%s_\w+)\(" % self.pid[1:], src, flags=re.M)))
        if not names:
            return
        env = dict(os.environ, GFO_SRC=C.SRC)
        try:
            p = subprocess.run(["/venv/bin/python", path] + names, capture_output=True, text=True, timeout=600, env=env)
        except subprocess.TimeoutExpired:
            raise C.Infra("corpus replay timed out")
        fails = []
        for l in p.stdout.split("\n"):
            if l.startswith("VIOLATED "):
                name, _, detail = l[len("VIOLATED "):].partition(" : ")
                fails.append(dict(signature=f"{self.pid}|corpus|{name.strip()}", detail="a repaired defect is back: " + detail, case=dict(probe=name.strip())))
        self.monitor("corpus: failing inputs of the defects repaired so far for this property, replayed on the real code", len(names), fails)

    # ------------------------------------------------------------------ verdict
    def finish(self):
        try:
            self.replay_corpus()
        except C.Infra:
            raise
        except Exception as e:  # noqa - the corpus is an extra: never the reason a check cannot finish
            self.notes.append(f"corpus replay skipped: {type(e).__name__}: {e}")
        known = load_known()
        os.makedirs(C.REPLAYS, exist_ok=True)
        lines = []
        violations = 0
        known_hits = []
        seen_sig = set()
        new_failures = []
        for f in self.failures:
            sig = f["signature"]
            if sig in seen_sig:
                continue
            seen_sig.add(sig)
            k = [e for e in known.get("findings", []) if e["property"] == self.pid and e["signature"] == sig]
            if k:
                known_hits.append(sig)
                lines.append(f"KNOWN-FINDING: property={self.pid} {sig} :: {k[0].get('what', '')}")
            else:
                new_failures.append(f)
        stamp = f"{self.pid}-{int(time.time())}-{os.getpid()}"
        if new_failures:
            path = os.path.join(C.REPLAYS, stamp + ".json")
            C.write_json(path, dict(property=self.pid, seed=C.seed(), tier=C.tier(), kind="failing-input",
                                    failures=new_failures[:10], broken=self.broken[:10],
                                    replay_cmd=f"./check {self.pid} --replay {path}"))
            lines.append(f"VIOLATION property={self.pid} replay={path}")
            violations = len(new_failures)
        elif self.broken:
            path = os.path.join(C.REPLAYS, stamp + ".json")
            C.write_json(path, dict(property=self.pid, seed=C.seed(), tier=C.tier(), kind="broken-obligation",
                                    note="a proof obligation or a model/implementation correspondence no longer checks; "
                                         "the failing-input search on the real code found no input violating the property",
                                    broken=self.broken[:20], replay_cmd=f"./check {self.pid} --replay {path}"))
            lines.append(f"VIOLATION property={self.pid} replay={path} no-failing-input-found")
            violations = len(self.broken)
        try:
            from .checks import drvcommon as _D
            if _D.SKIPPED_RAISES:
                self.notes.append("runs skipped because search() raised or hit the watchdog (claimed by C03/C15/C08, not by this check): %d, e.g. %s"
                                  % (len(_D.SKIPPED_RAISES), sorted(set(_D.SKIPPED_RAISES))[:4]))
        except Exception:
            pass
        ev = dict(
            property_id=self.pid, tier=C.tier() if C.tier() in ("quick", "thorough") else "quick", seed=C.seed(), level="proof",
            coverage=dict(
                obligations=self.obligations, discharged=self.discharged,
                checker_cmd=f"cd /verif/lean && lake build {' '.join(self.props_modules)} && #print axioms audit of every theorem (./check {self.pid})",
                trusted_base=TRUSTED_BASE + self.assumptions,
                theorems=getattr(self, "theorems", []),
                evaluations=self.evaluations, distinct_nontrivial=len(self.distinct),
                traces_validated_against_impl=self.traces,
                rule="cases are generated from VERIF_SEED by harness/gen.py (distribution below); distinct = distinct canonical "
                     "keys of (case kind, branch signature) reported by the check; non-trivial = reaches a non-default branch "
                     "(memory hit, stop criterion firing, non-finite score, constraint retry, warm start, ...)",
                samples=self.samples[:6] or ["<none>"],
                correspondence=self.coverage["corr"], monitors=self.coverage["monitor"],
                known_findings_hit=known_hits, broken=[dict(kind=b["kind"], name=b["name"]) for b in self.broken][:20],
                notes=self.notes,
            ),
            assumptions=self.assumptions or TRUSTED_BASE,
            wall_s=self.t.s(), violations=violations,
        )
        if self.exhaustive is not None:
            ev["coverage"]["exhaustive"] = self.exhaustive
        C.write_json(os.path.join(C.EVIDENCE, f"{self.pid}.json"), ev)
        for l in lines:
            print(l)
        print(f"[{self.pid}] obligations={self.obligations} discharged={self.discharged} cases={self.evaluations} "
              f"distinct={len(self.distinct)} broken={len(self.broken)} failures={len(self.failures)} "
              f"known={len(known_hits)} wall={self.t.s()}s")
        sys.stdout.flush()
        return 1 if violations else 0


def load_known():
    p = os.path.join(C.VERIF, "known_findings.json")
    if os.path.exists(p):
        with open(p) as f:
            return json.load(f)
    return {"findings": [], "fixed": []}


def main_wrapper(fn):
    """run a check function; infrastructure failures are exit 2 and never a VIOLATION"""
    try:
        rc = fn()
    except C.Infra as e:
        print(f"INFRA: {e}")
        sys.exit(2)
    except Exception:
        traceback.print_exc()
        print("INFRA: unexpected exception in the check machinery")
        sys.exit(2)
    sys.exit(rc)
