"""Driver-level scenarios: JSON specs -> real run -> protocol lines -> model output -> diff, plus the
property monitors that are evaluated on the *real* run (used to find a replayable failing input)."""
import contextlib
import math
import multiprocessing
import os
import signal

import numpy as np
import pandas as pd

from . import common as C
from . import drv, gen

_manager = None


class StepTimeout(Exception):
    """a search() did not return within the watchdog limit (livelock candidate, C08)"""


@contextlib.contextmanager
def time_limit(seconds):
    """watchdog on the CPU time of this process (a livelock burns CPU; a loaded machine does not make a terminating
    step look like one).  A wall-clock backstop far beyond the budget means the harness itself is stalled or starved:
    that is an infrastructure failure, never a verdict."""
    def on_cpu(signum, frame):
        raise StepTimeout(f"no return within {seconds}s of CPU time")

    def on_wall(signum, frame):
        raise C.Infra(f"harness stalled: no return within {max(600, 30 * seconds)}s wall-clock (CPU budget {seconds}s not used up)")
    old_p = signal.signal(signal.SIGPROF, on_cpu)
    old_a = signal.signal(signal.SIGALRM, on_wall)
    signal.setitimer(signal.ITIMER_PROF, seconds)
    signal.setitimer(signal.ITIMER_REAL, max(600, 30 * seconds))
    try:
        yield
    finally:
        signal.setitimer(signal.ITIMER_PROF, 0)
        signal.setitimer(signal.ITIMER_REAL, 0)
        signal.signal(signal.SIGPROF, old_p)
        signal.signal(signal.SIGALRM, old_a)


WATCHDOG_S = float(os.environ.get("VERIF_WATCHDOG_S", "20"))


def manager():
    global _manager
    if _manager is None:
        _manager = multiprocessing.Manager()
    return _manager


def shutdown_manager():
    global _manager
    if _manager is not None:
        _manager.shutdown()
        _manager = None


def build_optimizer(spec):
    space = gen.build_space(spec["space"])
    if spec["opt"] == "stub":
        return space, drv.make_stub(space, spec["stub_positions"], spec["stub_ninits"])
    cls = gen.get_class(spec["opt"])
    kw = dict(spec.get("opt_kwargs", {}))
    if spec.get("initialize") is not None:
        kw["initialize"] = _build_initialize(spec["initialize"])
    if spec.get("constraint"):
        kw["constraints"] = [gen.build_constraint(spec["constraint"], spec["space"])]
    kw["random_state"] = spec.get("seed", 0)
    import inspect
    accepted = set(inspect.signature(cls.__init__).parameters)
    kw = {k: v for k, v in kw.items() if k in accepted}
    return space, cls(space, **kw)


def _build_initialize(ini):
    return dict(ini)


def _is_finite(x):
    try:
        return not (math.isnan(float(x)) or math.isinf(float(x)))
    except Exception:
        return False


def run_scenario(spec, with_model=True, blog=None, on_built=None, on_eval=None):
    """returns dict(diff, lines, expect, got, real) - `real` carries what the monitors look at"""
    space, opt = build_optimizer(spec)
    names = list(space)
    f = gen.build_objective(spec["objective"], names)
    durs = spec.get("durs") or [0]
    script = spec.get("script")
    by_call = None
    if script is not None:
        by_call = [_script_val(v, spec["objective"].get("np")) for v in script]
    calls = []
    warm_frames = []
    prev_df = None
    proxy = None
    rec_holder = {}

    def dur_of_step(i):
        return durs[i % len(durs)]

    # calls are built lazily because "prev" warm starts need the previous call's search_data
    clock_calls = []
    real_calls = []
    opt_calls = spec["calls"]
    # run call by call so that warm starts can depend on earlier results
    rec = None
    records = []
    clock = drv.VClock(0)
    if on_built is not None:
        on_built(opt)
    rec = drv.Recorder(opt, f, dur_of_step, clock, by_call)
    rec.blog = blog
    if on_eval is not None:
        rec.on_eval = lambda: on_eval(opt)
    with drv.patched_driver_modules(clock):
        for cs in opt_calls:
            mem = cs.get("memory", "on")
            if mem == "proxy":
                if proxy is None:
                    proxy = manager().dict()
                memory = proxy
            elif mem == "off":
                memory = False
            elif mem == "none":
                memory = None
            else:
                memory = True
            warm = _build_warm(cs.get("warm", "none"), spec, space, names, f, prev_df)
            c = drv.CallSpec(cs["n_iter"], max_time=cs.get("max_time"), max_score=cs.get("max_score"),
                             early_stopping=cs.get("early_stopping"), memory=memory, memory_warm_start=warm,
                             verbosity=cs.get("verbosity", False), via=cs.get("via", "search"),
                             flv=gen.flavour(spec["objective"]))
            r = _run_one(opt, rec, c)
            records.append(r)
            if r["exc"] is not None:
                break
            try:
                prev_df = opt.search_data.copy()
            except Exception:
                prev_df = None
    real = dict(opt=opt, rec=rec, records=records, space=space, names=names, f=f, spec=spec)
    out = dict(real=real, diff=None, lines=None, expect=None, got=None)
    if with_model:
        n_inits = opt.init.n_inits
        lines, expect = drv.encode_history(space, n_inits, opt, rec, records,
                                           (lambda k, para: f(para)))
        out.update(lines=lines, expect=expect)
    return out


def _script_val(v, as_np):
    if isinstance(v, str):
        v = float(v)
    return np.float64(v) if as_np else v


def _run_one(opt, rec, c):
    import io
    ev0 = len(rec.events)
    rows0 = len(opt.results_mang.results_list)
    steps0 = rec.nsteps_api
    calls0 = rec.ncalls
    exc = None
    sink = io.StringIO()
    try:
        with contextlib.redirect_stdout(sink), time_limit(WATCHDOG_S):
            if c.via == "search":
                opt.search(rec.obj, c.n_iter, max_time=c.max_time, max_score=c.max_score,
                           early_stopping=c.early_stopping, memory=c.memory,
                           memory_warm_start=c.memory_warm_start, verbosity=c.verbosity)
            else:
                opt.init_search(rec.obj, c.n_iter, c.max_time, c.max_score, c.early_stopping, c.memory,
                                c.memory_warm_start, c.verbosity)
                for i in range(c.n_iter):
                    opt.search_step(i)
                opt.finish_search()
    except C.Infra:
        raise
    except Exception as e:  # noqa
        exc = e
    snap = None if exc else drv._snapshot(opt, c, rec)
    return dict(spec=c, ev=rec.events[ev0:], rows0=rows0, steps=rec.nsteps_api - steps0, exc=exc, snapshot=snap,
                calls0=calls0, calls1=rec.ncalls)


def _build_warm(kind, spec, space, names, f, prev_df):
    if kind in (None, "none"):
        return None
    if kind == "prev":
        return prev_df
    if kind == "empty":
        return pd.DataFrame(columns=names + ["score"])
    if kind == "notdf":
        return {"not": "a dataframe"}
    if kind.startswith("subset") or kind.startswith("all") or kind.startswith("extra") or kind.startswith("missing"):
        r = C.rng("warm" + kind + repr(sorted(spec["space"].items())))
        import itertools
        pts = list(itertools.product(*[list(space[n]) for n in names]))
        if len(pts) > 300:
            pts = r.sample(pts, 300)
        if kind.startswith("subset"):
            k = max(1, len(pts) // 2)
            pts = r.sample(pts, k)
        rows = []
        for p in pts:
            para = dict(zip(names, p))
            res = f(para)
            s = res[0] if isinstance(res, tuple) else res
            # a warm score that differs from the objective so that "trusted verbatim" is observable
            rows.append({**{n: para[n] for n in names}, "score": float(s) + 1000.0 if _is_finite(s) else s})
        df = pd.DataFrame(rows)
        if kind.startswith("extra"):
            df["unrelated"] = 1
            df = df[["unrelated"] + names + ["score"]]
        if kind.startswith("missing"):
            df = df.drop(columns=[names[0]])
        return df
    raise ValueError(kind)


def model_diff(out):
    got = C.run_driver(out["lines"])
    out["got"] = got
    out["diff"] = drv.compare(out["lines"], out["expect"], got)
    return out["diff"]


def run_batch(specs, on_error=None):
    """run many scenarios, feed all of them through ONE driver process (separated by `mark` lines)"""
    outs = []
    all_lines = []
    for s in specs:
        o = run_scenario(s)
        outs.append((s, o))
        all_lines += o["lines"] + ["mark"]
    got = C.run_driver(all_lines) if all_lines else []
    chunks, cur = [], []
    for l in got:
        if l == "----":
            chunks.append(cur)
            cur = []
        else:
            cur.append(l)
    for (s, o), ch in zip(outs, chunks):
        o["got"] = ch
        o["diff"] = drv.compare(o["lines"], o["expect"], ch)
    return outs


# ----------------------------------------------------------------------------- monitors on the real run

def branch_key(out):
    """which non-default driver branches a scenario reached (for distinct/non-trivial counting)"""
    real = out["real"]
    keys = set()
    for r in real["records"]:
        c = r["spec"]
        snap = r["snapshot"]
        if r["exc"] is not None:
            keys.add("exc:" + type(r["exc"]).__name__)
            continue
        n_new = snap["rows"] - r["rows0"]
        if n_new < c.n_iter:
            keys.add("stopped-early")
        if (r["calls1"] - r["calls0"]) < n_new:
            keys.add("memory-hit")
        if c.memory_warm_start is not None:
            keys.add("warm")
        if drv.mem_mode(c.memory) != "fresh":
            keys.add("mem-" + drv.mem_mode(c.memory))
        if c.via != "search":
            keys.add("stepapi")
        if any(e[0] == "F" for e in r["ev"]):
            keys.add("finish-init")
        if any(e[0] == "T" for e in r["ev"]) and any(e[0] == "I" for e in r["ev"]):
            keys.add("init+iter")
        if c.verbosity:
            keys.add("verbose")
    sl = [s for s in real["opt"].score_l]
    if any(not _is_finite(s) for s in sl):
        keys.add("nonfinite")
    if len(set(map(str, sl))) < len(sl):
        keys.add("ties")
    if len(real["records"]) > 1:
        keys.add("multi-call")
    return (real["spec"]["opt"], tuple(sorted(keys)))
