"""Python -> Lean translator for PowellsMethod's `iterate`, `evaluate` and `finish_initialization`
(global_opt/powells_method/powells_method.py).  `iterate` is translated statement by statement: the two counters, the modulo
(ZeroDivisionError for `iters_p_dim = 0`), `new_dim()` when due, the start-up list of the inner climber for the first N proposals of a
dimension (N read from the source) and its `iterate` afterwards, the translation of the inner position to the outer space
(`hill_climb.conv.position2value` + `np.array`: `toOuter`), the OUTER constraint test and the `move_climb` fallback.  `evaluate`: which
trackers are fed under which condition.  `new_dim` itself is modelled by hand (`powNewDim`) and only required to exist."""
import ast

from .pytolean import Untranslatable

U = ast.unparse


def _inner(stmts, what):
    u = [U(x) for x in stmts]
    if u != [f"pos_new = self.hill_climb.{what}()", "pos_new = self.hill_climb.conv.position2value(pos_new)"]:
        raise Untranslatable(f"PowellsMethod.iterate: branch {u}")


def fn_iterate(fn):
    decs = [U(d).split(".")[-1] for d in fn.decorator_list]
    if decs != ["track_new_pos", "random_iteration"]:
        raise Untranslatable(f"PowellsMethod.iterate: decorators {decs}")
    b = fn.body
    u = [U(x) for x in b]
    if len(b) != 8 or u[0] != "self.nth_iter_ += 1" or u[1] != "self.nth_iter_current_dim += 1" \
            or u[2] != "modZero = self.nth_iter_ % self.iters_p_dim == 0" or u[3] != "if modZero:\n    self.new_dim()" \
            or not isinstance(b[4], ast.If) or u[5] != "pos_new = np.array(pos_new)" \
            or u[6] != "if self.conv.not_in_constraint(pos_new):\n    return pos_new" \
            or u[7] != "return self.move_climb(pos_new, epsilon=self.epsilon, distribution=self.distribution)":
        raise Untranslatable(f"PowellsMethod.iterate: {u}")
    t = b[4].test
    if not (isinstance(t, ast.Compare) and U(t.left) == "self.nth_iter_current_dim" and len(t.ops) == 1 and isinstance(t.ops[0], ast.Lt)
            and isinstance(t.comparators[0], ast.Constant) and isinstance(t.comparators[0].value, int)):
        raise Untranslatable(f"PowellsMethod.iterate: `{U(t)}`")
    n = t.comparators[0].value
    kinds = []
    for branch in (b[4].body, b[4].orelse):
        for what in ("init_pos", "iterate"):
            try:
                _inner(branch, what)
                kinds.append(what)
                break
            except Untranslatable:
                continue
        else:
            raise Untranslatable(f"PowellsMethod.iterate: branch {[U(x) for x in branch]}")
    call = {"init_pos": "localInitPos { h with tape := s2.tape }", "iterate": "localIterate icfg { h with tape := s2.tape }"}
    return ("/-- the body of `PowellsMethod.iterate` below `random_iteration` -/\n"
            "def Powell_iterate_body (cfg : PowCfg) (s : PowSt) : Except Err (Pos × PowSt) :=\n"
            "  if cfg.itersPDim = 0 then .error .zeroDivision                       -- self.nth_iter_ % self.iters_p_dim\n"
            "  else\n"
            "    let s1 := { s with nthIter := s.nthIter + 1, nthIterCurDim := s.nthIterCurDim + 1 }\n"
            "    match (if s1.nthIter % (cfg.itersPDim : Int) = 0 then powNewDim cfg s1 else .ok s1) with      -- if modZero: self.new_dim()\n"
            "    | .error e => .error e\n"
            "    | .ok s2 =>\n"
            "      match s2.hc with\n"
            "      | none => .error (.other \"AttributeError\")\n"
            "      | some h =>\n"
            "        let dim := s2.curDim.toNat\n"
            "        let icfg := innerCfg cfg dim\n"
            f"        match (if s2.nthIterCurDim < {n} then {call[kinds[0]]} else {call[kinds[1]]}) with\n"
            "        | .error e => .error e\n"
            "        | .ok a =>\n"
            "          match toOuter cfg.sizes dim s2.powellsPos a.1 with            -- hill_climb.conv.position2value + np.array\n"
            "          | .error e => .error e\n"
            "          | .ok pos_new =>\n"
            "            let s3 := { s2 with hc := some { a.2 with tape := [] }, tape := a.2.tape }\n"
            "            match askFeas pos_new s3.tape with\n"
            "            | .error e => .error e\n"
            "            | .ok b =>\n"
            "              if b.1 then .ok (pos_new, { s3 with tape := b.2 })\n"
            "              else\n"
            "                match moveClimb cfg.geo (some pos_new) (some 1) s.tape.length b.2 with\n"
            "                | .error e => .error e\n"
            "                | .ok c => .ok (c.1, { s3 with tape := c.2 })")


def fn_evaluate(fn):
    decs = [U(d).split(".")[-1] for d in fn.decorator_list]
    if decs != ["track_new_score"] or [a.arg for a in fn.args.args] != ["self", "score_new"]:
        raise Untranslatable(f"PowellsMethod.evaluate: decorators {decs}")
    if len(fn.body) != 1 or not isinstance(fn.body[0], ast.If) or U(fn.body[0].test) != "self.current_search_dim == -1":
        raise Untranslatable("PowellsMethod.evaluate: " + " | ".join(U(x) for x in fn.body))
    base = "super(HillClimbingOptimizer, self).evaluate(score_new)"
    a, o = [U(x) for x in fn.body[0].body], [U(x) for x in fn.body[0].orelse]
    if a != [base] or sorted(o) != sorted(["self.hill_climb.evaluate(score_new)", base]):
        raise Untranslatable(f"PowellsMethod.evaluate: branches {a} / {o}")
    return ("/-- `PowellsMethod.evaluate` below `track_new_score`: the base evaluate always (it reads only the outer tracker), the inner\n"
            "    climber's hill-climbing evaluate whenever a dimension is being searched -/\n"
            "def Powell_evaluate (cfg : PowCfg) (s : PowSt) (score_new : F) : Except Err PowSt :=\n"
            "  let t1 := Tracker.baseEvaluate (s.tr.setScoreNew score_new) score_new\n"
            "  let tr' := { t1 with nthTrial := t1.nthTrial + 1 }\n"
            "  if s.curDim = -1 then .ok { s with tr := tr' }\n"
            "  else\n"
            "    match s.hc with\n"
            "    | none => .error (.other \"AttributeError\")\n"
            "    | some h => .ok { s with tr := tr', hc := some { h with tr := Tracker.hcEvaluate cfg.nNeighbours h.tr score_new } }")


def fn_finish(fn):
    u = [U(x) for x in fn.body]
    if fn.decorator_list or u != ["self.nth_iter_ = -1", "self.nth_iter_current_dim = 0", "self.search_state = 'iter'"]:
        raise Untranslatable(f"PowellsMethod.finish_initialization: {u}")
    return ("/-- `PowellsMethod.finish_initialization` -/\n"
            "def Powell_finish_initialization (s : PowSt) : Except Err PowSt :=\n"
            "  .ok { s with nthIter := -1, nthIterCurDim := 0 }")
