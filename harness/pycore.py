"""Python -> Lean translator for the position kernels of `CoreOptimizer` (core_optimizer/core_optimizer.py): the `random_iteration`
decorator, `move_random`, `move_climb` and `conv2pos`.  Calls of generators and of the constraint become reads of the oracle tape
(`move_random(…)` -> the next `rnd` entry, `dist_dict[distribution](pos, sigma, pos.shape)` -> the next `dist` entry centred on `pos`,
`self.conv.not_in_constraint(pos)` -> `askFeas pos`, `random.uniform(0, 1)` -> the next `unif` entry); a `while True:` body becomes one
ROUND function returning either the value the loop returns or the state the next round starts from; the float statements
(`sigma = …`, `epsilon_mod *= 1.01`) only feed the generator call, whose result is the oracle.  `conv2pos`'s numpy lines are pinned and
stand for `clipCastVec` / `farOutside`.  Anything else raises `Untranslatable`."""
import ast

from .pytolean import Untranslatable


def _u(n):
    return ast.unparse(n)


PREAMBLE = '''/-- the next `rnd` entry: `move_random(self.conv.search_space_positions)` -/
def takeRnd : Tape → Except Err (Pos × Tape)
  | .rnd p :: rest => .ok (p, rest)
  | [] => .error .needMore
  | _ => .error (protocol "move_random")

/-- the next `dist` entry, which must be centred on `loc`: `dist_dict[distribution](loc, sigma, loc.shape)` -/
def takeDist (loc : Pos) : Tape → Except Err (List F × Tape)
  | .dist loc' res :: rest => if loc' ≠ loc then .error (protocol "draw-centred-elsewhere") else .ok (res, rest)
  | [] => .error .needMore
  | _ => .error (protocol "move_climb-draw")

/-- the next `unif` entry: `random.uniform(0, 1)` -/
def takeUnif : Tape → Except Err (Rat × Tape)
  | .unif x :: rest => .ok (x, rest)
  | [] => .error .needMore
  | _ => .error (protocol "random_iteration")
'''


def fn_move_random(fn):
    want = ["while True:\n    pos = move_random(self.conv.search_space_positions)\n    if self.conv.not_in_constraint(pos):\n        return pos"]
    if [_u(x) for x in fn.body] != want:
        raise Untranslatable("CoreOptimizer.move_random: " + " | ".join(_u(x) for x in fn.body))
    loop = fn.body[0]
    b = loop.body
    out = ["/-- one round of `move_random`'s `while True`: `.inl` = the value returned, `.inr` = the tape the next round reads -/",
           "def move_random_round (tape : Tape) : Except Err (Sum (Pos × Tape) Tape) :=",
           "  match takeRnd tape with                                   -- " + _u(b[0]),
           "  | .error e => .error e",
           "  | .ok (pos, tape) =>",
           "    match askFeas pos tape with                             -- " + _u(b[1].test),
           "    | .error e => .error e",
           "    | .ok (ok, tape) => if ok then .ok (.inl (pos, tape)) else .ok (.inr tape)"]
    return "\n".join(out)


def fn_move_climb(fn):
    args = [a.arg for a in fn.args.args]
    if args != ["self", "pos", "epsilon", "distribution", "epsilon_mod"]:
        raise Untranslatable(f"move_climb: parameters {args}")
    if len(fn.body) != 1 or not isinstance(fn.body[0], ast.While) or _u(fn.body[0].test) != "True":
        raise Untranslatable("move_climb: not one `while True`")
    b = fn.body[0].body
    got = [_u(x) for x in b]
    want = ["sigma = self.conv.max_positions * epsilon * epsilon_mod",
            "pos_normal = dist_dict[distribution](pos, sigma, pos.shape)",
            "pos = self.conv2pos(pos_normal)",
            "if self.conv.not_in_constraint(pos):\n    return pos",
            "epsilon_mod *= 1.01"]
    if got != want:
        raise Untranslatable(f"move_climb: loop body {got}")
    out = ["/-- one round of `move_climb`'s `while True` from the centre `pos` (`sigma`, `epsilon_mod *= 1.01`: floats feeding the generator\n"
           "    call only): `.inl` = the value returned, `.inr` = the centre and tape of the next round - the REJECTED candidate -/",
           "def move_climb_round (g : Geo) (pos : Pos) (tape : Tape) : Except Err (Sum (Pos × Tape) (Pos × Tape)) :=",
           "  match takeDist pos tape with                              -- " + want[1],
           "  | .error e => .error e",
           "  | .ok (pos_normal, tape) =>",
           "    match conv2pos g pos_normal tape with                   -- " + want[2],
           "    | .error e => .error e",
           "    | .ok (pos, tape) =>",
           "      match askFeas pos tape with                           -- if self.conv.not_in_constraint(pos):",
           "      | .error e => .error e",
           "      | .ok (ok, tape) => if ok then .ok (.inl (pos, tape)) else .ok (.inr (pos, tape))"]
    return "\n".join(out)


def fn_conv2pos(fn):
    got = [_u(x) for x in fn.body]
    want = ["r_pos = np.rint(pos)",
            "n_zeros = [0] * len(self.conv.max_positions)",
            "pos = np.clip(r_pos, n_zeros, self.conv.max_positions).astype(int)",
            "dist = scipy.spatial.distance.cdist(r_pos.reshape(1, -1), pos.reshape(1, -1))",
            "threshold = self.conv.search_space_size / 100 ** self.conv.n_dimensions",
            "if dist > threshold:\n    return self.move_random()",
            "return pos"]
    if got != want:
        raise Untranslatable(f"conv2pos: {got}")
    return ("/-- `conv2pos`: rint, clip into [0, max_positions], cast (`clipCastVec`, C01's kernel); when the rounded vector is further than\n"
            "    `search_space_size / 100 ** n_dimensions` from its clipped image (`farOutside`) the result is `self.move_random()` instead -/\n"
            "def conv2pos (g : Geo) (pos : List F) (tape : Tape) : Except Err (Pos × Tape) :=\n"
            "  let clipped := clipCastVec pos g.maxPos\n"
            "  if farOutside pos clipped g.size then moveRandomLoop tape     -- return self.move_random()\n"
            "  else .ok (clipped, tape)                                     -- return pos")


def fn_random_iteration(fn):
    if len(fn.body) != 2 or not isinstance(fn.body[0], ast.FunctionDef) or _u(fn.body[1]) != "return wrapper":
        raise Untranslatable("random_iteration: not a plain decorator")
    w = fn.body[0]
    want = ["if self.rand_rest_p > random.uniform(0, 1):\n    return self.move_random()\nelse:\n    return func(self, *args, **kwargs)"]
    if [_u(x) for x in w.body] != want:
        raise Untranslatable("random_iteration: " + " | ".join(_u(x) for x in w.body))
    return ("/-- the `random_iteration` decorator around `func` -/\n"
            "def random_iteration (rand_rest_p : Rat) (tape : Tape) (func : Tape → Except Err (Pos × Tape)) : Except Err (Pos × Tape) :=\n"
            "  match takeUnif tape with                                   -- random.uniform(0, 1)\n"
            "  | .error e => .error e\n"
            "  | .ok (x, tape) => if rand_rest_p > x then moveRandomLoop tape   -- return self.move_random()\n"
            "                     else func tape")
