"""Python -> Lean translator for `core_optimizer/init_positions.py` (class `Initializer`): `__init__` (the n_inits sum), `set_pos`
(the four parts in source order, flattening, `_fill_rest_random`), `_fill_rest_random`, `_init_warm_start`, `_init_grid_search`
(guards, the per-dimension points as arithmetic, the mesh - pinned -, the constraint filter), `_get_random_vertex` and the constants
of `_init_vertices` / `_init_random_search` (whose loops are pinned as they are).  Anything else raises `Untranslatable`."""
import ast

from .pytolean import Untranslatable


def _u(n):
    return ast.unparse(n)


KEYS = {"random": ("random", "value"), "grid": ("grid", "value"), "vertices": ("vertices", "value"), "warm_start": ("warm", "len")}
PART_FN = {"_init_random_search": "R", "_init_grid_search": "G", "_init_vertices": "V", "_init_warm_start": "W"}


def fn_n_inits(init):
    """`self.n_inits = 0` followed by `if "<key>" in initialize: self.n_inits += initialize["<key>"] | len(initialize["<key>"])`"""
    body = [_u(x) for x in init.body]
    if "self.n_inits = 0" not in body:
        raise Untranslatable("Initializer.__init__: no `self.n_inits = 0`")
    terms = []
    started = False
    for st in init.body:
        s = _u(st)
        if s == "self.n_inits = 0":
            started = True
            continue
        if not started or not isinstance(st, ast.If):
            continue
        t = _u(st.test)
        if not (t.startswith("'") and t.endswith("' in initialize")) or st.orelse or len(st.body) != 1:
            raise Untranslatable(f"Initializer.__init__: `{s}`")
        key = t[1:-len("' in initialize")]
        b = _u(st.body[0])
        if key not in KEYS:
            raise Untranslatable(f"Initializer.__init__: unknown key {key}")
        fld, how = KEYS[key]
        if b == f"self.n_inits += initialize['{key}']" and how == "value":
            terms.append(f"c.{fld}.getD 0")
        elif b == f"self.n_inits += len(initialize['{key}'])" and how == "len":
            terms.append(f"(c.{fld}.map List.length).getD 0")
        else:
            raise Untranslatable(f"Initializer.__init__: `{b}`")
    if "self.set_pos()" not in body:
        raise Untranslatable("Initializer.__init__ no longer calls set_pos()")
    return ("/-- `Initializer.__init__`: `n_inits` -/\ndef n_inits (c : InitCfg) : Nat :=\n  0" + "".join(f" + {t}" for t in terms))


def fn_set_pos(fn, fill):
    """the parts in source order; `init_positions_l` = their concatenation; then `_fill_rest_random`"""
    b = fn.body
    if _u(b[0]) != "init_positions_ll = []":
        raise Untranslatable("set_pos: " + _u(b[0]))
    parts = []
    i = 1
    while i < len(b) and isinstance(b[i], ast.If):
        st = b[i]
        t = _u(st.test)
        if not (t.startswith("'") and t.endswith("' in self.initialize")) or st.orelse or len(st.body) != 2:
            raise Untranslatable("set_pos: " + _u(st))
        key = t[1:-len("' in self.initialize")]
        call = _u(st.body[0])
        pre, post = "positions = self.", f"(self.initialize['{key}'])"
        if not (call.startswith(pre) and call.endswith(post)) or _u(st.body[1]) != "init_positions_ll.append(positions)":
            raise Untranslatable("set_pos: " + _u(st))
        meth = call[len(pre):-len(post)]
        if key not in KEYS or meth not in PART_FN:
            raise Untranslatable(f"set_pos: key {key} / method {meth}")
        parts.append((key, meth))
        i += 1
    rest = [_u(x) for x in b[i:]]
    if rest != ["self.init_positions_l = [item for sublist in init_positions_ll for item in sublist]",
                "self.init_positions_l = self._fill_rest_random(self.init_positions_l)"]:
        raise Untranslatable(f"set_pos: tail {rest}")
    # _fill_rest_random
    fb = [_u(x) for x in fill.body]
    want = ["diff_pos = self.n_inits - len(positions)",
            "if diff_pos > 0:\n    pos_rnd = self._init_random_search(n_pos=diff_pos)\n    return positions + pos_rnd\nelse:\n    return positions"]
    if fb != want:
        raise Untranslatable(f"_fill_rest_random: {fb}")
    out = ["/-- `set_pos()`: the parts in source order (each under `if \"<key>\" in self.initialize`), flattened, then `_fill_rest_random` -/",
           "def set_pos (feas : Pos → Bool) (sp : Space) (c : InitCfg) (pPerDim fuel : Nat) : InitM (List Pos) := fun d0 =>"]
    lists = []
    for k, (key, meth) in enumerate(parts):
        fld = KEYS[key][0]
        kind = PART_FN[meth]
        src = {"R": f"partRandom feas fuel c.{fld} d{k}", "V": f"partVertices feas c.{fld} d{k}",
               "G": f"(Except.ok (partGrid feas sp.sizes pPerDim c.{fld}, d{k}) : Except Err (List Pos × Draws))",
               "W": f"(partWarm feas sp c.{fld}).map (fun w => (w, d{k}))"}[kind]
        out.append(f"  match {src} with\n  | .error e => .error e\n  | .ok (l{k + 1}, d{k + 1}) =>")
        lists.append(f"l{k + 1}")
    n = len(parts)
    out.append(f"  let positions := {' ++ '.join(lists) if lists else '[]'}")
    out.append(f"  if n_inits c - positions.length > 0 then\n    match initRandom feas fuel (n_inits c - positions.length) d{n} with\n"
               f"    | .error e => .error e\n    | .ok (pos_rnd, d{n + 1}) => .ok (positions ++ pos_rnd, d{n + 1})\n  else .ok (positions, d{n})")
    return "\n".join(out), [k for k, _ in parts]


def fn_warm(fn):
    want = ["positions = []",
            "for value_ in value_list:\n    pos = self.conv.value2position(self.conv.para2value(value_))\n    positions.append(pos)",
            "positions_constr = []",
            "for pos in positions:\n    if self.conv.not_in_constraint(pos):\n        positions_constr.append(pos)",
            "return positions_constr"]
    if [_u(x) for x in fn.body] != want:
        raise Untranslatable("_init_warm_start: " + " | ".join(_u(x) for x in fn.body))
    return ("/-- `_init_warm_start`: `value2position(para2value(value_))` per dictionary, then the constraint filter -/\n"
            "def warm_pos (sp : Space) (value_ : Para) : Except Err Pos := do\n"
            "  let v ← para2value sp.names value_\n  let k ← value2position sp.dims v\n  pure (k.map Int.ofNat)\n\n"
            "def init_warm_start (feas : Pos → Bool) (sp : Space) (value_list : List Para) : Except Err (List Pos) :=\n"
            "  match value_list.mapM (warm_pos sp) with\n  | .error e => .error e\n  | .ok positions => .ok (positions.filter feas)")


def _arith(e, names):
    """nonnegative integer arithmetic: names, literals, + - *, `int(a / b)` (floor division of nonnegative ints)"""
    if isinstance(e, ast.Name) and e.id in names:
        return names[e.id]
    if isinstance(e, ast.Constant) and isinstance(e.value, int) and not isinstance(e.value, bool):
        return str(e.value)
    if isinstance(e, ast.BinOp) and isinstance(e.op, (ast.Add, ast.Mult, ast.Sub)):
        op = {ast.Add: "+", ast.Mult: "*", ast.Sub: "-"}[type(e.op)]
        return f"({_arith(e.left, names)} {op} {_arith(e.right, names)})"
    if isinstance(e, ast.Call) and _u(e.func) == "int" and len(e.args) == 1 and isinstance(e.args[0], ast.BinOp) \
            and isinstance(e.args[0].op, ast.Div):
        return f"({_arith(e.args[0].left, names)} / {_arith(e.args[0].right, names)})"
    raise Untranslatable(f"arithmetic `{_u(e)}`")


def fn_grid(fn):
    b = fn.body
    heads = [_u(x) for x in b[:3]]
    if heads != ["positions = []", "if n_pos == 0:\n    return positions", "n_dim = len(self.conv.max_positions)"]:
        raise Untranslatable(f"_init_grid_search: head {heads}")
    g = b[3]
    if not isinstance(g, ast.If) or not isinstance(g.test, ast.Compare) or _u(g.test.left) != "n_dim" \
            or not isinstance(g.test.ops[0], ast.Gt) or not isinstance(g.test.comparators[0], ast.Constant) \
            or [_u(x) for x in g.body] != ["positions = []"]:
        raise Untranslatable("_init_grid_search: dimension guard " + _u(g.test))
    limit = int(g.test.comparators[0].value)
    e = g.orelse
    if len(e) != 4 or _u(e[0]) != "p_per_dim = int(np.power(n_pos, 1 / n_dim))" \
            or _u(e[2]) != "pos_mesh = np.array(np.meshgrid(*positions))" or _u(e[3]) != "positions = list(pos_mesh.T.reshape(-1, n_dim))":
        raise Untranslatable("_init_grid_search: else branch " + " | ".join(_u(x) for x in e))
    loop = e[1]
    if not isinstance(loop, ast.For) or _u(loop.target) != "dim" or _u(loop.iter) != "self.conv.max_positions" or len(loop.body) != 3 \
            or _u(loop.body[2]) != "positions.append(n_points)":
        raise Untranslatable("_init_grid_search: per-dimension loop")
    a0, a1 = loop.body[0], loop.body[1]
    if not (isinstance(a0, ast.Assign) and _u(a0.targets[0]) == "dim_dist"):
        raise Untranslatable("_init_grid_search: " + _u(a0))
    dim_dist = _arith(a0.value, {"dim": "dim", "p_per_dim": "p_per_dim"})
    if not (isinstance(a1, ast.Assign) and _u(a1.targets[0]) == "n_points" and isinstance(a1.value, ast.ListComp)
            and len(a1.value.generators) == 1 and _u(a1.value.generators[0].target) == "n" and not a1.value.generators[0].ifs):
        raise Untranslatable("_init_grid_search: " + _u(a1))
    it = a1.value.generators[0].iter
    if not (isinstance(it, ast.Call) and _u(it.func) == "range" and len(it.args) == 2):
        raise Untranslatable("_init_grid_search: range " + _u(it))
    lo = _arith(it.args[0], {"p_per_dim": "p_per_dim"})
    hi = _arith(it.args[1], {"p_per_dim": "p_per_dim"})
    elt = _arith(a1.value.elt, {"n": "n", "dim_dist": "dim_dist", "dim": "dim", "p_per_dim": "p_per_dim"})
    tail = [_u(x) for x in b[4:]]
    if tail != ["positions_constr = []", "for pos in positions:\n    if self.conv.not_in_constraint(pos):\n        positions_constr.append(pos)",
                "return positions_constr"]:
        raise Untranslatable(f"_init_grid_search: tail {tail}")
    return ("/-- `_init_grid_search`: the points of one dimension (`dim` = its maximal position) -/\n"
            "def grid_points (dim p_per_dim : Nat) : List Nat :=\n"
            f"  let dim_dist := {dim_dist}\n"
            f"  (List.range' {lo} ({hi} - {lo})).map (fun n => {elt})\n\n"
            "/-- `_init_grid_search(n_pos)`; `p_per_dim = int(np.power(n_pos, 1 / n_dim))` is a float expression (oracle input), the mesh\n"
            "    `np.meshgrid(*positions)` / `.T.reshape(-1, n_dim)` is pinned and modelled by `meshProduct` -/\n"
            "def init_grid_search (feas : Pos → Bool) (sizes : List Nat) (n_pos p_per_dim : Nat) : List Pos :=\n"
            "  if n_pos = 0 then [] else\n"
            f"  if sizes.length > {limit} then [] else\n"
            "  let positions := (sizes.map (fun s => s - 1)).map (fun dim => grid_points dim p_per_dim)\n"
            "  ((meshProduct positions).map (fun p => p.map Int.ofNat)).filter feas")


def fn_vertex(fn, vertices, rnd_search):
    want = ["vertex = []",
            "for dim_positions in self.conv.search_space_positions:\n    rnd = random.randint(0, 1)\n    if rnd == 0:\n        dim_pos = dim_positions[0]\n"
            "    elif rnd == 1:\n        dim_pos = dim_positions[-1]\n    vertex.append(dim_pos)",
            "return np.array(vertex)"]
    if [_u(x) for x in fn.body] != want:
        raise Untranslatable("_get_random_vertex: " + " | ".join(_u(x) for x in fn.body))
    vb = vertices.body
    if len(vb) != 5 or _u(vb[0]) != "positions = []" or not isinstance(vb[1], ast.For) or _u(vb[1].iter) != "range(n_pos)":
        raise Untranslatable("_init_vertices: shape")
    inner = vb[1].body
    if len(inner) != 1 or not isinstance(inner[0], ast.For) or not _u(inner[0].iter).startswith("range("):
        raise Untranslatable("_init_vertices: inner loop")
    tries = _u(inner[0].iter)[6:-1]
    if not tries.isdigit():
        raise Untranslatable("_init_vertices: tries " + tries)
    ib = [_u(x) for x in inner[0].body]
    if ib != ["vertex = self._get_random_vertex()", "vert_in_list = any(((vertex == pos).all() for pos in positions))",
              "if not vert_in_list:\n    positions.append(vertex)\n    break"]:
        raise Untranslatable(f"_init_vertices: loop body {ib}")
    if [_u(x) for x in inner[0].orelse] != ["pos = move_random(self.conv.search_space_positions)", "positions.append(pos)"]:
        raise Untranslatable("_init_vertices: for-else")
    if [_u(x) for x in vb[2:]] != ["positions_constr = []", "for pos in positions:\n    if self.conv.not_in_constraint(pos):\n        positions_constr.append(pos)",
                                   "return positions_constr"]:
        raise Untranslatable("_init_vertices: tail")
    want_r = ["positions = []", "if n_pos == 0:\n    return positions",
              "for nth_pos in range(n_pos):\n    while True:\n        pos = move_random(self.conv.search_space_positions)\n"
              "        if self.conv.not_in_constraint(pos):\n            positions.append(pos)\n            break",
              "return positions"]
    if [_u(x) for x in rnd_search.body] != want_r:
        raise Untranslatable("_init_random_search: " + " | ".join(_u(x) for x in rnd_search.body))
    return ("/-- `_get_random_vertex`: per dimension the first (`rnd == 0`) or the last (`rnd == 1`) position -/\n"
            "def vertex_coord (size rnd : Nat) : Nat := if rnd = 0 then 0 else if rnd = 1 then size - 1 else 0\n\n"
            "/-- `_init_vertices`: tries per vertex before the `move_random` fallback (`for _ in range(…)` … `else`) -/\n"
            f"def vertex_tries : Nat := {tries}")
