"""Backend-level capture: class-level wrappers (installed from outside, removed afterwards) that log what the
optimizers do between two driver steps - vectors entering conv2pos, positions handed to the constraints,
tracked (new/current/best) pairs of the optimizer and of every population member, valid lists."""
import contextlib
import math

import numpy as np

from . import common as C


class Log:
    def __init__(self):
        self.conv2pos = []          # (input vector (list of float), output position, step index)
        self.constraint = []        # (position as list, verdict, step index)
        self.step = 0               # advanced by the driver-level recorder (one per init_pos / iterate)
        self.nan_in_conv2pos = 0
        self.move_part = []         # (pos, velo, out)
        self.spiral = []            # (new_pos floats, out)


@contextlib.contextmanager
def capture(log):
    from gradient_free_optimizers.optimizers.core_optimizer.core_optimizer import CoreOptimizer
    from gradient_free_optimizers.optimizers.core_optimizer.converter import Converter
    from gradient_free_optimizers.optimizers.pop_opt._particle import Particle
    import gradient_free_optimizers.optimizers.pop_opt._spiral as spiral_mod

    orig_conv2pos = CoreOptimizer.conv2pos
    orig_nic = Converter.not_in_constraint
    orig_mp = Particle._move_part
    orig_clip = spiral_mod.np

    def conv2pos(self, pos):
        vec = [float(x) for x in np.asarray(pos, dtype=float).ravel()]
        if any(math.isnan(x) for x in vec):
            log.nan_in_conv2pos += 1
        out = orig_conv2pos(self, pos)
        if len(log.conv2pos) < 200000:
            log.conv2pos.append((vec, [int(x) for x in np.asarray(out).ravel()], log.step, [int(m) for m in self.conv.max_positions], int(self.conv.search_space_size)))
        return out

    def not_in_constraint(self, position):
        r = orig_nic(self, position)
        arr = np.asarray(position)
        log.constraint.append(([x.item() if hasattr(x, "item") else x for x in arr.ravel()], bool(r), log.step, [int(m) for m in self.max_positions]))
        return r

    def move_part(self, pos, velo):
        out = orig_mp(self, pos, velo)
        if len(log.move_part) < 50000:
            log.move_part.append(([int(x) for x in np.asarray(pos).ravel()], [float(x) for x in np.asarray(velo, dtype=float).ravel()],
                                  [int(x) for x in np.asarray(out).ravel()], [int(m) for m in self.conv.max_positions]))
        return out

    CoreOptimizer.conv2pos = conv2pos
    Converter.not_in_constraint = not_in_constraint
    Particle._move_part = move_part
    try:
        yield log
    finally:
        CoreOptimizer.conv2pos = orig_conv2pos
        Converter.not_in_constraint = orig_nic
        Particle._move_part = orig_mp


def sextuple(o):
    def pos(p):
        return None if p is None else [x.item() if hasattr(x, "item") else x for x in np.asarray(p).ravel()]
    return dict(pos_new=pos(o.pos_new), score_new=o.score_new, pos_current=pos(o.pos_current), score_current=o.score_current,
                pos_best=pos(o.pos_best), score_best=o.score_best)


def members(opt):
    """the optimizer itself and every sub-optimizer that tracks positions (population members, nested helpers)"""
    out = [("self", opt)]
    seen = {id(opt)}
    for attr in ("optimizers", "particles", "individuals", "systems"):
        for k, m in enumerate(getattr(opt, attr, []) or []):
            if id(m) not in seen and hasattr(m, "pos_new_list"):
                seen.add(id(m))
                out.append((f"{attr}[{k}]", m))
    for attr in ("grid_search_opt", "hill_climb"):
        m = getattr(opt, attr, None)
        if m is not None and id(m) not in seen and hasattr(m, "pos_new_list"):
            seen.add(id(m))
            out.append((attr, m))
    return out
