"""Python -> Lean translator for the two wrappers every objective call goes through: `Memory.memory.wrapper` and `Memory.__init__`
(_memory.py), `ResultsManager.score._wrapper` and `_obj_func_results` (_results_manager.py), and the wiring of the two in
`Search.init_search` / `finish_search` (search.py).  Statement-level: the conversions are calls of the converter model, the
dictionary operations are `Dict.get?` / `Dict.set` / `Dict.update`, `{**results_dict, **para}` is `rowOf` (second operand wins).
Anything else raises `Untranslatable`."""
import ast

from .pytolean import Untranslatable


def _u(n):
    return ast.unparse(n)


def fn_memory_wrapper(mem_fn):
    if len(mem_fn.body) != 2 or not isinstance(mem_fn.body[0], ast.FunctionDef) or _u(mem_fn.body[1]) != "return wrapper":
        raise Untranslatable("Memory.memory: not `def wrapper …; return wrapper`")
    w = mem_fn.body[0]
    if [a.arg for a in w.args.args] != ["para"]:
        raise Untranslatable("Memory.memory.wrapper: parameters")
    out = []
    conv = {"value = self.conv.para2value(para)": "  let value ← para2value sp.names para",
            "position = self.conv.value2position(value)": "  let position ← value2position sp.dims value",
            "pos_tuple = tuple(position)": "  let pos_tuple : Pos := position.map Int.ofNat"}
    body = list(w.body)
    for st in body[:-1]:
        s = _u(st)
        if s not in conv:
            raise Untranslatable(f"Memory.memory.wrapper: `{s}`")
        out.append(conv[s])
    if [_u(x) for x in body[:-1]] != list(conv):
        raise Untranslatable("Memory.memory.wrapper: conversion order")
    br = body[-1]
    if not isinstance(br, ast.If) or _u(br.test) != "pos_tuple in self.memory_dict" \
            or [_u(x) for x in br.body] != ["return self.memory_dict[pos_tuple]"]:
        raise Untranslatable("Memory.memory.wrapper: lookup branch " + _u(br))
    miss = [_u(x) for x in br.orelse]
    want = ["score = objective_function(para)", "self.memory_dict[pos_tuple] = score", "self.memory_dict_new[pos_tuple] = score", "return score"]
    if miss != want:
        raise Untranslatable(f"Memory.memory.wrapper: miss branch {miss}")
    out += ["  match Dict.get? memory_dict pos_tuple with",
            "  | some stored => pure (stored, memory_dict)            -- `return self.memory_dict[pos_tuple]`",
            "  | none =>",
            "    let score := objective_function para",
            "    let memory_dict := Dict.set memory_dict pos_tuple score      -- (`memory_dict_new` is bookkeeping the model does not carry)",
            "    pure (score, memory_dict)"]
    return ("/-- `Memory.memory(objective_function)`: the wrapper, threading `self.memory_dict` -/\n"
            "def memory_wrapper (sp : Space) (objective_function : Para → Res) (memory_dict : Dict Res) (para : Para) :\n"
            "    Except Err (Res × Dict Res) := do\n" + "\n".join(out))


def fn_memory_init(init):
    body = init.body
    heads = [_u(x) for x in body[:3]]
    if heads != ["self.memory_dict = {}", "self.memory_dict_new = {}", "self.conv = conv"]:
        raise Untranslatable(f"Memory.__init__: {heads}")
    rest = body[3:]
    if len(rest) != 5:
        raise Untranslatable("Memory.__init__: shape")
    if _u(rest[0]) != "if isinstance(memory, DictProxy):\n    self.memory_dict = memory":
        raise Untranslatable("Memory.__init__: " + _u(rest[0]))
    if _u(rest[1]) != "if warm_start is None:\n    return":
        raise Untranslatable("Memory.__init__: " + _u(rest[1]))
    t2 = rest[2]
    if not isinstance(t2, ast.If) or _u(t2.test) != "not isinstance(warm_start, pd.DataFrame)" or _u(t2.body[-1]) != "return":
        raise Untranslatable("Memory.__init__: " + _u(t2))
    t3 = rest[3]
    if not isinstance(t3, ast.If) or _u(t3.test) != "warm_start.empty" or _u(t3.body[-1]) != "return":
        raise Untranslatable("Memory.__init__: " + _u(t3))
    if _u(rest[4]) != "self.memory_dict.update(self.conv.dataframe2memory_dict(warm_start))":
        raise Untranslatable("Memory.__init__: " + _u(rest[4]))
    return ("/-- `Memory.__init__`: `shared` = the manager dictionary when `memory` is a DictProxy; `warm` = the rows of a DataFrame\n"
            "    `memory_warm_start` (a non-DataFrame value is ignored with a warning - not modelled) -/\n"
            "def memory_init (sp : Space) (shared : Option (Dict Res)) (warm : Option (List (Value × Res))) : Except Err (Dict Res) :=\n"
            "  let memory_dict : Dict Res := []\n"
            "  let memory_dict := match shared with\n    | some m => m\n    | none => memory_dict\n"
            "  match warm with\n"
            "  | none => pure memory_dict                               -- `if warm_start is None: return`\n"
            "  | some rows =>\n"
            "    if rows.isEmpty then pure memory_dict                  -- `if warm_start.empty: return`\n"
            "    else do\n"
            "      let d ← dataframe2memoryDict sp.dims rows\n"
            "      pure (Dict.update memory_dict d)")


def fn_score_wrapper(ofr, score_fn, init_search, finish_search):
    want = ["results = objective_function(para)",
            "if isinstance(results, tuple):\n    score = results[0]\n    results_dict = results[1]\nelse:\n    score = results\n    results_dict = {}",
            "results_dict['score'] = score", "return results_dict"]
    if [_u(x) for x in ofr.body] != want:
        raise Untranslatable("_obj_func_results: " + " | ".join(_u(x) for x in ofr.body))
    if len(score_fn.body) != 2 or not isinstance(score_fn.body[0], ast.FunctionDef) or _u(score_fn.body[1]) != "return _wrapper":
        raise Untranslatable("ResultsManager.score: shape")
    w = score_fn.body[0]
    got = [_u(x) for x in w.body]
    want_w = ["value = self.conv.position2value(pos)", "para = self.conv.value2para(value)",
              "results_dict = self._obj_func_results(objective_function, para)", None, "return results_dict['score']"]
    if len(got) != 5 or any(a != b for a, b in zip(got, want_w) if b is not None):
        raise Untranslatable(f"ResultsManager.score._wrapper: {got}")
    ap = got[3]
    if ap == "self.results_list.append({**results_dict, **para})":
        row = "rowOf results para"
    else:
        raise Untranslatable("ResultsManager.score._wrapper: " + ap)
    # the wiring in init_search
    wiring = [x for x in init_search.body if isinstance(x, ast.If) and "self.score" in _u(x)]
    want_wire = ("if self.memory not in [False, None]:\n    self.score = self.results_mang.score(self.mem.memory(self.objective_function))\n"
                 "else:\n    self.score = self.results_mang.score(self.objective_function)")
    if len(wiring) != 1 or _u(wiring[0]) != want_wire:
        raise Untranslatable("init_search: the score wiring changed")
    if "self.mem = Memory(self.memory_warm_start, self.conv, memory=self.memory)" not in [_u(x) for x in init_search.body]:
        raise Untranslatable("init_search: Memory construction changed")
    fin = [x for x in finish_search.body if isinstance(x, ast.If) and "memory_dict" in _u(x)]
    if len(fin) != 1 or _u(fin[0]) != "if self.memory not in [False, None]:\n    self.memory_dict = self.mem.memory_dict\nelse:\n    self.memory_dict = {}":
        raise Untranslatable("finish_search: memory_dict hand-over changed")
    return ("/-- `self.score(pos)` as wired in `init_search`: `ResultsManager.score` around `Memory.memory` (memory on) or around the bare\n"
            "    objective; threads `memory_dict` and `results_list` -/\n"
            "def search_score (sp : Space) (memory_on : Bool) (objective_function : Para → Res) (memory_dict : Dict Res) (results_list : List Row)\n"
            "    (pos : Pos) : Except Err (F × Dict Res × List Row) := do\n"
            "  let value ← position2value sp.dims pos\n"
            "  let para := value2para sp.names value\n"
            "  let (results, memory_dict) ← (if memory_on then memory_wrapper sp objective_function memory_dict para\n"
            "                                else pure (objective_function para, memory_dict))\n"
            f"  let results_list := results_list ++ [{row}]        -- `{{**results_dict, **para}}`\n"
            "  pure (results.score, memory_dict, results_list)\n\n"
            "/-- `finish_search`: the dictionary handed to the user -/\n"
            "def finish_memory_dict (memory_on : Bool) (memory_dict : Dict Res) : Dict Res := if memory_on then memory_dict else []")


def fn_finish_best(finish_search, conv_methods):
    """`finish_search`: the three `best_*` assignments; `position2value` / `value2para` pass `None` through (`returnNoneIfArgNone`)"""
    body = [_u(x) for x in finish_search.body]
    want = ["self.best_score = self.p_bar.score_best", "self.best_value = self.conv.position2value(self.p_bar.pos_best)",
            "self.best_para = self.conv.value2para(self.best_value)"]
    idx = [body.index(w) if w in body else -1 for w in want]
    if -1 in idx or idx != sorted(idx):
        raise Untranslatable(f"finish_search: best_* assignments {idx}")
    for name in ("position2value", "value2para"):
        if name not in conv_methods or [_u(d) for d in conv_methods[name].decorator_list] != ["returnNoneIfArgNone"]:
            raise Untranslatable(f"Converter.{name} is no longer under returnNoneIfArgNone")
    w = conv_methods["returnNoneIfArgNone"].body[0]
    if _u(w) != ("def wrapper(self, *args):\n    for arg in [*args]:\n        if arg is None:\n            return None\n"
                 "    else:\n        return func_(self, *args)"):
        raise Untranslatable("returnNoneIfArgNone changed: " + _u(w))
    return ("/-- `finish_search`: what is reported as best (`position2value` / `value2para` pass `None` through) -/\n"
            "def finish_best (sp : Space) (score_best : F) (pos_best : Option Pos) : Except Err (F × Option Value × Option Para) := do\n"
            "  let best_score := score_best\n"
            "  let best_value ← (match pos_best with\n"
            "    | none => pure none\n"
            "    | some p => do let v ← position2value sp.dims p; pure (some v))\n"
            "  let best_para := best_value.map (value2para sp.names)\n"
            "  pure (best_score, best_value, best_para)")
