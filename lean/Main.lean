/-
  Line-protocol driver: runs the executable definitions of GFO.Model on the inputs the Python harness
  recorded from the real code. Imports the (core-only) model, so it links as a native executable.
-/
import GFO.Model.Proto
import GFO.Model.Shared
import GFO.Model.Grid
import GFO.Model.Kernels
import GFO.Model.Init
import GFO.Model.Tracker
import GFO.Model.Smbo
import GFO.Model.Local
import GFO.Model.GridBackend
import GFO.Model.Population
import GFO.Model.Evolution
import GFO.Model.Pattern
import GFO.Model.Powell
import GFO.Model.Simplex
import GFO.Model.SmboBackend
import GFO.Model.Direct
open GFO GFO.Proto

/-- one recorded backend interaction of the real run -/
inductive Item where
  | pos (isInit : Bool) (p : Pos)
  | raise                                  -- the real backend method raised at this point
deriving Inhabited

/-- which complete population model is loaded -/
inductive PopCfg where
  | pt (c : PTCfg)
  | pso (c : LocalCfg)
  | spiral (c : LocalCfg)
  | es (c : ESCfg)
  | de (c : DECfg)
  | ga (c : GACfg)
deriving Inhabited

def liftPop (b : Backend PopSt) : Backend GASt where
  initPos g := (b.initPos g.pop).map (fun x => (x.1, { g with pop := x.2 }))
  evalInit g x := (b.evalInit g.pop x).map (fun s => { g with pop := s })
  finishInit g := (b.finishInit g.pop).map (fun s => { g with pop := s })
  iterate g := (b.iterate g.pop).map (fun x => (x.1, { g with pop := x.2 }))
  evaluate g x := (b.evaluate g.pop x).map (fun s => { g with pop := s })

def popBackend : PopCfg → Backend GASt
  | .pt c => liftPop (ptBackend c)
  | .pso c => liftPop (psoBackend c)
  | .spiral c => liftPop (spiralBackend c)
  | .es c => liftPop (esBackend c)
  | .de c => liftPop (deBackend c)
  | .ga c => gaBackend c

/-- scripted backend: replays the positions the real optimizer emitted, insisting on the same call kinds -/
structure Script where
  queue : List Item := []
  loc : Option (LocalCfg × Local) := none       -- when present: the COMPLETE backend model (GFO.Model.Local) is driven instead
  grid : Option (GridCfg × GridSt) := none      -- when present: the complete grid search model (GFO.Model.GridBackend)
  pt : Option (PopCfg × GASt) := none           -- when present: a complete population model (GFO.Model.Population / Evolution)
  pat : Option (PatCfg × PatSt) := none         -- when present: the complete pattern search model (GFO.Model.Pattern)
  pow : Option (PowCfg × PowSt) := none         -- when present: the complete Powell's method model (GFO.Model.Powell)
  sim : Option (SimCfg × SimSt) := none         -- when present: the complete downhill simplex model (GFO.Model.Simplex)
  smb : Option (SmboCfg × SmboSt) := none       -- when present: the complete surrogate-model optimizer (GFO.Model.SmboBackend)
  dir : Option (DirCfg × DirSt) := none         -- when present: the complete DIRECT model (GFO.Model.Direct)
deriving Inhabited

def Script.raisesNow (s : Script) : Bool := match s.queue with
  | .raise :: _ => true
  | _ => false

def backendRaised : Err := .other "backend-raised"

def scriptedOnly : Backend Script where
  initPos s := match s.queue with
    | .raise :: _ => .error backendRaised
    | .pos true p :: q => .ok (p, { s with queue := q })
    | .pos false _ :: _ => .error (.other "model-called-init_pos-real-called-iterate")
    | [] => .error .needMore
  iterate s := match s.queue with
    | .raise :: _ => .error backendRaised
    | .pos false p :: q => .ok (p, { s with queue := q })
    | .pos true _ :: _ => .error (.other "model-called-iterate-real-called-init_pos")
    | [] => .error .needMore
  evalInit s _ := if s.raisesNow then .error backendRaised else .ok s
  evaluate s _ := if s.raisesNow then .error backendRaised else .ok s
  finishInit s := if s.raisesNow then .error backendRaised else .ok s

def liftLocal {α : Type} (s : Script) (cfg : LocalCfg) (r : Except Err (α × Local)) : Except Err (α × Script) :=
  r.map (fun x => (x.1, { s with loc := some (cfg, x.2) }))

def liftGrid {α : Type} (s : Script) (cfg : GridCfg) (r : Except Err (α × GridSt)) : Except Err (α × Script) :=
  r.map (fun x => (x.1, { s with grid := some (cfg, x.2) }))

/-- the backend the driver model is run with: a complete model when one is loaded, the scripted replay otherwise -/
def scripted : Backend Script where
  initPos s := match s.loc, s.grid with
    | some (cfg, l), _ => liftLocal s cfg ((localBackend cfg).initPos l)
    | none, some (cfg, g) => liftGrid s cfg ((gridBackend cfg).initPos g)
    | none, none => scriptedOnly.initPos s
  iterate s := match s.loc, s.grid with
    | some (cfg, l), _ => liftLocal s cfg ((localBackend cfg).iterate l)
    | none, some (cfg, g) => liftGrid s cfg ((gridBackend cfg).iterate g)
    | none, none => scriptedOnly.iterate s
  evalInit s x := match s.loc, s.grid with
    | some (cfg, l), _ => ((localBackend cfg).evalInit l x).map (fun l' => { s with loc := some (cfg, l') })
    | none, some (cfg, g) => ((gridBackend cfg).evalInit g x).map (fun g' => { s with grid := some (cfg, g') })
    | none, none => scriptedOnly.evalInit s x
  evaluate s x := match s.loc, s.grid with
    | some (cfg, l), _ => ((localBackend cfg).evaluate l x).map (fun l' => { s with loc := some (cfg, l') })
    | none, some (cfg, g) => ((gridBackend cfg).evaluate g x).map (fun g' => { s with grid := some (cfg, g') })
    | none, none => scriptedOnly.evaluate s x
  finishInit s := match s.loc, s.grid with
    | some (cfg, l), _ => ((localBackend cfg).finishInit l).map (fun l' => { s with loc := some (cfg, l') })
    | none, some (cfg, g) => ((gridBackend cfg).finishInit g).map (fun g' => { s with grid := some (cfg, g') })
    | none, none => scriptedOnly.finishInit s

/-- … and the complete population model when that is the one loaded -/
def backendPop : Backend Script where
  initPos s := match s.pt with
    | some (cfg, g) => ((popBackend cfg).initPos g).map (fun x => (x.1, { s with pt := some (cfg, x.2) }))
    | none => scripted.initPos s
  iterate s := match s.pt with
    | some (cfg, g) => ((popBackend cfg).iterate g).map (fun x => (x.1, { s with pt := some (cfg, x.2) }))
    | none => scripted.iterate s
  evalInit s x := match s.pt with
    | some (cfg, g) => ((popBackend cfg).evalInit g x).map (fun g' => { s with pt := some (cfg, g') })
    | none => scripted.evalInit s x
  evaluate s x := match s.pt with
    | some (cfg, g) => ((popBackend cfg).evaluate g x).map (fun g' => { s with pt := some (cfg, g') })
    | none => scripted.evaluate s x
  finishInit s := match s.pt with
    | some (cfg, g) => ((popBackend cfg).finishInit g).map (fun g' => { s with pt := some (cfg, g') })
    | none => scripted.finishInit s

/-- … and the complete pattern search model -/
def backendPat : Backend Script where
  initPos s := match s.pat with
    | some (cfg, g) => ((patBackend cfg).initPos g).map (fun x => (x.1, { s with pat := some (cfg, x.2) }))
    | none => backendPop.initPos s
  iterate s := match s.pat with
    | some (cfg, g) => ((patBackend cfg).iterate g).map (fun x => (x.1, { s with pat := some (cfg, x.2) }))
    | none => backendPop.iterate s
  evalInit s x := match s.pat with
    | some (cfg, g) => ((patBackend cfg).evalInit g x).map (fun g' => { s with pat := some (cfg, g') })
    | none => backendPop.evalInit s x
  evaluate s x := match s.pat with
    | some (cfg, g) => ((patBackend cfg).evaluate g x).map (fun g' => { s with pat := some (cfg, g') })
    | none => backendPop.evaluate s x
  finishInit s := match s.pat with
    | some (cfg, g) => ((patBackend cfg).finishInit g).map (fun g' => { s with pat := some (cfg, g') })
    | none => backendPop.finishInit s

/-- … and the complete Powell's method model -/
def backendPow : Backend Script where
  initPos s := match s.pow with
    | some (cfg, g) => ((powBackend cfg).initPos g).map (fun x => (x.1, { s with pow := some (cfg, x.2) }))
    | none => backendPat.initPos s
  iterate s := match s.pow with
    | some (cfg, g) => ((powBackend cfg).iterate g).map (fun x => (x.1, { s with pow := some (cfg, x.2) }))
    | none => backendPat.iterate s
  evalInit s x := match s.pow with
    | some (cfg, g) => ((powBackend cfg).evalInit g x).map (fun g' => { s with pow := some (cfg, g') })
    | none => backendPat.evalInit s x
  evaluate s x := match s.pow with
    | some (cfg, g) => ((powBackend cfg).evaluate g x).map (fun g' => { s with pow := some (cfg, g') })
    | none => backendPat.evaluate s x
  finishInit s := match s.pow with
    | some (cfg, g) => ((powBackend cfg).finishInit g).map (fun g' => { s with pow := some (cfg, g') })
    | none => backendPat.finishInit s

/-- … and the complete downhill simplex model -/
def backendSim : Backend Script where
  initPos s := match s.sim with
    | some (cfg, g) => ((simBackend cfg).initPos g).map (fun x => (x.1, { s with sim := some (cfg, x.2) }))
    | none => backendPow.initPos s
  iterate s := match s.sim with
    | some (cfg, g) => ((simBackend cfg).iterate g).map (fun x => (x.1, { s with sim := some (cfg, x.2) }))
    | none => backendPow.iterate s
  evalInit s x := match s.sim with
    | some (cfg, g) => ((simBackend cfg).evalInit g x).map (fun g' => { s with sim := some (cfg, g') })
    | none => backendPow.evalInit s x
  evaluate s x := match s.sim with
    | some (cfg, g) => ((simBackend cfg).evaluate g x).map (fun g' => { s with sim := some (cfg, g') })
    | none => backendPow.evaluate s x
  finishInit s := match s.sim with
    | some (cfg, g) => ((simBackend cfg).finishInit g).map (fun g' => { s with sim := some (cfg, g') })
    | none => backendPow.finishInit s

/-- … and the complete surrogate-model optimizer -/
def backendSmb : Backend Script where
  initPos s := match s.smb with
    | some (cfg, g) => ((smboBackend cfg).initPos g).map (fun x => (x.1, { s with smb := some (cfg, x.2) }))
    | none => backendSim.initPos s
  iterate s := match s.smb with
    | some (cfg, g) => ((smboBackend cfg).iterate g).map (fun x => (x.1, { s with smb := some (cfg, x.2) }))
    | none => backendSim.iterate s
  evalInit s x := match s.smb with
    | some (cfg, g) => ((smboBackend cfg).evalInit g x).map (fun g' => { s with smb := some (cfg, g') })
    | none => backendSim.evalInit s x
  evaluate s x := match s.smb with
    | some (cfg, g) => ((smboBackend cfg).evaluate g x).map (fun g' => { s with smb := some (cfg, g') })
    | none => backendSim.evaluate s x
  finishInit s := match s.smb with
    | some (cfg, g) => ((smboBackend cfg).finishInit g).map (fun g' => { s with smb := some (cfg, g') })
    | none => backendSim.finishInit s

/-- … and the complete DIRECT model -/
def backendOf : Backend Script where
  initPos s := match s.dir with
    | some (cfg, g) => ((dirBackend cfg).initPos g).map (fun x => (x.1, { s with dir := some (cfg, x.2) }))
    | none => backendSmb.initPos s
  iterate s := match s.dir with
    | some (cfg, g) => ((dirBackend cfg).iterate g).map (fun x => (x.1, { s with dir := some (cfg, x.2) }))
    | none => backendSmb.iterate s
  evalInit s x := match s.dir with
    | some (cfg, g) => ((dirBackend cfg).evalInit g x).map (fun g' => { s with dir := some (cfg, g') })
    | none => backendSmb.evalInit s x
  evaluate s x := match s.dir with
    | some (cfg, g) => ((dirBackend cfg).evaluate g x).map (fun g' => { s with dir := some (cfg, g') })
    | none => backendSmb.evaluate s x
  finishInit s := match s.dir with
    | some (cfg, g) => ((dirBackend cfg).finishInit g).map (fun g' => { s with dir := some (cfg, g') })
    | none => backendSmb.finishInit s

def showTracker (t : Tracker) : String :=
  s!"new={showOpt showPos t.posNew}:{showF t.scoreNew} cur={showOpt showPos t.posCurrent}:{showF t.scoreCurrent} " ++
  s!"best={showOpt showPos t.posBest}:{showF t.scoreBest} valid={showList (fun e => showOpt showPos e.1 ++ ":" ++ showF e.2) (t.positionsValid.zip t.scoresValid)} " ++
  s!"nthTrial={t.nthTrial} nthInit={t.nthInit}"

structure M where
  sp : Space := { names := [], dims := [] }
  d : DState Script := { nInits := 0, bst := {} }
  call : Option (Call × Bool) := none          -- pending call, stepApi?
  warm : List (Value × F) := []
  steps : Array (Res × Rat) := #[]             -- objective oracle by global step index
  byCall : Array (Res × Rat) := #[]            -- objective oracle by objective-call index (if non-empty)
  sdict : Dict Res := []                       -- shared manager dict (C06)
  trk : List (Nat × Tracker) := []             -- trackers by id (C19 / C15)
  smbo : SmboState := {}                       -- X/Y/candidates of a model-based optimizer (C17)
  pending : Array Draw := #[]                  -- tape entries read since the last run (flushed into the loaded complete backend)

def M.obj (m : M) : Obj := fun callIdx stepIdx _ =>
  if m.byCall.size > 0 then m.byCall.getD callIdx ({ score := .nan, metrics := [("ORACLE", "exhausted")] }, 0)
  else m.steps.getD stepIdx ({ score := .nan, metrics := [("ORACLE", "exhausted")] }, 0)

def pSpace : P Space := do
  let nd ← pNat
  let ds ← pN nd (do let name ← tok; let vals ← pList pRat; pure (name, vals))
  pure { names := ds.map (·.1), dims := ds.map (·.2) }

def pEarly : P (Option Early) := do
  let present ← pBool
  let n ← pOpt pNat
  let ta ← pOpt pF
  let tr ← pOpt pF
  pure (if present then some { n := n, tolAbs := ta, tolRel := tr } else none)

def pMem : P MemMode := do
  let t ← tok
  if t = "off" then pure .off else if t = "fresh" then pure .fresh else if t = "shared" then pure .shared
  else throw s!"mem? {t}"

def showResult (d : DState Script) (r : CallResult) : String :=
  s!"result steps={r.steps} best={showF r.bestScore} bestpos={showOpt showPos r.bestPos} " ++
  s!"bestvalue={showOpt (showList showRat) r.bestValue} " ++
  s!"bestpara={showOpt (fun p => showList (fun e => e.1 ++ "=" ++ showRat e.2) p) r.bestPara} " ++
  s!"mem={showDict showRes r.memoryDict} since={showList toString r.bestSince} " ++
  s!"rows={d.rows.length} ninit={d.nInitTotal} niter={d.nIterTotal} ncalls={d.nCalls} " ++
  s!"nevalT={d.evalT.length} niterT={d.iterT.length} left={d.bst.queue.length}"

/-- append the buffered tape entries to the tape of the loaded complete backend -/
def flushTape (m : M) : M :=
  if m.pending.isEmpty then m else
  let es := m.pending.toList
  let b := m.d.bst
  let b' : Script :=
    match b.loc, b.grid, b.pt, b.pat with
    | some (cfg, l), _, _, _ => { b with loc := some (cfg, { l with tape := l.tape ++ es }) }
    | none, some (cfg, g), _, _ => { b with grid := some (cfg, { g with tape := g.tape ++ es }) }
    | none, none, some (cfg, g), _ => { b with pt := some (cfg, { g with pop := { g.pop with tape := g.pop.tape ++ es } }) }
    | none, none, none, some (cfg, g) => { b with pat := some (cfg, { g with tape := g.tape ++ es }) }
    | none, none, none, none =>
      match b.pow, b.sim with
      | some (cfg, g), _ => { b with pow := some (cfg, { g with tape := g.tape ++ es }) }
      | none, some (cfg, g) => { b with sim := some (cfg, { g with tape := g.tape ++ es }) }
      | none, none =>
        match b.smb, b.dir with
        | some (cfg, g), _ => { b with smb := some (cfg, { g with tape := g.tape ++ es }) }
        | none, some (cfg, g) => { b with dir := some (cfg, { g with tape := g.tape ++ es }) }
        | none, none => b
  { m with d := { m.d with bst := b' }, pending := #[] }

/-- run the pending call; output = one line per step of this call, then the result line -/
def runCall (m : M) : M × List String :=
  match m.call with
  | none => (m, ["err:no-call"])
  | some (c0, viaStepApi) =>
    let c : Call := { c0 with warm := if m.warm.isEmpty then c0.warm else some m.warm }
    let rows0 := m.d.rows.length
    let tr0 := m.d.trace.length
    let r := if viaStepApi then stepApi backendOf m.sp m.obj c m.d else searchCall backendOf m.sp m.obj c m.d
    match r with
    | .error e => ({ m with call := none, warm := [] }, ["err:" ++ e.toString])
    | .ok (d', res) =>
      let newRows := d'.rows.drop rows0
      let newEval := d'.evalT.drop rows0
      let newIter := d'.iterT.drop rows0
      let newPos := d'.posL.drop rows0
      let stepLines := (List.range newRows.length).map (fun k =>
        s!"step pos={showPos (newPos.getD k [])} row={showRow (newRows.getD k [])} " ++
        s!"evalT={showRat (newEval.getD k 0)} iterT={showRat (newIter.getD k 0)}")
      let traceLine := "trace " ++ " ".intercalate ((d'.trace.drop tr0).map showEv)
      ({ m with d := d', call := none, warm := [] }, stepLines ++ [traceLine, showResult d' res])

/-- one tape entry (`lt <kind> …`) -/
def pDraw (nd : Nat) : P Draw := do
  let k ← tok
  match k with
  | "u" => do let x ← pRat; pure (Draw.unif x)
  | "c" => do let p ← pN nd pInt; let e ← pRat; pure (Draw.climb p e)
  | "d" => do let p ← pN nd pInt; let v ← pN nd pF; pure (Draw.dist p v)
  | "r" => do let p ← pN nd pInt; pure (Draw.rnd p)
  | "f" => do let p ← pN nd pInt; let b ← pBool; pure (Draw.feas p b)
  | "a" => do let pa ← pF; let r ← pRat; pure (Draw.accept pa r)
  | "p" => do let p ← pN nd pInt; let v ← pN nd pF; pure (Draw.part p v)
  | "s" => do let v ← pN nd pF; pure (Draw.spiral v)
  | "o" => do let l ← pList pNat; pure (Draw.sorted l)
  | "i" => do let k ← pNat; pure (Draw.int k)
  | "n" => do let x ← pRat; pure (Draw.npunif x)
  | "h" => do let l ← pList pNat; pure (Draw.choice l)
  | "m" => do let v ← pN nd pF; pure (Draw.mutant v)
  | "g" => do let l ← pList pNat; pure (Draw.parents l)
  | "I" => do let l ← pList (pN nd pInt); pure (Draw.inits l)
  | "v" => do let v ← pList pF; pure (Draw.vec v)
  | k => throw s!"draw? {k}"

def showNatLists (l : List (List Nat)) : String := showList (showList toString) l

def exec (m : M) (cmd : String) : P (M × List String) := do
  match cmd with
  | "mark" => pure (m, ["----"])
  | "space" => do
    let sp ← pSpace
    pure ({ m with sp := sp }, ["ok"])
  -- ---------------- function level: _stop_run.py
  | "nochange" => do
    let flv ← pFlv; let n ← pOpt pNat; let ta ← pOpt pF; let tr ← pOpt pF; let sc ← pList pF
    pure (m, [showExcept showBool (noChange flv sc { n := n, tolAbs := ta, tolRel := tr })])
  | "scoreexc" => do
    let sb ← pF; let ms ← pOpt pF
    pure (m, [showBool (scoreExceeded sb ms)])
  | "timeexc" => do
    let now ← pRat; let start ← pRat; let mt ← pOpt pF
    pure (m, [showBool (timeExceeded now start mt)])
  | "stopcheck" => do
    let flv ← pFlv; let now ← pRat; let start ← pRat; let mt ← pOpt pF; let ms ← pOpt pF; let es ← pEarly
    let sb ← pF; let sc ← pList pF
    pure (m, [showExcept showBool (stopCheck flv { startTime := start, maxTime := mt, maxScore := ms, early := es } now sb sc)])
  -- ---------------- function level: converter.py (current space)
  | "p2v" => do
    let p ← pList pInt
    pure (m, [showExcept (showList showRat) (position2value m.sp.dims p)])
  | "v2p" => do
    let v ← pList pRat
    pure (m, [showExcept (showList toString) (value2position m.sp.dims v)])
  | "vs2ps" => do
    let vs ← pList (pList pRat)
    pure (m, [showExcept showNatLists (values2positions m.sp.dims vs)])
  | "ps2vs" => do
    let ps ← pList (pList pInt)
    pure (m, [showExcept (showList (showList showRat)) (positions2values m.sp.dims ps)])
  | "v2para2v" => do
    let v ← pList pRat
    pure (m, [showExcept (showList showRat) (para2value m.sp.names (value2para m.sp.names v))])
  | "df2md" => do
    let rows ← pList (do let v ← pN m.sp.dims.length pRat; let s ← pF; pure (v, s))
    pure (m, [showExcept (showDict showF) (dataframe2memoryDict m.sp.dims rows)])
  | "md2df" => do
    let ents ← pList (do let p ← pN m.sp.dims.length pInt; let s ← pF; pure (p, s))
    let d : Dict F := Dict.update [] ents
    pure (m, [showExcept (showList (fun e => showList showRat e.1 ++ ":" ++ showF e.2)) (memoryDict2dataframe m.sp.dims d)])
  | "md_roundtrip" => do
    let ents ← pList (do let p ← pN m.sp.dims.length pInt; let s ← pF; pure (p, s))
    let d : Dict F := Dict.update [] ents
    let r := do
      let df ← memoryDict2dataframe m.sp.dims d
      dataframe2memoryDict m.sp.dims df
    pure (m, [showExcept (showDict showF) r])
  | "rowof" => do
    let v ← pN m.sp.dims.length pRat; let r ← pRes
    pure (m, [showRow (rowOf r (value2para m.sp.names v))])
  -- ---------------- driver level
  | "dnew" => do
    let n ← pNat
    pure ({ m with d := { nInits := n, bst := {} }, call := none, warm := [], steps := #[], byCall := #[], pending := #[] }, ["ok"])
  | "dshared" => do
    let ents ← pList (do let p ← pN m.sp.dims.length pInt; let r ← pRes; pure (p, r))
    pure ({ m with d := { m.d with shared := Dict.update [] ents } }, ["ok"])
  | "dcall" => do
    let mode ← tok
    let nIter ← pNat; let mt ← pOpt pF; let ms ← pOpt pF; let es ← pEarly; let mem ← pMem
    let warmFlag ← tok    -- none | empty | rows
    let lvl1 ← pBool; let flv ← pFlv
    let c : Call := { nIter := nIter, maxTime := mt, maxScore := ms, early := es, memory := mem,
                      warm := if warmFlag = "none" then none else some [], lvl1 := lvl1, flv := flv }
    pure ({ m with call := some (c, mode = "stepapi"), warm := [] }, ["ok"])
  | "dwarm" => do
    let v ← pN m.sp.dims.length pRat; let s ← pF
    pure ({ m with warm := m.warm ++ [(v, s)] }, ["ok"])
  | "dstep" => do
    let kind ← tok
    let p ← pN m.sp.dims.length pInt
    let dur ← pRat
    let r ← pRes
    let q := m.d.bst.queue ++ [Item.pos (decide (kind = "I")) p]
    pure ({ m with d := { m.d with bst := { m.d.bst with queue := q } }, steps := m.steps.push (r, dur) }, ["ok"])
  | "draise" =>
    pure ({ m with d := { m.d with bst := { m.d.bst with queue := m.d.bst.queue ++ [Item.raise] } } }, ["ok"])
  | "dobj" => do
    let dur ← pRat; let r ← pRes
    pure ({ m with byCall := m.byCall.push (r, dur) }, ["ok"])
  -- ---------------- complete backends (GFO.Model.Local)
  | "lnew" => do
    let nInits ← pNat
    let kindTok ← tok
    let extra ← pRat
    let nNb ← pNat
    let rrp ← pRat
    let initL ← pList (pN m.sp.dims.length pInt)
    let kind : LocalKind ← match kindTok with
      | "hc" => pure LocalKind.hillClimbing
      | "stochastic" => pure LocalKind.stochastic
      | "repulsing" => pure (LocalKind.repulsing extra)
      | "restart" => pure (LocalKind.restart extra.num.toNat)
      | "random" => pure LocalKind.randomSearch
      | "annealing" => pure LocalKind.randomAnnealing
      | k => throw s!"kind? {k}"
    let cfg : LocalCfg := { kind := kind, nNeighbours := nNb, randRestP := rrp, geo := m.sp.geo }
    pure ({ m with d := { nInits := nInits, bst := { loc := some (cfg, { initL := initL }) } }, call := none, warm := [], steps := #[], byCall := #[], pending := #[] }, ["ok"])
  | "lt" => do
    let e ← pDraw m.sp.dims.length
    pure ({ m with pending := m.pending.push e }, [])
  | "gnew" => do
    let nInits ← pNat
    let dirTok ← tok
    let step ← pNat
    let dirStart ← pNat
    let initL ← pList (pN m.sp.dims.length pInt)
    let dir : GridDir ← match dirTok with
      | "diagonal" => pure GridDir.diagonal
      | "orthogonal" => pure GridDir.orthogonal
      | k => throw s!"direction? {k}"
    let cfg : GridCfg := { dir := dir, stepSize := step, dims := m.sp.sizes, dirStart := dirStart, geo := m.sp.geo }
    pure ({ m with d := { nInits := nInits, bst := { grid := some (cfg, { initL := initL }) } }, call := none, warm := [], steps := #[], byCall := #[], pending := #[] }, ["ok"])
  | "gstate" =>
    match m.d.bst.grid with
    | some (_, g) =>
      pure (m, [s!"outer {showTracker g.tr}", s!"inner {showTracker g.inner}",
                s!"grid ptr={g.ptr} direction={showOpt toString g.dirCalc} tapeLeft={g.tape.length}"])
    | none => pure (m, ["err:no-grid-backend"])
  | "pnew" => do
    let kind ← tok
    let nInits ← pNat
    let nNb ← pNat
    let rrp ← pRat
    let nSwap ← pNat                 -- pt: n_iter_swap; ga: offspring
    let mrate ← pRat                 -- es / ga: mutation_rate
    let eps ← pRat                   -- de / ga: the literal 0.3 of `_constraint_loop`
    let nPar ← pNat                  -- ga: n_parents
    let inits ← pList (pList (pN m.sp.dims.length pInt))
    let members : List Local := inits.map (fun l => { initL := l })
    let hc : LocalCfg := { kind := .hillClimbing, nNeighbours := nNb, randRestP := rrp, geo := m.sp.geo }
    let cfg : PopCfg ← match kind with
      | "pt" => pure (PopCfg.pt { member := { hc with kind := .stochastic }, nIterSwap := nSwap })
      | "pso" => pure (PopCfg.pso hc)
      | "spiral" => pure (PopCfg.spiral hc)
      | "es" => pure (PopCfg.es { member := hc, mutationRate := mrate })
      | "de" => pure (PopCfg.de { member := hc, epsMod := eps })
      | "ga" => pure (PopCfg.ga { member := hc, mutationRate := mrate, nOffspring := nSwap, epsMod := eps, nParents := nPar })
      | k => throw s!"population kind? {k}"
    pure ({ m with d := { nInits := nInits, bst := { pt := some (cfg, { pop := { members := members } }) } }, call := none, warm := [], steps := #[], byCall := #[], pending := #[] }, ["ok"])
  | "pstate" =>
    match m.d.bst.pt with
    | some (_, g) =>
      pure (m, [s!"outer {showTracker g.pop.tr}"] ++ g.pop.members.map (fun mb => s!"member {showTracker mb.tr}") ++
                [s!"pop cur={g.pop.cur} tapeLeft={g.pop.tape.length} offspring={showList showPos g.offspring}"])
    | none => pure (m, ["err:no-population-backend"])
  | "tnew" => do
    let nInits ← pNat
    let nPos ← pNat
    let rrp ← pRat
    let initL ← pList (pN m.sp.dims.length pInt)
    let cfg : PatCfg := { nPositions := nPos, randRestP := rrp, nDims := m.sp.dims.length, geo := m.sp.geo }
    pure ({ m with d := { nInits := nInits, bst := { pat := some (cfg, { initL := initL }) } }, call := none, warm := [], steps := #[], byCall := #[], pending := #[] }, ["ok"])
  | "tstate" =>
    match m.d.bst.pat with
    | some (_, g) =>
      pure (m, [s!"tracker {showTracker g.tr}", s!"pattern {showList showPos g.pattern} iter={showBool g.iterState} tapeLeft={g.tape.length}"])
    | none => pure (m, ["err:no-pattern-backend"])
  | "wnew" => do
    let nInits ← pNat
    let ipd ← pNat
    let nNb ← pNat
    let rrp ← pRat
    let initL ← pList (pN m.sp.dims.length pInt)
    let cfg : PowCfg := { itersPDim := ipd, nNeighbours := nNb, randRestP := rrp, sizes := m.sp.sizes, geo := m.sp.geo }
    pure ({ m with d := { nInits := nInits, bst := { pow := some (cfg, { initL := initL }) } }, call := none, warm := [], steps := #[], byCall := #[], pending := #[] }, ["ok"])
  | "wstate" =>
    match m.d.bst.pow with
    | some (_, g) =>
      pure (m, [s!"tracker {showTracker g.tr}",
                s!"powell nthIter={g.nthIter} curDimIter={g.nthIterCurDim} dim={g.curDim} pos={showPos g.powellsPos} tapeLeft={g.tape.length}",
                match g.hc with
                | some h => s!"inner {showTracker h.tr}"
                | none => "inner None"])
    | none => pure (m, ["err:no-powell-backend"])
  | "snew" => do
    let nInits ← pNat
    let initL ← pList (pN m.sp.dims.length pInt)
    let cfg : SimCfg := { nSimp := m.sp.dims.length + 1, geo := m.sp.geo }
    pure ({ m with d := { nInits := nInits, bst := { sim := some (cfg, { initL := initL }) } }, call := none, warm := [], steps := #[], byCall := #[], pending := #[] }, ["ok"])
  | "sstate" =>
    match m.d.bst.sim with
    | some (_, g) =>
      pure (m, [s!"tracker {showTracker g.tr}",
                s!"simplex step={g.step} idx={g.compressIdx} pos={showList (showOpt showPos) g.simplexPos} scores={showList showF g.simplexScores} tapeLeft={g.tape.length}"])
    | none => pure (m, ["err:no-simplex-backend"])
  | "bnew" => do
    let nInits ← pNat
    let repl ← pBool
    let forest ← pBool
    let lip ← pBool
    let initL ← pList (pN m.sp.dims.length pInt)
    let warm ← pList (do let p ← pN m.sp.dims.length pInt; let y ← pF; pure (p, y))
    let cfg : SmboCfg := { replacement := repl, trainsOnEmpty := forest, lipschitz := lip, geo := m.sp.geo }
    let sm : SmboState := { X := warm.map (·.1), Y := warm.map (·.2) }
    pure ({ m with d := { nInits := nInits, bst := { smb := some (cfg, { initL := initL, sm := sm }) } }, call := none, warm := [], steps := #[], byCall := #[], pending := #[] }, ["ok"])
  | "bstate" =>
    match m.d.bst.smb with
    | some (_, g) =>
      pure (m, [s!"tracker {showTracker g.tr}",
                s!"smbo X={showList showPos g.sm.X} Y={showList showF g.sm.Y} ncands={g.sm.cands.length} tapeLeft={g.tape.length}"])
    | none => pure (m, ["err:no-smbo-backend"])
  | "cnew" => do
    let nInits ← pNat
    let eps ← pRat
    let initL ← pList (pN m.sp.dims.length pInt)
    let cfg : DirCfg := { sizes := m.sp.sizes, epsMod := eps, geo := m.sp.geo }
    pure ({ m with d := { nInits := nInits, bst := { dir := some (cfg, { initL := initL }) } }, call := none, warm := [], steps := #[], byCall := #[], pending := #[] }, ["ok"])
  | "cstate" =>
    match m.d.bst.dir with
    | some (_, g) =>
      pure (m, [s!"tracker {showTracker g.tr}",
                s!"direct nX={g.X.length} Y={showList showF g.Y} subs={showList (fun (sb : Sub) => showList toString (sb.dims.map List.length) ++ "@" ++ showPos sb.center ++ ":" ++ showOpt showF sb.score ++ ":" ++ (if sb.score.isSome then showF sb.bound else "-")) g.subs} tapeLeft={g.tape.length}"])
    | none => pure (m, ["err:no-direct-backend"])
  | "lstep" => do
    let dur ← pRat; let r ← pRes
    pure ({ m with steps := m.steps.push (r, dur) }, [])
  | "lstate" =>
    match m.d.bst.loc with
    | some (_, l) =>
      let t := l.tr
      pure (m, [s!"tracker new={showOpt showPos t.posNew}:{showF t.scoreNew} cur={showOpt showPos t.posCurrent}:{showF t.scoreCurrent} " ++
                s!"best={showOpt showPos t.posBest}:{showF t.scoreBest} valid={showList (fun e => showOpt showPos e.1 ++ ":" ++ showF e.2) (t.positionsValid.zip t.scoresValid)} " ++
                s!"nthTrial={t.nthTrial} nthInit={t.nthInit} epsMod={showRat l.epsMod} tapeLeft={l.tape.length}"])
    | none => pure (m, ["err:no-local-backend"])
  | "drun" => pure (runCall (flushTape m))
  -- ---------------- kernels (GFO.Model.Kernels)
  | "conv2pos" => do
    let ms ← pList pInt; let size ← pNat; let v ← pList pF; let rnd ← pList pInt
    pure (m, [showPos (conv2pos v ms size rnd)])
  | "movepart" => do
    let ms ← pList pInt; let p ← pList pInt; let v ← pList pF
    pure (m, [showPos (movePart p v ms)])
  | "spiralclip" => do
    let ms ← pList pInt; let v ← pList pF
    pure (m, [showPos (spiralClip v ms)])
  | "initgrid" => do
    let dim ← pNat; let p ← pNat
    pure (m, [showList toString (initGridDim dim p)])
  | "maxidx" => do
    let l ← pList pF
    pure (m, [toString (Tracker.maxListIdx l)])
  -- ---------------- SMBO bookkeeping (GFO.Model.Smbo)
  | "xreset" => do
    let cands ← pList (pList pInt)
    pure ({ m with smbo := { cands := cands } }, ["ok"])
  | "xwarm" => do
    let ps ← pList (do let p ← pList pInt; let s ← pF; pure (p, s))
    pure ({ m with smbo := { m.smbo with X := ps.map (·.1), Y := ps.map (·.2) } }, ["ok"])
  | "xpos" => do
    let p ← pList pInt
    pure ({ m with smbo := m.smbo.trackX p }, ["ok"])
  | "xremove" => do
    let p ← pList pInt
    pure ({ m with smbo := m.smbo.removePos p }, ["ok"])
  | "xscore" => do
    let s ← pF
    let st := m.smbo.trackY s
    pure ({ m with smbo := st }, [s!"X={showList showPos st.X} Y={showList showF st.Y} ncands={st.cands.length}"])
  | "xsel" => do
    let acq ← pList pF
    let perm ← pList pNat
    pure (m, [s!"sorted={showBool (sortsAscending acq perm)} idx={showOpt toString (selectIdx perm)}"])
  | "xwarmfilter" => do
    let rows ← pList (do let v ← pN m.sp.dims.length pF; let s ← pF; pure (v, s))
    pure (m, [showList (fun r => showList showRat r.1 ++ ":" ++ showRat r.2) (warmFilter m.sp.dims rows)])
  -- ---------------- trackers (GFO.Model.Tracker)
  | "treset" => pure ({ m with trk := [] }, ["ok"])
  | "t" => do
    let id ← pNat
    let op ← tok
    let t0 : Tracker := match m.trk.find? (fun e => e.1 == id) with
      | some e => e.2
      | none => {}
    let t1 : Tracker ← (match op with
      | "pos" => do let p ← pList pInt; pure (t0.trackNewPos p)
      | "setpos" => do let p ← pList pInt; pure { t0 with posNew := some p }
      | "init" => do let s ← pF; pure (t0.evaluateInit s)
      | "plain" => do let s ← pF; pure (t0.plainEvaluate s)
      | "hc" => do let n ← pNat; let s ← pF; pure (t0.hcEvaluate n s)
      | "stoch" => do let n ← pNat; let s ← pF; let a ← pBool; pure (t0.stochasticEvaluate n s a)
      | "spiral" => do let s ← pF; pure (t0.spiralEvaluate s)
      | _ => throw s!"tracker op? {op}")
    let trk' := (m.trk.filter (fun e => e.1 != id)) ++ [(id, t1)]
    let so := showOpt showPos
    pure ({ m with trk := trk' }, [s!"new={so t1.posNew}:{showF t1.scoreNew} cur={so t1.posCurrent}:{showF t1.scoreCurrent} best={so t1.posBest}:{showF t1.scoreBest} valid={t1.scoresValid.length} trial={t1.nthTrial}"])
  -- ---------------- initial positions (GFO.Model.Init)
  | "setpos" => do
    let nd := m.sp.dims.length
    let rnd ← pOpt pNat; let grid ← pOpt pNat; let vtx ← pOpt pNat; let nwarm ← pOpt pNat
    let pPerDim ← pNat
    let extra ← pNat            -- population padding (add_n_random_init_pos), 0 = none
    let rnds ← pList (pN nd pInt)
    let vtxs ← pList (pN nd pInt)
    let table ← pList (do let p ← pN nd pInt; let b ← pBool; pure (p, b))
    let warms ← match nwarm with
      | none => pure none
      | some k => do
        let ws ← pN k (pList (do let name ← tok; let v ← pRat; pure (name, v)))
        pure (some ws)
    let feas : Pos → Bool := fun p => match table.find? (fun e => e.1 == p) with
      | some e => e.2
      | none => true
    let cfg : InitCfg := { random := rnd, grid := grid, vertices := vtx, warm := warms }
    let r := match setPos feas m.sp cfg pPerDim 100000 { rnd := rnds, vtx := vtxs } with
      | .error e => Except.error e
      | .ok (l, d1) =>
        if extra = 0 then .ok (l, d1) else addNRandom feas 100000 l extra d1
    pure (m, [match r with
      | .ok (l, d1) => showList showPos l ++ s!" left={d1.rnd.length},{d1.vtx.length}"
      | .error e => "err:" ++ e.toString])
  | "split" => do
    let pop ← pNat; let n ← pNat
    pure (m, [showList (showList toString) (splitDeal (List.range n) pop)])
  -- ---------------- grid search (GFO.Model.Grid)
  | "gdir" => do
    let S ← pNat; let start ← pNat
    pure (m, [toString (getDirection S start)])
  | "gdiag" => do
    let dims ← pList pNat; let s ← pNat; let d ← pNat; let n ← pNat
    pure (m, [showList (fun t => showList toString (diagPos dims s d t)) (List.range n)])
  | "gorth" => do
    let dims ← pList pNat; let s ← pNat; let n ← pNat
    pure (m, [showList (fun t => showList toString (orthPos dims s t)) (List.range n)])
  | "gdecode" => do
    let dims ← pList pNat; let p ← pNat
    pure (m, [showList toString (decodeDiag dims p) ++ " " ++ showList toString (decodeOrth dims p)])
  -- ---------------- shared manager dict (GFO.Model.Shared)
  | "sreset" => pure ({ m with sdict := [] }, ["ok"])
  | "sop" => do
    let kind ← tok
    let k ← pN m.sp.dims.length pInt
    let op : SOp ← (if kind = "c" then pure (SOp.contains 0 k) else if kind = "g" then pure (SOp.get 0 k)
      else do let r ← pRes; pure (SOp.set 0 k r))
    let (d', resp) := sExec m.sdict op
    let out := match resp with
      | .bool b => "bool:" ++ showBool b
      | .val v => "val:" ++ showRes v
      | .keyError => "keyerror"
      | .unit => "unit"
    pure ({ m with sdict := d' }, [out])
  | "sdict" => pure (m, [showDict showRes m.sdict])
  | "dstate" =>
    pure (m, [s!"state posL={showList showPos m.d.posL} scoreL={showList showF m.d.scoreL} shared={showDict showRes m.d.shared} clock={showRat m.d.clock}"])
  | c => throw s!"unknown command {c}"

def handle (m : M) (line : String) : M × List String :=
  let toks := (line.splitOn " ").filter (· ≠ "")
  match toks with
  | [] => (m, [])
  | cmd :: args =>
    match (exec m cmd).run args with
    | .ok ((m', out), rest) => if rest.isEmpty then (m', out) else (m', ["bad:trailing-tokens"])
    | .error e => (m, ["bad:" ++ e])

/-- the tape lines of a scenario are buffered in `pend` (threaded linearly: no copying) and handed to the state at the next
    other command -/
partial def loop (h : IO.FS.Stream) (out : IO.FS.Stream) (m : M) (pend : Array Draw) : IO Unit := do
  let line ← h.getLine
  if line.isEmpty then return ()
  let l := line.trimAscii.toString
  if l.startsWith "#" then loop h out m pend else
  if l.startsWith "lt " then
    let toks := (l.splitOn " ").filter (· ≠ "")
    match (pDraw m.sp.dims.length).run (toks.drop 1) with
    | .ok (e, rest) =>
      if rest.isEmpty then loop h out m (pend.push e)
      else do out.putStrLn "bad:trailing-tokens"; loop h out m pend
    | .error e => do out.putStrLn ("bad:" ++ e); loop h out m pend
  else
    let m1 : M := if pend.isEmpty then m else { m with pending := m.pending ++ pend }
    let (m', outs) := handle m1 l
    for o in outs do out.putStrLn o
    loop h out m' #[]

def main : IO Unit := do
  let stdin ← IO.getStdin
  let stdout ← IO.getStdout
  loop stdin stdout {} #[]
