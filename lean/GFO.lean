-- root of the GFO library: model (core Lean only), proofs, property theorems
import GFO.Model.Num
import GFO.Model.Space
import GFO.Model.Converter
import GFO.Model.Stop
import GFO.Model.Results
import GFO.Model.Driver
import GFO.Model.Proto
import GFO.Proofs.Driver
import GFO.Props.C03
