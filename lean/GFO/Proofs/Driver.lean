/-
  Helper lemmas about GFO.Model.Driver (frame conditions of the step functions).
-/
import GFO.Model.Driver
namespace GFO
variable {σ : Type}

/-- everything `scoreStep` leaves alone, and what it appends -/
structure ScoreFrame (d d' : DState σ) (cs cs' : CState) : Prop where
  rows : ∃ row, d'.rows = d.rows ++ [row]
  evalT : ∃ t, d'.evalT = d.evalT ++ [t]
  posL : d'.posL = d.posL
  scoreL : d'.scoreL = d.scoreL
  nInitTotal : d'.nInitTotal = d.nInitTotal
  nIterTotal : d'.nIterTotal = d.nIterTotal
  iterT : d'.iterT = d.iterT
  nInits : d'.nInits = d.nInits
  bst : d'.bst = d.bst
  trace : d'.trace = d.trace
  shared : d'.shared = d.shared
  pbar : cs'.pbar = cs.pbar
  stop : cs'.stop = cs.stop
  nInitSearch : cs'.nInitSearch = cs.nInitSearch
  nIterSearch : cs'.nIterSearch = cs.nIterSearch
  nInitsNorm : cs'.nInitsNorm = cs.nInitsNorm

theorem scoreStep_frame {sp : Space} {obj : Obj} {c : Call} {d : DState σ} {cs : CState} {pos : Pos}
    {s : F} {d' : DState σ} {cs' : CState}
    (h : scoreStep sp obj c d cs pos = .ok (s, d', cs')) : ScoreFrame d d' cs cs' := by
  unfold scoreStep at h
  simp only [bind, Except.bind, pure, Except.pure] at h
  split at h
  · simp at h
  · split at h
    · simp only [Except.ok.injEq, Prod.mk.injEq] at h
      obtain ⟨_, hd, hcs⟩ := h
      subst hd; subst hcs
      constructor <;> simp
    · split at h
      · simp at h
      · split at h
        · simp at h
        · split at h
          · simp only [Except.ok.injEq, Prod.mk.injEq] at h
            obtain ⟨_, hd, hcs⟩ := h
            subst hd; subst hcs
            constructor <;> simp
          · simp only [Except.ok.injEq, Prod.mk.injEq] at h
            obtain ⟨_, hd, hcs⟩ := h
            subst hd; subst hcs
            constructor <;> simp
end GFO

namespace GFO
variable {σ : Type}

/-- what one `_initialization` does to the bookkeeping -/
structure InitFrame (d d' : DState σ) (cs cs' : CState) : Prop where
  rows : ∃ row, d'.rows = d.rows ++ [row]
  evalT : ∃ t, d'.evalT = d.evalT ++ [t]
  iterT : ∃ t, d'.iterT = d.iterT ++ [t]
  posL : ∃ p, d'.posL = d.posL ++ [p]
  scoreL : ∃ s, d'.scoreL = d.scoreL ++ [s]
  nInitTotal : d'.nInitTotal = d.nInitTotal + 1
  nIterTotal : d'.nIterTotal = d.nIterTotal
  nInits : d'.nInits = d.nInits
  shared : d'.shared = d.shared
  stop : cs'.stop = cs.stop
  nInitSearch : cs'.nInitSearch = cs.nInitSearch + 1
  nIterSearch : cs'.nIterSearch = cs.nIterSearch
  nInitsNorm : cs'.nInitsNorm = cs.nInitsNorm

/-- what one `_iteration` does to the bookkeeping -/
structure IterFrame (d d' : DState σ) (cs cs' : CState) : Prop where
  rows : ∃ row, d'.rows = d.rows ++ [row]
  evalT : ∃ t, d'.evalT = d.evalT ++ [t]
  iterT : ∃ t, d'.iterT = d.iterT ++ [t]
  posL : ∃ p, d'.posL = d.posL ++ [p]
  scoreL : ∃ s, d'.scoreL = d.scoreL ++ [s]
  nInitTotal : d'.nInitTotal = d.nInitTotal
  nIterTotal : d'.nIterTotal = d.nIterTotal + 1
  nInits : d'.nInits = d.nInits
  shared : d'.shared = d.shared
  stop : cs'.stop = cs.stop
  nInitSearch : cs'.nInitSearch = cs.nInitSearch
  nIterSearch : cs'.nIterSearch = cs.nIterSearch + 1
  nInitsNorm : cs'.nInitsNorm = cs.nInitsNorm

theorem initialization_frame {b : Backend σ} {sp : Space} {obj : Obj} {c : Call} {i : Nat}
    {d d' : DState σ} {cs cs' : CState}
    (h : initialization b sp obj c i d cs = .ok (d', cs')) : InitFrame d d' cs cs' := by
  unfold initialization at h
  simp only [bind, Except.bind, pure, Except.pure] at h
  split at h
  · simp at h
  · rename_i x hx
    obtain ⟨pos, bst1⟩ := x
    simp only at h
    split at h
    · simp at h
    · rename_i y hy
      obtain ⟨score, d2, cs2⟩ := y
      have fr := scoreStep_frame hy
      simp only at h
      split at h
      · simp at h
      · simp only [Except.ok.injEq, Prod.mk.injEq] at h
        obtain ⟨hd, hcs⟩ := h
        subst hd; subst hcs
        obtain ⟨row, hrow⟩ := fr.rows
        obtain ⟨t, ht⟩ := fr.evalT
        constructor <;> simp [hrow, ht, fr.posL, fr.scoreL, fr.nInitTotal, fr.nIterTotal, fr.iterT, fr.nInits,
          fr.shared, fr.stop, fr.nInitSearch, fr.nIterSearch, fr.nInitsNorm]

theorem iteration_frame {b : Backend σ} {sp : Space} {obj : Obj} {c : Call} {i : Nat}
    {d d' : DState σ} {cs cs' : CState}
    (h : iteration b sp obj c i d cs = .ok (d', cs')) : IterFrame d d' cs cs' := by
  unfold iteration at h
  simp only [bind, Except.bind, pure, Except.pure] at h
  split at h
  · simp at h
  · rename_i x hx
    obtain ⟨pos, bst1⟩ := x
    simp only at h
    split at h
    · simp at h
    · rename_i y hy
      obtain ⟨score, d2, cs2⟩ := y
      have fr := scoreStep_frame hy
      simp only at h
      split at h
      · simp at h
      · simp only [Except.ok.injEq, Prod.mk.injEq] at h
        obtain ⟨hd, hcs⟩ := h
        subst hd; subst hcs
        obtain ⟨row, hrow⟩ := fr.rows
        obtain ⟨t, ht⟩ := fr.evalT
        constructor <;> simp [hrow, ht, fr.posL, fr.scoreL, fr.nInitTotal, fr.nIterTotal, fr.iterT, fr.nInits,
          fr.shared, fr.stop, fr.nInitSearch, fr.nIterSearch, fr.nInitsNorm]
end GFO

namespace GFO
variable {σ : Type}

/-- one `search_step(i)` driven in sequence: exactly one row, exactly one of the two phases -/
structure StepFrame (i : Nat) (d d' : DState σ) (cs cs' : CState) : Prop where
  rows : ∃ row, d'.rows = d.rows ++ [row]
  evalT : ∃ t, d'.evalT = d.evalT ++ [t]
  iterT : ∃ t, d'.iterT = d.iterT ++ [t]
  posL : ∃ p, d'.posL = d.posL ++ [p]
  scoreL : ∃ s, d'.scoreL = d.scoreL ++ [s]
  nInitTotal : d'.nInitTotal = d.nInitTotal + (if i < cs.nInitsNorm then 1 else 0)
  nIterTotal : d'.nIterTotal = d.nIterTotal + (if i < cs.nInitsNorm then 0 else 1)
  nInits : d'.nInits = d.nInits
  shared : d'.shared = d.shared
  stop : cs'.stop = cs.stop
  nInitSearch : cs'.nInitSearch = min (i + 1) cs.nInitsNorm
  nInitsNorm : cs'.nInitsNorm = cs.nInitsNorm

theorem searchStep_frame {b : Backend σ} {sp : Space} {obj : Obj} {c : Call} {i : Nat}
    {d d' : DState σ} {cs cs' : CState}
    (hinv : cs.nInitSearch = min i cs.nInitsNorm) (hi : i < c.nIter)
    (h : searchStep b sp obj c i d cs = .ok (d', cs')) : StepFrame i d d' cs cs' := by
  unfold searchStep at h
  simp only [bind, Except.bind, pure, Except.pure] at h
  by_cases hlt : i < cs.nInitsNorm
  · -- initialisation phase
    simp only [if_pos hlt] at h
    split at h
    · simp at h
    · rename_i x hx
      obtain ⟨d1, cs1⟩ := x
      have fr := initialization_frame hx
      have h1 : cs1.nInitSearch = i + 1 := by rw [fr.nInitSearch, hinv]; omega
      have hne : ¬ (i = cs1.nInitSearch) := by omega
      have hnle : ¬ (cs1.nInitSearch ≤ i ∧ i < c.nIter) := by omega
      simp only [if_neg hne, if_neg hnle, Except.ok.injEq, Prod.mk.injEq] at h
      obtain ⟨hd, hcs⟩ := h
      subst hd; subst hcs
      obtain ⟨row, hrow⟩ := fr.rows
      obtain ⟨t, ht⟩ := fr.evalT
      obtain ⟨t2, ht2⟩ := fr.iterT
      obtain ⟨p, hp⟩ := fr.posL
      obtain ⟨s, hs⟩ := fr.scoreL
      exact { rows := ⟨row, hrow⟩, evalT := ⟨t, ht⟩, iterT := ⟨t2, ht2⟩, posL := ⟨p, hp⟩, scoreL := ⟨s, hs⟩
              nInitTotal := by simp [fr.nInitTotal, hlt]
              nIterTotal := by simp [fr.nIterTotal, hlt]
              nInits := fr.nInits, shared := fr.shared, stop := fr.stop
              nInitSearch := by rw [h1]; omega
              nInitsNorm := fr.nInitsNorm }
  · -- iteration phase
    simp only [if_neg hlt] at h
    have h0 : cs.nInitSearch = cs.nInitsNorm := by rw [hinv]; omega
    have hle : cs.nInitSearch ≤ i ∧ i < c.nIter := by omega
    by_cases heq : i = cs.nInitSearch
    · simp only [if_pos heq] at h
      split at h
      · simp at h
      · rename_i bst hb
        simp only [if_pos hle] at h
        have fr := iteration_frame h
        obtain ⟨row, hrow⟩ := fr.rows
        obtain ⟨t, ht⟩ := fr.evalT
        obtain ⟨t2, ht2⟩ := fr.iterT
        obtain ⟨p, hp⟩ := fr.posL
        obtain ⟨s, hs⟩ := fr.scoreL
        exact { rows := ⟨row, by simpa using hrow⟩, evalT := ⟨t, by simpa using ht⟩, iterT := ⟨t2, by simpa using ht2⟩
                posL := ⟨p, by simpa using hp⟩, scoreL := ⟨s, by simpa using hs⟩
                nInitTotal := by simpa [hlt] using fr.nInitTotal
                nIterTotal := by simpa [hlt] using fr.nIterTotal
                nInits := by simpa using fr.nInits, shared := by simpa using fr.shared, stop := fr.stop
                nInitSearch := by rw [fr.nInitSearch, h0]; omega
                nInitsNorm := fr.nInitsNorm }
    · simp only [if_neg heq, if_pos hle] at h
      have fr := iteration_frame h
      obtain ⟨row, hrow⟩ := fr.rows
      obtain ⟨t, ht⟩ := fr.evalT
      obtain ⟨t2, ht2⟩ := fr.iterT
      obtain ⟨p, hp⟩ := fr.posL
      obtain ⟨s, hs⟩ := fr.scoreL
      exact { rows := ⟨row, hrow⟩, evalT := ⟨t, ht⟩, iterT := ⟨t2, ht2⟩, posL := ⟨p, hp⟩, scoreL := ⟨s, hs⟩
              nInitTotal := by simpa [hlt] using fr.nInitTotal
              nIterTotal := by simpa [hlt] using fr.nIterTotal
              nInits := fr.nInits, shared := fr.shared, stop := fr.stop
              nInitSearch := by rw [fr.nInitSearch, h0]; omega
              nInitsNorm := fr.nInitsNorm }
end GFO

namespace GFO
variable {σ : Type}

/-- bookkeeping after `k - i` consecutive steps `i, i+1, …, k-1` of one call -/
structure LoopFrame (i k : Nat) (d d' : DState σ) (cs cs' : CState) : Prop where
  rows : d'.rows.length = d.rows.length + (k - i)
  rowsPrefix : ∃ new, d'.rows = d.rows ++ new
  evalT : d'.evalT.length = d.evalT.length + (k - i)
  iterT : d'.iterT.length = d.iterT.length + (k - i)
  posL : d'.posL.length = d.posL.length + (k - i)
  scoreL : d'.scoreL.length = d.scoreL.length + (k - i)
  nInitTotal : d'.nInitTotal = d.nInitTotal + (min k cs.nInitsNorm - min i cs.nInitsNorm)
  nIterTotal : d'.nIterTotal = d.nIterTotal + ((k - i) - (min k cs.nInitsNorm - min i cs.nInitsNorm))
  nInits : d'.nInits = d.nInits
  shared : d'.shared = d.shared
  stop : cs'.stop = cs.stop
  nInitSearch : cs'.nInitSearch = min k cs.nInitsNorm
  nInitsNorm : cs'.nInitsNorm = cs.nInitsNorm

theorem LoopFrame.refl (i : Nat) (d : DState σ) (cs : CState) (hinv : cs.nInitSearch = min i cs.nInitsNorm) :
    LoopFrame i i d d cs cs :=
  { rows := by simp, rowsPrefix := ⟨[], by simp⟩, evalT := by simp, iterT := by simp, posL := by simp, scoreL := by simp
    nInitTotal := by simp, nIterTotal := by simp, nInits := rfl, shared := rfl, stop := rfl
    nInitSearch := hinv, nInitsNorm := rfl }

theorem LoopFrame.step {i k : Nat} {d d1 d' : DState σ} {cs cs1 cs' : CState}
    (hs : StepFrame i d d1 cs cs1) (hl : LoopFrame (i + 1) k d1 d' cs1 cs') (hik : i + 1 ≤ k) :
    LoopFrame i k d d' cs cs' := by
  obtain ⟨row, hrow⟩ := hs.rows
  obtain ⟨t, ht⟩ := hs.evalT
  obtain ⟨t2, ht2⟩ := hs.iterT
  obtain ⟨p, hp⟩ := hs.posL
  obtain ⟨s, hsc⟩ := hs.scoreL
  obtain ⟨new, hnew⟩ := hl.rowsPrefix
  have hn := hs.nInitsNorm
  refine { rows := ?_, rowsPrefix := ⟨[row] ++ new, by rw [hnew, hrow]; simp⟩, evalT := ?_, iterT := ?_, posL := ?_, scoreL := ?_
           nInitTotal := ?_, nIterTotal := ?_, nInits := by rw [hl.nInits, hs.nInits], shared := by rw [hl.shared, hs.shared]
           stop := by rw [hl.stop, hs.stop], nInitSearch := by rw [hl.nInitSearch, hn], nInitsNorm := by rw [hl.nInitsNorm, hn] }
  · rw [hl.rows, hrow]; simp; omega
  · rw [hl.evalT, ht]; simp; omega
  · rw [hl.iterT, ht2]; simp; omega
  · rw [hl.posL, hp]; simp; omega
  · rw [hl.scoreL, hsc]; simp; omega
  · rw [hl.nInitTotal, hs.nInitTotal, hn]; split <;> omega
  · rw [hl.nIterTotal, hs.nIterTotal, hn]; split <;> omega

theorem searchLoop_frame {b : Backend σ} {sp : Space} {obj : Obj} {c : Call} :
    ∀ (fuel i : Nat) (d : DState σ) (cs : CState) (d' : DState σ) (cs' : CState) (k : Nat),
    cs.nInitSearch = min i cs.nInitsNorm → i + fuel ≤ c.nIter →
    searchLoop b sp obj c fuel i d cs = .ok (d', cs', k) →
    i ≤ k ∧ k ≤ i + fuel ∧ LoopFrame i k d d' cs cs' := by
  intro fuel
  induction fuel with
  | zero =>
    intro i d cs d' cs' k hinv _ h
    simp only [searchLoop, pure, Except.pure, Except.ok.injEq, Prod.mk.injEq] at h
    obtain ⟨hd, hcs, hk⟩ := h
    subst hd; subst hcs; subst hk
    exact ⟨Nat.le_refl _, Nat.le_refl _, LoopFrame.refl i d cs hinv⟩
  | succ fuel ih =>
    intro i d cs d' cs' k hinv hfuel h
    simp only [searchLoop, bind, Except.bind, pure, Except.pure] at h
    split at h
    · simp at h
    · rename_i x hx
      obtain ⟨d1, cs1⟩ := x
      have sf := searchStep_frame hinv (by omega) hx
      simp only at h
      split at h
      · simp at h
      · rename_i stop hstop
        have hinv1 : cs1.nInitSearch = min (i + 1) cs1.nInitsNorm := by rw [sf.nInitSearch, sf.nInitsNorm]
        split at h
        · simp only [Except.ok.injEq, Prod.mk.injEq] at h
          obtain ⟨hd, hcs, hk⟩ := h
          subst hd; subst hcs; subst hk
          exact ⟨by omega, by omega, LoopFrame.step sf (LoopFrame.refl (i + 1) d1 cs1 hinv1) (Nat.le_refl _)⟩
        · have := ih (i + 1) d1 cs1 d' cs' k hinv1 (by omega) h
          exact ⟨by omega, by omega, LoopFrame.step sf this.2.2 this.1⟩

/-- no stopping criterion set: `stop.check()` never fires -/
def NoCriterion (c : Call) : Prop := c.maxTime = none ∧ c.maxScore = none ∧ c.early = none

theorem checkStop_noCriterion {c : Call} {d : DState σ} {cs : CState}
    (hc : cs.stop.maxTime = none ∧ cs.stop.maxScore = none ∧ cs.stop.early = none) :
    checkStop c d cs = .ok false := by
  unfold checkStop stopCheck
  obtain ⟨h1, h2, h3⟩ := hc
  simp [h1, h2, h3, timeExceeded, scoreExceeded]

theorem searchLoop_noCriterion {b : Backend σ} {sp : Space} {obj : Obj} {c : Call} :
    ∀ (fuel i : Nat) (d : DState σ) (cs : CState) (d' : DState σ) (cs' : CState) (k : Nat),
    cs.nInitSearch = min i cs.nInitsNorm → i + fuel ≤ c.nIter →
    (cs.stop.maxTime = none ∧ cs.stop.maxScore = none ∧ cs.stop.early = none) →
    searchLoop b sp obj c fuel i d cs = .ok (d', cs', k) → k = i + fuel := by
  intro fuel
  induction fuel with
  | zero =>
    intro i d cs d' cs' k _ _ _ h
    simp only [searchLoop, pure, Except.pure, Except.ok.injEq, Prod.mk.injEq] at h
    omega
  | succ fuel ih =>
    intro i d cs d' cs' k hinv hfuel hc h
    simp only [searchLoop, bind, Except.bind, pure, Except.pure] at h
    split at h
    · simp at h
    · rename_i x hx
      obtain ⟨d1, cs1⟩ := x
      have sf := searchStep_frame hinv (by omega) hx
      have hc1 : cs1.stop.maxTime = none ∧ cs1.stop.maxScore = none ∧ cs1.stop.early = none := by
        rw [sf.stop]; exact hc
      simp only [checkStop_noCriterion hc1] at h
      have hinv1 : cs1.nInitSearch = min (i + 1) cs1.nInitsNorm := by rw [sf.nInitSearch, sf.nInitsNorm]
      have := ih (i + 1) d1 cs1 d' cs' k hinv1 (by omega) hc1 (by simpa using h)
      omega
end GFO

namespace GFO
variable {σ : Type}

theorem initSearch_ok {sp : Space} {c : Call} {d : DState σ} {cs : CState} (h : initSearch sp c d = .ok cs) :
    cs.nInitSearch = 0 ∧ cs.nIterSearch = 0 ∧ cs.nInitsNorm = min (d.nInits - d.nInitTotal) c.nIter ∧
    cs.stop.maxTime = c.maxTime ∧ cs.stop.maxScore = c.maxScore ∧ cs.stop.early = c.early ∧
    cs.stop.startTime = d.clock ∧ cs.pbar = {} ∧ cs.calls = [] ∧ cs.fresh = [] := by
  unfold initSearch at h
  simp only [bind, Except.bind, pure, Except.pure] at h
  split at h
  · simp at h
  · simp only [Except.ok.injEq] at h
    subst h
    simp

theorem finishSearch_ok {sp : Space} {c : Call} {d d' : DState σ} {cs : CState} {steps : Nat} {r : CallResult}
    (h : finishSearch sp c d cs steps = .ok (d', r)) :
    d'.rows = d.rows ∧ d'.posL = d.posL ∧ d'.scoreL = d.scoreL ∧ d'.evalT = d.evalT ∧ d'.iterT = d.iterT ∧
    d'.nInitTotal = d.nInitTotal ∧ d'.nIterTotal = d.nIterTotal ∧ d'.nInits = d.nInits ∧ d'.nCalls = d.nCalls ∧
    d'.clock = d.clock ∧ d'.bst = d.bst ∧ d'.trace = d.trace ∧
    r.steps = steps ∧ r.bestScore = cs.pbar.scoreBest ∧ r.bestPos = cs.pbar.posBest ∧
    r.memoryDict = (if c.memory = .off then [] else cs.mem) := by
  unfold finishSearch at h
  simp only [bind, Except.bind, pure, Except.pure] at h
  split at h
  · simp only [Except.ok.injEq, Prod.mk.injEq] at h
    obtain ⟨hd, hr⟩ := h
    subst hd; subst hr
    simp
  · split at h
    · simp at h
    · simp only [Except.ok.injEq, Prod.mk.injEq] at h
      obtain ⟨hd, hr⟩ := h
      subst hd; subst hr
      simp

/-- the invariant of the accounting: holds for a fresh optimizer and after every history of `search()` calls -/
structure DInv (d : DState σ) : Prop where
  counters : d.nInitTotal + d.nIterTotal = d.rows.length
  posL : d.posL.length = d.rows.length
  scoreL : d.scoreL.length = d.rows.length
  evalT : d.evalT.length = d.rows.length
  iterT : d.iterT.length = d.rows.length
  inits : d.nInitTotal = min d.nInits d.rows.length

/-- everything one `search()` call does to the accounting -/
structure CallFrame (c : Call) (d d' : DState σ) (r : CallResult) : Prop where
  stepsLe : r.steps ≤ c.nIter
  stepsExact : NoCriterion c → r.steps = c.nIter
  rows : d'.rows.length = d.rows.length + r.steps
  rowsPrefix : ∃ new, d'.rows = d.rows ++ new
  nInits : d'.nInits = d.nInits
  nInitTotal : d'.nInitTotal = d.nInitTotal + min r.steps (d.nInits - d.nInitTotal)
  inv : DInv d → DInv d'

theorem searchCall_frame {b : Backend σ} {sp : Space} {obj : Obj} {c : Call} {d d' : DState σ} {r : CallResult}
    (h : searchCall b sp obj c d = .ok (d', r)) : CallFrame c d d' r := by
  unfold searchCall at h
  simp only [bind, Except.bind] at h
  split at h
  · simp at h
  · rename_i cs hcs
    obtain ⟨h0, _, hnorm, hmt, hms, hes, _⟩ := initSearch_ok hcs
    split at h
    · simp at h
    · rename_i x hx
      obtain ⟨d1, cs1, steps⟩ := x
      simp only at h
      have hf := finishSearch_ok h
      obtain ⟨hrows, hposL, hscoreL, hevalT, hiterT, hnit, hnitr, hnin, _, _, _, _, hsteps, _⟩ := hf
      have hl := searchLoop_frame c.nIter 0 d cs d1 cs1 steps (by rw [h0]; omega) (by omega) hx
      obtain ⟨_, hk, lf⟩ := hl
      have hstepsLe : steps ≤ c.nIter := by omega
      have hinitT : d1.nInitTotal = d.nInitTotal + min steps (d.nInits - d.nInitTotal) := by
        rw [lf.nInitTotal, hnorm]; omega
      refine { stepsLe := by rw [hsteps]; exact hstepsLe, stepsExact := ?_, rows := ?_, rowsPrefix := ?_, nInits := ?_,
               nInitTotal := ?_, inv := ?_ }
      · intro hc
        rw [hsteps]
        have := searchLoop_noCriterion c.nIter 0 d cs d1 cs1 steps (by rw [h0]; omega) (by omega)
          (by rw [hmt, hms, hes]; exact hc) hx
        omega
      · rw [hrows, hsteps, lf.rows]; omega
      · rw [hrows]; exact lf.rowsPrefix
      · rw [hnin, lf.nInits]
      · rw [hnit, hsteps, hinitT]
      · intro inv
        have hr := lf.rows
        refine { counters := ?_, posL := ?_, scoreL := ?_, evalT := ?_, iterT := ?_, inits := ?_ }
        · rw [hnit, hnitr, hrows, lf.nInitTotal, lf.nIterTotal, hr]
          have := inv.counters
          have : min steps cs.nInitsNorm - min 0 cs.nInitsNorm ≤ steps - 0 := by omega
          omega
        · rw [hposL, hrows, lf.posL, hr, inv.posL]
        · rw [hscoreL, hrows, lf.scoreL, hr, inv.scoreL]
        · rw [hevalT, hrows, lf.evalT, hr, inv.evalT]
        · rw [hiterT, hrows, lf.iterT, hr, inv.iterT]
        · rw [hnit, hnin, hrows, hinitT, lf.nInits, hr]
          have := inv.inits
          omega
end GFO
