/-
  Helper lemmas about GFO.Model.Driver: exact characterisation of what one step, a run of steps and one
  `search()` call do to the driver state. Everything is parametric in the backend `b`.
-/
import GFO.Model.Driver
namespace GFO
variable {σ : Type}

theorem scoreStep_ok {sp : Space} {obj : Obj} {c : Call} {d : DState σ} {cs : CState} {pos : Pos}
    {s : F} {d' : DState σ} {cs' : CState}
    (h : scoreStep sp obj c d cs pos = .ok (s, d', cs')) :
    ∃ v e, position2value sp.dims pos = .ok v ∧ evalAt sp obj c d.nCalls d.rows.length cs.mem cs.calls v = .ok e ∧
      s = e.res.score ∧ (d', cs') = afterEval sp d cs v e := by
  unfold scoreStep at h
  simp only [bind, Except.bind, pure, Except.pure] at h
  split at h
  · simp at h
  · rename_i v hv
    split at h
    · simp at h
    · rename_i e he
      simp only [Except.ok.injEq, Prod.mk.injEq] at h
      obtain ⟨hs, hpair⟩ := h
      exact ⟨v, e, hv, he, hs.symm, hpair.symm⟩

/-- what one step (initialisation or iteration) did: the emitted position, its values, the evaluation outcome -/
structure StepFacts (sp : Space) (obj : Obj) (c : Call) (i : Nat) (d d' : DState σ) (cs cs' : CState)
    (p : Pos) (v : Value) (e : Eval) : Prop where
  hv : position2value sp.dims p = .ok v
  he : evalAt sp obj c d.nCalls d.rows.length cs.mem cs.calls v = .ok e
  rows : d'.rows = d.rows ++ [rowOf e.res (value2para sp.names v)]
  posL : d'.posL = d.posL ++ [p]
  scoreL : d'.scoreL = d.scoreL ++ [e.res.score]
  evalT : d'.evalT = d.evalT ++ [e.dur]
  iterT : d'.iterT = d.iterT ++ [d.clock + e.dur - d.clock]
  clock : d'.clock = d.clock + e.dur
  nCalls : d'.nCalls = d.nCalls + (if e.fresh then 1 else 0)
  nInits : d'.nInits = d.nInits
  shared : d'.shared = d.shared
  pbar : cs'.pbar = pbarUpdate c cs.pbar e.res.score p i
  mem : cs'.mem = e.mem
  calls : cs'.calls = e.calls
  fresh : cs'.fresh = cs.fresh ++ [e.fresh]
  stop : cs'.stop = cs.stop
  nInitsNorm : cs'.nInitsNorm = cs.nInitsNorm

theorem initialization_ok {b : Backend σ} {sp : Space} {obj : Obj} {c : Call} {i : Nat}
    {d d' : DState σ} {cs cs' : CState}
    (h : initialization b sp obj c i d cs = .ok (d', cs')) :
    ∃ p v e, StepFacts sp obj c i d d' cs cs' p v e ∧
      d'.nInitTotal = d.nInitTotal + 1 ∧ d'.nIterTotal = d.nIterTotal ∧
      cs'.nInitSearch = cs.nInitSearch + 1 ∧ cs'.nIterSearch = cs.nIterSearch ∧
      d'.trace = d.trace ++ [Ev.initPos p, Ev.evalInit e.res.score] ∧
      ∃ bst1, b.initPos d.bst = .ok (p, bst1) ∧ b.evalInit bst1 e.res.score = .ok d'.bst := by
  unfold initialization at h
  simp only [bind, Except.bind, pure, Except.pure] at h
  split at h
  · simp at h
  · rename_i x hx
    obtain ⟨pos, bst1⟩ := x
    simp only at h
    split at h
    · simp at h
    · rename_i y hy
      obtain ⟨score, d2, cs2⟩ := y
      obtain ⟨v, e, hv, he, hs, hpair⟩ := scoreStep_ok hy
      simp only [afterEval, Prod.mk.injEq] at hpair
      obtain ⟨hd2, hcs2⟩ := hpair
      simp only at h
      split at h
      · simp at h
      · rename_i bst3 hb3
        simp only [Except.ok.injEq, Prod.mk.injEq] at h
        obtain ⟨hd, hcs⟩ := h
        subst hd; subst hcs; subst hd2; subst hcs2; subst hs
        refine ⟨pos, v, e, ?_, by simp, by simp, by simp, by simp, by simp, bst1, hx, by simpa using hb3⟩
        exact { hv := hv, he := by simpa using he, rows := by simp, posL := by simp, scoreL := by simp, evalT := by simp
                iterT := by simp, clock := by simp, nCalls := by simp, nInits := by simp, shared := by simp
                pbar := by simp, mem := by simp, calls := by simp, fresh := by simp, stop := by simp, nInitsNorm := by simp }

theorem iteration_ok {b : Backend σ} {sp : Space} {obj : Obj} {c : Call} {i : Nat}
    {d d' : DState σ} {cs cs' : CState}
    (h : iteration b sp obj c i d cs = .ok (d', cs')) :
    ∃ p v e, StepFacts sp obj c i d d' cs cs' p v e ∧
      d'.nInitTotal = d.nInitTotal ∧ d'.nIterTotal = d.nIterTotal + 1 ∧
      cs'.nInitSearch = cs.nInitSearch ∧ cs'.nIterSearch = cs.nIterSearch + 1 ∧
      d'.trace = d.trace ++ [Ev.iterate p, Ev.evaluate e.res.score] ∧
      ∃ bst1, b.iterate d.bst = .ok (p, bst1) ∧ b.evaluate bst1 e.res.score = .ok d'.bst := by
  unfold iteration at h
  simp only [bind, Except.bind, pure, Except.pure] at h
  split at h
  · simp at h
  · rename_i x hx
    obtain ⟨pos, bst1⟩ := x
    simp only at h
    split at h
    · simp at h
    · rename_i y hy
      obtain ⟨score, d2, cs2⟩ := y
      obtain ⟨v, e, hv, he, hs, hpair⟩ := scoreStep_ok hy
      simp only [afterEval, Prod.mk.injEq] at hpair
      obtain ⟨hd2, hcs2⟩ := hpair
      simp only at h
      split at h
      · simp at h
      · rename_i bst3 hb3
        simp only [Except.ok.injEq, Prod.mk.injEq] at h
        obtain ⟨hd, hcs⟩ := h
        subst hd; subst hcs; subst hd2; subst hcs2; subst hs
        refine ⟨pos, v, e, ?_, by simp, by simp, by simp, by simp, by simp, bst1, hx, by simpa using hb3⟩
        exact { hv := hv, he := by simpa using he, rows := by simp, posL := by simp, scoreL := by simp, evalT := by simp
                iterT := by simp, clock := by simp, nCalls := by simp, nInits := by simp, shared := by simp
                pbar := by simp, mem := by simp, calls := by simp, fresh := by simp, stop := by simp, nInitsNorm := by simp }

/-- how the backend was driven during one step: `init_pos` then `evaluate_init` in an initialisation step;
    (possibly `finish_initialization`, then) `iterate` then `evaluate` in an iteration step -/
def BStep (b : Backend σ) (isInit : Prop) (s s' : σ) (p : Pos) (score : F) : Prop :=
  (isInit ∧ ∃ s1, b.initPos s = .ok (p, s1) ∧ b.evalInit s1 score = .ok s') ∨
  (¬ isInit ∧ ∃ s0 s1, (s0 = s ∨ b.finishInit s = .ok s0) ∧ b.iterate s0 = .ok (p, s1) ∧ b.evaluate s1 score = .ok s')

/-- one `search_step(i)` driven in sequence: exactly one evaluation, exactly one of the two phases -/
structure StepFrame (b : Backend σ) (sp : Space) (obj : Obj) (c : Call) (i : Nat) (d d' : DState σ) (cs cs' : CState) : Prop where
  facts : ∃ p v e, StepFacts sp obj c i d d' cs cs' p v e ∧
    (if i < cs.nInitsNorm then d'.trace = d.trace ++ [Ev.initPos p, Ev.evalInit e.res.score]
     else d'.trace = d.trace ++ [Ev.iterate p, Ev.evaluate e.res.score] ∨
          d'.trace = d.trace ++ [Ev.finishInit, Ev.iterate p, Ev.evaluate e.res.score]) ∧
    BStep b (i < cs.nInitsNorm) d.bst d'.bst p e.res.score
  nInitTotal : d'.nInitTotal = d.nInitTotal + (if i < cs.nInitsNorm then 1 else 0)
  nIterTotal : d'.nIterTotal = d.nIterTotal + (if i < cs.nInitsNorm then 0 else 1)
  nInitSearch : cs'.nInitSearch = min (i + 1) cs.nInitsNorm
  lt : i < c.nIter

theorem searchStep_frame {b : Backend σ} {sp : Space} {obj : Obj} {c : Call} {i : Nat}
    {d d' : DState σ} {cs cs' : CState}
    (hinv : cs.nInitSearch = min i cs.nInitsNorm) (hi : i < c.nIter)
    (h : searchStep b sp obj c i d cs = .ok (d', cs')) : StepFrame b sp obj c i d d' cs cs' := by
  unfold searchStep stepTail at h
  simp only [bind, Except.bind, pure, Except.pure] at h
  by_cases hlt : i < cs.nInitsNorm
  · -- initialisation phase
    simp only [if_pos hlt] at h
    split at h
    · simp at h
    · rename_i x hx
      obtain ⟨d1, cs1⟩ := x
      obtain ⟨p, v, e, sf, h1, h2, h3, _, htr, bst1, hb1, hb2⟩ := initialization_ok hx
      have h1' : cs1.nInitSearch = i + 1 := by rw [h3, hinv]; omega
      have hne : ¬ (i = cs1.nInitSearch) := by omega
      have hnle : ¬ (cs1.nInitSearch ≤ i ∧ i < c.nIter) := by omega
      simp only [if_neg hne, if_neg hnle, Except.ok.injEq, Prod.mk.injEq] at h
      obtain ⟨hd, hcs⟩ := h
      subst hd; subst hcs
      exact { facts := ⟨p, v, e, sf, by simp [hlt, htr], Or.inl ⟨hlt, bst1, hb1, hb2⟩⟩
              nInitTotal := by simp [h1, hlt], nIterTotal := by simp [h2, hlt]
              nInitSearch := by rw [h1']; omega, lt := hi }
  · -- iteration phase
    simp only [if_neg hlt] at h
    have h0 : cs.nInitSearch = cs.nInitsNorm := by rw [hinv]; omega
    have hle : cs.nInitSearch ≤ i ∧ i < c.nIter := by omega
    by_cases heq : i = cs.nInitSearch
    · simp only [if_pos heq] at h
      split at h
      · simp at h
      · rename_i bst hb
        simp only [if_pos hle] at h
        obtain ⟨p, v, e, sf, h1, h2, h3, _, htr, bst1, hb1, hb2⟩ := iteration_ok h
        exact { facts := ⟨p, v, e,
                  { hv := sf.hv, he := by simpa using sf.he, rows := by simpa using sf.rows, posL := by simpa using sf.posL
                    scoreL := by simpa using sf.scoreL, evalT := by simpa using sf.evalT, iterT := by simpa using sf.iterT
                    clock := by simpa using sf.clock, nCalls := by simpa using sf.nCalls, nInits := by simpa using sf.nInits
                    shared := by simpa using sf.shared, pbar := sf.pbar, mem := sf.mem, calls := sf.calls, fresh := sf.fresh
                    stop := sf.stop, nInitsNorm := sf.nInitsNorm },
                  by simp only [if_neg hlt]; right; simpa using htr,
                  Or.inr ⟨hlt, bst, bst1, Or.inr hb, by simpa using hb1, hb2⟩⟩
                nInitTotal := by simpa [hlt] using h1, nIterTotal := by simpa [hlt] using h2
                nInitSearch := by rw [h3, h0]; omega, lt := hi }
    · simp only [if_neg heq, if_pos hle] at h
      obtain ⟨p, v, e, sf, h1, h2, h3, _, htr, bst1, hb1, hb2⟩ := iteration_ok h
      exact { facts := ⟨p, v, e, sf, by simp only [if_neg hlt]; left; exact htr, Or.inr ⟨hlt, d.bst, bst1, Or.inl rfl, hb1, hb2⟩⟩
              nInitTotal := by simpa [hlt] using h1, nIterTotal := by simpa [hlt] using h2
              nInitSearch := by rw [h3, h0]; omega, lt := hi }

/-! ### runs of steps -/

/-- bookkeeping after the consecutive steps `i, i+1, …, k-1` of one call -/
structure LoopFrame (i k : Nat) (d d' : DState σ) (cs cs' : CState) : Prop where
  rows : d'.rows.length = d.rows.length + (k - i)
  rowsPrefix : ∃ new, d'.rows = d.rows ++ new
  evalT : d'.evalT.length = d.evalT.length + (k - i)
  iterT : d'.iterT.length = d.iterT.length + (k - i)
  posL : d'.posL.length = d.posL.length + (k - i)
  scoreL : d'.scoreL.length = d.scoreL.length + (k - i)
  nInitTotal : d'.nInitTotal = d.nInitTotal + (min k cs.nInitsNorm - min i cs.nInitsNorm)
  nIterTotal : d'.nIterTotal = d.nIterTotal + ((k - i) - (min k cs.nInitsNorm - min i cs.nInitsNorm))
  nInits : d'.nInits = d.nInits
  shared : d'.shared = d.shared
  stop : cs'.stop = cs.stop
  nInitSearch : cs'.nInitSearch = min k cs.nInitsNorm
  nInitsNorm : cs'.nInitsNorm = cs.nInitsNorm

theorem LoopFrame.refl (i : Nat) (d : DState σ) (cs : CState) (hinv : cs.nInitSearch = min i cs.nInitsNorm) :
    LoopFrame i i d d cs cs :=
  { rows := by simp, rowsPrefix := ⟨[], by simp⟩, evalT := by simp, iterT := by simp, posL := by simp, scoreL := by simp
    nInitTotal := by simp, nIterTotal := by simp, nInits := rfl, shared := rfl, stop := rfl
    nInitSearch := hinv, nInitsNorm := rfl }

theorem LoopFrame.step {b : Backend σ} {sp : Space} {obj : Obj} {c : Call} {i k : Nat} {d d1 d' : DState σ} {cs cs1 cs' : CState}
    (hs : StepFrame b sp obj c i d d1 cs cs1) (hl : LoopFrame (i + 1) k d1 d' cs1 cs') (hik : i + 1 ≤ k) :
    LoopFrame i k d d' cs cs' := by
  obtain ⟨p, v, e, sf, _⟩ := hs.facts
  obtain ⟨new, hnew⟩ := hl.rowsPrefix
  have hn := sf.nInitsNorm
  refine { rows := ?_, rowsPrefix := ⟨[rowOf e.res (value2para sp.names v)] ++ new, by rw [hnew, sf.rows]; simp⟩
           evalT := ?_, iterT := ?_, posL := ?_, scoreL := ?_
           nInitTotal := ?_, nIterTotal := ?_, nInits := by rw [hl.nInits, sf.nInits], shared := by rw [hl.shared, sf.shared]
           stop := by rw [hl.stop, sf.stop], nInitSearch := by rw [hl.nInitSearch, hn], nInitsNorm := by rw [hl.nInitsNorm, hn] }
  · rw [hl.rows, sf.rows]; simp; omega
  · rw [hl.evalT, sf.evalT]; simp; omega
  · rw [hl.iterT, sf.iterT]; simp; omega
  · rw [hl.posL, sf.posL]; simp; omega
  · rw [hl.scoreL, sf.scoreL]; simp; omega
  · rw [hl.nInitTotal, hs.nInitTotal, hn]; split <;> omega
  · rw [hl.nIterTotal, hs.nIterTotal, hn]; split <;> omega

theorem searchLoop_frame {b : Backend σ} {sp : Space} {obj : Obj} {c : Call} :
    ∀ (fuel i : Nat) (d : DState σ) (cs : CState) (d' : DState σ) (cs' : CState) (k : Nat),
    cs.nInitSearch = min i cs.nInitsNorm → i + fuel ≤ c.nIter →
    searchLoop b sp obj c fuel i d cs = .ok (d', cs', k) →
    i ≤ k ∧ k ≤ i + fuel ∧ LoopFrame i k d d' cs cs' := by
  intro fuel
  induction fuel with
  | zero =>
    intro i d cs d' cs' k hinv _ h
    simp only [searchLoop, pure, Except.pure, Except.ok.injEq, Prod.mk.injEq] at h
    obtain ⟨hd, hcs, hk⟩ := h
    subst hd; subst hcs; subst hk
    exact ⟨Nat.le_refl _, Nat.le_refl _, LoopFrame.refl i d cs hinv⟩
  | succ fuel ih =>
    intro i d cs d' cs' k hinv hfuel h
    simp only [searchLoop, bind, Except.bind, pure, Except.pure] at h
    split at h
    · simp at h
    · rename_i x hx
      obtain ⟨d1, cs1⟩ := x
      have sf := searchStep_frame hinv (by omega) hx
      obtain ⟨p, v, e, sfa, _⟩ := sf.facts
      simp only at h
      split at h
      · simp at h
      · rename_i stop hstop
        have hinv1 : cs1.nInitSearch = min (i + 1) cs1.nInitsNorm := by rw [sf.nInitSearch, sfa.nInitsNorm]
        split at h
        · simp only [Except.ok.injEq, Prod.mk.injEq] at h
          obtain ⟨hd, hcs, hk⟩ := h
          subst hd; subst hcs; subst hk
          exact ⟨by omega, by omega, LoopFrame.step sf (LoopFrame.refl (i + 1) d1 cs1 hinv1) (Nat.le_refl _)⟩
        · have := ih (i + 1) d1 cs1 d' cs' k hinv1 (by omega) h
          exact ⟨by omega, by omega, LoopFrame.step sf this.2.2 this.1⟩

/-- no stopping criterion set: `stop.check()` never fires -/
def NoCriterion (c : Call) : Prop := c.maxTime = none ∧ c.maxScore = none ∧ c.early = none

theorem checkStop_noCriterion {c : Call} {d : DState σ} {cs : CState}
    (hc : cs.stop.maxTime = none ∧ cs.stop.maxScore = none ∧ cs.stop.early = none) :
    checkStop c d cs = .ok false := by
  unfold checkStop stopCheck
  obtain ⟨h1, h2, h3⟩ := hc
  simp [h1, h2, h3, timeExceeded, scoreExceeded]

theorem searchLoop_noCriterion {b : Backend σ} {sp : Space} {obj : Obj} {c : Call} :
    ∀ (fuel i : Nat) (d : DState σ) (cs : CState) (d' : DState σ) (cs' : CState) (k : Nat),
    cs.nInitSearch = min i cs.nInitsNorm → i + fuel ≤ c.nIter →
    (cs.stop.maxTime = none ∧ cs.stop.maxScore = none ∧ cs.stop.early = none) →
    searchLoop b sp obj c fuel i d cs = .ok (d', cs', k) → k = i + fuel := by
  intro fuel
  induction fuel with
  | zero =>
    intro i d cs d' cs' k _ _ _ h
    simp only [searchLoop, pure, Except.pure, Except.ok.injEq, Prod.mk.injEq] at h
    omega
  | succ fuel ih =>
    intro i d cs d' cs' k hinv hfuel hc h
    simp only [searchLoop, bind, Except.bind, pure, Except.pure] at h
    split at h
    · simp at h
    · rename_i x hx
      obtain ⟨d1, cs1⟩ := x
      have sf := searchStep_frame hinv (by omega) hx
      obtain ⟨p, v, e, sfa, _⟩ := sf.facts
      have hc1 : cs1.stop.maxTime = none ∧ cs1.stop.maxScore = none ∧ cs1.stop.early = none := by
        rw [sfa.stop]; exact hc
      simp only [checkStop_noCriterion hc1] at h
      have hinv1 : cs1.nInitSearch = min (i + 1) cs1.nInitsNorm := by rw [sf.nInitSearch, sfa.nInitsNorm]
      have := ih (i + 1) d1 cs1 d' cs' k hinv1 (by omega) hc1 (by simpa using h)
      omega

/-! ### one `search()` call -/

theorem initSearch_ok {sp : Space} {c : Call} {d : DState σ} {cs : CState} (h : initSearch sp c d = .ok cs) :
    cs.nInitSearch = 0 ∧ cs.nIterSearch = 0 ∧ cs.nInitsNorm = min (d.nInits - d.nInitTotal) c.nIter ∧
    cs.stop.maxTime = c.maxTime ∧ cs.stop.maxScore = c.maxScore ∧ cs.stop.early = c.early ∧
    cs.stop.startTime = d.clock ∧ cs.pbar = {} ∧ cs.calls = [] ∧ cs.fresh = [] ∧
    initMemory sp c d.shared = .ok cs.mem := by
  unfold initSearch at h
  simp only [bind, Except.bind, pure, Except.pure] at h
  split at h
  · simp at h
  · rename_i m hm
    simp only [Except.ok.injEq] at h
    subst h
    simp [hm]

theorem finishSearch_ok {sp : Space} {c : Call} {d d' : DState σ} {cs : CState} {steps : Nat} {r : CallResult}
    (h : finishSearch sp c d cs steps = .ok (d', r)) :
    d'.rows = d.rows ∧ d'.posL = d.posL ∧ d'.scoreL = d.scoreL ∧ d'.evalT = d.evalT ∧ d'.iterT = d.iterT ∧
    d'.nInitTotal = d.nInitTotal ∧ d'.nIterTotal = d.nIterTotal ∧ d'.nInits = d.nInits ∧ d'.nCalls = d.nCalls ∧
    d'.clock = d.clock ∧ d'.bst = d.bst ∧ d'.trace = d.trace ∧
    r.steps = steps ∧ r.bestScore = cs.pbar.scoreBest ∧ r.bestPos = cs.pbar.posBest ∧
    r.memoryDict = (if c.memory = .off then [] else cs.mem) := by
  unfold finishSearch at h
  simp only [bind, Except.bind, pure, Except.pure] at h
  split at h
  · simp only [Except.ok.injEq, Prod.mk.injEq] at h
    obtain ⟨hd, hr⟩ := h
    subst hd; subst hr
    simp
  · split at h
    · simp at h
    · simp only [Except.ok.injEq, Prod.mk.injEq] at h
      obtain ⟨hd, hr⟩ := h
      subst hd; subst hr
      simp

/-- the invariant of the accounting: holds for a fresh optimizer and after every history of `search()` calls -/
structure DInv (d : DState σ) : Prop where
  counters : d.nInitTotal + d.nIterTotal = d.rows.length
  posL : d.posL.length = d.rows.length
  scoreL : d.scoreL.length = d.rows.length
  evalT : d.evalT.length = d.rows.length
  iterT : d.iterT.length = d.rows.length
  inits : d.nInitTotal = min d.nInits d.rows.length

/-- everything one `search()` call does to the accounting -/
structure CallFrame (c : Call) (d d' : DState σ) (r : CallResult) : Prop where
  stepsLe : r.steps ≤ c.nIter
  stepsExact : NoCriterion c → r.steps = c.nIter
  rows : d'.rows.length = d.rows.length + r.steps
  rowsPrefix : ∃ new, d'.rows = d.rows ++ new
  nInits : d'.nInits = d.nInits
  nInitTotal : d'.nInitTotal = d.nInitTotal + min r.steps (d.nInits - d.nInitTotal)
  inv : DInv d → DInv d'

/-- unfolding of `searchCall` into its three parts -/
theorem searchCall_parts {b : Backend σ} {sp : Space} {obj : Obj} {c : Call} {d d' : DState σ} {r : CallResult}
    (h : searchCall b sp obj c d = .ok (d', r)) :
    ∃ cs d1 cs1 steps, initSearch sp c d = .ok cs ∧ searchLoop b sp obj c c.nIter 0 d cs = .ok (d1, cs1, steps) ∧
      finishSearch sp c d1 cs1 steps = .ok (d', r) := by
  unfold searchCall at h
  simp only [bind, Except.bind] at h
  split at h
  · simp at h
  · rename_i cs hcs
    split at h
    · simp at h
    · rename_i x hx
      obtain ⟨d1, cs1, steps⟩ := x
      exact ⟨cs, d1, cs1, steps, hcs, hx, h⟩

theorem searchCall_frame {b : Backend σ} {sp : Space} {obj : Obj} {c : Call} {d d' : DState σ} {r : CallResult}
    (h : searchCall b sp obj c d = .ok (d', r)) : CallFrame c d d' r := by
  obtain ⟨cs, d1, cs1, steps, hcs, hx, hfin⟩ := searchCall_parts h
  obtain ⟨h0, _, hnorm, hmt, hms, hes, _⟩ := initSearch_ok hcs
  have hf := finishSearch_ok hfin
  obtain ⟨hrows, hposL, hscoreL, hevalT, hiterT, hnit, hnitr, hnin, _, _, _, _, hsteps, _⟩ := hf
  have hl := searchLoop_frame c.nIter 0 d cs d1 cs1 steps (by rw [h0]; omega) (by omega) hx
  obtain ⟨_, hk, lf⟩ := hl
  have hstepsLe : steps ≤ c.nIter := by omega
  have hinitT : d1.nInitTotal = d.nInitTotal + min steps (d.nInits - d.nInitTotal) := by
    rw [lf.nInitTotal, hnorm]; omega
  refine { stepsLe := by rw [hsteps]; exact hstepsLe, stepsExact := ?_, rows := ?_, rowsPrefix := ?_, nInits := ?_,
           nInitTotal := ?_, inv := ?_ }
  · intro hc
    rw [hsteps]
    have := searchLoop_noCriterion c.nIter 0 d cs d1 cs1 steps (by rw [h0]; omega) (by omega)
      (by rw [hmt, hms, hes]; exact hc) hx
    omega
  · rw [hrows, hsteps, lf.rows]; omega
  · rw [hrows]; exact lf.rowsPrefix
  · rw [hnin, lf.nInits]
  · rw [hnit, hsteps, hinitT]
  · intro inv
    have hr := lf.rows
    refine { counters := ?_, posL := ?_, scoreL := ?_, evalT := ?_, iterT := ?_, inits := ?_ }
    · rw [hnit, hnitr, hrows, lf.nInitTotal, lf.nIterTotal, hr]
      have := inv.counters
      have : min steps cs.nInitsNorm - min 0 cs.nInitsNorm ≤ steps - 0 := by omega
      omega
    · rw [hposL, hrows, lf.posL, hr, inv.posL]
    · rw [hscoreL, hrows, lf.scoreL, hr, inv.scoreL]
    · rw [hevalT, hrows, lf.evalT, hr, inv.evalT]
    · rw [hiterT, hrows, lf.iterT, hr, inv.iterT]
    · rw [hnit, hnin, hrows, hinitT, lf.nInits, hr]
      have := inv.inits
      omega

end GFO
