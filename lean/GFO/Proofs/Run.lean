/-
  Runs of the search loop as an inductive relation: every intermediate `stop.check()` was false.
  `searchLoop` produces a `Run`; the trajectory lemma turns a `Run` into the lists of positions, values and
  evaluation outcomes it appended. The stop-step theorems of C12/C13/C14, C04, C05 are list reasoning on that.
-/
import GFO.Proofs.Driver
namespace GFO
variable {σ : Type}

/-- steps `i … k-1` were executed, and after each of them except possibly the last the stop check was false -/
inductive Run (b : Backend σ) (sp : Space) (obj : Obj) (c : Call) : Nat → Nat → DState σ → DState σ → CState → CState → Prop
  | last {i d d1 cs cs1} : StepFrame b sp obj c i d d1 cs cs1 → Run b sp obj c i (i + 1) d d1 cs cs1
  | cons {i k d d1 d' cs cs1 cs'} : StepFrame b sp obj c i d d1 cs cs1 → checkStop c d1 cs1 = .ok false →
      Run b sp obj c (i + 1) k d1 d' cs1 cs' → Run b sp obj c i k d d' cs cs'

theorem Run.lt {b : Backend σ} {sp : Space} {obj : Obj} {c : Call} {i k : Nat} {d d' : DState σ} {cs cs' : CState}
    (r : Run b sp obj c i k d d' cs cs') : i < k := by
  induction r with
  | last _ => omega
  | cons _ _ _ ih => omega

/-- `searchLoop` either does nothing (no fuel) or performs a `Run` that ends because the check fired or the budget ran out -/
theorem searchLoop_run {b : Backend σ} {sp : Space} {obj : Obj} {c : Call} :
    ∀ (fuel i : Nat) (d : DState σ) (cs : CState) (d' : DState σ) (cs' : CState) (k : Nat),
    cs.nInitSearch = min i cs.nInitsNorm → i + fuel ≤ c.nIter →
    searchLoop b sp obj c fuel i d cs = .ok (d', cs', k) →
    (fuel = 0 ∧ k = i ∧ d' = d ∧ cs' = cs) ∨
    (0 < fuel ∧ Run b sp obj c i k d d' cs cs' ∧ k ≤ i + fuel ∧ (k < i + fuel → checkStop c d' cs' = .ok true)) := by
  intro fuel
  induction fuel with
  | zero =>
    intro i d cs d' cs' k _ _ h
    simp only [searchLoop, pure, Except.pure, Except.ok.injEq, Prod.mk.injEq] at h
    obtain ⟨hd, hcs, hk⟩ := h
    left; exact ⟨rfl, hk.symm, hd.symm, hcs.symm⟩
  | succ fuel ih =>
    intro i d cs d' cs' k hinv hfuel h
    right
    simp only [searchLoop, bind, Except.bind, pure, Except.pure] at h
    split at h
    · simp at h
    · rename_i x hx
      obtain ⟨d1, cs1⟩ := x
      have sf := searchStep_frame hinv (by omega) hx
      obtain ⟨p, v, e, sfa, _⟩ := sf.facts
      simp only at h
      split at h
      · simp at h
      · rename_i stop hstop
        have hinv1 : cs1.nInitSearch = min (i + 1) cs1.nInitsNorm := by rw [sf.nInitSearch, sfa.nInitsNorm]
        cases stop with
        | true =>
          simp only [if_true, Except.ok.injEq, Prod.mk.injEq] at h
          obtain ⟨hd, hcs, hk⟩ := h
          subst hd; subst hcs; subst hk
          exact ⟨by omega, Run.last sf, by omega, fun _ => hstop⟩
        | false =>
          simp only [Bool.false_eq_true, if_false] at h
          rcases ih (i + 1) d1 cs1 d' cs' k hinv1 (by omega) h with ⟨hf, hk, hd, hcs⟩ | ⟨_, hrun, hk, hchk⟩
          · subst hf; subst hk; subst hd; subst hcs
            exact ⟨by omega, Run.last sf, by omega, fun hlt => by omega⟩
          · exact ⟨by omega, Run.cons sf hstop hrun, by omega, fun hlt => hchk (by omega)⟩

/-- one recorded step: emitted position, its parameter values, the evaluation outcome -/
abbrev StepRec := Pos × Value × Eval
def StepRec.pos (t : StepRec) : Pos := t.1
def StepRec.value (t : StepRec) : Value := t.2.1
def StepRec.eval (t : StepRec) : Eval := t.2.2
def StepRec.score (t : StepRec) : F := t.2.2.res.score

/-- the progress bar after a list of steps starting at step index `i` -/
def pbarFold (c : Call) : PBar → Nat → List StepRec → PBar
  | p, _, [] => p
  | p, i, t :: rest => pbarFold c (pbarUpdate c p t.score t.pos i) (i + 1) rest

def sumQ : List Rat → Rat
  | [] => 0
  | x :: xs => x + sumQ xs

/-- the trajectory of a run, with the stop checks of all proper prefixes recorded as false -/
structure Traj (sp : Space) (obj : Obj) (c : Call) (i k : Nat) (d d' : DState σ) (cs cs' : CState) (tr : List StepRec) : Prop where
  len : tr.length = k - i
  pos : i < k
  rows : d'.rows = d.rows ++ tr.map (fun t => rowOf t.eval.res (value2para sp.names t.value))
  posL : d'.posL = d.posL ++ tr.map StepRec.pos
  scoreL : d'.scoreL = d.scoreL ++ tr.map StepRec.score
  evalT : d'.evalT = d.evalT ++ tr.map (fun t => t.eval.dur)
  clock : d'.clock = d.clock + sumQ (tr.map (fun t => t.eval.dur))
  pbar : cs'.pbar = pbarFold c cs.pbar i tr
  stop : cs'.stop = cs.stop
  values : ∀ t ∈ tr, position2value sp.dims t.pos = .ok t.value

theorem sumQ_cons (x : Rat) (xs : List Rat) : sumQ (x :: xs) = x + sumQ xs := rfl

theorem Run.traj {b : Backend σ} {sp : Space} {obj : Obj} {c : Call} {i k : Nat} {d d' : DState σ} {cs cs' : CState}
    (r : Run b sp obj c i k d d' cs cs') : ∃ tr, Traj sp obj c i k d d' cs cs' tr := by
  induction r with
  | @last i d d1 cs cs1 sf =>
    obtain ⟨p, v, e, f, _⟩ := sf.facts
    refine ⟨[(p, v, e)], ?_⟩
    exact { len := by simp, pos := by omega
            rows := by simp [f.rows, StepRec.eval, StepRec.value], posL := by simp [f.posL, StepRec.pos]
            scoreL := by simp [f.scoreL, StepRec.score], evalT := by simp [f.evalT, StepRec.eval]
            clock := by simp [f.clock, sumQ, StepRec.eval]; grind
            pbar := by simp [pbarFold, f.pbar, StepRec.score, StepRec.pos], stop := f.stop
            values := by intro t ht; simp at ht; subst ht; exact f.hv }
  | @cons i k d d1 d' cs cs1 cs' sf _ run ih =>
    obtain ⟨p, v, e, f, _⟩ := sf.facts
    obtain ⟨tr, T⟩ := ih
    have hlt := run.lt
    refine ⟨(p, v, e) :: tr, ?_⟩
    exact { len := by simp [T.len]; omega, pos := by omega
            rows := by rw [T.rows, f.rows]; simp [StepRec.eval, StepRec.value]
            posL := by rw [T.posL, f.posL]; simp [StepRec.pos]
            scoreL := by rw [T.scoreL, f.scoreL]; simp [StepRec.score]
            evalT := by rw [T.evalT, f.evalT]; simp [StepRec.eval]
            clock := by rw [T.clock, f.clock]; simp [sumQ, StepRec.eval]; grind
            pbar := by rw [T.pbar, f.pbar]; simp [pbarFold, StepRec.score, StepRec.pos]
            stop := by rw [T.stop, f.stop]
            values := by
              intro t ht
              rcases List.mem_cons.mp ht with h | h
              · subst h; exact f.hv
              · exact T.values t h }

/-- the stop checks along a run: false after every proper prefix of the trajectory -/
theorem Run.prefix_checks {b : Backend σ} {sp : Space} {obj : Obj} {c : Call} {i k : Nat} {d d' : DState σ} {cs cs' : CState}
    (r : Run b sp obj c i k d d' cs cs') :
    ∃ tr, Traj sp obj c i k d d' cs cs' tr ∧
      ∀ j, 0 < j → j < tr.length →
        ∃ dj csj, Traj sp obj c i (i + j) d dj cs csj (tr.take j) ∧ checkStop c dj csj = .ok false := by
  induction r with
  | @last i d d1 cs cs1 sf =>
    obtain ⟨tr, T⟩ := (Run.last sf).traj
    refine ⟨tr, T, ?_⟩
    intro j hj hjl
    have := T.len
    omega
  | @cons i k d d1 d' cs cs1 cs' sf hchk run ih =>
    obtain ⟨p, v, e, f, _⟩ := sf.facts
    obtain ⟨tr, T, hpre⟩ := ih
    have hlt := run.lt
    obtain ⟨tr1, T1⟩ := (Run.last sf).traj
    -- the full trajectory is the first step followed by `tr`
    have Tfull : Traj sp obj c i k d d' cs cs' ((p, v, e) :: tr) :=
      { len := by simp [T.len]; omega, pos := by omega
        rows := by rw [T.rows, f.rows]; simp [StepRec.eval, StepRec.value]
        posL := by rw [T.posL, f.posL]; simp [StepRec.pos]
        scoreL := by rw [T.scoreL, f.scoreL]; simp [StepRec.score]
        evalT := by rw [T.evalT, f.evalT]; simp [StepRec.eval]
        clock := by rw [T.clock, f.clock]; simp [sumQ, StepRec.eval]; grind
        pbar := by rw [T.pbar, f.pbar]; simp [pbarFold, StepRec.score, StepRec.pos]
        stop := by rw [T.stop, f.stop]
        values := by
          intro t ht
          rcases List.mem_cons.mp ht with h | h
          · subst h; exact f.hv
          · exact T.values t h }
    refine ⟨(p, v, e) :: tr, Tfull, ?_⟩
    intro j hj hjl
    cases j with
    | zero => omega
    | succ j' =>
      cases j' with
      | zero =>
        -- prefix of length 1: the state after the first step
        refine ⟨d1, cs1, ?_, hchk⟩
        exact { len := by simp, pos := by omega
                rows := by simp [f.rows, StepRec.eval, StepRec.value], posL := by simp [f.posL, StepRec.pos]
                scoreL := by simp [f.scoreL, StepRec.score], evalT := by simp [f.evalT, StepRec.eval]
                clock := by simp [f.clock, sumQ, StepRec.eval]; grind
                pbar := by simp [pbarFold, f.pbar, StepRec.score, StepRec.pos], stop := f.stop
                values := by intro t ht; simp at ht; subst ht; exact f.hv }
      | succ j'' =>
        have hjl' : j'' + 1 < tr.length := by simp at hjl; omega
        obtain ⟨dj, csj, Tj, hcj⟩ := hpre (j'' + 1) (by omega) hjl'
        refine ⟨dj, csj, ?_, hcj⟩
        have e1 : i + 1 + (j'' + 1) = i + (j'' + 1 + 1) := by omega
        exact { len := by simp [List.length_take]; omega, pos := by omega
                rows := by rw [Tj.rows, f.rows]; simp [StepRec.eval, StepRec.value]
                posL := by rw [Tj.posL, f.posL]; simp [StepRec.pos]
                scoreL := by rw [Tj.scoreL, f.scoreL]; simp [StepRec.score]
                evalT := by rw [Tj.evalT, f.evalT]; simp [StepRec.eval]
                clock := by rw [Tj.clock, f.clock]; simp [sumQ, StepRec.eval]; grind
                pbar := by rw [Tj.pbar, f.pbar]; simp [pbarFold, StepRec.score, StepRec.pos]
                stop := by rw [Tj.stop, f.stop]
                values := by
                  intro t ht
                  simp only [List.take_succ_cons, List.mem_cons] at ht
                  rcases ht with h | h
                  · subst h; exact f.hv
                  · exact T.values t (List.mem_of_mem_take h) }

/-- the shape of every successful `search()` call: either `n_iter = 0`, or a trajectory of `r.steps` steps all of whose
    proper prefixes failed the stop check, ending because the check fired or `n_iter` was reached -/
structure CallShape (sp : Space) (obj : Obj) (c : Call) (d d' : DState σ) (r : CallResult) (cs : CState)
    (d1 : DState σ) (cs1 : CState) (tr : List StepRec) : Prop where
  init : initSearch sp c d = .ok cs
  fin : finishSearch sp c d1 cs1 r.steps = .ok (d', r)
  traj : Traj sp obj c 0 r.steps d d1 cs cs1 tr
  le : r.steps ≤ c.nIter
  prefixes : ∀ j, 0 < j → j < r.steps →
    ∃ dj csj, Traj sp obj c 0 j d dj cs csj (tr.take j) ∧ checkStop c dj csj = .ok false
  fired : r.steps < c.nIter → checkStop c d1 cs1 = .ok true

theorem searchCall_shape {b : Backend σ} {sp : Space} {obj : Obj} {c : Call} {d d' : DState σ} {r : CallResult}
    (h : searchCall b sp obj c d = .ok (d', r)) (hn : 0 < c.nIter) :
    ∃ cs d1 cs1 tr, CallShape sp obj c d d' r cs d1 cs1 tr := by
  obtain ⟨cs, d1, cs1, steps, hcs, hx, hfin⟩ := searchCall_parts h
  obtain ⟨h0, _⟩ := initSearch_ok hcs
  have hsteps : r.steps = steps := (finishSearch_ok hfin).2.2.2.2.2.2.2.2.2.2.2.2.1
  rcases searchLoop_run c.nIter 0 d cs d1 cs1 steps (by rw [h0]; omega) (by omega) hx with ⟨hf, _⟩ | ⟨_, run, hk, hchk⟩
  · omega
  · obtain ⟨tr, T, hpre⟩ := run.prefix_checks
    refine ⟨cs, d1, cs1, tr, ?_⟩
    have hlen : tr.length = steps := by have := T.len; omega
    exact { init := hcs, fin := by rw [hsteps]; exact hfin, traj := by rw [hsteps]; exact T, le := by omega
            prefixes := by
              intro j hj hjl
              obtain ⟨dj, csj, Tj, hc⟩ := hpre j hj (by omega)
              exact ⟨dj, csj, by simpa using Tj, hc⟩
            fired := by intro hlt; exact hchk (by omega) }

/-- invariants along a run: if `P` is preserved by every step and yields `Q` for the step's record, then `P` holds at the
    end and `Q` holds for every record of the trajectory -/
theorem Run.traj_inv {b : Backend σ} {sp : Space} {obj : Obj} {c : Call} (P : DState σ → CState → Prop) (Q : StepRec → Prop)
    (hstep : ∀ i (d d1 : DState σ) (cs cs1 : CState) p v e, P d cs → StepFacts sp obj c i d d1 cs cs1 p v e →
      BStep b (i < cs.nInitsNorm) d.bst d1.bst p e.res.score → P d1 cs1 ∧ Q (p, v, e))
    {i k : Nat} {d d' : DState σ} {cs cs' : CState} (r : Run b sp obj c i k d d' cs cs') (h0 : P d cs) :
    ∃ tr, Traj sp obj c i k d d' cs cs' tr ∧ P d' cs' ∧ ∀ t ∈ tr, Q t := by
  induction r with
  | @last i d d1 cs cs1 sf =>
    obtain ⟨p, v, e, f, _, hbs⟩ := sf.facts
    obtain ⟨hP, hQ⟩ := hstep i d d1 cs cs1 p v e h0 f hbs
    refine ⟨[(p, v, e)], ?_, hP, by intro t ht; simp at ht; subst ht; exact hQ⟩
    exact { len := by simp, pos := by omega
            rows := by simp [f.rows, StepRec.eval, StepRec.value], posL := by simp [f.posL, StepRec.pos]
            scoreL := by simp [f.scoreL, StepRec.score], evalT := by simp [f.evalT, StepRec.eval]
            clock := by simp [f.clock, sumQ, StepRec.eval]; grind
            pbar := by simp [pbarFold, f.pbar, StepRec.score, StepRec.pos], stop := f.stop
            values := by intro t ht; simp at ht; subst ht; exact f.hv }
  | @cons i k d d1 d' cs cs1 cs' sf _ run ih =>
    obtain ⟨p, v, e, f, _, hbs⟩ := sf.facts
    obtain ⟨hP, hQ⟩ := hstep i d d1 cs cs1 p v e h0 f hbs
    obtain ⟨tr, T, hP', hQ'⟩ := ih hP
    have hlt := run.lt
    refine ⟨(p, v, e) :: tr, ?_, hP', ?_⟩
    · exact { len := by simp [T.len]; omega, pos := by omega
              rows := by rw [T.rows, f.rows]; simp [StepRec.eval, StepRec.value]
              posL := by rw [T.posL, f.posL]; simp [StepRec.pos]
              scoreL := by rw [T.scoreL, f.scoreL]; simp [StepRec.score]
              evalT := by rw [T.evalT, f.evalT]; simp [StepRec.eval]
              clock := by rw [T.clock, f.clock]; simp [sumQ, StepRec.eval]; grind
              pbar := by rw [T.pbar, f.pbar]; simp [pbarFold, StepRec.score, StepRec.pos]
              stop := by rw [T.stop, f.stop]
              values := by
                intro t ht
                rcases List.mem_cons.mp ht with h | h
                · subst h; exact f.hv
                · exact T.values t h }
    · intro t ht
      rcases List.mem_cons.mp ht with h | h
      · subst h; exact hQ
      · exact hQ' t h

/-- the same for a whole `search()` call -/
theorem searchCall_inv {b : Backend σ} {sp : Space} {obj : Obj} {c : Call} {d d' : DState σ} {r : CallResult}
    (P : DState σ → CState → Prop) (Q : StepRec → Prop)
    (hstep : ∀ i (d d1 : DState σ) (cs cs1 : CState) p v e, P d cs → StepFacts sp obj c i d d1 cs cs1 p v e →
      BStep b (i < cs.nInitsNorm) d.bst d1.bst p e.res.score → P d1 cs1 ∧ Q (p, v, e))
    (h : searchCall b sp obj c d = .ok (d', r)) (hn : 0 < c.nIter)
    (h0 : ∀ cs, initSearch sp c d = .ok cs → P d cs) :
    ∃ cs d1 cs1 tr, initSearch sp c d = .ok cs ∧ finishSearch sp c d1 cs1 r.steps = .ok (d', r) ∧
      Traj sp obj c 0 r.steps d d1 cs cs1 tr ∧ P d1 cs1 ∧ ∀ t ∈ tr, Q t := by
  obtain ⟨cs, d1, cs1, steps, hcs, hx, hfin⟩ := searchCall_parts h
  obtain ⟨h0', _⟩ := initSearch_ok hcs
  have hsteps : r.steps = steps := (finishSearch_ok hfin).2.2.2.2.2.2.2.2.2.2.2.2.1
  rcases searchLoop_run c.nIter 0 d cs d1 cs1 steps (by rw [h0']; omega) (by omega) hx with ⟨hf, _⟩ | ⟨_, run, _, _⟩
  · omega
  · obtain ⟨tr, T, hP, hQ⟩ := run.traj_inv P Q hstep (h0 cs hcs)
    exact ⟨cs, d1, cs1, tr, hcs, by rw [hsteps]; exact hfin, by rw [hsteps]; exact T, hP, hQ⟩

/-- invariants indexed by the step number -/
theorem Run.traj_inv_idx {b : Backend σ} {sp : Space} {obj : Obj} {c : Call} (P : Nat → DState σ → CState → Prop)
    (hstep : ∀ i (d d1 : DState σ) (cs cs1 : CState) p v e, P i d cs → i < c.nIter → StepFacts sp obj c i d d1 cs cs1 p v e →
      BStep b (i < cs.nInitsNorm) d.bst d1.bst p e.res.score → P (i + 1) d1 cs1)
    {i k : Nat} {d d' : DState σ} {cs cs' : CState} (r : Run b sp obj c i k d d' cs cs') (h0 : P i d cs) : P k d' cs' := by
  induction r with
  | @last i d d1 cs cs1 sf =>
    obtain ⟨p, v, e, f, _, hbs⟩ := sf.facts
    exact hstep i d d1 cs cs1 p v e h0 sf.lt f hbs
  | @cons i k d d1 d' cs cs1 cs' sf _ run ih =>
    obtain ⟨p, v, e, f, _, hbs⟩ := sf.facts
    exact ih (hstep i d d1 cs cs1 p v e h0 sf.lt f hbs)

theorem searchCall_inv_idx {b : Backend σ} {sp : Space} {obj : Obj} {c : Call} {d d' : DState σ} {r : CallResult}
    (P : Nat → DState σ → CState → Prop)
    (hstep : ∀ i (d d1 : DState σ) (cs cs1 : CState) p v e, P i d cs → i < c.nIter → StepFacts sp obj c i d d1 cs cs1 p v e →
      BStep b (i < cs.nInitsNorm) d.bst d1.bst p e.res.score → P (i + 1) d1 cs1)
    (h : searchCall b sp obj c d = .ok (d', r)) (hn : 0 < c.nIter)
    (h0 : ∀ cs, initSearch sp c d = .ok cs → P 0 d cs) :
    ∃ cs d1 cs1, initSearch sp c d = .ok cs ∧ finishSearch sp c d1 cs1 r.steps = .ok (d', r) ∧ P r.steps d1 cs1 := by
  obtain ⟨cs, d1, cs1, steps, hcs, hx, hfin⟩ := searchCall_parts h
  obtain ⟨h0', _⟩ := initSearch_ok hcs
  have hsteps : r.steps = steps := (finishSearch_ok hfin).2.2.2.2.2.2.2.2.2.2.2.2.1
  rcases searchLoop_run c.nIter 0 d cs d1 cs1 steps (by rw [h0']; omega) (by omega) hx with ⟨hf, _⟩ | ⟨_, run, _, _⟩
  · omega
  · have := run.traj_inv_idx P hstep (h0 cs hcs)
    exact ⟨cs, d1, cs1, hcs, by rw [hsteps]; exact hfin, by rw [hsteps]; exact this⟩

end GFO
