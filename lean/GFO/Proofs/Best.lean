/-
  Order facts about `F` (IEEE comparisons) and the running best kept by the progress bar.
-/
import GFO.Proofs.Run
namespace GFO

namespace F

theorem gt_def (a b : F) : F.gt a b = F.lt b a := rfl
theorem ge_def (a b : F) : F.ge a b = F.le b a := rfl

theorem lt_nan_left (a : F) : F.lt nan a = false := by cases a <;> rfl
theorem lt_nan_right (a : F) : F.lt a nan = false := by cases a <;> rfl
theorem le_nan_left (a : F) : F.le nan a = false := by cases a <;> rfl
theorem le_nan_right (a : F) : F.le a nan = false := by cases a <;> rfl

theorem lt_irrefl (a : F) : F.lt a a = false := by
  cases a <;> simp [F.lt]

theorem lt_trans {a b c : F} (h1 : F.lt a b = true) (h2 : F.lt b c = true) : F.lt a c = true := by
  cases a <;> cases b <;> cases c <;> simp_all [F.lt] <;> grind

theorem le_trans {a b c : F} (h1 : F.le a b = true) (h2 : F.le b c = true) : F.le a c = true := by
  cases a <;> cases b <;> cases c <;> simp_all [F.le] <;> grind

theorem lt_of_lt_of_le {a b c : F} (h1 : F.lt a b = true) (h2 : F.le b c = true) : F.lt a c = true := by
  cases a <;> cases b <;> cases c <;> simp_all [F.lt, F.le] <;> grind

theorem lt_of_le_of_lt {a b c : F} (h1 : F.le a b = true) (h2 : F.lt b c = true) : F.lt a c = true := by
  cases a <;> cases b <;> cases c <;> simp_all [F.lt, F.le] <;> grind

theorem le_of_lt {a b : F} (h : F.lt a b = true) : F.le a b = true := by
  cases a <;> cases b <;> simp_all [F.lt, F.le] <;> grind

/-- for non-nan values `¬ a < b` is `b ≤ a` -/
theorem le_of_not_lt {a b : F} (ha : a.isNan = false) (hb : b.isNan = false) (h : F.lt a b = false) : F.le b a = true := by
  cases a <;> cases b <;> simp_all [F.lt, F.le, F.isNan] <;> grind

theorem not_lt_of_le {a b : F} (h : F.le a b = true) : F.lt b a = false := by
  cases a <;> cases b <;> simp_all [F.lt, F.le] <;> grind

theorem le_refl {a : F} (ha : a.isNan = false) : F.le a a = true := by
  cases a <;> simp_all [F.le, F.isNan] <;> grind

theorem not_nan_of_le_left {a b : F} (h : F.le a b = true) : a.isNan = false := by
  cases a <;> simp_all [F.le, F.isNan]

theorem not_nan_of_le_right {a b : F} (h : F.le a b = true) : b.isNan = false := by
  cases a <;> cases b <;> simp_all [F.le, F.isNan]

theorem not_nan_of_lt_left {a b : F} (h : F.lt a b = true) : a.isNan = false := by
  cases a <;> simp_all [F.lt, F.isNan]

theorem not_nan_of_lt_right {a b : F} (h : F.lt a b = true) : b.isNan = false := by
  cases a <;> cases b <;> simp_all [F.lt, F.isNan]

theorem ninf_le {a : F} (ha : a.isNan = false) : F.le ninf a = true := by
  cases a <;> simp_all [F.le, F.isNan]

theorem le_antisymm {a b : F} (h1 : F.le a b = true) (h2 : F.le b a = true) : a = b := by
  cases a <;> cases b <;> simp_all [F.le] <;> grind

theorem lt_or_eq_of_le {a b : F} (h : F.le a b = true) : F.lt a b = true ∨ a = b := by
  cases a <;> cases b <;> simp_all [F.lt, F.le] <;> grind

end F

/-! ### the running best -/

/-- `(score_best, pos_best)` after feeding a list of `(pos, score)` steps: strict `>` replaces -/
def bestOf : F × Option Pos → List StepRec → F × Option Pos
  | b, [] => b
  | b, t :: rest => bestOf (if F.gt t.score b.1 then (t.score, some t.pos) else b) rest

theorem pbarUpdate_best (c : Call) (p : PBar) (s : F) (pos : Pos) (i : Nat) :
    ((pbarUpdate c p s pos i).scoreBest, (pbarUpdate c p s pos i).posBest) =
      (if F.gt s p.scoreBest then (s, some pos) else (p.scoreBest, p.posBest)) := by
  unfold pbarUpdate PBar.update0 PBar.update1 PBar.new2best
  by_cases h : F.gt s p.scoreBest = true <;> by_cases hl : c.lvl1 = true <;> simp [h, hl]

/-- the two progress-bar classes keep the same best: the fold's best does not depend on `lvl1` -/
theorem pbarFold_best (c : Call) (p : PBar) (i : Nat) (tr : List StepRec) :
    ((pbarFold c p i tr).scoreBest, (pbarFold c p i tr).posBest) = bestOf (p.scoreBest, p.posBest) tr := by
  induction tr generalizing p i with
  | nil => simp [pbarFold, bestOf]
  | cons t rest ih =>
    simp only [pbarFold, bestOf]
    rw [ih, pbarUpdate_best]

theorem bestOf_append (b : F × Option Pos) (l1 l2 : List StepRec) : bestOf b (l1 ++ l2) = bestOf (bestOf b l1) l2 := by
  induction l1 generalizing b with
  | nil => rfl
  | cons t rest ih => simp only [List.cons_append, bestOf]; exact ih _

theorem bestOf_notNan (b : F × Option Pos) (l : List StepRec) (hb : b.1.isNan = false) : (bestOf b l).1.isNan = false := by
  induction l generalizing b with
  | nil => exact hb
  | cons t rest ih =>
    simp only [bestOf]
    apply ih
    split
    · rename_i h; exact F.not_nan_of_lt_right h
    · exact hb

/-- the best never decreases -/
theorem bestOf_ge_start (b : F × Option Pos) (l : List StepRec) (hb : b.1.isNan = false) : F.le b.1 (bestOf b l).1 = true := by
  induction l generalizing b with
  | nil => exact F.le_refl hb
  | cons t rest ih =>
    simp only [bestOf]
    split
    · rename_i h
      have h1 : F.le b.1 t.score = true := F.le_of_lt h
      exact F.le_trans h1 (ih (t.score, some t.pos) (F.not_nan_of_lt_right h))
    · exact ih b hb

/-- every non-nan score of the list is dominated by the final best -/
theorem bestOf_ge_mem (b : F × Option Pos) (l : List StepRec) (hb : b.1.isNan = false) :
    ∀ t ∈ l, t.score.isNan = false → F.le t.score (bestOf b l).1 = true := by
  induction l generalizing b with
  | nil => intro t ht; simp at ht
  | cons u rest ih =>
    intro t ht hnn
    simp only [bestOf]
    rcases List.mem_cons.mp ht with h | h
    · subst h
      split
      · rename_i hgt
        exact bestOf_ge_start (t.score, some t.pos) rest hnn
      · rename_i hgt
        have hgt' : F.lt b.1 t.score = false := by simpa [F.gt] using hgt
        have : F.le t.score b.1 = true := F.le_of_not_lt hb hnn hgt'
        exact F.le_trans this (bestOf_ge_start b rest hb)
    · split
      · rename_i hgt; exact ih (u.score, some u.pos) (F.not_nan_of_lt_right hgt) t h hnn
      · exact ih b hb t h hnn

/-- the final best is the start value or one of the scores, paired with its own position -/
theorem bestOf_mem (b : F × Option Pos) (l : List StepRec) :
    bestOf b l = b ∨ ∃ t ∈ l, bestOf b l = (t.score, some t.pos) := by
  induction l generalizing b with
  | nil => left; rfl
  | cons u rest ih =>
    simp only [bestOf]
    split
    · rcases ih (u.score, some u.pos) with h | ⟨t, ht, h⟩
      · right; exact ⟨u, by simp, h⟩
      · right; exact ⟨t, by simp [ht], h⟩
    · rcases ih b with h | ⟨t, ht, h⟩
      · left; exact h
      · right; exact ⟨t, by simp [ht], h⟩

/-- reaching a threshold: the final best is `≥ m` iff the start was or some step's score is (nan never counts) -/
theorem bestOf_ge_iff (b : F × Option Pos) (l : List StepRec) (hb : b.1.isNan = false) (m : F) :
    F.ge (bestOf b l).1 m = true ↔ (F.ge b.1 m = true ∨ ∃ t ∈ l, F.ge t.score m = true) := by
  induction l generalizing b with
  | nil => simp [bestOf]
  | cons u rest ih =>
    simp only [bestOf]
    by_cases hgt : F.gt u.score b.1 = true
    · rw [if_pos hgt, ih (u.score, some u.pos) (F.not_nan_of_lt_right hgt)]
      constructor
      · rintro (h | ⟨t, ht, h⟩)
        · right; exact ⟨u, by simp, h⟩
        · right; exact ⟨t, by simp [ht], h⟩
      · rintro (h | ⟨t, ht, h⟩)
        · left
          simp only [F.ge] at h ⊢
          exact F.le_trans h (F.le_of_lt hgt)
        · rcases List.mem_cons.mp ht with e | e
          · subst e; left; exact h
          · right; exact ⟨t, e, h⟩
    · rw [if_neg hgt, ih b hb]
      constructor
      · rintro (h | ⟨t, ht, h⟩)
        · left; exact h
        · right; exact ⟨t, by simp [ht], h⟩
      · rintro (h | ⟨t, ht, h⟩)
        · left; exact h
        · rcases List.mem_cons.mp ht with e | e
          · subst e
            left
            simp only [F.ge] at h ⊢
            have hnn : t.score.isNan = false := F.not_nan_of_le_right h
            have hgt' : F.lt b.1 t.score = false := by simpa [F.gt] using hgt
            exact F.le_trans h (F.le_of_not_lt hb hnn hgt')
          · right; exact ⟨t, e, h⟩

/-- the best pair is the start pair, or the FIRST step attaining the maximum: every earlier score is strictly smaller
    (or nan), and it strictly exceeds the start value -/
theorem bestOf_first (b : F × Option Pos) (hb : b.1.isNan = false) (l : List StepRec) :
    bestOf b l = b ∨
    ∃ l1 t l2, l = l1 ++ t :: l2 ∧ bestOf b l = (t.score, some t.pos) ∧ F.lt b.1 t.score = true ∧
      ∀ u ∈ l1, F.lt u.score t.score = true ∨ u.score.isNan = true := by
  induction l generalizing b with
  | nil => left; rfl
  | cons u rest ih =>
    simp only [bestOf]
    by_cases hgt : F.gt u.score b.1 = true
    · rw [if_pos hgt]
      have hun : u.score.isNan = false := F.not_nan_of_lt_right hgt
      rcases ih (u.score, some u.pos) hun with h | ⟨l1, t, l2, hl, hbest, hlt, hall⟩
      · right
        exact ⟨[], u, rest, rfl, h, hgt, by intro w hw; simp at hw⟩
      · right
        refine ⟨u :: l1, t, l2, by simp [hl], hbest, F.lt_trans hgt hlt, ?_⟩
        intro w hw
        rcases List.mem_cons.mp hw with e | e
        · subst e; left; exact hlt
        · exact hall w e
    · rw [if_neg hgt]
      rcases ih b hb with h | ⟨l1, t, l2, hl, hbest, hlt, hall⟩
      · left; exact h
      · right
        refine ⟨u :: l1, t, l2, by simp [hl], hbest, hlt, ?_⟩
        intro w hw
        rcases List.mem_cons.mp hw with e | e
        · subst e
          by_cases hn : w.score.isNan = true
          · right; exact hn
          · left
            have hn' : w.score.isNan = false := by simpa using hn
            have hgt' : F.lt b.1 w.score = false := by simpa [F.gt] using hgt
            have hle : F.le w.score b.1 = true := F.le_of_not_lt hb hn' hgt'
            exact F.lt_of_le_of_lt hle hlt
        · exact hall w e

end GFO
