/-
  Order facts about `F` (IEEE comparisons) and the running best kept by the progress bar.
-/
import GFO.Proofs.Run
namespace GFO

namespace F

theorem gt_def (a b : F) : F.gt a b = F.lt b a := rfl
theorem ge_def (a b : F) : F.ge a b = F.le b a := rfl

theorem lt_nan_left (a : F) : F.lt nan a = false := by cases a <;> rfl
theorem lt_nan_right (a : F) : F.lt a nan = false := by cases a <;> rfl
theorem le_nan_left (a : F) : F.le nan a = false := by cases a <;> rfl
theorem le_nan_right (a : F) : F.le a nan = false := by cases a <;> rfl

theorem lt_irrefl (a : F) : F.lt a a = false := by
  cases a <;> simp [F.lt]

theorem lt_trans {a b c : F} (h1 : F.lt a b = true) (h2 : F.lt b c = true) : F.lt a c = true := by
  cases a <;> cases b <;> cases c <;> simp_all [F.lt] <;> grind

theorem le_trans {a b c : F} (h1 : F.le a b = true) (h2 : F.le b c = true) : F.le a c = true := by
  cases a <;> cases b <;> cases c <;> simp_all [F.le] <;> grind

theorem lt_of_lt_of_le {a b c : F} (h1 : F.lt a b = true) (h2 : F.le b c = true) : F.lt a c = true := by
  cases a <;> cases b <;> cases c <;> simp_all [F.lt, F.le] <;> grind

theorem lt_of_le_of_lt {a b c : F} (h1 : F.le a b = true) (h2 : F.lt b c = true) : F.lt a c = true := by
  cases a <;> cases b <;> cases c <;> simp_all [F.lt, F.le] <;> grind

theorem le_of_lt {a b : F} (h : F.lt a b = true) : F.le a b = true := by
  cases a <;> cases b <;> simp_all [F.lt, F.le] <;> grind

/-- for non-nan values `¬ a < b` is `b ≤ a` -/
theorem le_of_not_lt {a b : F} (ha : a.isNan = false) (hb : b.isNan = false) (h : F.lt a b = false) : F.le b a = true := by
  cases a <;> cases b <;> simp_all [F.lt, F.le, F.isNan] <;> grind

theorem not_lt_of_le {a b : F} (h : F.le a b = true) : F.lt b a = false := by
  cases a <;> cases b <;> simp_all [F.lt, F.le] <;> grind

theorem le_refl {a : F} (ha : a.isNan = false) : F.le a a = true := by
  cases a <;> simp_all [F.le, F.isNan] <;> grind

theorem not_nan_of_le_left {a b : F} (h : F.le a b = true) : a.isNan = false := by
  cases a <;> simp_all [F.le, F.isNan]

theorem not_nan_of_le_right {a b : F} (h : F.le a b = true) : b.isNan = false := by
  cases a <;> cases b <;> simp_all [F.le, F.isNan]

theorem not_nan_of_lt_left {a b : F} (h : F.lt a b = true) : a.isNan = false := by
  cases a <;> simp_all [F.lt, F.isNan]

theorem not_nan_of_lt_right {a b : F} (h : F.lt a b = true) : b.isNan = false := by
  cases a <;> cases b <;> simp_all [F.lt, F.isNan]

theorem ninf_le {a : F} (ha : a.isNan = false) : F.le ninf a = true := by
  cases a <;> simp_all [F.le, F.isNan]

theorem le_antisymm {a b : F} (h1 : F.le a b = true) (h2 : F.le b a = true) : a = b := by
  cases a <;> cases b <;> simp_all [F.le] <;> grind

theorem lt_or_eq_of_le {a b : F} (h : F.le a b = true) : F.lt a b = true ∨ a = b := by
  cases a <;> cases b <;> simp_all [F.lt, F.le] <;> grind

end F

/-! ### the running best -/

theorem F.beq_eq {a b : F} (h : F.beq a b = true) : a = b ∧ a.isNan = false := by
  cases a <;> cases b <;> simp_all [F.beq, F.isNan]

/-- `(score_best, pos_best)` after feeding a list of `(pos, score)` steps -/
def bestOf : F × Option Pos → List StepRec → F × Option Pos
  | b, [] => b
  | b, t :: rest => bestOf (if accepts b.1 b.2 t.score then (t.score, some t.pos) else b) rest

theorem pbarUpdate_best (c : Call) (p : PBar) (s : F) (pos : Pos) (i : Nat) :
    ((pbarUpdate c p s pos i).scoreBest, (pbarUpdate c p s pos i).posBest) =
      (if accepts p.scoreBest p.posBest s then (s, some pos) else (p.scoreBest, p.posBest)) := by
  unfold pbarUpdate PBar.update0 PBar.update1 PBar.new2best
  by_cases h : accepts p.scoreBest p.posBest s = true <;> by_cases hl : c.lvl1 = true <;>
    by_cases hg : F.gt s p.scoreBest = true <;> simp [h, hl, hg]

/-- the two progress-bar classes keep the same best: the fold's best does not depend on `lvl1` -/
theorem pbarFold_best (c : Call) (p : PBar) (i : Nat) (tr : List StepRec) :
    ((pbarFold c p i tr).scoreBest, (pbarFold c p i tr).posBest) = bestOf (p.scoreBest, p.posBest) tr := by
  induction tr generalizing p i with
  | nil => simp [pbarFold, bestOf]
  | cons t rest ih =>
    simp only [pbarFold, bestOf]
    rw [ih, pbarUpdate_best]

/-- an accepted score is not nan and not below the current best -/
theorem accepts_le {b : F} {bp : Option Pos} {s : F} (hb : b.isNan = false) (h : accepts b bp s = true) :
    s.isNan = false ∧ F.le b s = true := by
  unfold accepts at h
  simp only [Bool.or_eq_true, Bool.and_eq_true] at h
  rcases h with h | ⟨_, h⟩
  · exact ⟨F.not_nan_of_lt_right h, F.le_of_lt h⟩
  · obtain ⟨e, hn⟩ := F.beq_eq h
    subst e
    exact ⟨hn, F.le_refl hn⟩

/-- a rejected non-nan score is not above the current best -/
theorem not_accepts_le {b : F} {bp : Option Pos} {s : F} (hb : b.isNan = false) (hs : s.isNan = false)
    (h : accepts b bp s = false) : F.le s b = true := by
  unfold accepts at h
  simp only [Bool.or_eq_false_iff] at h
  have hgt' : F.lt b s = false := by simpa [F.gt] using h.1
  exact F.le_of_not_lt hb hs hgt'

theorem bestOf_notNan (b : F × Option Pos) (l : List StepRec) (hb : b.1.isNan = false) : (bestOf b l).1.isNan = false := by
  induction l generalizing b with
  | nil => exact hb
  | cons t rest ih =>
    simp only [bestOf]
    apply ih
    split
    · rename_i h; exact (accepts_le hb h).1
    · exact hb

/-- the best never decreases -/
theorem bestOf_ge_start (b : F × Option Pos) (l : List StepRec) (hb : b.1.isNan = false) : F.le b.1 (bestOf b l).1 = true := by
  induction l generalizing b with
  | nil => exact F.le_refl hb
  | cons t rest ih =>
    simp only [bestOf]
    split
    · rename_i h
      obtain ⟨hn, hle⟩ := accepts_le hb h
      exact F.le_trans hle (ih (t.score, some t.pos) hn)
    · exact ih b hb

/-- every non-nan score of the list is dominated by the final best -/
theorem bestOf_ge_mem (b : F × Option Pos) (l : List StepRec) (hb : b.1.isNan = false) :
    ∀ t ∈ l, t.score.isNan = false → F.le t.score (bestOf b l).1 = true := by
  induction l generalizing b with
  | nil => intro t ht; simp at ht
  | cons u rest ih =>
    intro t ht hnn
    simp only [bestOf]
    rcases List.mem_cons.mp ht with h | h
    · subst h
      split
      · exact bestOf_ge_start (t.score, some t.pos) rest hnn
      · rename_i hacc
        have hacc' : accepts b.1 b.2 t.score = false := by simpa using hacc
        exact F.le_trans (not_accepts_le hb hnn hacc') (bestOf_ge_start b rest hb)
    · split
      · rename_i hacc; exact ih (u.score, some u.pos) (accepts_le hb hacc).1 t h hnn
      · exact ih b hb t h hnn

/-- the final best is the start value or one of the scores, paired with its own position -/
theorem bestOf_mem (b : F × Option Pos) (l : List StepRec) :
    bestOf b l = b ∨ ∃ t ∈ l, bestOf b l = (t.score, some t.pos) := by
  induction l generalizing b with
  | nil => left; rfl
  | cons u rest ih =>
    simp only [bestOf]
    split
    · rcases ih (u.score, some u.pos) with h | ⟨t, ht, h⟩
      · right; exact ⟨u, by simp, h⟩
      · right; exact ⟨t, by simp [ht], h⟩
    · rcases ih b with h | ⟨t, ht, h⟩
      · left; exact h
      · right; exact ⟨t, by simp [ht], h⟩

/-- reaching a threshold: the final best is `≥ m` iff the start was or some step's score is (nan never counts) -/
theorem bestOf_ge_iff (b : F × Option Pos) (l : List StepRec) (hb : b.1.isNan = false) (m : F) :
    F.ge (bestOf b l).1 m = true ↔ (F.ge b.1 m = true ∨ ∃ t ∈ l, F.ge t.score m = true) := by
  induction l generalizing b with
  | nil => simp [bestOf]
  | cons u rest ih =>
    simp only [bestOf]
    by_cases hacc : accepts b.1 b.2 u.score = true
    · obtain ⟨hn, hle⟩ := accepts_le hb hacc
      rw [if_pos hacc, ih (u.score, some u.pos) hn]
      constructor
      · rintro (h | ⟨t, ht, h⟩)
        · right; exact ⟨u, by simp, h⟩
        · right; exact ⟨t, by simp [ht], h⟩
      · rintro (h | ⟨t, ht, h⟩)
        · left
          simp only [F.ge] at h ⊢
          exact F.le_trans h hle
        · rcases List.mem_cons.mp ht with e | e
          · subst e; left; exact h
          · right; exact ⟨t, e, h⟩
    · rw [if_neg hacc, ih b hb]
      have hacc' : accepts b.1 b.2 u.score = false := by simpa using hacc
      constructor
      · rintro (h | ⟨t, ht, h⟩)
        · left; exact h
        · right; exact ⟨t, by simp [ht], h⟩
      · rintro (h | ⟨t, ht, h⟩)
        · left; exact h
        · rcases List.mem_cons.mp ht with e | e
          · subst e
            left
            simp only [F.ge] at h ⊢
            have hnn : t.score.isNan = false := F.not_nan_of_le_right h
            exact F.le_trans h (not_accepts_le hb hnn hacc')
          · right; exact ⟨t, e, h⟩

/-- once a position is recorded only a strictly greater score replaces it -/
theorem accepts_some {b : F} {p : Pos} {s : F} : accepts b (some p) s = F.gt s b := by
  simp [accepts]

theorem F.beq_self {a : F} (h : a.isNan = false) : F.beq a a = true := by
  cases a <;> simp_all [F.beq, F.isNan]

/-- how the final best `t` relates to the start pair `b`: strictly greater, or equal while no position was recorded -/
def Rel (b : F × Option Pos) (t : StepRec) : Prop := F.lt b.1 t.score = true ∨ (b.2 = none ∧ t.score = b.1)

theorem accepts_rel {b : F × Option Pos} {t : StepRec} (h : accepts b.1 b.2 t.score = true) : Rel b t := by
  unfold accepts at h
  simp only [Bool.or_eq_true, Bool.and_eq_true] at h
  rcases h with h | ⟨hn, hb⟩
  · left; exact h
  · right
    refine ⟨?_, (F.beq_eq hb).1⟩
    cases hb2 : b.2 with
    | none => rfl
    | some p => simp [hb2] at hn

/-- the best pair is the start pair, or the FIRST step attaining the maximum: every earlier score is strictly smaller
    (or nan) -/
theorem bestOf_first (b : F × Option Pos) (hb : b.1.isNan = false) (l : List StepRec) :
    bestOf b l = b ∨
    ∃ l1 t l2, l = l1 ++ t :: l2 ∧ bestOf b l = (t.score, some t.pos) ∧ Rel b t ∧
      ∀ u ∈ l1, F.lt u.score t.score = true ∨ u.score.isNan = true := by
  induction l generalizing b with
  | nil => left; rfl
  | cons u rest ih =>
    simp only [bestOf]
    by_cases hacc : accepts b.1 b.2 u.score = true
    · rw [if_pos hacc]
      obtain ⟨hun, _⟩ := accepts_le hb hacc
      have hrel := accepts_rel hacc
      rcases ih (u.score, some u.pos) hun with h | ⟨l1, t, l2, hl, hbest, hrel', hall⟩
      · right
        exact ⟨[], u, rest, rfl, h, hrel, by intro w hw; simp at hw⟩
      · right
        have hstrict : F.lt u.score t.score = true := by
          rcases hrel' with h1 | ⟨h1, _⟩
          · exact h1
          · simp at h1
        have hrel2 : Rel b t := by
          rcases hrel with h1 | ⟨_, h2⟩
          · left; exact F.lt_trans h1 hstrict
          · left; rw [← h2]; exact hstrict
        refine ⟨u :: l1, t, l2, by simp [hl], hbest, hrel2, ?_⟩
        intro w hw
        rcases List.mem_cons.mp hw with e | e
        · subst e; left; exact hstrict
        · exact hall w e
    · rw [if_neg hacc]
      have hacc' : accepts b.1 b.2 u.score = false := by simpa using hacc
      rcases ih b hb with h | ⟨l1, t, l2, hl, hbest, hrel, hall⟩
      · left; exact h
      · right
        refine ⟨u :: l1, t, l2, by simp [hl], hbest, hrel, ?_⟩
        intro w hw
        rcases List.mem_cons.mp hw with e | e
        · subst e
          by_cases hn : w.score.isNan = true
          · right; exact hn
          · left
            have hn' : w.score.isNan = false := by simpa using hn
            have hle : F.le w.score b.1 = true := not_accepts_le hb hn' hacc'
            rcases hrel with h1 | ⟨h1, h2⟩
            · exact F.lt_of_le_of_lt hle h1
            · -- no position recorded and the final best equals the start value: `w` was rejected, so it is not equal
              rw [h2]
              rcases F.lt_or_eq_of_le hle with h3 | h3
              · exact h3
              · exfalso
                unfold accepts at hacc'
                simp only [Bool.or_eq_false_iff, Bool.and_eq_false_iff] at hacc'
                rcases hacc'.2 with h4 | h4
                · rw [h1] at h4; simp at h4
                · rw [h3, F.beq_self hb] at h4; simp at h4
        · exact hall w e

theorem bestOf_snd_some (b : F × Option Pos) (l : List StepRec) (h : b.2.isSome = true) : (bestOf b l).2.isSome = true := by
  induction l generalizing b with
  | nil => exact h
  | cons u rest ih =>
    simp only [bestOf]
    split
    · exact ih _ rfl
    · exact ih b h

/-- the best pair stays at the initial `(-inf, None)` only if every score was nan -/
theorem bestOf_initial_iff_all_nan (l : List StepRec) (h : bestOf (F.ninf, none) l = (F.ninf, none)) :
    ∀ t ∈ l, t.score.isNan = true := by
  induction l with
  | nil => intro t ht; simp at ht
  | cons u rest ih =>
    simp only [bestOf] at h
    by_cases hacc : accepts F.ninf none u.score = true
    · rw [if_pos hacc] at h
      have := bestOf_snd_some (u.score, some u.pos) rest rfl
      rw [h] at this; simp at this
    · rw [if_neg hacc] at h
      have hacc' : accepts F.ninf none u.score = false := by simpa using hacc
      intro t ht
      rcases List.mem_cons.mp ht with e | e
      · subst e
        apply Classical.byContradiction
        intro hn
        have hn' : t.score.isNan = false := by simpa using hn
        have hle : F.le t.score F.ninf = true := not_accepts_le (b := F.ninf) rfl hn' hacc'
        have heq : t.score = F.ninf := F.le_antisymm hle (F.ninf_le hn')
        unfold accepts at hacc'
        rw [heq] at hacc'
        simp [F.beq, F.gt, F.lt] at hacc'
      · exact ih h t e

end GFO
