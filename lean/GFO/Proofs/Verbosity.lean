/-
  The result of a search does not depend on the progress-bar class: a simulation between a call with
  `lvl1 := true` (ProgressBarLVL1) and the same call with `lvl1 := false` (ProgressBarLVL0).
  The only state that differs is `pbar.bestSince` (the list feeding tqdm's postfix), which nothing reads.
-/
import GFO.Proofs.Best
namespace GFO
variable {σ : Type}

def stripP (p : PBar) : PBar := { p with bestSince := [] }
def strip (cs : CState) : CState := { cs with pbar := stripP cs.pbar }
def quiet (c : Call) : Call := { c with lvl1 := false }

theorem pbarUpdate_strip (c : Call) (p : PBar) (s : F) (pos : Pos) (i : Nat) :
    pbarUpdate (quiet c) (stripP p) s pos i = stripP (pbarUpdate c p s pos i) := by
  unfold pbarUpdate PBar.update0 PBar.update1 PBar.new2best stripP quiet
  by_cases h : F.gt s p.scoreBest = true <;> by_cases hl : c.lvl1 = true <;>
    by_cases ha : accepts p.scoreBest p.posBest s = true <;> simp [h, hl, ha]

def mapCS (r : Except Err (DState σ × CState)) : Except Err (DState σ × CState) :=
  match r with
  | .ok (d, cs) => .ok (d, strip cs)
  | .error e => .error e

theorem scoreStep_strip (sp : Space) (obj : Obj) (c : Call) (d : DState σ) (cs : CState) (pos : Pos) :
    scoreStep sp obj (quiet c) d (strip cs) pos =
      (match scoreStep sp obj c d cs pos with
       | .ok (s, d', cs') => .ok (s, d', strip cs')
       | .error e => .error e) := by
  unfold scoreStep
  simp only [bind, Except.bind, pure, Except.pure]
  cases hv : position2value sp.dims pos with
  | error e => rfl
  | ok v =>
    simp only
    have he : evalAt sp obj (quiet c) d.nCalls d.rows.length (strip cs).mem (strip cs).calls v =
        evalAt sp obj c d.nCalls d.rows.length cs.mem cs.calls v := by
      unfold evalAt quiet strip; rfl
    rw [he]
    cases evalAt sp obj c d.nCalls d.rows.length cs.mem cs.calls v with
    | error e => rfl
    | ok e => simp [afterEval, strip]

theorem initialization_strip (b : Backend σ) (sp : Space) (obj : Obj) (c : Call) (i : Nat) (d : DState σ) (cs : CState) :
    initialization b sp obj (quiet c) i d (strip cs) = mapCS (initialization b sp obj c i d cs) := by
  unfold initialization mapCS
  simp only [bind, Except.bind, pure, Except.pure]
  cases b.initPos d.bst with
  | error e => rfl
  | ok x =>
    obtain ⟨pos, bst1⟩ := x
    simp only
    rw [scoreStep_strip]
    cases scoreStep sp obj c { d with bst := bst1, trace := d.trace ++ [Ev.initPos pos] } cs pos with
    | error e => rfl
    | ok y =>
      obtain ⟨s, d2, cs2⟩ := y
      simp only
      cases b.evalInit d2.bst s with
      | error e => rfl
      | ok bst3 =>
        simp only [strip, Except.ok.injEq, Prod.mk.injEq, true_and]
        have := pbarUpdate_strip c cs2.pbar s pos i
        simp only [this]

theorem iteration_strip (b : Backend σ) (sp : Space) (obj : Obj) (c : Call) (i : Nat) (d : DState σ) (cs : CState) :
    iteration b sp obj (quiet c) i d (strip cs) = mapCS (iteration b sp obj c i d cs) := by
  unfold iteration mapCS
  simp only [bind, Except.bind, pure, Except.pure]
  cases b.iterate d.bst with
  | error e => rfl
  | ok x =>
    obtain ⟨pos, bst1⟩ := x
    simp only
    rw [scoreStep_strip]
    cases scoreStep sp obj c { d with bst := bst1, trace := d.trace ++ [Ev.iterate pos] } cs pos with
    | error e => rfl
    | ok y =>
      obtain ⟨s, d2, cs2⟩ := y
      simp only
      cases b.evaluate d2.bst s with
      | error e => rfl
      | ok bst3 =>
        simp only [strip, Except.ok.injEq, Prod.mk.injEq, true_and]
        have := pbarUpdate_strip c cs2.pbar s pos i
        simp only [this]

theorem stepTail_strip (b : Backend σ) (sp : Space) (obj : Obj) (c : Call) (i : Nat) (d1 : DState σ) (cs1 : CState) :
    stepTail b sp obj (quiet c) i d1 (strip cs1) = mapCS (stepTail b sp obj c i d1 cs1) := by
  unfold stepTail
  simp only [bind, Except.bind, pure, Except.pure]
  have hs : (strip cs1).nInitSearch = cs1.nInitSearch := rfl
  have hn : (quiet c).nIter = c.nIter := rfl
  rw [hs, hn]
  by_cases heq : i = cs1.nInitSearch
  · simp only [if_pos heq]
    cases b.finishInit d1.bst with
    | error e => rfl
    | ok bst =>
      simp only
      split
      · exact iteration_strip b sp obj c i _ cs1
      · rfl
  · simp only [if_neg heq]
    split
    · exact iteration_strip b sp obj c i d1 cs1
    · rfl

theorem searchStep_strip (b : Backend σ) (sp : Space) (obj : Obj) (c : Call) (i : Nat) (d : DState σ) (cs : CState) :
    searchStep b sp obj (quiet c) i d (strip cs) = mapCS (searchStep b sp obj c i d cs) := by
  unfold searchStep
  simp only [bind, Except.bind, pure, Except.pure]
  have hnorm : (strip cs).nInitsNorm = cs.nInitsNorm := rfl
  rw [hnorm]
  by_cases hlt : i < cs.nInitsNorm
  · simp only [if_pos hlt]
    rw [initialization_strip]
    cases initialization b sp obj c i d cs with
    | error e => rfl
    | ok x =>
      obtain ⟨d1, cs1⟩ := x
      simp only [mapCS]
      exact stepTail_strip b sp obj c i d1 cs1
  · simp only [if_neg hlt]
    exact stepTail_strip b sp obj c i d cs

theorem checkStop_strip (c : Call) (d : DState σ) (cs : CState) : checkStop (quiet c) d (strip cs) = checkStop c d cs := rfl

theorem searchLoop_strip (b : Backend σ) (sp : Space) (obj : Obj) (c : Call) :
    ∀ (fuel i : Nat) (d : DState σ) (cs : CState),
    searchLoop b sp obj (quiet c) fuel i d (strip cs) =
      (match searchLoop b sp obj c fuel i d cs with
       | .ok (d', cs', k) => .ok (d', strip cs', k)
       | .error e => .error e) := by
  intro fuel
  induction fuel with
  | zero => intro i d cs; rfl
  | succ fuel ih =>
    intro i d cs
    simp only [searchLoop, bind, Except.bind, pure, Except.pure]
    rw [searchStep_strip]
    cases searchStep b sp obj c i d cs with
    | error e => rfl
    | ok x =>
      obtain ⟨d1, cs1⟩ := x
      simp only [mapCS, checkStop_strip]
      cases checkStop c d1 cs1 with
      | error e => rfl
      | ok stop =>
        cases stop with
        | true => rfl
        | false => simp only [Bool.false_eq_true, if_false]; exact ih (i + 1) d1 cs1

/-- the observable result of a call, without the tqdm bookkeeping -/
def CallResult.core (r : CallResult) : CallResult := { r with bestSince := [] }

/-- C05 (verbosity): `search()` with the progress bar gives exactly the state and result of the silent call -/
theorem searchCall_quiet (b : Backend σ) (sp : Space) (obj : Obj) (c : Call) (d : DState σ) :
    searchCall b sp obj (quiet c) d =
      (match searchCall b sp obj c d with
       | .ok (d', r) => .ok (d', r.core)
       | .error e => .error e) := by
  unfold searchCall
  simp only [bind, Except.bind]
  have hinit : initSearch sp (quiet c) d = initSearch sp c d := rfl
  rw [hinit]
  cases hcs : initSearch sp c d with
  | error e => rfl
  | ok cs =>
    simp only
    have hpb : cs.pbar = {} := (initSearch_ok hcs).2.2.2.2.2.2.2.1
    have hstrip : strip cs = cs := by
      cases cs with
      | mk stop pbar mem a1 a2 a3 a4 a5 =>
        simp only at hpb
        subst hpb
        rfl
    have := searchLoop_strip b sp obj c c.nIter 0 d cs
    rw [hstrip] at this
    have hn : (quiet c).nIter = c.nIter := rfl
    rw [hn, this]
    cases searchLoop b sp obj c c.nIter 0 d cs with
    | error e => rfl
    | ok x =>
      obtain ⟨d1, cs1, steps⟩ := x
      simp only
      unfold finishSearch
      simp only [bind, Except.bind, pure, Except.pure, strip, stripP, quiet, CallResult.core]
      cases cs1.pbar.posBest with
      | none => rfl
      | some p =>
        simp only
        cases position2value sp.dims p with
        | error e => rfl
        | ok v => rfl

end GFO
