/-
  Helper lemmas about GFO.Model.Stop on finite score lists: Python `max`, `np.argmax`, and the key fact
  "the first arg-max lies before the window  iff  nothing in the window exceeds the best before it".
-/
import GFO.Model.Stop
namespace GFO

/-- scan for the first maximum over rationals: state (best, bestIdx), next index `i` -/
def scanQ : Rat × Nat → Nat → List Rat → Rat × Nat
  | st, _, [] => st
  | (b, bi), i, y :: ys => if y > b then scanQ (y, i) (i + 1) ys else scanQ (b, bi) (i + 1) ys

theorem scanQ_fst_ge (st : Rat × Nat) (i : Nat) (l : List Rat) : st.1 ≤ (scanQ st i l).1 := by
  induction l generalizing st i with
  | nil => simp [scanQ]
  | cons y ys ih =>
    obtain ⟨b, bi⟩ := st
    simp only [scanQ]
    split
    · have := ih (y, i) (i + 1); simp at this; grind
    · exact ih (b, bi) (i + 1)

theorem scanQ_fst_ge_mem (st : Rat × Nat) (i : Nat) (l : List Rat) : ∀ y ∈ l, y ≤ (scanQ st i l).1 := by
  induction l generalizing st i with
  | nil => simp
  | cons z zs ih =>
    obtain ⟨b, bi⟩ := st
    intro y hy
    simp only [scanQ]
    rcases List.mem_cons.mp hy with h | h
    · subst h
      split
      · exact scanQ_fst_ge (y, i) (i + 1) zs
      · have := scanQ_fst_ge (b, bi) (i + 1) zs; simp at this; grind
    · split
      · exact ih (z, i) (i + 1) y h
      · exact ih (b, bi) (i + 1) y h

/-- the scan's value is the start value or an element of the list -/
theorem scanQ_fst_mem (st : Rat × Nat) (i : Nat) (l : List Rat) : (scanQ st i l).1 = st.1 ∨ (scanQ st i l).1 ∈ l := by
  induction l generalizing st i with
  | nil => simp [scanQ]
  | cons z zs ih =>
    obtain ⟨b, bi⟩ := st
    simp only [scanQ]
    split
    · rcases ih (z, i) (i + 1) with h | h
      · right; simp at h; simp [h]
      · right; simp [h]
    · rcases ih (b, bi) (i + 1) with h | h
      · left; exact h
      · right; simp [h]

theorem scanQ_keep (b : Rat) (bi i : Nat) (l : List Rat) (h : ∀ y ∈ l, y ≤ b) : scanQ (b, bi) i l = (b, bi) := by
  induction l generalizing i with
  | nil => simp [scanQ]
  | cons y ys ih =>
    have hy : ¬ y > b := by have := h y (by simp); grind
    simp only [scanQ, if_neg hy]
    exact ih (i + 1) (fun z hz => h z (by simp [hz]))

theorem scanQ_move (b : Rat) (bi i : Nat) (l : List Rat) (h : ∃ y ∈ l, y > b) : i ≤ (scanQ (b, bi) i l).2 := by
  induction l generalizing b bi i with
  | nil => simp at h
  | cons y ys ih =>
    simp only [scanQ]
    by_cases hyb : y > b
    · rw [if_pos hyb]
      by_cases h2 : ∃ z ∈ ys, z > y
      · have := ih y i (i + 1) h2; omega
      · have hk : ∀ z ∈ ys, z ≤ y := by
          intro z hz
          apply Classical.byContradiction
          intro hc
          exact h2 ⟨z, hz, by grind⟩
        rw [scanQ_keep y i (i + 1) ys hk]; exact Nat.le_refl i
    · rw [if_neg hyb]
      obtain ⟨z, hz, hzb⟩ := h
      rcases List.mem_cons.mp hz with e | e
      · subst e; exact absurd hzb hyb
      · have := ih b bi (i + 1) ⟨z, e, hzb⟩; omega

theorem scanQ_snd_lt (st : Rat × Nat) (i : Nat) (l : List Rat) (h : st.2 < i) : (scanQ st i l).2 < i + l.length := by
  induction l generalizing st i with
  | nil => simpa [scanQ] using h
  | cons y ys ih =>
    obtain ⟨b, bi⟩ := st
    simp only [scanQ, List.length_cons]
    split
    · have := ih (y, i) (i + 1) (by simp); omega
    · have := ih (b, bi) (i + 1) (by simp at h ⊢; omega); omega

theorem scanQ_append (st : Rat × Nat) (i : Nat) (a b : List Rat) :
    scanQ st i (a ++ b) = scanQ (scanQ st i a) (i + a.length) b := by
  induction a generalizing st i with
  | nil => simp [scanQ]
  | cons y ys ih =>
    obtain ⟨c, ci⟩ := st
    simp only [List.cons_append, scanQ, List.length_cons]
    split <;> (rw [ih]; congr 1; omega)

/-- maximum of a non-empty list given as head and tail -/
def maxQ (x : Rat) (xs : List Rat) : Rat := (scanQ (x, 0) 1 xs).1
def argmaxQ (x : Rat) (xs : List Rat) : Nat := (scanQ (x, 0) 1 xs).2

/-- `m` is the maximum of `l`: a member that dominates every member -/
def IsMaxOf (m : Rat) (l : List Rat) : Prop := m ∈ l ∧ ∀ y ∈ l, y ≤ m

theorem maxQ_isMax (x : Rat) (xs : List Rat) : IsMaxOf (maxQ x xs) (x :: xs) := by
  unfold maxQ IsMaxOf
  constructor
  · rcases scanQ_fst_mem (x, 0) 1 xs with h | h
    · simp at h; simp [h]
    · simp [h]
  · intro y hy
    rcases List.mem_cons.mp hy with h | h
    · subst h; exact scanQ_fst_ge (y, 0) 1 xs
    · exact scanQ_fst_ge_mem (x, 0) 1 xs y h

theorem isMaxOf_unique {m m' : Rat} {l : List Rat} (h : IsMaxOf m l) (h' : IsMaxOf m' l) : m = m' := by
  have a := h.2 m' h'.1
  have b := h'.2 m h.1
  grind

/-- key fact: the first maximum of `(x :: a) ++ b` lies in `x :: a` iff nothing in `b` exceeds the maximum of `x :: a` -/
theorem argmaxQ_append_lt (x : Rat) (a b : List Rat) :
    argmaxQ x (a ++ b) < (x :: a).length ↔ ∀ y ∈ b, y ≤ maxQ x a := by
  simp only [argmaxQ, maxQ, List.length_cons]
  rw [scanQ_append]
  generalize hs : scanQ (x, 0) 1 a = s
  obtain ⟨m, mi⟩ := s
  have hmi : mi < 1 + a.length := by
    have := scanQ_snd_lt (x, 0) 1 a (by simp); rw [hs] at this; exact this
  constructor
  · intro h y hy
    show y ≤ m
    apply Classical.byContradiction
    intro hc
    have hgt : y > m := by grind
    have := scanQ_move m mi (1 + a.length) b ⟨y, hy, hgt⟩
    omega
  · intro h
    have h' : ∀ y ∈ b, y ≤ m := h
    rw [scanQ_keep m mi _ b h']; show mi < a.length + 1; omega

/-! ### transfer to `F` lists whose entries are all finite -/

theorem pyMaxScan_fin (m : Rat) (qs : List Rat) (bi i : Nat) :
    pyMaxScan (.fin m) (qs.map F.fin) = .fin (scanQ (m, bi) i qs).1 := by
  induction qs generalizing m bi i with
  | nil => simp [pyMaxScan, scanQ]
  | cons y ys ih =>
    simp only [List.map_cons, pyMaxScan, scanQ, F.gt, F.lt]
    by_cases h : m < y
    · have h' : y > m := h
      simp only [h, decide_true, if_true]
      exact ih y i (i + 1)
    · have h' : ¬ y > m := h
      simp only [h, decide_false]
      exact ih m bi (i + 1)

theorem argmaxScan_fin (m : Rat) (qs : List Rat) (bi i : Nat) :
    argmaxScan (.fin m, bi) i (qs.map F.fin) = (.fin (scanQ (m, bi) i qs).1, (scanQ (m, bi) i qs).2) := by
  induction qs generalizing m bi i with
  | nil => simp [argmaxScan, scanQ]
  | cons y ys ih =>
    simp only [List.map_cons, argmaxScan, scanQ, F.gt, F.lt]
    by_cases h : m < y
    · have h' : y > m := h
      simp only [h, decide_true, if_true]
      exact ih y i (i + 1)
    · have h' : ¬ y > m := h
      simp only [h, decide_false]
      exact ih m bi (i + 1)

theorem firstNanIdx_fin (qs : List Rat) (i : Nat) : firstNanIdx i (qs.map F.fin) = none := by
  induction qs generalizing i with
  | nil => simp [firstNanIdx]
  | cons y ys ih => simp [firstNanIdx, F.isNan, ih]

theorem pyMax_fin (x : Rat) (xs : List Rat) : pyMax ((x :: xs).map F.fin) = .ok (.fin (maxQ x xs)) := by
  simp only [List.map_cons, pyMax, maxQ]
  rw [pyMaxScan_fin x xs 0 1]

theorem npArgmax_fin (x : Rat) (xs : List Rat) : npArgmax ((x :: xs).map F.fin) = argmaxQ x xs := by
  unfold npArgmax
  rw [firstNanIdx_fin]
  simp only [List.map_cons, argmaxQ]
  rw [argmaxScan_fin]

/-- what the tolerance tests compute on finite values with `m < M` -/
def tolB (M m : Rat) (ta tr : Option Rat) : Bool :=
  (match ta with
   | some a => decide (M - m < a)
   | none => false) ||
  (match tr with
   | some r => decide (m ≠ 0) && decide ((M - m) / absQ m * 100 < r)
   | none => false)

theorem absQ_eq_zero {m : Rat} : absQ m = 0 ↔ m = 0 := by
  unfold absQ; split <;> grind

theorem noChangeTail_fin (flv : Flavour) (M m : Rat) (hlt : m < M) (n : Option Nat) (ta tr : Option Rat) :
    noChangeTail flv (.fin M) (.fin m) { n := n, tolAbs := ta.map F.fin, tolRel := tr.map F.fin } = .ok (tolB M m ta tr) := by
  have hsub1 : F.abs (F.sub (.fin m) (.fin M)) = .fin (M - m) := by
    simp only [F.sub, F.neg, F.add, F.abs, absQ]
    congr 1
    split <;> grind
  have hsub2 : F.sub (.fin M) (.fin m) = .fin (M - m) := by
    simp only [F.sub, F.neg, F.add]; congr 1; grind
  have habs : F.abs (.fin m) = .fin (absQ m) := rfl
  have h100 : F.ofInt 100 = .fin 100 := by simp [F.ofInt]
  unfold noChangeTail tolB
  cases ta with
  | some a =>
    simp only [Option.map_some, hsub1, F.lt]
    by_cases hA : M - m < a
    · simp [hA, pure, Except.pure]
    · simp only [hA, decide_false, Bool.false_or]
      cases tr with
      | none => simp [pure, Except.pure]
      | some r =>
        simp only [Option.map_some, habs, F.beq, F.zero]
        by_cases hz : m = 0
        · subst hz
          have h0 : absQ (0 : Rat) = 0 := by simp [absQ]
          simp [h0, pure, Except.pure]
        · have hne : ¬ absQ m = 0 := fun h => hz (absQ_eq_zero.mp h)
          simp [hne, hz, hsub2, F.div, F.mul, h100, F.lt, bind, Except.bind, pure, Except.pure]
  | none =>
    simp only [Option.map_none]
    cases tr with
    | none => simp [pure, Except.pure]
    | some r =>
      simp only [Option.map_some, habs, F.beq, F.zero]
      by_cases hz : m = 0
      · subst hz
        have h0 : absQ (0 : Rat) = 0 := by simp [absQ]
        simp [h0, pure, Except.pure]
      · have hne : ¬ absQ m = 0 := fun h => hz (absQ_eq_zero.mp h)
        simp [hne, hz, hsub2, F.div, F.mul, h100, F.lt, bind, Except.bind, pure, Except.pure]

end GFO
