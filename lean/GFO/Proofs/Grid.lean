/-
  Arithmetic of grid search: both mixed-radix decoders are injective on [0,|S|) and land in the box, the orthogonal
  pointer and the diagonal pointer machine have closed forms, and both enumerate Z/|S| when step_size divides |S|.
-/
import GFO.Model.Grid
import Mathlib.Tactic.Ring
import Mathlib.Tactic.Linarith
import Mathlib.Data.Nat.ModEq
import Mathlib.Data.Nat.GCD.Basic
namespace GFO

theorem prodN_pos (ds : List Nat) (h : ∀ d ∈ ds, 0 < d) : 0 < prodN ds := by
  induction ds with
  | nil => simp [prodN]
  | cons d ds ih =>
    simp only [prodN]
    exact Nat.mul_pos (h d (by simp)) (ih (fun x hx => h x (by simp [hx])))

/-! ### decoders -/

theorem decodeDiag_inBox (ds : List Nat) (h : ∀ d ∈ ds, 0 < d) (p : Nat) (hp : p < prodN ds) :
    inBoxN ds (decodeDiag ds p) = true := by
  induction ds generalizing p with
  | nil => simp [decodeDiag, inBoxN]
  | cons d ds ih =>
    cases ds with
    | nil => simp [decodeDiag, inBoxN, prodN] at *; exact hp
    | cons d' ds' =>
      simp only [decodeDiag, inBoxN, Bool.and_eq_true, decide_eq_true_eq]
      have hpos : 0 < prodN (d' :: ds') := prodN_pos _ (fun x hx => h x (by simp [hx]))
      refine ⟨Nat.mod_lt _ (h d (by simp)), ?_⟩
      exact ih (fun x hx => h x (by simp [hx])) _ (Nat.mod_lt _ hpos)

theorem decodeDiag_inj (ds : List Nat) (h : ∀ d ∈ ds, 0 < d) (p q : Nat)
    (hp : p < prodN ds) (hq : q < prodN ds) (e : decodeDiag ds p = decodeDiag ds q) : p = q := by
  induction ds generalizing p q with
  | nil => simp [prodN] at hp hq; omega
  | cons d ds ih =>
    cases ds with
    | nil => simpa [decodeDiag] using e
    | cons d' ds' =>
      simp only [decodeDiag, List.cons.injEq] at e
      obtain ⟨e1, e2⟩ := e
      have hpos : 0 < prodN (d' :: ds') := prodN_pos _ (fun x hx => h x (by simp [hx]))
      have hpR : p / prodN (d' :: ds') < d := by
        apply Nat.div_lt_of_lt_mul; simp only [prodN] at hp ⊢; rw [Nat.mul_comm]; exact hp
      have hqR : q / prodN (d' :: ds') < d := by
        apply Nat.div_lt_of_lt_mul; simp only [prodN] at hq ⊢; rw [Nat.mul_comm]; exact hq
      rw [Nat.mod_eq_of_lt hpR, Nat.mod_eq_of_lt hqR] at e1
      have e3 := ih (fun x hx => h x (by simp [hx])) _ _ (Nat.mod_lt _ hpos) (Nat.mod_lt _ hpos) e2
      have a := Nat.div_add_mod p (prodN (d' :: ds'))
      have b := Nat.div_add_mod q (prodN (d' :: ds'))
      rw [← a, ← b, e1, e3]

theorem decodeOrth_inBox (ds : List Nat) (h : ∀ d ∈ ds, 0 < d) (p : Nat) : inBoxN ds (decodeOrth ds p) = true := by
  induction ds generalizing p with
  | nil => simp [decodeOrth, inBoxN]
  | cons d ds ih =>
    simp only [decodeOrth, inBoxN, Bool.and_eq_true, decide_eq_true_eq]
    exact ⟨Nat.mod_lt _ (h d (by simp)), ih (fun x hx => h x (by simp [hx])) _⟩

theorem decodeOrth_inj (ds : List Nat) (h : ∀ d ∈ ds, 0 < d) (p q : Nat)
    (hp : p < prodN ds) (hq : q < prodN ds) (e : decodeOrth ds p = decodeOrth ds q) : p = q := by
  induction ds generalizing p q with
  | nil => simp [prodN] at hp hq; omega
  | cons d ds ih =>
    simp only [decodeOrth, List.cons.injEq] at e
    obtain ⟨e1, e2⟩ := e
    have hp' : p / d < prodN ds := by
      apply Nat.div_lt_of_lt_mul; simpa [prodN] using hp
    have hq' : q / d < prodN ds := by
      apply Nat.div_lt_of_lt_mul; simpa [prodN] using hq
    have e3 := ih (fun x hx => h x (by simp [hx])) _ _ hp' hq' e2
    have a := Nat.div_add_mod p d
    have b := Nat.div_add_mod q d
    rw [← a, ← b, e1, e3]

/-- the orthogonal decoder only sees its argument modulo |S| -/
theorem decodeOrth_mod (ds : List Nat) (h : ∀ d ∈ ds, 0 < d) (p : Nat) :
    decodeOrth ds (p % prodN ds) = decodeOrth ds p := by
  induction ds generalizing p with
  | nil => simp [decodeOrth]
  | cons d ds ih =>
    have hd : 0 < d := h d (by simp)
    simp only [decodeOrth, prodN, List.cons.injEq]
    constructor
    · exact Nat.mod_mul_right_mod p d (prodN ds)
    · rw [← ih (fun x hx => h x (by simp [hx])) (p / d)]
      congr 1
      rw [Nat.mod_mul_right_div_self]

/-! ### get_direction -/

theorem getDirection_spec (S : Nat) (hS : 0 < S) (start : Nat) (h1 : 1 ≤ start) :
    1 ≤ getDirection S start ∧ getDirection S start ≤ start ∧ Nat.Coprime (getDirection S start) S := by
  induction start with
  | zero => omega
  | succ d ih =>
    simp only [getDirection]
    split
    · rename_i hg
      exact ⟨by omega, Nat.le_refl _, by rw [Nat.Coprime, Nat.gcd_comm]; exact hg⟩
    · rename_i hg
      have hd : 1 ≤ d := by
        rcases Nat.eq_zero_or_pos d with h0 | h0
        · subst h0; simp at hg
        · exact h0
      obtain ⟨a, b, c⟩ := ih hd
      exact ⟨a, by omega, c⟩

/-! ### orthogonal pointer -/

/-- closed form: with S = s*M, t = r*M + j (j < M, r < s): (t*s + t*s/S) mod S = j*s + r -/
theorem orthRaw_closed (s M r j : Nat) (hs : 0 < s) (hj : j < M) (hr : r < s) :
    orthRaw (s * M) s (r * M + j) % (s * M) = j * s + r := by
  unfold orthRaw
  have hM : 0 < M := Nat.lt_of_le_of_lt (Nat.zero_le _) hj
  have hS : 0 < s * M := Nat.mul_pos hs hM
  have e1 : (r * M + j) * s = j * s + r * (s * M) := by ring
  have hjs : j * s < s * M := by
    calc j * s = s * j := Nat.mul_comm _ _
      _ < s * M := Nat.mul_lt_mul_of_pos_left hj hs
  have hdiv : ((r * M + j) * s) / (s * M) = r := by
    rw [e1, Nat.add_mul_div_right _ _ hS, Nat.div_eq_of_lt hjs, Nat.zero_add]
  rw [hdiv, e1]
  have : j * s + r * (s * M) + r = (j * s + r) + r * (s * M) := by ring
  rw [this, Nat.add_mul_mod_self_right]
  apply Nat.mod_eq_of_lt
  have : (j + 1) * s ≤ M * s := Nat.mul_le_mul_right s hj
  nlinarith [this]

theorem orthRaw_inj (s M : Nat) (hs : 0 < s) (t t' : Nat) (ht : t < s * M) (ht' : t' < s * M)
    (h : orthRaw (s * M) s t % (s * M) = orthRaw (s * M) s t' % (s * M)) : t = t' := by
  have hM : 0 < M := by
    rcases Nat.eq_zero_or_pos M with h0 | h0
    · subst h0; simp at ht
    · exact h0
  have d := Nat.div_add_mod t M
  have d' := Nat.div_add_mod t' M
  have hr : t / M < s := by
    apply Nat.div_lt_of_lt_mul; rw [Nat.mul_comm]; exact ht
  have hr' : t' / M < s := by
    apply Nat.div_lt_of_lt_mul; rw [Nat.mul_comm]; exact ht'
  have hj := Nat.mod_lt t hM
  have hj' := Nat.mod_lt t' hM
  have c := orthRaw_closed s M (t / M) (t % M) hs hj hr
  have c' := orthRaw_closed s M (t' / M) (t' % M) hs hj' hr'
  have e : t / M * M + t % M = t := by rw [Nat.mul_comm]; exact d
  have e' : t' / M * M + t' % M = t' := by rw [Nat.mul_comm]; exact d'
  rw [e] at c; rw [e'] at c'
  rw [c, c'] at h
  have h1 : ((t % M) * s + t / M) % s = ((t' % M) * s + t' / M) % s := by rw [h]
  rw [Nat.mul_add_mod_self_right, Nat.mul_add_mod_self_right, Nat.mod_eq_of_lt hr, Nat.mod_eq_of_lt hr'] at h1
  have h2 : (t % M) * s = (t' % M) * s := by omega
  have h3 : t % M = t' % M := Nat.eq_of_mul_eq_mul_right hs h2
  rw [← e, ← e', h1, h3]

/-! ### diagonal pointer machine -/

theorem passFinished_iff (s M t : Nat) (hs : 0 < s) (hM : 0 < M) :
    passFinished (s * M) s (t + 1) = true ↔ (t + 1) % M = 0 := by
  unfold passFinished
  simp only [Nat.add_sub_cancel, decide_eq_true_eq]
  have a : ((t + 1) * s) / (s * M) = (t + 1) / M := by
    rw [Nat.mul_comm (t + 1) s]; exact Nat.mul_div_mul_left _ _ hs
  have b : (t * s) / (s * M) = t / M := by
    rw [Nat.mul_comm t s]; exact Nat.mul_div_mul_left _ _ hs
  rw [a, b]
  constructor
  · intro h
    by_contra hne
    have hnd : ¬ M ∣ t + 1 := fun hd => hne (Nat.mod_eq_zero_of_dvd hd)
    rw [Nat.succ_div, if_neg hnd] at h
    omega
  · intro h
    have hd : M ∣ t + 1 := Nat.dvd_of_mod_eq_zero h
    rw [Nat.succ_div, if_pos hd]; omega

/-- closed form of the pointer: at t = r*M + j (j < M, r < s) it is (r + j*s*d) mod S -/
theorem diagPtr_closed (s M d : Nat) (hs : 0 < s) (hM : 0 < M) :
    ∀ t r j, t = r * M + j → j < M → r < s → diagPtr (s * M) s d t = (r + j * (s * d)) % (s * M) := by
  intro t
  induction t with
  | zero =>
    intro r j h hj hr
    have hj0 : j = 0 := by omega
    have hr0 : r * M = 0 := by omega
    have : r = 0 := by
      rcases Nat.mul_eq_zero.mp hr0 with h | h
      · exact h
      · omega
    subst this; subst hj0; simp [diagPtr]
  | succ t ih =>
    intro r j h hj hr
    simp only [diagPtr]
    by_cases hb : passFinished (s * M) s (t + 1) = true
    · rw [if_pos hb]
      have hmod := (passFinished_iff s M t hs hM).mp hb
      have hj0 : j = 0 := by
        have : (r * M + j) % M = 0 := by rw [← h]; exact hmod
        rw [Nat.mul_comm, Nat.mul_add_mod, Nat.mod_eq_of_lt hj] at this; exact this
      subst hj0
      have hr1 : 1 ≤ r := by
        rcases Nat.eq_zero_or_pos r with h0 | h0
        · subst h0; simp at h
        · exact h0
      have hprev : t = (r - 1) * M + (M - 1) := by
        have : r * M = (r - 1) * M + M := by
          conv_lhs => rw [show r = (r - 1) + 1 by omega]
          ring
        omega
      have := ih (r - 1) (M - 1) hprev (by omega) (by omega)
      rw [this]
      have hdvd : s ∣ s * M := Dvd.intro _ rfl
      rw [Nat.mod_mod_of_dvd _ hdvd]
      have e : (r - 1 + (M - 1) * (s * d)) = (r - 1) + s * ((M - 1) * d) := by ring
      rw [e, Nat.add_mul_mod_self_left, Nat.mod_eq_of_lt (by omega : r - 1 < s)]
      simp only [Nat.zero_mul, Nat.add_zero]
      have hlt : r < s * M := by nlinarith
      rw [Nat.mod_eq_of_lt hlt]; omega
    · rw [if_neg hb]
      have hmod : (t + 1) % M ≠ 0 := fun h0 => hb ((passFinished_iff s M t hs hM).mpr h0)
      have hj1 : 1 ≤ j := by
        rcases Nat.eq_zero_or_pos j with h0 | h0
        · subst h0; exfalso; apply hmod; rw [h]; simp
        · exact h0
      have hprev : t = r * M + (j - 1) := by omega
      have := ih r (j - 1) hprev (by omega) hr
      rw [this, Nat.mod_add_mod]
      congr 1
      have : j = (j - 1) + 1 := by omega
      conv_rhs => rw [this]
      ring

/-- distinct (r,j) give distinct pointers when gcd(d, S) = 1 -/
theorem diag_closed_inj (s M d : Nat) (hs : 0 < s) (hM : 0 < M) (hc : Nat.Coprime d (s * M))
    (r j r' j' : Nat) (hr : r < s) (hr' : r' < s) (hj : j < M) (hj' : j' < M)
    (h : (r + j * (s * d)) % (s * M) = (r' + j' * (s * d)) % (s * M)) : r = r' ∧ j = j' := by
  have hdvd : s ∣ s * M := Dvd.intro _ rfl
  have h1 : ((r + j * (s * d)) % (s * M)) % s = ((r' + j' * (s * d)) % (s * M)) % s := by rw [h]
  rw [Nat.mod_mod_of_dvd _ hdvd, Nat.mod_mod_of_dvd _ hdvd] at h1
  have e1 : r + j * (s * d) = r + s * (j * d) := by ring
  have e2 : r' + j' * (s * d) = r' + s * (j' * d) := by ring
  rw [e1, e2, Nat.add_mul_mod_self_left, Nat.add_mul_mod_self_left,
      Nat.mod_eq_of_lt hr, Nat.mod_eq_of_lt hr'] at h1
  subst h1
  refine ⟨rfl, ?_⟩
  have h2 : r + j * (s * d) ≡ r + j' * (s * d) [MOD s * M] := h
  have h3 : j * (s * d) ≡ j' * (s * d) [MOD s * M] := Nat.ModEq.add_left_cancel' r h2
  have h4 : s * (j * d) ≡ s * (j' * d) [MOD s * M] := by
    have a : j * (s * d) = s * (j * d) := by ring
    have b : j' * (s * d) = s * (j' * d) := by ring
    rw [a, b] at h3; exact h3
  have h5 : j * d ≡ j' * d [MOD M] := Nat.ModEq.mul_left_cancel' (Nat.pos_iff_ne_zero.mp hs) h4
  have hcM : Nat.Coprime d M := Nat.Coprime.coprime_dvd_right (Dvd.intro_left _ rfl) hc
  have h6 : j ≡ j' [MOD M] :=
    Nat.ModEq.cancel_right_of_coprime (by simpa [Nat.coprime_comm] using hcM.symm) h5
  exact Nat.ModEq.eq_of_lt_of_lt h6 hj hj'

theorem diagPtr_lt (s M d : Nat) (hs : 0 < s) (hM : 0 < M) (t : Nat) (ht : t < s * M) : diagPtr (s * M) s d t < s * M := by
  have hr : t / M < s := by apply Nat.div_lt_of_lt_mul; rw [Nat.mul_comm]; exact ht
  have e : t = t / M * M + t % M := by have := Nat.div_add_mod t M; rw [Nat.mul_comm] at this; omega
  rw [diagPtr_closed s M d hs hM t (t / M) (t % M) e (Nat.mod_lt _ hM) hr]
  exact Nat.mod_lt _ (Nat.mul_pos hs hM)

theorem diagPtr_inj (s M d : Nat) (hs : 0 < s) (hM : 0 < M) (hc : Nat.Coprime d (s * M))
    (t t' : Nat) (ht : t < s * M) (ht' : t' < s * M) (h : diagPtr (s * M) s d t = diagPtr (s * M) s d t') : t = t' := by
  have hr : t / M < s := by apply Nat.div_lt_of_lt_mul; rw [Nat.mul_comm]; exact ht
  have hr' : t' / M < s := by apply Nat.div_lt_of_lt_mul; rw [Nat.mul_comm]; exact ht'
  have e : t = t / M * M + t % M := by have := Nat.div_add_mod t M; rw [Nat.mul_comm] at this; omega
  have e' : t' = t' / M * M + t' % M := by have := Nat.div_add_mod t' M; rw [Nat.mul_comm] at this; omega
  rw [diagPtr_closed s M d hs hM t (t / M) (t % M) e (Nat.mod_lt _ hM) hr,
      diagPtr_closed s M d hs hM t' (t' / M) (t' % M) e' (Nat.mod_lt _ hM) hr'] at h
  obtain ⟨h1, h2⟩ := diag_closed_inj s M d hs hM hc _ _ _ _ hr hr' (Nat.mod_lt _ hM) (Nat.mod_lt _ hM) h
  rw [e, e', h1, h2]

end GFO
