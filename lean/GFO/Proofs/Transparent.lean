/-
  Memory transparency as a simulation: a call with `memory=True` (fresh dictionary) and the same call with
  `memory=False` evolve in lock step - same backend state, same rows, positions, scores, progress bar - for every backend,
  every deterministic objective and every well-formed space, as long as `max_time` is not set (a cache hit takes no
  time, so the clock - and only the clock, the call counter and the timing lists - may differ).
-/
import GFO.Proofs.Memory
namespace GFO
variable {σ : Type}

/-- forget what legitimately differs between the two runs: clock, call counter, timing lists -/
def projD (d : DState σ) : DState σ := { d with nCalls := 0, clock := 0, evalT := [], iterT := [] }
/-- … and the cache itself, its call log, the start time -/
def projC (cs : CState) : CState := { cs with mem := [], calls := [], fresh := [], stop := { cs.stop with startTime := 0 } }

def memOn (c : Call) : Call := { c with memory := .fresh, warm := none }
def memOff (c : Call) : Call := { c with memory := .off, warm := none }

theorem evalAt_on_total {sp : Space} {obj : Obj} {od : Value → Res} {c : Call} {nCalls nRows : Nat}
    {mem : Dict Res} {calls : List Pos} {p : Pos} {v : Value}
    (hwf : sp.WF) (hdet : Det obj od) (hmem : c.memory ≠ .off) (hok : MemOk od sp mem) (hv : position2value sp.dims p = .ok v) :
    ∃ e, evalAt sp obj c nCalls nRows mem calls v = .ok e ∧ e.res = od v ∧ MemOk od sp e.mem := by
  have hmw := position2value_memberwise sp.dims p v hv
  obtain ⟨k, hk, hbox, hback⟩ := key_of_memberwise sp.dims v hmw
  have hlen' : v.length = sp.names.length := by rw [memberwise_length sp.dims v hmw, hwf.1]
  have hpv := para2value_value2para sp.names hwf.2.1 v hlen'
  cases hget : mem.get? (k.map Int.ofNat) with
  | some res =>
    refine ⟨{ res := res, dur := 0, fresh := false, mem := mem, calls := calls }, ?_, ?_, hok⟩
    · unfold evalAt
      simp only [hmem, if_false, hpv, hk, bind, Except.bind, pure, Except.pure, hget]
    · obtain ⟨v', _, hv', hres⟩ := hok _ res hget
      rw [hback] at hv'; cases hv'; exact hres
  | none =>
    let r := obj nCalls nRows v
    let e : Eval := { res := r.1, dur := r.2, fresh := true, mem := Dict.set mem (k.map Int.ofNat) r.1, calls := calls ++ [k.map Int.ofNat] }
    have he : evalAt sp obj c nCalls nRows mem calls v = .ok e := by
      unfold evalAt
      simp only [hmem, if_false, hpv, hk, bind, Except.bind, pure, Except.pure, hget]
      rfl
    obtain ⟨h1, h2, _⟩ := evalAt_memory hwf hdet hmem hok hv he
    exact ⟨e, he, h1, h2⟩

theorem evalAt_off_total {sp : Space} {obj : Obj} {od : Value → Res} {c : Call} {nCalls nRows : Nat}
    {mem : Dict Res} {calls : List Pos} {v : Value} (hdet : Det obj od) (hmem : c.memory = .off) :
    ∃ e, evalAt sp obj c nCalls nRows mem calls v = .ok e ∧ e.res = od v := by
  refine ⟨{ res := (obj nCalls nRows v).1, dur := (obj nCalls nRows v).2, fresh := true, mem := mem, calls := calls }, ?_, hdet _ _ _⟩
  unfold evalAt
  simp [hmem, pure, Except.pure]

/-- the pair of states the two runs are in -/
structure Sim (od : Value → Res) (sp : Space) (d1 d2 : DState σ) (cs1 cs2 : CState) : Prop where
  d : projD d1 = projD d2
  cs : projC cs1 = projC cs2
  ok : MemOk od sp cs1.mem

/-- result of a step function, projected -/
def projR (r : Except Err (DState σ × CState)) : Except Err (DState σ × CState) :=
  match r with
  | .ok (d, cs) => .ok (projD d, projC cs)
  | .error e => .error e

theorem projD_fields {d1 d2 : DState σ} (h : projD d1 = projD d2) :
    d1.nInits = d2.nInits ∧ d1.rows = d2.rows ∧ d1.posL = d2.posL ∧ d1.scoreL = d2.scoreL ∧ d1.nInitTotal = d2.nInitTotal ∧
    d1.nIterTotal = d2.nIterTotal ∧ d1.shared = d2.shared ∧ d1.trace = d2.trace ∧ d1.bst = d2.bst := by
  unfold projD at h
  cases d1; cases d2
  simp only [DState.mk.injEq] at h
  simp_all

theorem projC_fields {c1 c2 : CState} (h : projC c1 = projC c2) :
    c1.pbar = c2.pbar ∧ c1.nInitSearch = c2.nInitSearch ∧ c1.nIterSearch = c2.nIterSearch ∧ c1.nInitsNorm = c2.nInitsNorm ∧
    c1.stop.maxTime = c2.stop.maxTime ∧ c1.stop.maxScore = c2.stop.maxScore ∧ c1.stop.early = c2.stop.early := by
  unfold projC at h
  cases c1; cases c2
  rename_i s1 _ _ _ _ _ _ _ s2 _ _ _ _ _ _ _
  cases s1; cases s2
  simp only [CState.mk.injEq, StopCfg.mk.injEq] at h
  simp_all

/-- one `_score` evaluation keeps the simulation and yields the same score -/
theorem scoreStep_sim {sp : Space} {obj : Obj} {od : Value → Res} {c : Call} {d1 d2 : DState σ} {cs1 cs2 : CState} (pos : Pos)
    (hwf : sp.WF) (hdet : Det obj od) (S : Sim od sp d1 d2 cs1 cs2) :
    (∃ e, scoreStep sp obj (memOn c) d1 cs1 pos = .error e ∧ scoreStep sp obj (memOff c) d2 cs2 pos = .error e) ∨
    (∃ s d1' cs1' d2' cs2', scoreStep sp obj (memOn c) d1 cs1 pos = .ok (s, d1', cs1') ∧
      scoreStep sp obj (memOff c) d2 cs2 pos = .ok (s, d2', cs2') ∧ Sim od sp d1' d2' cs1' cs2' ∧
      d1'.bst = d1.bst ∧ d2'.bst = d2.bst ∧ d1'.trace = d1.trace ∧ d2'.trace = d2.trace) := by
  unfold scoreStep
  simp only [bind, Except.bind, pure, Except.pure]
  cases hv : position2value sp.dims pos with
  | error e => left; exact ⟨e, rfl, rfl⟩
  | ok v =>
    right
    have hon : (memOn c).memory ≠ .off := by simp [memOn]
    have hoff : (memOff c).memory = .off := rfl
    obtain ⟨e1, he1, hr1, hok1⟩ := evalAt_on_total (nCalls := d1.nCalls) (nRows := d1.rows.length) (calls := cs1.calls) hwf hdet hon S.ok hv
    obtain ⟨e2, he2, hr2⟩ := evalAt_off_total (sp := sp) (nCalls := d2.nCalls) (nRows := d2.rows.length) (mem := cs2.mem) (calls := cs2.calls) (v := v) hdet hoff
    simp only [he1, he2]
    refine ⟨e1.res.score, (afterEval sp d1 cs1 v e1).1, (afterEval sp d1 cs1 v e1).2, (afterEval sp d2 cs2 v e2).1, (afterEval sp d2 cs2 v e2).2,
      rfl, by rw [hr1, hr2], ?_, rfl, rfl, rfl, rfl⟩
    obtain ⟨_, hrows, _⟩ := projD_fields S.d
    have hd := S.d
    have hc := S.cs
    refine { d := ?_, cs := ?_, ok := hok1 }
    · unfold afterEval projD at *
      cases d1; cases d2
      simp only [DState.mk.injEq] at hd ⊢
      simp_all
    · unfold afterEval projC at *
      cases cs1; cases cs2
      rename_i s1 _ _ _ _ _ _ _ s2 _ _ _ _ _ _ _
      cases s1; cases s2
      simp only [CState.mk.injEq, StopCfg.mk.injEq] at hc ⊢
      simp_all

/-- both runs fail alike, or both succeed into simulating states -/
def SimR (od : Value → Res) (sp : Space) (r1 r2 : Except Err (DState σ × CState)) : Prop :=
  (∃ e, r1 = .error e ∧ r2 = .error e) ∨
  (∃ d1' cs1' d2' cs2', r1 = .ok (d1', cs1') ∧ r2 = .ok (d2', cs2') ∧ Sim od sp d1' d2' cs1' cs2')

theorem Sim.setBst {od : Value → Res} {sp : Space} {d1 d2 : DState σ} {cs1 cs2 : CState} (S : Sim od sp d1 d2 cs1 cs2)
    (x : σ) (ev : List Ev) :
    Sim od sp { d1 with bst := x, trace := d1.trace ++ ev } { d2 with bst := x, trace := d2.trace ++ ev } cs1 cs2 := by
  obtain ⟨_, _, _, _, _, _, _, htr, _⟩ := projD_fields S.d
  have hd := S.d
  refine { d := ?_, cs := S.cs, ok := S.ok }
  unfold projD at *
  cases d1; cases d2
  simp only [DState.mk.injEq] at hd ⊢
  simp_all

theorem projC_update {c1 c2 : CState} (h : projC c1 = projC c2) (f : PBar → PBar) (a b' : Nat) :
    projC { c1 with pbar := f c1.pbar, nInitSearch := c1.nInitSearch + a, nIterSearch := c1.nIterSearch + b' } =
    projC { c2 with pbar := f c2.pbar, nInitSearch := c2.nInitSearch + a, nIterSearch := c2.nIterSearch + b' } := by
  obtain ⟨h1, h2, h3, h4, h5, h6, h7⟩ := projC_fields h
  unfold projC
  simp only [CState.mk.injEq, StopCfg.mk.injEq]
  refine ⟨⟨trivial, h5, h6, h7⟩, by rw [h1], trivial, by rw [h2], by rw [h3], h4, trivial, trivial⟩

theorem projD_update {d1 d2 : DState σ} (h : projD d1 = projD d2) (x : σ) (ev : List Ev) (p : Pos) (s : F) (a b' : Nat) (t1 t2 : List Rat) :
    projD { d1 with bst := x, trace := d1.trace ++ ev, posL := d1.posL ++ [p], scoreL := d1.scoreL ++ [s],
                    nInitTotal := d1.nInitTotal + a, nIterTotal := d1.nIterTotal + b', iterT := t1 } =
    projD { d2 with bst := x, trace := d2.trace ++ ev, posL := d2.posL ++ [p], scoreL := d2.scoreL ++ [s],
                    nInitTotal := d2.nInitTotal + a, nIterTotal := d2.nIterTotal + b', iterT := t2 } := by
  obtain ⟨h1, h2, h3, h4, h5, h6, h7, h8, _⟩ := projD_fields h
  unfold projD
  simp only [DState.mk.injEq]
  refine ⟨h1, h2, by rw [h3], by rw [h4], by rw [h5], by rw [h6], trivial, trivial, trivial, trivial, h7, by rw [h8], trivial⟩

theorem initialization_sim {b : Backend σ} {sp : Space} {obj : Obj} {od : Value → Res} {c : Call} (i : Nat)
    {d1 d2 : DState σ} {cs1 cs2 : CState} (hwf : sp.WF) (hdet : Det obj od) (S : Sim od sp d1 d2 cs1 cs2) :
    SimR od sp (initialization b sp obj (memOn c) i d1 cs1) (initialization b sp obj (memOff c) i d2 cs2) := by
  obtain ⟨_, _, _, _, _, _, _, _, hbst⟩ := projD_fields S.d
  unfold initialization
  simp only [bind, Except.bind, pure, Except.pure]
  rw [← hbst]
  cases hi : b.initPos d1.bst with
  | error e => left; exact ⟨e, rfl, rfl⟩
  | ok x =>
    obtain ⟨pos, bst1⟩ := x
    simp only
    have S1 := S.setBst bst1 [Ev.initPos pos]
    rcases scoreStep_sim (c := c) pos hwf hdet S1 with ⟨e, h1, h2⟩ | ⟨s, d1', cs1', d2', cs2', h1, h2, S2, hb1, hb2, ht1, ht2⟩
    · left; rw [h1, h2]; exact ⟨e, rfl, rfl⟩
    · rw [h1, h2]
      simp only
      rw [hb1, hb2]
      simp only
      cases he : b.evalInit bst1 s with
      | error e => left; exact ⟨e, rfl, rfl⟩
      | ok bst3 =>
        right
        refine ⟨_, _, _, _, rfl, rfl, ?_⟩
        refine { d := ?_, cs := ?_, ok := S2.ok }
        · have := projD_update S2.d bst3 [Ev.evalInit s] pos s 1 0
            (d1'.iterT ++ [d1'.clock - d1.clock]) (d2'.iterT ++ [d2'.clock - d2.clock])
          simpa using this
        · have := projC_update S2.cs (fun pb => pbarUpdate (memOn c) pb s pos i) 1 0
          exact this

theorem iteration_sim {b : Backend σ} {sp : Space} {obj : Obj} {od : Value → Res} {c : Call} (i : Nat)
    {d1 d2 : DState σ} {cs1 cs2 : CState} (hwf : sp.WF) (hdet : Det obj od) (S : Sim od sp d1 d2 cs1 cs2) :
    SimR od sp (iteration b sp obj (memOn c) i d1 cs1) (iteration b sp obj (memOff c) i d2 cs2) := by
  obtain ⟨_, _, _, _, _, _, _, _, hbst⟩ := projD_fields S.d
  unfold iteration
  simp only [bind, Except.bind, pure, Except.pure]
  rw [← hbst]
  cases hi : b.iterate d1.bst with
  | error e => left; exact ⟨e, rfl, rfl⟩
  | ok x =>
    obtain ⟨pos, bst1⟩ := x
    simp only
    have S1 := S.setBst bst1 [Ev.iterate pos]
    rcases scoreStep_sim (c := c) pos hwf hdet S1 with ⟨e, h1, h2⟩ | ⟨s, d1', cs1', d2', cs2', h1, h2, S2, hb1, hb2, ht1, ht2⟩
    · left; rw [h1, h2]; exact ⟨e, rfl, rfl⟩
    · rw [h1, h2]
      simp only
      rw [hb1, hb2]
      simp only
      cases he : b.evaluate bst1 s with
      | error e => left; exact ⟨e, rfl, rfl⟩
      | ok bst3 =>
        right
        refine ⟨_, _, _, _, rfl, rfl, ?_⟩
        refine { d := ?_, cs := ?_, ok := S2.ok }
        · have := projD_update S2.d bst3 [Ev.evaluate s] pos s 0 1
            (d1'.iterT ++ [d1'.clock - d1.clock]) (d2'.iterT ++ [d2'.clock - d2.clock])
          simpa using this
        · have := projC_update S2.cs (fun pb => pbarUpdate (memOn c) pb s pos i) 0 1
          exact this

theorem scoreStep_stop {sp : Space} {obj : Obj} {c : Call} {d : DState σ} {cs : CState} {pos : Pos} {s : F} {d' : DState σ} {cs' : CState}
    (h : scoreStep sp obj c d cs pos = .ok (s, d', cs')) : cs'.stop = cs.stop := by
  obtain ⟨v, e, _, _, _, hp⟩ := scoreStep_ok h
  simp only [afterEval, Prod.mk.injEq] at hp
  rw [hp.2]

theorem searchStep_stop_maxTime {b : Backend σ} {sp : Space} {obj : Obj} {c : Call} {i : Nat} {d d' : DState σ} {cs cs' : CState}
    (h : searchStep b sp obj c i d cs = .ok (d', cs')) : cs'.stop.maxTime = cs.stop.maxTime := by
  have hinit : ∀ (d0 : DState σ) (c0 : CState) d1 c1, initialization b sp obj c i d0 c0 = .ok (d1, c1) → c1.stop = c0.stop := by
    intro d0 c0 d1 c1 h0
    obtain ⟨_, _, _, f, _⟩ := initialization_ok h0
    exact f.stop
  have hiter : ∀ (d0 : DState σ) (c0 : CState) d1 c1, iteration b sp obj c i d0 c0 = .ok (d1, c1) → c1.stop = c0.stop := by
    intro d0 c0 d1 c1 h0
    obtain ⟨_, _, _, f, _⟩ := iteration_ok h0
    exact f.stop
  have htail : ∀ (d0 : DState σ) (c0 : CState) d1 c1, stepTail b sp obj c i d0 c0 = .ok (d1, c1) → c1.stop = c0.stop := by
    intro d0 c0 d1 c1 h0
    unfold stepTail at h0
    simp only [bind, Except.bind, pure, Except.pure] at h0
    by_cases heq : i = c0.nInitSearch
    · simp only [if_pos heq] at h0
      cases hf : b.finishInit d0.bst with
      | error e => simp [hf] at h0
      | ok bst =>
        simp only [hf] at h0
        split at h0
        · exact hiter _ _ _ _ h0
        · simp only [Except.ok.injEq, Prod.mk.injEq] at h0; rw [← h0.2]
    · simp only [if_neg heq] at h0
      split at h0
      · exact hiter _ _ _ _ h0
      · simp only [Except.ok.injEq, Prod.mk.injEq] at h0; rw [← h0.2]
  unfold searchStep at h
  simp only [bind, Except.bind, pure, Except.pure] at h
  by_cases hlt : i < cs.nInitsNorm
  · simp only [if_pos hlt] at h
    cases h1 : initialization b sp obj c i d cs with
    | error e => simp [h1] at h
    | ok x =>
      obtain ⟨d1, c1⟩ := x
      simp only [h1] at h
      rw [htail _ _ _ _ h, hinit _ _ _ _ h1]
  · simp only [if_neg hlt] at h
    rw [htail _ _ _ _ h]

theorem stepTail_sim {b : Backend σ} {sp : Space} {obj : Obj} {od : Value → Res} {c : Call} (i : Nat)
    {d1 d2 : DState σ} {cs1 cs2 : CState} (hwf : sp.WF) (hdet : Det obj od) (S : Sim od sp d1 d2 cs1 cs2) :
    SimR od sp (stepTail b sp obj (memOn c) i d1 cs1) (stepTail b sp obj (memOff c) i d2 cs2) := by
  obtain ⟨_, _, _, _, _, _, _, _, hbst⟩ := projD_fields S.d
  obtain ⟨_, hnis, _⟩ := projC_fields S.cs
  unfold stepTail
  simp only [bind, Except.bind, pure, Except.pure]
  have hn : (memOn c).nIter = (memOff c).nIter := rfl
  rw [← hnis, ← hbst, hn]
  by_cases heq : i = cs1.nInitSearch
  · simp only [if_pos heq]
    cases hf : b.finishInit d1.bst with
    | error e => left; exact ⟨e, rfl, rfl⟩
    | ok bst =>
      simp only
      have S1 := S.setBst bst [Ev.finishInit]
      split
      · exact iteration_sim i hwf hdet S1
      · right; exact ⟨_, _, _, _, rfl, rfl, S1⟩
  · simp only [if_neg heq]
    split
    · exact iteration_sim i hwf hdet S
    · right; exact ⟨_, _, _, _, rfl, rfl, S⟩

theorem searchStep_sim {b : Backend σ} {sp : Space} {obj : Obj} {od : Value → Res} {c : Call} (i : Nat)
    {d1 d2 : DState σ} {cs1 cs2 : CState} (hwf : sp.WF) (hdet : Det obj od) (S : Sim od sp d1 d2 cs1 cs2) :
    SimR od sp (searchStep b sp obj (memOn c) i d1 cs1) (searchStep b sp obj (memOff c) i d2 cs2) := by
  obtain ⟨_, _, _, hnorm, _⟩ := projC_fields S.cs
  unfold searchStep
  simp only [bind, Except.bind, pure, Except.pure]
  rw [← hnorm]
  by_cases hlt : i < cs1.nInitsNorm
  · simp only [if_pos hlt]
    rcases initialization_sim (b := b) (c := c) i hwf hdet S with ⟨e, h1, h2⟩ | ⟨d1', cs1', d2', cs2', h1, h2, S1⟩
    · left; rw [h1, h2]; exact ⟨e, rfl, rfl⟩
    · rw [h1, h2]; exact stepTail_sim i hwf hdet S1
  · simp only [if_neg hlt]
    exact stepTail_sim i hwf hdet S

/-- the stop check reads the running best, the score list and the criteria - never the clock when `max_time` is None -/
theorem checkStop_sim {od : Value → Res} {sp : Space} {c : Call} {d1 d2 : DState σ} {cs1 cs2 : CState}
    (S : Sim od sp d1 d2 cs1 cs2) (hmt : cs1.stop.maxTime = none) :
    checkStop (memOn c) d1 cs1 = checkStop (memOff c) d2 cs2 := by
  obtain ⟨_, _, _, hsc, _⟩ := projD_fields S.d
  obtain ⟨hpb, _, _, _, h5, h6, h7⟩ := projC_fields S.cs
  unfold checkStop stopCheck
  have hmt2 : cs2.stop.maxTime = none := by rw [← h5]; exact hmt
  have hf : (memOn c).flv = (memOff c).flv := rfl
  simp only [hmt, hmt2, timeExceeded, Bool.false_and, Bool.false_eq_true, if_false]
  rw [← h6, ← h7, ← hpb, ← hsc, hf]

theorem searchLoop_sim {b : Backend σ} {sp : Space} {obj : Obj} {od : Value → Res} {c : Call} (hwf : sp.WF) (hdet : Det obj od) :
    ∀ (fuel i : Nat) (d1 d2 : DState σ) (cs1 cs2 : CState), Sim od sp d1 d2 cs1 cs2 → cs1.stop.maxTime = none →
    (∃ e, searchLoop b sp obj (memOn c) fuel i d1 cs1 = .error e ∧ searchLoop b sp obj (memOff c) fuel i d2 cs2 = .error e) ∨
    (∃ d1' cs1' d2' cs2' k, searchLoop b sp obj (memOn c) fuel i d1 cs1 = .ok (d1', cs1', k) ∧
      searchLoop b sp obj (memOff c) fuel i d2 cs2 = .ok (d2', cs2', k) ∧ Sim od sp d1' d2' cs1' cs2') := by
  intro fuel
  induction fuel with
  | zero => intro i d1 d2 cs1 cs2 S _; right; exact ⟨d1, cs1, d2, cs2, i, rfl, rfl, S⟩
  | succ fuel ih =>
    intro i d1 d2 cs1 cs2 S hmt
    simp only [searchLoop, bind, Except.bind, pure, Except.pure]
    rcases searchStep_sim (b := b) (c := c) i hwf hdet S with ⟨e, h1, h2⟩ | ⟨d1', cs1', d2', cs2', h1, h2, S1⟩
    · left; rw [h1, h2]; exact ⟨e, rfl, rfl⟩
    · rw [h1, h2]
      simp only
      -- the stop configuration does not change along a call
      have hmt1 : cs1'.stop.maxTime = none := by
        rw [searchStep_stop_maxTime h1]; exact hmt
      rw [checkStop_sim (c := c) S1 hmt1]
      cases hc : checkStop (memOff c) d2' cs2' with
      | error e => left; exact ⟨e, rfl, rfl⟩
      | ok stop =>
        cases stop with
        | true => right; exact ⟨d1', cs1', d2', cs2', i + 1, rfl, rfl, S1⟩
        | false => simp only [Bool.false_eq_true, if_false]; exact ih (i + 1) d1' d2' cs1' cs2' S1 hmt1

end GFO
