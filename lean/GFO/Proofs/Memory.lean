/-
  The memory wrapper (`Memory.memory` in _memory.py) as modelled by `evalAt`: dictionary lemmas, the cache
  invariant, and what one evaluation does to it.
-/
import GFO.Proofs.Run
import GFO.Proofs.Converter
namespace GFO
variable {σ : Type}

/-! ### dictionary lemmas -/

theorem Dict.get?_set_self {α : Type} (d : Dict α) (k : Pos) (v : α) : (Dict.set d k v).get? k = some v := by
  induction d with
  | nil => simp [Dict.set, Dict.get?]
  | cons e es ih =>
    obtain ⟨k', v'⟩ := e
    simp only [Dict.set]
    by_cases h : (k' == k) = true
    · simp [h, Dict.get?]
    · simp only [h, Bool.false_eq_true, if_false]
      simp only [Dict.get?, List.find?_cons, h] at ih ⊢
      exact ih

theorem Dict.get?_set_other {α : Type} (d : Dict α) (k k2 : Pos) (v : α) (hne : k ≠ k2) :
    (Dict.set d k v).get? k2 = d.get? k2 := by
  induction d with
  | nil =>
    have : (k == k2) = false := by simp [hne]
    simp [Dict.set, Dict.get?, this]
  | cons e es ih =>
    obtain ⟨k', v'⟩ := e
    simp only [Dict.set]
    by_cases h : (k' == k) = true
    · have hk : k' = k := by simpa using h
      have : (k' == k2) = false := by simp [hk, hne]
      simp [h, Dict.get?, this]
    · simp only [h, Bool.false_eq_true, if_false]
      simp only [Dict.get?, List.find?_cons] at ih ⊢
      by_cases h2 : (k' == k2) = true
      · simp [h2]
      · simp only [h2]; exact ih

theorem Dict.keys_set_of_none {α : Type} (d : Dict α) (k : Pos) (v : α) (h : d.get? k = none) :
    (Dict.set d k v).keys = d.keys ++ [k] := by
  induction d with
  | nil => rfl
  | cons e es ih =>
    obtain ⟨k', v'⟩ := e
    simp only [Dict.get?, List.find?_cons] at h
    by_cases hk : (k' == k) = true
    · simp [hk] at h
    · simp only [hk] at h
      simp only [Dict.set, hk, Bool.false_eq_true, if_false, Dict.keys, List.map_cons, List.cons_append]
      have := ih (by simpa [Dict.get?] using h)
      simp only [Dict.keys] at this
      rw [this]

theorem Dict.get?_none_iff_not_mem {α : Type} (d : Dict α) (k : Pos) : d.get? k = none ↔ k ∉ d.keys := by
  induction d with
  | nil => simp [Dict.get?, Dict.keys]
  | cons e es ih =>
    obtain ⟨k', v'⟩ := e
    simp only [Dict.get?, List.find?_cons, Dict.keys, List.map_cons, List.mem_cons, not_or]
    by_cases hk : (k' == k) = true
    · have : k' = k := by simpa using hk
      simp [hk, this]
    · have hne : ¬ k = k' := by intro e; apply hk; simp [e]
      simp only [hk]
      simp only [Dict.get?, Dict.keys] at ih
      rw [ih]; simp [hne]

/-! ### the cache invariant -/

/-- deterministic objective: the result depends on the parameter values only -/
def Det (obj : Obj) (od : Value → Res) : Prop := ∀ n i v, (obj n i v).1 = od v

/-- the key the memory wrapper computes for a parameter set -/
def keyOf (sp : Space) (v : Value) : Except Err Pos := do
  let v' ← para2value sp.names (value2para sp.names v)
  let k ← value2position sp.dims v'
  pure (k.map Int.ofNat)

/-- every stored result is the objective's result for the values its key decodes to, and keys are positions of the space -/
def MemOk (od : Value → Res) (sp : Space) (mem : Dict Res) : Prop :=
  ∀ k res, mem.get? k = some res → ∃ v, InSpace sp k ∧ position2value sp.dims k = .ok v ∧ res = od v

theorem MemOk.nil (od : Value → Res) (sp : Space) : MemOk od sp [] := by
  intro k res h; simp [Dict.get?] at h

/-- first occurrence: the lookup of a member of the dimension returns an index holding that member -/
theorem argminAbs_mem (d : List Rat) (v : Rat) (hv : v ∈ d) : ∃ hj : argminAbs v d < d.length, d[argminAbs v d] = v := by
  induction d with
  | nil => simp at hv
  | cons x xs ih =>
    by_cases hx : x = v
    · have := argminAbs_first v [] x xs (by intro y hy; simp at hy) hx
      simp only [List.nil_append, List.length_nil] at this
      subst hx
      refine ⟨by rw [this]; simp, ?_⟩
      simp [this]
    · have hv' : v ∈ xs := by
        rcases List.mem_cons.mp hv with h | h
        · exact absurd h.symm hx
        · exact h
      -- split xs at the first occurrence
      obtain ⟨l1, l2, hsplit, hnot⟩ : ∃ l1 l2, xs = l1 ++ v :: l2 ∧ ∀ y ∈ l1, y ≠ v := by
        clear ih hv hx
        induction xs with
        | nil => simp at hv'
        | cons y ys ihy =>
          by_cases hy : y = v
          · exact ⟨[], ys, by simp [hy], by intro z hz; simp at hz⟩
          · have : v ∈ ys := by
              rcases List.mem_cons.mp hv' with h | h
              · exact absurd h.symm hy
              · exact h
            obtain ⟨l1, l2, hs, hn⟩ := ihy this
            exact ⟨y :: l1, l2, by simp [hs], by
              intro z hz
              rcases List.mem_cons.mp hz with e | e
              · subst e; exact hy
              · exact hn z e⟩
      have := argminAbs_first v (x :: l1) v l2 (by
        intro y hy
        rcases List.mem_cons.mp hy with e | e
        · subst e; exact hx
        · exact hnot y e) rfl
      have hcons : x :: xs = (x :: l1) ++ v :: l2 := by simp [hsplit]
      rw [hcons, this]
      refine ⟨by simp, ?_⟩
      simp

/-- `v` holds, per dimension, a member of that dimension's array -/
def MemberWise : List (List Rat) → Value → Prop
  | [], [] => True
  | d :: ds, x :: xs => x ∈ d ∧ MemberWise ds xs
  | _, _ => False

theorem pyIndex_mem {α : Type} (l : List α) (i : Int) (x : α) (h : pyIndex l i = .ok x) : x ∈ l := by
  unfold pyIndex at h
  simp only at h
  by_cases h1 : 0 ≤ i ∧ i < (l.length : Int)
  · rw [if_pos h1] at h
    cases hg : l[i.toNat]? with
    | none => simp [hg] at h
    | some y =>
      simp only [hg, Except.ok.injEq] at h; subst h
      exact List.mem_of_getElem? hg
  · rw [if_neg h1] at h
    by_cases h2 : -(l.length : Int) ≤ i ∧ i < 0
    · rw [if_pos h2] at h
      cases hg : l[(i + (l.length : Int)).toNat]? with
      | none => simp [hg] at h
      | some y =>
        simp only [hg, Except.ok.injEq] at h; subst h
        exact List.mem_of_getElem? hg
    · rw [if_neg h2] at h; simp at h

/-- whatever position indexing succeeds on (Python wrap included), the values are members of the dimensions -/
theorem position2value_memberwise (dims : List (List Rat)) (p : Pos) (v : Value) (h : position2value dims p = .ok v) :
    MemberWise dims v := by
  induction dims generalizing p v with
  | nil => simp [position2value] at h; subst h; trivial
  | cons d ds ih =>
    cases p with
    | nil => simp [position2value] at h
    | cons x xs =>
      simp only [position2value, bind, Except.bind, pure, Except.pure] at h
      split at h
      · simp at h
      · rename_i y hy
        split at h
        · simp at h
        · rename_i ys hys
          simp only [Except.ok.injEq] at h; subst h
          exact ⟨pyIndex_mem d x y hy, ih xs ys hys⟩

theorem memberwise_length (dims : List (List Rat)) (v : Value) (h : MemberWise dims v) : v.length = dims.length := by
  induction dims generalizing v with
  | nil => cases v with
    | nil => rfl
    | cons _ _ => simp [MemberWise] at h
  | cons d ds ih =>
    cases v with
    | nil => simp [MemberWise] at h
    | cons x xs => simp [ih xs h.2]

/-- the key computed for member-wise values is a position of the space that decodes to the same values -/
theorem key_of_memberwise (dims : List (List Rat)) (v : Value) (h : MemberWise dims v) :
    ∃ k, value2position dims v = .ok k ∧
      inBox (dims.map List.length) (k.map Int.ofNat) = true ∧ position2value dims (k.map Int.ofNat) = .ok v := by
  induction dims generalizing v with
  | nil =>
    cases v with
    | nil => exact ⟨[], by simp [value2position], by simp [inBox], by simp [position2value]⟩
    | cons _ _ => simp [MemberWise] at h
  | cons d ds ih =>
    cases v with
    | nil => simp [MemberWise] at h
    | cons x xs =>
      obtain ⟨hx, hrest⟩ := h
      obtain ⟨ks, hks, hbox, hback⟩ := ih xs hrest
      obtain ⟨hj, hget⟩ := argminAbs_mem d x hx
      refine ⟨argminAbs x d :: ks, ?_, ?_, ?_⟩
      · simp [value2position, hks, bind, Except.bind, pure, Except.pure]
      · simp only [List.map_cons, inBox, Bool.and_eq_true, decide_eq_true_eq]
        refine ⟨⟨by simp, by simpa using hj⟩, hbox⟩
      · have hidx2 : pyIndex d ((argminAbs x d : Nat) : Int) = .ok x := by
          obtain ⟨hh2, e2⟩ := pyIndex_inRange d ((argminAbs x d : Nat) : Int) (by simp) (by simpa using hj)
          rw [e2]
          simp only [Int.toNat_natCast]
          rw [hget]
        simp [position2value, hidx2, hback, bind, Except.bind, pure, Except.pure]

/-- what one evaluation through the memory wrapper returns and does to the cache (memory on) -/
theorem evalAt_memory {sp : Space} {obj : Obj} {od : Value → Res} {c : Call} {nCalls nRows : Nat}
    {mem : Dict Res} {calls : List Pos} {p : Pos} {v : Value} {e : Eval}
    (hwf : sp.WF) (hdet : Det obj od) (hmem : c.memory ≠ .off) (hok : MemOk od sp mem)
    (hv : position2value sp.dims p = .ok v)
    (he : evalAt sp obj c nCalls nRows mem calls v = .ok e) :
    e.res = od v ∧ MemOk od sp e.mem ∧
    ∃ k, keyOf sp v = .ok k ∧ InSpace sp k ∧ position2value sp.dims k = .ok v ∧
      ((e.fresh = true ∧ mem.get? k = none ∧ e.mem = Dict.set mem k (od v) ∧ e.calls = calls ++ [k]) ∨
       (e.fresh = false ∧ mem.get? k = some (od v) ∧ e.mem = mem ∧ e.calls = calls)) := by
  have hmw := position2value_memberwise sp.dims p v hv
  obtain ⟨k, hk, hbox, hback⟩ := key_of_memberwise sp.dims v hmw
  have hlen' : v.length = sp.names.length := by rw [memberwise_length sp.dims v hmw, hwf.1]
  have hpv := para2value_value2para sp.names hwf.2.1 v hlen'
  have hkey : keyOf sp v = .ok (k.map Int.ofNat) := by
    simp [keyOf, hpv, hk, bind, Except.bind, pure, Except.pure]
  unfold evalAt at he
  simp only [hmem, if_false, hpv, hk, bind, Except.bind, pure, Except.pure] at he
  cases hget : mem.get? (k.map Int.ofNat) with
  | some res =>
    simp only [hget, Except.ok.injEq] at he
    subst he
    obtain ⟨v', _, hv', hres⟩ := hok _ res hget
    rw [hback] at hv'; cases hv'
    refine ⟨hres, hok, k.map Int.ofNat, hkey, hbox, hback, Or.inr ⟨rfl, by rw [hget, hres], rfl, rfl⟩⟩
  | none =>
    simp only [hget, Except.ok.injEq] at he
    subst he
    have hres : (obj nCalls nRows v).1 = od v := hdet _ _ _
    refine ⟨hres, ?_, k.map Int.ofNat, hkey, hbox, hback, Or.inl ⟨rfl, hget, by simp [hres], rfl⟩⟩
    intro k2 res2 hg
    by_cases hk2 : k.map Int.ofNat = k2
    · subst hk2
      simp only at hg
      rw [Dict.get?_set_self] at hg
      cases hg
      exact ⟨v, hbox, hback, hres⟩
    · simp only at hg
      rw [Dict.get?_set_other _ _ _ _ hk2] at hg
      exact hok k2 res2 hg

/-- with memory off every evaluation is a fresh objective call -/
theorem evalAt_off {sp : Space} {obj : Obj} {od : Value → Res} {c : Call} {nCalls nRows : Nat}
    {mem : Dict Res} {calls : List Pos} {v : Value} {e : Eval}
    (hdet : Det obj od) (hmem : c.memory = .off) (he : evalAt sp obj c nCalls nRows mem calls v = .ok e) :
    e.res = od v ∧ e.fresh = true ∧ e.mem = mem ∧ e.calls = calls := by
  unfold evalAt at he
  simp only [hmem, if_true, pure, Except.pure, Except.ok.injEq] at he
  subst he
  exact ⟨hdet _ _ _, rfl, rfl, rfl⟩

end GFO
