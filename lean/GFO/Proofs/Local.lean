/-
  GFO.Proofs.Local — facts about the complete backends of GFO.Model.Local, for EVERY oracle tape:
  what a proposal is (a clipped draw or a random position, on which the constraint answered True), the tape is only
  consumed, the tracker operations are total.
-/
import GFO.Model.Local
import GFO.Proofs.Run
import GFO.Props.C01
import GFO.Props.C19
namespace GFO
open GFO.C01 GFO.C19

/-! ### kernels on the tape -/

theorem moveRandomLoop_spec {tape rest : Tape} {p : Pos} (h : moveRandomLoop tape = .ok (p, rest)) :
    rest <:+ tape ∧ Draw.rnd p ∈ tape ∧ Draw.feas p true ∈ tape := by
  fun_induction moveRandomLoop tape
  · simp at h
  · rename_i p' q rest' hq
    simp only [Except.ok.injEq, Prod.mk.injEq] at h
    obtain ⟨h1, h2⟩ := h
    have hqp : q = p' := by simpa using hq
    subst h1 h2 hqp
    exact ⟨⟨[.rnd q, .feas q true], rfl⟩, by simp, by simp⟩
  · rename_i p' q ok rest' hq hok ih
    obtain ⟨a, b, c⟩ := ih h
    exact ⟨a.trans ⟨[.rnd p', .feas q ok], rfl⟩, by simp [b], by simp [c]⟩
  · simp at h
  · simp at h
  · simp at h

/-- where a proposal of `move_climb` / `move_random` comes from -/
inductive Origin (g : Geo) (tape : Tape) (p : Pos) : Prop where
  | clipped (l : Pos) (v : List F) (hd : Draw.dist l v ∈ tape) (hp : p = clipCastVec v g.maxPos)
  | random (hr : Draw.rnd p ∈ tape)

theorem Origin.mono {g : Geo} {t1 t2 : Tape} {p : Pos} (o : Origin g t1 p) (h : ∀ x ∈ t1, x ∈ t2) : Origin g t2 p := by
  cases o with
  | clipped l v hd hp => exact .clipped l v (h _ hd) hp
  | random hr => exact .random (h _ hr)

theorem conv2posT_spec {g : Geo} {v : List F} {tape rest : Tape} {p : Pos} (h : conv2posT g v tape = .ok (p, rest)) :
    rest <:+ tape ∧ (p = clipCastVec v g.maxPos ∨ (Draw.rnd p ∈ tape ∧ Draw.feas p true ∈ tape)) ∧
    p = conv2pos v g.maxPos g.size p := by
  unfold conv2posT at h
  simp only at h
  unfold conv2pos
  simp only
  split at h
  · rename_i hfar
    obtain ⟨a, b, c⟩ := moveRandomLoop_spec h
    exact ⟨a, Or.inr ⟨b, c⟩, by simp [hfar]⟩
  · rename_i hfar
    simp only [Except.ok.injEq, Prod.mk.injEq] at h
    obtain ⟨h1, h2⟩ := h
    subst h1 h2
    exact ⟨List.suffix_refl _, Or.inl rfl, by simp [hfar]⟩

theorem mem_of_suffix {α : Type} {a b : List α} (h : a <:+ b) : ∀ x ∈ a, x ∈ b := fun _ hx => h.subset hx

theorem moveClimbLoop_spec {g : Geo} {fuel : Nat} {loc : Pos} {tape rest : Tape} {p : Pos}
    (h : moveClimbLoop g fuel loc tape = .ok (p, rest)) :
    rest <:+ tape ∧ Draw.feas p true ∈ tape ∧ Origin g tape p := by
  induction fuel generalizing loc tape with
  | zero => simp [moveClimbLoop] at h
  | succ n ih =>
    unfold moveClimbLoop at h
    split at h
    · rename_i loc' res rest0
      split at h
      · simp at h
      · simp only [bind, Except.bind] at h
        split at h
        · simp at h
        · rename_i x hx
          obtain ⟨q, rest1⟩ := x
          obtain ⟨hs1, horig, _⟩ := conv2posT_spec hx
          simp only at h
          split at h
          · rename_i q' ok rest2
            split at h
            · simp at h
            · rename_i hq
              have hq' : q' = q := by simpa using hq
              subst hq'
              have hs2 : rest2 <:+ Draw.dist loc' res :: rest0 :=
                (List.suffix_cons _ _).trans (hs1.trans (List.suffix_cons _ _))
              have hmem1 : ∀ x ∈ Draw.feas q' ok :: rest2, x ∈ Draw.dist loc' res :: rest0 := fun x hx' =>
                List.mem_cons_of_mem _ (mem_of_suffix hs1 x hx')
              split at h
              · rename_i hok
                simp only [Except.ok.injEq, Prod.mk.injEq] at h
                obtain ⟨h1, h2⟩ := h
                subst h1 h2 hok
                refine ⟨hs2, hmem1 _ (by simp), ?_⟩
                rcases horig with e | ⟨e, _⟩
                · exact .clipped loc' res (by simp) e
                · exact .random (List.mem_cons_of_mem _ e)
              · obtain ⟨a, b, c⟩ := ih h
                have hm2 : ∀ x ∈ rest2, x ∈ Draw.dist loc' res :: rest0 := mem_of_suffix hs2
                exact ⟨a.trans hs2, hm2 _ b, c.mono hm2⟩
          · simp at h
          · simp at h
    · simp at h
    · simp at h

theorem moveClimb_spec {g : Geo} {loc : Option Pos} {e : Option Rat} {fuel : Nat} {tape rest : Tape} {p : Pos}
    (h : moveClimb g loc e fuel tape = .ok (p, rest)) :
    rest <:+ tape ∧ Draw.feas p true ∈ tape ∧ Origin g tape p := by
  unfold moveClimb at h
  split at h
  · simp at h
  · split at h
    · rename_i l' e' rest0
      split at h
      · simp at h
      · split at h
        · simp at h
        · obtain ⟨a, b, c⟩ := moveClimbLoop_spec h
          have hm : ∀ x ∈ rest0, x ∈ Draw.climb l' e' :: rest0 := fun x hx => List.mem_cons_of_mem _ hx
          exact ⟨a.trans (List.suffix_cons _ _), hm _ b, c.mono hm⟩
    · simp at h
    · simp at h

theorem moveRandom_origin {g : Geo} {tape rest : Tape} {p : Pos} (h : moveRandomLoop tape = .ok (p, rest)) :
    rest <:+ tape ∧ Draw.feas p true ∈ tape ∧ Origin g tape p := by
  obtain ⟨a, b, c⟩ := moveRandomLoop_spec h
  exact ⟨a, c, .random b⟩

theorem randomIteration_spec {cfg : LocalCfg} {tape rest : Tape} {p : Pos} {k : Tape → Except Err (Pos × Tape)}
    (hk : ∀ t r q, k t = .ok (q, r) → r <:+ t ∧ Draw.feas q true ∈ t ∧ Origin cfg.geo t q)
    (h : randomIteration cfg tape k = .ok (p, rest)) :
    rest <:+ tape ∧ Draw.feas p true ∈ tape ∧ Origin cfg.geo tape p := by
  unfold randomIteration at h
  split at h
  · rename_i x rest0
    have hm : ∀ y ∈ rest0, y ∈ Draw.unif x :: rest0 := fun y hy => List.mem_cons_of_mem _ hy
    split at h
    · obtain ⟨a, b, c⟩ := moveRandom_origin (g := cfg.geo) h
      exact ⟨a.trans (List.suffix_cons _ _), hm _ b, c.mono hm⟩
    · obtain ⟨a, b, c⟩ := hk _ _ _ h
      exact ⟨a.trans (List.suffix_cons _ _), hm _ b, c.mono hm⟩
  · simp at h
  · simp at h

/-- every proposal of the six optimizers: the constraint answered True on it, and it is a clipped draw or a random
    position; the tape is only consumed -/
theorem localPropose_spec {cfg : LocalCfg} {s : Local} {p : Pos} {rest : Tape} (h : localPropose cfg s = .ok (p, rest)) :
    rest <:+ s.tape ∧ Draw.feas p true ∈ s.tape ∧ Origin cfg.geo s.tape p := by
  unfold localPropose at h
  split at h
  · exact randomIteration_spec (fun t r q hq => moveClimb_spec hq) h
  · exact randomIteration_spec (fun t r q hq => moveClimb_spec hq) h
  · exact randomIteration_spec (fun t r q hq => moveClimb_spec hq) h
  · exact moveClimb_spec h
  · refine randomIteration_spec (fun t r q hq => ?_) h
    split at hq
    · exact moveRandom_origin hq
    · exact moveClimb_spec hq
  · exact moveRandom_origin h

theorem localIterate_spec {cfg : LocalCfg} {s s' : Local} {p : Pos} (h : localIterate cfg s = .ok (p, s')) :
    s'.tape <:+ s.tape ∧ Draw.feas p true ∈ s.tape ∧ Origin cfg.geo s.tape p ∧
    s'.tr = s.tr.trackNewPos p ∧ s'.initL = s.initL ∧ s'.epsMod = s.epsMod := by
  unfold localIterate at h
  simp only [bind, Except.bind, pure, Except.pure] at h
  split at h
  · simp at h
  · rename_i x hx
    obtain ⟨q, tape⟩ := x
    simp only [Except.ok.injEq, Prod.mk.injEq] at h
    obtain ⟨h1, h2⟩ := h
    subst h1 h2
    obtain ⟨a, b, c⟩ := localPropose_spec hx
    exact ⟨a, b, c, rfl, rfl, rfl⟩

theorem localInitPos_spec {s s' : Local} {p : Pos} (h : localInitPos s = .ok (p, s')) :
    s.initL[s.tr.nthInit]? = some p ∧ s'.tape = s.tape ∧ s'.tr = s.tr.trackNewPos p ∧ s'.initL = s.initL ∧ s'.epsMod = s.epsMod := by
  unfold localInitPos at h
  split at h
  · rename_i q hq
    simp only [Except.ok.injEq, Prod.mk.injEq] at h
    obtain ⟨h1, h2⟩ := h
    subst h1 h2
    exact ⟨hq, rfl, rfl, rfl, rfl⟩
  · simp at h

/-- which evaluate a class runs, as a function of an acceptance decision -/
def evalWith (cfg : LocalCfg) (t : Tracker) (score : F) (accept : Bool) : Tracker :=
  match cfg.kind with
  | .hillClimbing | .restart _ | .repulsing _ | .randomAnnealing => Tracker.hcEvaluate cfg.nNeighbours t score
  | .randomSearch => Tracker.plainEvaluate t score
  | .stochastic => Tracker.stochasticEvaluate cfg.nNeighbours t score accept

theorem localEvaluate_spec {cfg : LocalCfg} {s s' : Local} {score : F} (h : localEvaluate cfg s score = .ok s') :
    s'.tape <:+ s.tape ∧ s'.initL = s.initL ∧ ∃ accept, s'.tr = evalWith cfg s.tr score accept := by
  unfold localEvaluate at h
  unfold evalWith
  cases hk : cfg.kind with
  | hillClimbing => simp only [hk, Except.ok.injEq] at h; subst h; exact ⟨List.suffix_refl _, rfl, false, rfl⟩
  | restart n => simp only [hk, Except.ok.injEq] at h; subst h; exact ⟨List.suffix_refl _, rfl, false, rfl⟩
  | randomAnnealing => simp only [hk, Except.ok.injEq] at h; subst h; exact ⟨List.suffix_refl _, rfl, false, rfl⟩
  | randomSearch => simp only [hk, Except.ok.injEq] at h; subst h; exact ⟨List.suffix_refl _, rfl, false, rfl⟩
  | repulsing f => simp only [hk, Except.ok.injEq] at h; subst h; exact ⟨List.suffix_refl _, rfl, false, rfl⟩
  | stochastic =>
    simp only [hk] at h
    split at h
    · split at h
      · rename_i pAcc r rest htape
        simp only [Except.ok.injEq] at h; subst h
        exact ⟨by simp only [htape]; exact List.suffix_cons _ _, rfl, _, rfl⟩
      · simp at h
      · simp at h
    · simp only [Except.ok.injEq] at h; subst h; exact ⟨List.suffix_refl _, rfl, false, rfl⟩

/-- C15 for the six optimizers: no score - finite or not - makes `evaluate` / `evaluate_init` fail by itself; the only
    failure of the model is a missing or misplaced oracle entry -/
theorem localEvaluate_total (cfg : LocalCfg) (s : Local) (score : F) :
    (∃ s', localEvaluate cfg s score = .ok s') ∨
    (cfg.kind = .stochastic ∧ F.le score s.tr.scoreCurrent = true ∧ ∀ pAcc r rest, s.tape ≠ Draw.accept pAcc r :: rest) := by
  unfold localEvaluate
  cases hk : cfg.kind with
  | hillClimbing => exact Or.inl ⟨_, rfl⟩
  | restart n => exact Or.inl ⟨_, rfl⟩
  | randomAnnealing => exact Or.inl ⟨_, rfl⟩
  | randomSearch => exact Or.inl ⟨_, rfl⟩
  | repulsing f => exact Or.inl ⟨_, rfl⟩
  | stochastic =>
    simp only
    by_cases hle : F.le score s.tr.scoreCurrent = true
    · rw [if_pos hle]
      cases ht : s.tape with
      | nil => exact Or.inr ⟨trivial, hle, by intro a b c; simp⟩
      | cons x xs =>
        cases x with
        | accept pa r => exact Or.inl ⟨_, rfl⟩
        | unif _ => exact Or.inr ⟨trivial, hle, by intro a b c; simp⟩
        | climb _ _ => exact Or.inr ⟨trivial, hle, by intro a b c; simp⟩
        | dist _ _ => exact Or.inr ⟨trivial, hle, by intro a b c; simp⟩
        | rnd _ => exact Or.inr ⟨trivial, hle, by intro a b c; simp⟩
        | feas _ _ => exact Or.inr ⟨trivial, hle, by intro a b c; simp⟩
        | part _ _ => exact Or.inr ⟨trivial, hle, by intro a b c; simp⟩
        | spiral _ => exact Or.inr ⟨trivial, hle, by intro a b c; simp⟩
        | sorted _ => exact Or.inr ⟨trivial, hle, by intro a b c; simp⟩
        | int _ => exact Or.inr ⟨trivial, hle, by intro a b c; simp⟩
        | npunif _ => exact Or.inr ⟨trivial, hle, by intro a b c; simp⟩
        | choice _ => exact Or.inr ⟨trivial, hle, by intro a b c; simp⟩
        | mutant _ => exact Or.inr ⟨trivial, hle, by intro a b c; simp⟩
        | parents _ => exact Or.inr ⟨trivial, hle, by intro a b c; simp⟩
        | inits _ => exact Or.inr ⟨trivial, hle, by intro a b c; simp⟩
        | vec _ => exact Or.inr ⟨trivial, hle, by intro a b c; simp⟩
    · rw [if_neg hle]
      exact Or.inl ⟨_, rfl⟩

/-! ### groundedness is preserved by every backend operation -/

theorem grounded_trackNewPos {log : Log} {t : Tracker} (g : Grounded log t) (p : Pos) : Grounded log (t.trackNewPos p) :=
  { best := g.best, current := g.current, valid := g.valid, validLen := g.validLen }

theorem grounded_evalWith {log : Log} {t : Tracker} (g : Grounded log t) (cfg : LocalCfg) (s : F) (accept : Bool) :
    Grounded (log ++ [(t.posNew, s)]) (evalWith cfg t s accept) := by
  unfold evalWith
  split
  · exact grounded_hcEvaluate g _ s
  · exact grounded_hcEvaluate g _ s
  · exact grounded_hcEvaluate g _ s
  · exact grounded_hcEvaluate g _ s
  · exact grounded_plainEvaluate g s
  · exact grounded_stochasticEvaluate g _ s accept

end GFO
