/-
  GFO.Proofs.GridBackend — facts about the complete grid search backend (GFO.Model.GridBackend):
  without constraints the t-th iteration step of the OPTIMIZER (inner pointer machine + decoder + conv2pos + trackers)
  emits exactly `diagPos … t` / `orthPos … t` of GFO.Model.Grid, whose enumeration theorems are GFO.C16.*.
-/
import GFO.Model.GridBackend
import GFO.Proofs.Grid
import GFO.Proofs.Local
import GFO.Props.C08
namespace GFO
open GFO.C01

/-- `max_positions` from `dim_sizes` -/
def maxOf (dims : List Nat) : List Int := dims.map (fun (n : Nat) => Int.ofNat n - 1)

/-- a tape on which the constraint always answers True (there are no constraints) -/
def Unconstrained (tape : Tape) : Prop := ∀ x ∈ tape, ∃ p, x = Draw.feas p true

theorem Unconstrained.tail {x : Draw} {t : Tape} (h : Unconstrained (x :: t)) : Unconstrained t :=
  fun y hy => h y (List.mem_cons_of_mem _ hy)

theorem askFeas_unconstrained {p : Pos} {tape rest : Tape} {ok : Bool} (hu : Unconstrained tape)
    (h : askFeas p tape = .ok (ok, rest)) : ok = true ∧ Unconstrained rest := by
  unfold askFeas at h
  split at h
  · rename_i q ok' rest'
    split at h
    · simp at h
    · simp only [Except.ok.injEq, Prod.mk.injEq] at h
      obtain ⟨h1, h2⟩ := h
      subst h1 h2
      obtain ⟨p', hp'⟩ := hu (Draw.feas q ok') (by simp)
      simp only [Draw.feas.injEq] at hp'
      exact ⟨hp'.2, hu.tail⟩
  · simp at h
  · simp at h

theorem natVec_eq (l : List Nat) : natVec l = (posOfNat l).map F.ofInt := by
  simp [natVec, posOfNat, List.map_map, Function.comp_def]

theorem inBoxN_inMax (dims l : List Nat) (h : inBoxN dims l = true) :
    inMax (maxOf dims) (posOfNat l) := by
  induction dims generalizing l with
  | nil => cases l <;> simp_all [inBoxN, inMax, posOfNat, maxOf]
  | cons d ds ih =>
    cases l with
    | nil => simp [inBoxN] at h
    | cons x xs =>
      simp only [inBoxN, Bool.and_eq_true, decide_eq_true_eq] at h
      simp only [posOfNat, maxOf, List.map_cons, inMax, Int.ofNat_eq_natCast]
      exact ⟨by omega, by omega, ih xs h.2⟩

/-- an in-box integer vector passes `conv2pos` unchanged and never triggers the far-outside fallback -/
theorem conv2posT_inBox (g : Geo) (dims l : List Nat) (tape : Tape)
    (hg : g.maxPos = maxOf dims) (hM : ∀ n ∈ dims, (n : Int) - 1 ≤ INT64_MAX)
    (h : inBoxN dims l = true) : conv2posT g (natVec l) tape = .ok (posOfNat l, tape) := by
  have hin := inBoxN_inMax dims l h
  have hM' : ∀ m ∈ maxOf dims, m ≤ INT64_MAX := by
    intro m hm
    unfold maxOf at hm
    obtain ⟨n, hn, rfl⟩ := List.mem_map.mp hm
    have := hM n hn
    simpa using this
  -- `conv2pos … rnd = posOfNat l` for EVERY fallback `rnd`: so the fallback is not taken
  have key := fun rnd => C08.moveClimb_no_dead_state (posOfNat l) (maxOf dims) g.size rnd hin hM'
  rw [← natVec_eq, ← hg] at key
  unfold conv2posT
  simp only
  have k1 := key (posOfNat l ++ [0])
  unfold conv2pos at k1
  simp only at k1
  split at k1
  · exact absurd k1 (by intro e; have := congrArg List.length e; simp at this)
  · rename_i hfar
    simp only [hfar, Bool.false_eq_true, if_false]
    rw [k1]

theorem decodeDiag_zero (dims : List Nat) : posOfNat (decodeDiag dims 0) = dims.map (fun _ => (0 : Int)) := by
  induction dims with
  | nil => rfl
  | cons d ds ih =>
    cases ds with
    | nil => simp [decodeDiag, posOfNat]
    | cons d' ds' =>
      simp only [decodeDiag, Nat.zero_div, Nat.zero_mod, posOfNat, List.map_cons] at ih ⊢
      simp [ih]

/-- state of the inner pointer machine after `j` iteration steps -/
structure DiagAt (S s dc : Nat) (j : Nat) (g : GridSt) : Prop where
  trial : g.inner.nthTrial = j
  zero : j = 0 → g.dirCalc = none ∧ g.ptr = 0
  pos : 0 < j → g.dirCalc = some dc ∧ g.ptr = diagPtr S s dc (j - 1)
  tape : Unconstrained g.tape

/-- one `iterate` of the diagonal optimizer without constraints: the `j`-th position of GFO.Model.Grid -/
theorem diagIterate_unconstrained {cfg : GridCfg} {g g1 : GridSt} {p : Pos} {j M : Nat}
    (hg : cfg.geo.maxPos = maxOf cfg.dims) (hM : ∀ n ∈ cfg.dims, (n : Int) - 1 ≤ INT64_MAX)
    (hpos : ∀ n ∈ cfg.dims, 0 < n) (hs : 0 < cfg.stepSize) (hS : prodN cfg.dims = cfg.stepSize * M) (hj : j < prodN cfg.dims)
    (hA : DiagAt (prodN cfg.dims) cfg.stepSize (getDirection (prodN cfg.dims) cfg.dirStart) j g)
    (h : diagIterate cfg g = .ok (p, g1)) :
    p = posOfNat (diagPos cfg.dims cfg.stepSize (getDirection (prodN cfg.dims) cfg.dirStart) j) ∧
    g1.dirCalc = some (getDirection (prodN cfg.dims) cfg.dirStart) ∧
    g1.ptr = diagPtr (prodN cfg.dims) cfg.stepSize (getDirection (prodN cfg.dims) cfg.dirStart) j ∧
    g1.inner = g.inner ∧ g1.tr = g.tr ∧ g1.initL = g.initL ∧ Unconstrained g1.tape := by
  have hMpos : 0 < M := by
    rcases Nat.eq_zero_or_pos M with h0 | h0
    · subst h0; have := prodN_pos cfg.dims hpos; simp at hS; omega
    · exact h0
  unfold diagIterate at h
  rcases Nat.eq_zero_or_pos j with hj0 | hjpos
  · -- first iterate: the direction is computed, the zero vector is returned, the pointer stays 0
    obtain ⟨hdc, hptr⟩ := hA.zero hj0
    subst hj0
    simp only [hdc, bind, Except.bind, pure, Except.pure] at h
    split at h
    · simp at h
    · rename_i x hx
      obtain ⟨ok, tape1⟩ := x
      obtain ⟨hok, hu1⟩ := askFeas_unconstrained hA.tape hx
      subst hok
      simp only [if_true, Except.ok.injEq, Prod.mk.injEq] at h
      obtain ⟨h1, h2⟩ := h
      subst h1 h2
      refine ⟨?_, rfl, ?_, rfl, rfl, rfl, hu1⟩
      · simp [diagPos, diagPtr, decodeDiag_zero]
      · simp [diagPtr, hptr]
  · obtain ⟨hdc, hptr⟩ := hA.pos hjpos
    simp only [hdc, bind, Except.bind, pure, Except.pure] at h
    split at h
    · simp at h
    · rename_i x hx
      obtain ⟨p', ptr', tape'⟩ := x
      simp only [Except.ok.injEq, Prod.mk.injEq] at h
      obtain ⟨h1, h2⟩ := h
      subst h1 h2
      -- unfold one round of the loop: first try
      unfold diagLoop at hx
      simp only [Bool.not_true, Bool.false_eq_true, if_false, bind, Except.bind, pure, Except.pure] at hx
      have hptr' : (if passFinished (prodN cfg.dims) cfg.stepSize g.inner.nthTrial = true then g.ptr % cfg.stepSize + 1
          else (g.ptr + cfg.stepSize * getDirection (prodN cfg.dims) cfg.dirStart) % prodN cfg.dims) =
          diagPtr (prodN cfg.dims) cfg.stepSize (getDirection (prodN cfg.dims) cfg.dirStart) j := by
        obtain ⟨k, rfl⟩ : ∃ k, j = k + 1 := ⟨j - 1, by omega⟩
        rw [hA.trial, hptr]
        simp [diagPtr]
      rw [hptr'] at hx
      have hlt : diagPtr (prodN cfg.dims) cfg.stepSize (getDirection (prodN cfg.dims) cfg.dirStart) j < prodN cfg.dims := by
        rw [hS]; exact diagPtr_lt cfg.stepSize M _ hs hMpos j (by rw [← hS]; exact hj)
      have hbox := decodeDiag_inBox cfg.dims hpos _ hlt
      rw [conv2posT_inBox cfg.geo cfg.dims _ g.tape hg hM hbox] at hx
      simp only at hx
      split at hx
      · simp at hx
      · rename_i y hy
        obtain ⟨ok, tape2⟩ := y
        obtain ⟨hok, hu2⟩ := askFeas_unconstrained hA.tape hy
        subst hok
        simp only [if_true, Except.ok.injEq, Prod.mk.injEq] at hx
        obtain ⟨e1, e2, e3⟩ := hx
        subst e1 e2 e3
        exact ⟨rfl, rfl, rfl, rfl, rfl, rfl, hu2⟩

/-- one `iterate` of the orthogonal optimizer without constraints -/
theorem orthIterate_unconstrained {cfg : GridCfg} {g g1 : GridSt} {p : Pos}
    (hg : cfg.geo.maxPos = maxOf cfg.dims) (hM : ∀ n ∈ cfg.dims, (n : Int) - 1 ≤ INT64_MAX)
    (hpos : ∀ n ∈ cfg.dims, 0 < n) (hu : Unconstrained g.tape)
    (h : orthIterate cfg g = .ok (p, g1)) :
    p = posOfNat (orthPos cfg.dims cfg.stepSize g.inner.nthTrial) ∧
    g1.inner = g.inner ∧ g1.tr = g.tr ∧ g1.initL = g.initL ∧ g1.ptr = g.ptr ∧ g1.dirCalc = g.dirCalc ∧ Unconstrained g1.tape := by
  unfold orthIterate at h
  simp only [bind, Except.bind, pure, Except.pure] at h
  have hbox := decodeOrth_inBox cfg.dims hpos (orthRaw (prodN cfg.dims) cfg.stepSize g.inner.nthTrial)
  rw [conv2posT_inBox cfg.geo cfg.dims _ g.tape hg hM hbox] at h
  simp only at h
  split at h
  · simp at h
  · rename_i y hy
    obtain ⟨ok, tape2⟩ := y
    obtain ⟨hok, hu2⟩ := askFeas_unconstrained hu hy
    subst hok
    simp only [if_true, Except.ok.injEq, Prod.mk.injEq] at h
    obtain ⟨e1, e2⟩ := h
    subst e1 e2
    exact ⟨rfl, rfl, rfl, rfl, rfl, rfl, hu2⟩

end GFO
