/-
  Lemmas about GFO.Model.Converter: the nearest-element lookup finds the first occurrence of a member,
  in-space positions index without wrap, position <-> value round trips.
-/
import GFO.Model.Converter
namespace GFO

theorem absQ_nonneg (q : Rat) : 0 ≤ absQ q := by unfold absQ; split <;> grind
theorem absQ_eq_zero_iff {q : Rat} : absQ q = 0 ↔ q = 0 := by unfold absQ; split <;> grind
theorem absQ_sub_eq_zero_iff {v x : Rat} : absQ (v - x) = 0 ↔ x = v := by
  rw [absQ_eq_zero_iff]; grind

/-- once the best distance is 0 nothing replaces it -/
theorem argminScan_hit (v : Rat) (bi i : Nat) (l : List Rat) : argminScan v (0, bi) i l = (0, bi) := by
  induction l generalizing i with
  | nil => rfl
  | cons x xs ih =>
    simp only [argminScan]
    have : ¬ absQ (v - x) < 0 := by have := absQ_nonneg (v - x); grind
    rw [if_neg this]; exact ih (i + 1)

/-- with a positive best so far, the scan stops at the first exact hit -/
theorem argminScan_first_zero (v : Rat) (l1 : List Rat) (x : Rat) (l2 : List Rat) (b : Rat) (bi i : Nat)
    (hb : 0 < b) (h1 : ∀ y ∈ l1, y ≠ v) (hx : x = v) :
    argminScan v (b, bi) i (l1 ++ x :: l2) = (0, i + l1.length) := by
  induction l1 generalizing b bi i with
  | nil =>
    simp only [List.nil_append, argminScan, List.length_nil, Nat.add_zero]
    have h0 : absQ (v - x) = 0 := absQ_sub_eq_zero_iff.mpr hx
    rw [h0, if_pos hb]; exact argminScan_hit v i (i + 1) l2
  | cons y ys ih =>
    simp only [List.cons_append, argminScan, List.length_cons]
    have hy : y ≠ v := h1 y (by simp)
    have hpos : 0 < absQ (v - y) := by
      have a := absQ_nonneg (v - y)
      have b' : absQ (v - y) ≠ 0 := fun h => hy (absQ_sub_eq_zero_iff.mp h)
      grind
    have h1' : ∀ z ∈ ys, z ≠ v := fun z hz => h1 z (by simp [hz])
    split
    · rw [ih (absQ (v - y)) i (i + 1) hpos h1']; congr 1; omega
    · rw [ih b bi (i + 1) hb h1']; congr 1; omega

/-- the lookup returns the index of the first occurrence of a member -/
theorem argminAbs_first (v : Rat) (l1 : List Rat) (x : Rat) (l2 : List Rat)
    (h1 : ∀ y ∈ l1, y ≠ v) (hx : x = v) : argminAbs v (l1 ++ x :: l2) = l1.length := by
  cases l1 with
  | nil =>
    simp only [List.nil_append, argminAbs, List.length_nil]
    have h0 : absQ (v - x) = 0 := absQ_sub_eq_zero_iff.mpr hx
    rw [h0, argminScan_hit]
  | cons y ys =>
    simp only [List.cons_append, argminAbs, List.length_cons]
    have hy : y ≠ v := h1 y (by simp)
    have hpos : 0 < absQ (v - y) := by
      have a := absQ_nonneg (v - y)
      have b' : absQ (v - y) ≠ 0 := fun h => hy (absQ_sub_eq_zero_iff.mp h)
      grind
    rw [argminScan_first_zero v ys x l2 _ 0 1 hpos (fun z hz => h1 z (by simp [hz])) hx]
    simp; omega

/-- in a dimension with pairwise distinct values the lookup inverts indexing -/
theorem argminAbs_getElem (d : List Rat) (hnd : d.Nodup) (j : Nat) (hj : j < d.length) : argminAbs d[j] d = j := by
  have hsplit : d = d.take j ++ d[j] :: d.drop (j + 1) := by
    rw [List.getElem_cons_drop hj, List.take_append_drop]
  have h1 : ∀ y ∈ d.take j, y ≠ d[j] := by
    intro y hy heq
    obtain ⟨k, hk, hky⟩ := List.getElem_of_mem hy
    have hk' : k < j := by simp at hk; omega
    have hkd : k < d.length := by omega
    have : d[k] = d[j] := by rw [← heq, ← hky, List.getElem_take]
    have := (List.getElem_inj hnd).mp this
    omega
  have := argminAbs_first d[j] (d.take j) d[j] (d.drop (j + 1)) h1 rfl
  rw [← hsplit] at this
  rw [this]; simp; omega

/-! ### in-space positions -/

theorem pyIndex_inRange {α : Type} (l : List α) (i : Int) (h0 : 0 ≤ i) (h1 : i < (l.length : Int)) :
    ∃ hh : i.toNat < l.length, pyIndex l i = .ok l[i.toNat] := by
  have hh : i.toNat < l.length := by omega
  refine ⟨hh, ?_⟩
  unfold pyIndex
  simp only [h0, h1, and_self, if_true]
  rw [List.getElem?_eq_getElem hh]

/-- positions of the space as natural numbers below the sizes -/
def natPos (p : Pos) : List Nat := p.map Int.toNat

theorem position2value_inSpace (dims : List (List Rat)) (p : Pos) (h : inBox (dims.map List.length) p = true) :
    ∃ v, position2value dims p = .ok v ∧ v.length = dims.length := by
  induction dims generalizing p with
  | nil => exact ⟨[], by simp [position2value], rfl⟩
  | cons d ds ih =>
    cases p with
    | nil => simp [inBox] at h
    | cons x xs =>
      simp only [List.map_cons, inBox, Bool.and_eq_true, decide_eq_true_eq] at h
      obtain ⟨⟨h0, h1⟩, hrest⟩ := h
      obtain ⟨hh, hidx⟩ := pyIndex_inRange d x h0 h1
      obtain ⟨vs, hvs, hlen⟩ := ih xs hrest
      refine ⟨d[x.toNat] :: vs, ?_, by simp [hlen]⟩
      simp [position2value, hidx, hvs, bind, Except.bind, pure, Except.pure]

/-- C20 core: with pairwise distinct values per dimension, position → value → position is the identity -/
theorem value2position_position2value (dims : List (List Rat)) (hnd : ∀ d ∈ dims, d.Nodup) (p : Pos)
    (h : inBox (dims.map List.length) p = true) :
    ∃ v, position2value dims p = .ok v ∧ value2position dims v = .ok (natPos p) := by
  induction dims generalizing p with
  | nil =>
    cases p with
    | nil => exact ⟨[], by simp [position2value], by simp [value2position, natPos]⟩
    | cons x xs => simp [inBox] at h
  | cons d ds ih =>
    cases p with
    | nil => simp [inBox] at h
    | cons x xs =>
      simp only [List.map_cons, inBox, Bool.and_eq_true, decide_eq_true_eq] at h
      obtain ⟨⟨h0, h1⟩, hrest⟩ := h
      obtain ⟨hh, hidx⟩ := pyIndex_inRange d x h0 h1
      obtain ⟨vs, hvs, hps⟩ := ih (fun d' hd' => hnd d' (by simp [hd'])) xs hrest
      refine ⟨d[x.toNat] :: vs, ?_, ?_⟩
      · simp [position2value, hidx, hvs, bind, Except.bind, pure, Except.pure]
      · have := argminAbs_getElem d (hnd d (by simp)) x.toNat hh
        simp [value2position, hps, this, natPos, bind, Except.bind, pure, Except.pure]

theorem natPos_cast (p : Pos) (h : ∀ x ∈ p, 0 ≤ x) : (natPos p).map Int.ofNat = p := by
  induction p with
  | nil => rfl
  | cons x xs ih =>
    have hx : 0 ≤ x := h x (by simp)
    have ih' := ih (fun y hy => h y (by simp [hy]))
    simp only [natPos, List.map_cons, List.map_map] at ih' ⊢
    rw [ih']
    congr 1
    show Int.ofNat x.toNat = x
    have := Int.toNat_of_nonneg hx
    simpa using this

theorem inBox_nonneg (sizes : List Nat) (p : Pos) (h : inBox sizes p = true) : ∀ x ∈ p, 0 ≤ x := by
  induction sizes generalizing p with
  | nil => cases p with
    | nil => intro x hx; simp at hx
    | cons y ys => simp [inBox] at h
  | cons n ns ih =>
    cases p with
    | nil => simp [inBox] at h
    | cons y ys =>
      simp only [inBox, Bool.and_eq_true, decide_eq_true_eq] at h
      intro x hx
      rcases List.mem_cons.mp hx with e | e
      · subst e; exact h.1.1
      · exact ih ys h.2 x e

/-- `para2value (value2para v) = v` when the names are distinct and there is one per value -/
theorem para2value_value2para (names : List String) (hnd : names.Nodup) (v : Value) (hlen : v.length = names.length) :
    para2value names (value2para names v) = .ok v := by
  induction names generalizing v with
  | nil =>
    cases v with
    | nil => rfl
    | cons _ _ => simp at hlen
  | cons n ns ih =>
    cases v with
    | nil => simp at hlen
    | cons x xs =>
      have hn : n ∉ ns := (List.nodup_cons.mp hnd).1
      have hnd' : ns.Nodup := (List.nodup_cons.mp hnd).2
      have hlen' : xs.length = ns.length := by simpa using hlen
      -- the tail lookup is not disturbed by the extra head entry
      have htail : ∀ (ms : List String), (∀ m ∈ ms, m ≠ n) →
          para2value ms ((n, x) :: value2para ns xs) = para2value ms (value2para ns xs) := by
        intro ms
        induction ms with
        | nil => intro _; rfl
        | cons m ms ihm =>
          intro hm
          have hmn : m ≠ n := hm m (by simp)
          have hget : paraGet ((n, x) :: value2para ns xs) m = paraGet (value2para ns xs) m := by
            unfold paraGet
            simp only [List.find?_cons]
            have : (n == m) = false := by simp; exact fun e => hmn e.symm
            simp [this]
          simp only [para2value, hget, ihm (fun k hk => hm k (by simp [hk]))]
      simp only [value2para, List.zip_cons_cons, para2value, bind, Except.bind]
      have hget0 : paraGet ((n, x) :: ns.zip xs) n = .ok x := by simp [paraGet]
      rw [hget0]
      have := htail ns (fun m hm e => hn (e ▸ hm))
      simp only [value2para] at this
      rw [this]
      have := ih hnd' xs hlen'
      simp only [value2para] at this
      rw [this]; rfl

end GFO
