/-
  GFO.Model.Init — model of `core_optimizer/init_positions.py` (class `Initializer`) and of
  `pop_opt/base_population_optimizer.py` (`split`, `_create_population`'s padding).
  Random draws are oracle streams: `rnd` holds the results of successive `move_random` calls (one index vector each),
  `bits` the results of successive `_get_random_vertex` calls. A stream that runs out yields `Err.needMore`
  (termination of the rejection loops is C08's business, not assumed here).
-/
import GFO.Model.Converter
import GFO.Model.Kernels
namespace GFO

/-- the `initialize` dictionary: `none` = key absent -/
structure InitCfg where
  random : Option Nat := none
  grid : Option Nat := none
  vertices : Option Nat := none
  warm : Option (List Para) := none
deriving Repr, Inhabited

/-- `n_inits` as computed in `Initializer.__init__` -/
def InitCfg.nInits (c : InitCfg) : Nat :=
  c.random.getD 0 + c.grid.getD 0 + c.vertices.getD 0 + (c.warm.map List.length).getD 0

/-- oracle streams of random draws -/
structure Draws where
  rnd : List Pos := []           -- results of successive `move_random(search_space_positions)` calls
  vtx : List Pos := []           -- results of successive `_get_random_vertex()` calls
deriving Repr, Inhabited

/-- functions that consume random draws thread the streams explicitly -/
abbrev InitM (α : Type) := Draws → Except Err (α × Draws)

def nextRnd : InitM Pos := fun d =>
  match d.rnd with
  | [] => .error .needMore
  | p :: ps => .ok (p, { d with rnd := ps })

def nextVtx : InitM Pos := fun d =>
  match d.vtx with
  | [] => .error .needMore
  | p :: ps => .ok (p, { d with vtx := ps })

/-- one rejection loop `while True: pos = move_random(); if not_in_constraint(pos): break`, bounded by the stream -/
def drawFeasible (feas : Pos → Bool) : Nat → InitM Pos
  | 0, _ => .error .needMore
  | fuel + 1, d =>
    match nextRnd d with
    | .error e => .error e
    | .ok (p, d1) => if feas p then .ok (p, d1) else drawFeasible feas fuel d1

/-- `_init_random_search(n)` -/
def initRandom (feas : Pos → Bool) (fuel : Nat) : Nat → InitM (List Pos)
  | 0, d => .ok ([], d)
  | n + 1, d =>
    match drawFeasible feas fuel d with
    | .error e => .error e
    | .ok (p, d1) =>
      match initRandom feas fuel n d1 with
      | .error e => .error e
      | .ok (ps, d2) => .ok (p :: ps, d2)

/-- order in which `np.meshgrid(*positions)` followed by `.T.reshape(-1, n_dim)` enumerates the product: axes from major
    to minor are `n-1, n-2, …, 2, 0, 1` -/
def meshAxes (nd : Nat) : List Nat :=
  if nd ≤ 1 then List.range nd
  else ((List.range nd).drop 2).reverse ++ [0, 1]

/-- all index tuples of the mesh in numpy's order; coordinate lists per dimension are `coords[k]` -/
def meshProduct (coords : List (List Nat)) : List (List Nat) :=
  let nd := coords.length
  let assigns : List (List (Nat × Nat)) :=
    (meshAxes nd).foldl (fun acc ax =>
      acc.flatMap (fun a => (coords.getD ax []).map (fun v => a ++ [(ax, v)]))) [[]]
  assigns.map (fun a => (List.range nd).map (fun k =>
    match a.find? (fun e => e.1 == k) with
    | some e => e.2
    | none => 0))

/-- `_init_grid_search(n_pos)`; `pPerDim` = `int(np.power(n_pos, 1 / n_dim))` is an oracle input -/
def initGrid (feas : Pos → Bool) (sizes : List Nat) (nPos : Nat) (pPerDim : Nat) : List Pos :=
  if nPos = 0 then [] else
  if sizes.length > 30 then [] else
  let coords := sizes.map (fun s => initGridDim (s - 1) pPerDim)
  ((meshProduct coords).map (fun p => p.map Int.ofNat)).filter feas

/-- one vertex of `_init_vertices`: up to 100 random vertices not yet in the list, else a random position -/
def pickVertex (have_ : List Pos) : Nat → InitM Pos
  | 0, d => nextRnd d
  | tries + 1, d =>
    match nextVtx d with
    | .error e => .error e
    | .ok (v, d1) => if have_.contains v then pickVertex have_ tries d1 else .ok (v, d1)

/-- `_init_vertices(n_pos)` -/
def initVertices (feas : Pos → Bool) : Nat → List Pos → InitM (List Pos)
  | 0, acc, d => .ok (acc.filter feas, d)
  | n + 1, acc, d =>
    match pickVertex acc 100 d with
    | .error e => .error e
    | .ok (v, d1) => initVertices feas n (acc ++ [v]) d1

/-- the position `_init_warm_start` computes for one warm-start dictionary (after fix e0720d0: read by name) -/
def warmPos (sp : Space) (w : Para) : Except Err Pos := do
  let v ← para2value sp.names w
  let k ← value2position sp.dims v
  pure (k.map Int.ofNat)

/-- `_init_warm_start(value_list)` -/
def initWarm (feas : Pos → Bool) (sp : Space) (ws : List Para) : Except Err (List Pos) :=
  match ws.mapM (warmPos sp) with
  | .error e => .error e
  | .ok ps => .ok (ps.filter feas)

def partRandom (feas : Pos → Bool) (fuel : Nat) : Option Nat → InitM (List Pos)
  | some n => initRandom feas fuel n
  | none => fun d => .ok ([], d)

def partGrid (feas : Pos → Bool) (sizes : List Nat) (pPerDim : Nat) : Option Nat → List Pos
  | some n => initGrid feas sizes n pPerDim
  | none => []

def partVertices (feas : Pos → Bool) : Option Nat → InitM (List Pos)
  | some n => initVertices feas n []
  | none => fun d => .ok ([], d)

def partWarm (feas : Pos → Bool) (sp : Space) : Option (List Para) → Except Err (List Pos)
  | some ws => initWarm feas sp ws
  | none => .ok []

/-- the four parts of `set_pos` before `_fill_rest_random` -/
def setPosParts (feas : Pos → Bool) (sp : Space) (c : InitCfg) (pPerDim : Nat) (fuel : Nat) : InitM (List Pos) := fun d =>
  match partRandom feas fuel c.random d with
  | .error e => .error e
  | .ok (a, d1) =>
    match partVertices feas c.vertices d1 with
    | .error e => .error e
    | .ok (v, d2) =>
      match partWarm feas sp c.warm with
      | .error e => .error e
      | .ok w => .ok (a ++ partGrid feas sp.sizes pPerDim c.grid ++ v ++ w, d2)

/-- `Initializer.set_pos()` followed by `_fill_rest_random` -/
def setPos (feas : Pos → Bool) (sp : Space) (c : InitCfg) (pPerDim : Nat) (fuel : Nat) : InitM (List Pos) := fun d =>
  match setPosParts feas sp c pPerDim fuel d with
  | .error e => .error e
  | .ok (l, d1) =>
    match initRandom feas fuel (c.nInits - l.length) d1 with
    | .error e => .error e
    | .ok (rest, d2) => .ok (l ++ rest, d2)

/-- `add_n_random_init_pos(n)` (after fix 010c87e: rejection-sampled) -/
def addNRandom (feas : Pos → Bool) (fuel : Nat) (l : List Pos) (n : Nat) : InitM (List Pos) := fun d =>
  match initRandom feas fuel n d with
  | .error e => .error e
  | .ok (extra, d1) => .ok (l ++ extra, d1)

/-- `split(positions_l, population)`: member `i` gets the positions at indices `i, i + pop, i + 2·pop, …` -/
def splitDeal {α : Type} (l : List α) (pop : Nat) : List (List α) :=
  let divInt := (l.length + pop - 1) / pop
  (List.range pop).map (fun i =>
    (List.range divInt).filterMap (fun j => l[i + j * pop]?))

end GFO
