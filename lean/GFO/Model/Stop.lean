/-
  GFO.Model.Stop — model of `_stop_run.py`: `time_exceeded`, `score_exceeded`, `no_change`, `StopRun.check`.
  Python truthiness of the guards is modelled on purpose (C12 is about it).
-/
import GFO.Model.Num
namespace GFO

/-- Python `max(list)` on floats: sequential scan with `>` (a leading nan stays) -/
def pyMaxScan : F → List F → F
  | m, [] => m
  | m, x :: xs => if F.gt x m then pyMaxScan x xs else pyMaxScan m xs

def pyMax : List F → Except Err F
  | [] => .error .valueError
  | x :: xs => .ok (pyMaxScan x xs)

/-- first index of the maximum under `>` (state = best, best index; `i` = next index) -/
def argmaxScan : F × Nat → Nat → List F → F × Nat
  | st, _, [] => st
  | (b, bi), i, y :: ys => if F.gt y b then argmaxScan (y, i) (i + 1) ys else argmaxScan (b, bi) (i + 1) ys

def firstNanIdx : Nat → List F → Option Nat
  | _, [] => none
  | i, x :: xs => if x.isNan then some i else firstNanIdx (i + 1) xs

/-- `np.argmax`: the first nan if there is one, else the first maximum -/
def npArgmax (l : List F) : Nat :=
  match firstNanIdx 0 l with
  | some i => i
  | none =>
    match l with
    | [] => 0
    | x :: xs => (argmaxScan (x, 0) 1 xs).2

/-- `early_stopping` dictionary; `n = none` models a dict without the key `n_iter_no_change` -/
structure Early where
  n : Option Nat
  tolAbs : Option F
  tolRel : Option F
deriving Repr, DecidableEq, Inhabited

/-- the tolerance tests at the end of `no_change`, given `max_score` and `max_first_n` -/
def noChangeTail (flv : Flavour) (maxScore maxFirstN : F) (es : Early) : Except Err Bool :=
  let absHit : Bool :=
    match es.tolAbs with
    | some ta => F.lt (F.abs (F.sub maxFirstN maxScore)) ta
    | none => false
  if absHit then pure true else
    match es.tolRel with
    | none => pure false
    | some tr =>
      let baseline := F.abs maxFirstN
      if F.beq baseline F.zero then pure false   -- `baseline != 0` is False only for ±0.0
      else do
        let q ← F.div flv (F.sub maxScore maxFirstN) baseline
        let percentImp := F.mul q (F.ofInt 100)
        pure (F.lt percentImp tr)

/-- `no_change(score_new_list, early_stopping)`; `false` also stands for the `None` the function falls off with -/
def noChange (flv : Flavour) (scores : List F) (es : Early) : Except Err Bool :=
  match es.n with
  | none => .ok false
  | some n =>
    if scores.length ≤ n then .ok false else do
      let maxScore ← pyMax scores
      let maxIndex := npArgmax scores
      let diff := scores.length - maxIndex
      if diff > n then pure true else do
        let firstN := scores.length - n
        let maxFirstN ← pyMax (scores.take firstN)
        noChangeTail flv maxScore maxFirstN es

/-- the form at the pinned commit (no zero-baseline guard): kept for the witness theorem of C13 -/
def noChangeLegacy (flv : Flavour) (scores : List F) (es : Early) : Except Err Bool :=
  match es.n with
  | none => .ok false
  | some n =>
    if scores.length ≤ n then .ok false else do
      let maxScore ← pyMax scores
      let maxIndex := npArgmax scores
      if scores.length - maxIndex > n then pure true else do
        let maxFirstN ← pyMax (scores.take (scores.length - n))
        let absHit : Bool :=
          match es.tolAbs with
          | some ta => F.lt (F.abs (F.sub maxFirstN maxScore)) ta
          | none => false
        if absHit then pure true else
          match es.tolRel with
          | none => pure false
          | some tr => do
            let q ← F.div flv (F.sub maxScore maxFirstN) (F.abs maxFirstN)
            pure (F.lt (F.mul q (F.ofInt 100)) tr)

/-- `score_exceeded(score_best, max_score)`: `max_score is not None and score_best >= max_score` -/
def scoreExceeded (scoreBest : F) (maxScore : Option F) : Bool :=
  match maxScore with
  | none => false
  | some m => F.ge scoreBest m

/-- the pinned form `max_score and score_best >= max_score` (truthiness) -/
def scoreExceededLegacy (scoreBest : F) (maxScore : Option F) : Bool :=
  match maxScore with
  | none => false
  | some m => m.truthy && F.ge scoreBest m

/-- `time_exceeded(start_time, max_time)` with the clock reading passed in: `max_time and now - start > max_time` -/
def timeExceeded (now start : Rat) (maxTime : Option F) : Bool :=
  match maxTime with
  | none => false
  | some t => t.truthy && F.gt (.fin (now - start)) t

structure StopCfg where
  startTime : Rat
  maxTime : Option F
  maxScore : Option F
  early : Option Early          -- `none` = None or an empty dict (both falsy)
deriving Repr, Inhabited

/-- `StopRun.check()` given the clock reading and the values of the last `update` -/
def stopCheck (flv : Flavour) (c : StopCfg) (now : Rat) (scoreBest : F) (scores : List F) : Except Err Bool :=
  if (match c.maxTime with | some t => t.truthy | none => false) && timeExceeded now c.startTime c.maxTime then .ok true
  else if c.maxScore.isSome && scoreExceeded scoreBest c.maxScore then .ok true
  else
    match c.early with
    | none => .ok false
    | some es => noChange flv scores es

end GFO
