/-
  GFO.Model.Tracker — exact model of `core_optimizer/search_tracker.py` (class `SearchTracker`) and of the
  `evaluate` / `evaluate_init` methods built on it: `CoreOptimizer.evaluate_init`, `BaseOptimizer.evaluate`,
  `HillClimbingOptimizer.evaluate` (used by Repulsing, RandomRestart, RandomAnnealing, Particle, Individual),
  `StochasticHillClimbingOptimizer.evaluate` (SimulatedAnnealing), `Spiral.evaluate`, `RandomSearch/Grid.evaluate`.
  The stochastic acceptance decision (`p_accept >= random()`) is an oracle Boolean.
-/
import GFO.Model.Space
namespace GFO

structure Tracker where
  posNew : Option Pos := none
  scoreNew : F := .ninf
  posCurrent : Option Pos := none
  scoreCurrent : F := .ninf
  posBest : Option Pos := none
  scoreBest : F := .ninf
  positionsValid : List (Option Pos) := []     -- `positions_valid` (pos_new at the time a finite score arrived)
  scoresValid : List F := []                   -- `scores_valid`
  nthTrial : Nat := 0
  nthInit : Nat := 0
deriving Repr, DecidableEq, Inhabited

namespace Tracker

/-- `track_new_pos`: `self.pos_new = …; self.nth_init += 1` -/
def trackNewPos (t : Tracker) (p : Pos) : Tracker := { t with posNew := some p, nthInit := t.nthInit + 1 }

/-- the `score_new` setter: record the score, and (position, score) in the valid lists when it is finite -/
def setScoreNew (t : Tracker) (s : F) : Tracker :=
  if s.isFinite then { t with scoreNew := s, positionsValid := t.positionsValid ++ [t.posNew], scoresValid := t.scoresValid ++ [s] }
  else { t with scoreNew := s }

def eval2current (t : Tracker) (p : Option Pos) (s : F) : Tracker :=
  if F.gt s t.scoreCurrent then { t with scoreCurrent := s, posCurrent := p } else t

def eval2best (t : Tracker) (p : Option Pos) (s : F) : Tracker :=
  if F.gt s t.scoreBest then { t with scoreBest := s, posBest := p } else t

def evaluateNew2current (t : Tracker) (s : F) : Tracker :=
  if F.gt s t.scoreCurrent then { t with scoreCurrent := s, posCurrent := t.posNew } else t

def evaluateCurrent2best (t : Tracker) : Tracker :=
  if F.gt t.scoreCurrent t.scoreBest then { t with scoreBest := t.scoreCurrent, posBest := t.posCurrent } else t

def current2best (t : Tracker) : Tracker := { t with scoreBest := t.scoreCurrent, posBest := t.posCurrent }
def new2current (t : Tracker) : Tracker := { t with scoreCurrent := t.scoreNew, posCurrent := t.posNew }

/-- `CoreOptimizer.evaluate_init` (under `track_new_score`) -/
def evaluateInit (t : Tracker) (s : F) : Tracker :=
  let t1 := t.setScoreNew s
  let t2 := if t1.posBest.isNone then { t1 with posBest := t1.posNew, scoreBest := s } else t1
  let t3 := if t2.posCurrent.isNone then { t2 with posCurrent := t2.posNew, scoreCurrent := s } else t2
  { t3 with nthTrial := t3.nthTrial + 1 }

/-- `BaseOptimizer.evaluate` (body only) -/
def baseEvaluate (t : Tracker) (s : F) : Tracker :=
  if t.posBest.isNone then { t with posBest := t.posNew, posCurrent := t.posNew, scoreBest := s, scoreCurrent := s } else t

/-- `RandomSearchOptimizer.evaluate`, `Diagonal/OrthogonalGridSearchOptimizer.evaluate` -/
def plainEvaluate (t : Tracker) (s : F) : Tracker :=
  let t1 := baseEvaluate (t.setScoreNew s) s
  { t1 with nthTrial := t1.nthTrial + 1 }

/-- `max_list_idx`: index of the LAST occurrence of the maximum (`max()` scans with `>`, then `[i … if j == max][-1]`) -/
def maxListIdx (l : List F) : Nat :=
  match l with
  | [] => 0
  | x :: xs =>
    let mx := xs.foldl (fun m y => if F.gt y m then y else m) x
    ((l.zipIdx.filter (fun e => F.beq e.1 mx)).map (·.2)).getLast?.getD 0

def lastN {α : Type} (l : List α) (n : Nat) : List α := l.drop (l.length - n)

/-- `HillClimbingOptimizer.evaluate` (under `track_new_score`) -/
def hcEvaluate (nNeighbours : Nat) (t : Tracker) (s : F) : Tracker :=
  let t1 := baseEvaluate (t.setScoreNew s) s
  let t2 :=
    if t1.scoresValid.isEmpty then t1
    else if t1.nthTrial % nNeighbours = 0 then
      let sc := lastN t1.scoresValid nNeighbours
      let ps := lastN t1.positionsValid nNeighbours
      let idx := maxListIdx sc
      match sc[idx]?, ps[idx]? with
      | some s', some p' => (t1.eval2current p' s').eval2best p' s'
      | _, _ => t1
    else t1
  { t2 with nthTrial := t2.nthTrial + 1 }

/-- `StochasticHillClimbingOptimizer.evaluate`: a not-better score goes through `_transition` (accepted with the oracle
    decision `accept`), a better one through `HillClimbingOptimizer.evaluate` -/
def stochasticEvaluate (nNeighbours : Nat) (t : Tracker) (s : F) (accept : Bool) : Tracker :=
  if F.le s t.scoreCurrent then
    let t1 := t.setScoreNew s
    let t2 := if accept then t1.new2current else t1
    { t2 with nthTrial := t2.nthTrial + 1 }
  else hcEvaluate nNeighbours t s

/-- `Spiral.evaluate` (under `track_new_score`) -/
def spiralEvaluate (t : Tracker) (s : F) : Tracker :=
  let t1 := ((t.setScoreNew s).new2current).evaluateCurrent2best
  { t1 with nthTrial := t1.nthTrial + 1 }

end Tracker
end GFO
