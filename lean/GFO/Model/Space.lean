/-
  GFO.Model.Space — search spaces, positions, Python indexing.
-/
import GFO.Model.Num
namespace GFO

/-- an index vector as the optimizers hold it (`Int`, not `Nat`: C01 is precisely that it is never negative) -/
abbrev Pos := List Int

/-- a search space: parameter names (dict key order) and, per dimension, the array of values (exact) -/
structure Space where
  names : List String
  dims : List (List Rat)
deriving Repr, DecidableEq, Inhabited

namespace Space
def nDims (sp : Space) : Nat := sp.dims.length
/-- `conv.dim_sizes` -/
def sizes (sp : Space) : List Nat := sp.dims.map List.length
/-- `conv.max_positions` -/
def maxPositions (sp : Space) : List Int := sp.dims.map (fun d => (d.length : Int) - 1)
/-- `conv.search_space_size` -/
def size (sp : Space) : Nat := (sp.sizes).foldl (· * ·) 1
/-- well-formed: one name per dimension, names distinct, no empty dimension -/
def WF (sp : Space) : Prop := sp.names.length = sp.dims.length ∧ sp.names.Nodup ∧ ∀ d ∈ sp.dims, d ≠ []
end Space

/-- Python / numpy indexing `l[i]`: negative indices wrap once, everything else out of range raises `IndexError` -/
def pyIndex {α : Type} (l : List α) (i : Int) : Except Err α :=
  let n : Int := l.length
  if 0 ≤ i ∧ i < n then
    match l[i.toNat]? with
    | some x => .ok x
    | none => .error .indexError
  else if -n ≤ i ∧ i < 0 then
    match l[(i + n).toNat]? with
    | some x => .ok x
    | none => .error .indexError
  else .error .indexError

/-- positions against per-dimension sizes: every index in `[0, size-1]`, one per dimension -/
def inBox : List Nat → Pos → Bool
  | [], [] => true
  | n :: ns, p :: ps => decide (0 ≤ p) && decide (p < (n : Int)) && inBox ns ps
  | _, _ => false

/-- the predicate of C01 -/
def InSpace (sp : Space) (p : Pos) : Prop := inBox sp.sizes p = true

instance (sp : Space) (p : Pos) : Decidable (InSpace sp p) := by unfold InSpace; infer_instance

end GFO
