/-
  GFO.Model.Grid — model of `optimizers/grid/*`: `get_direction`, the diagonal pointer machine (after fix b6579da),
  both mixed-radix `grid_move` decoders, the orthogonal pointer. Without constraints `iterate` is deterministic.
-/
import GFO.Model.Space
namespace GFO

def prodN : List Nat → Nat
  | [] => 1
  | d :: ds => d * prodN ds

/-- `DiagonalGridSearchOptimizer.grid_move`: most significant dimension first, the last coordinate is the remainder -/
def decodeDiag : List Nat → Nat → List Nat
  | [], _ => []
  | [_], p => [p]
  | d :: d' :: ds, p => (p / prodN (d' :: ds) % d) :: decodeDiag (d' :: ds) (p % prodN (d' :: ds))

/-- `OrthogonalGridSearchOptimizer.grid_move`: least significant dimension first -/
def decodeOrth : List Nat → Nat → List Nat
  | [], _ => []
  | d :: ds, p => (p % d) :: decodeOrth ds (p / d)

/-- `get_direction`: count down from the start value (`int(round(S ** (1/n_dims)))`, an oracle input ≥ 1) until coprime -/
def getDirection (S : Nat) : Nat → Nat
  | 0 => 0
  | d + 1 => if Nat.gcd S (d + 1) = 1 then d + 1 else getDirection S d

/-- `current_pass_finished` at inner trial `t ≥ 1`: `t*s // S > (t-1)*s // S` -/
def passFinished (S s t : Nat) : Bool := decide ((t * s) / S > ((t - 1) * s) / S)

/-- the pinned form: `(t+1)*s // S > t*s // S` (one step too early) -/
def passFinishedLegacy (S s t : Nat) : Bool := decide (((t + 1) * s) / S > (t * s) / S)

/-- `high_dim_pointer` at the `t`-th call of `DiagonalGridSearchOptimizer.iterate` (no constraints; `d` = direction) -/
def diagPtr (S s d : Nat) : Nat → Nat
  | 0 => 0
  | t + 1 =>
    let p := diagPtr S s d t
    if passFinished S s (t + 1) then p % s + 1 else (p + s * d) % S

def diagPtrLegacy (S s d : Nat) : Nat → Nat
  | 0 => 0
  | t + 1 =>
    let p := diagPtrLegacy S s d t
    if passFinishedLegacy S s (t + 1) then p % s + 1 else (p + s * d) % S

/-- position of the `t`-th iteration step of diagonal grid search -/
def diagPos (dims : List Nat) (s d t : Nat) : List Nat := decodeDiag dims (diagPtr (prodN dims) s d t)

/-- `mod_tmp` of `OrthogonalGridSearchOptimizer.grid_move` at inner trial `t` -/
def orthRaw (S s t : Nat) : Nat := t * s + (t * s) / S

def orthPos (dims : List Nat) (s t : Nat) : List Nat := decodeOrth dims (orthRaw (prodN dims) s t)

/-- positions against sizes -/
def inBoxN : List Nat → List Nat → Bool
  | [], [] => true
  | d :: ds, c :: cs => decide (c < d) && inBoxN ds cs
  | _, _ => false

end GFO
