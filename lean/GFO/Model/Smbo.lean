/-
  GFO.Model.Smbo — bookkeeping of the sequence-model-based optimizers (`smb_opt/smbo.py`, also used by
  `global_opt/lipschitz_optimization.py`): the training lists `X_sample` / `Y_sample`, the candidate set with
  removal (`replacement=False`), the arg-max selection over an acquisition vector, the `warm_start_smbo` filter.
  The acquisition vector itself (expected improvement, density ratio, Lipschitz bound) and `argsort`'s permutation are
  oracle inputs.
-/
import GFO.Model.Space
namespace GFO

structure SmboState where
  X : List Pos := []
  Y : List F := []
  cands : List Pos := []          -- `all_pos_comb`
deriving Repr, Inhabited

namespace SmboState

/-- `track_X_sample`: the position returned by `init_pos` / `iterate` is appended -/
def trackX (s : SmboState) (p : Pos) : SmboState := { s with X := s.X ++ [p] }

/-- `track_y_sample`: a nan/inf score takes the last `X` back, a finite one is appended to `Y` -/
def trackY (s : SmboState) (score : F) : SmboState :=
  if score.isFinite then { s with Y := s.Y ++ [score] } else { s with X := s.X.dropLast }

/-- `_remove_position` -/
def removePos (s : SmboState) (p : Pos) : SmboState := { s with cands := s.cands.filter (fun q => !(q == p)) }

/-- one model-based iteration step followed by its evaluation -/
def step (replacement : Bool) (s : SmboState) (p : Pos) (score : F) : SmboState :=
  let s1 := s.trackX p
  let s2 := if replacement then s1 else s1.removePos p
  s2.trackY score

end SmboState

/-- `π` sorts `acq` ascending under IEEE `<=` restricted to nan-free vectors (what `argsort` delivers) -/
def sortsAscending (acq : List F) (perm : List Nat) : Bool :=
  perm.length == acq.length && (List.range acq.length).all (fun i => perm.contains i) &&
  (List.range (perm.length - 1)).all (fun k =>
    match acq[perm.getD k 0]?, acq[perm.getD (k + 1) 0]? with
    | some a, some b => F.le a b
    | _, _ => false)

/-- `index_best = argsort()[::-1]; pos_comb[index_best][0]`: the candidate at the LAST index of the ascending permutation -/
def selectIdx (perm : List Nat) : Option Nat := perm.getLast?

/-- `init_warm_start_smbo`: keep the rows whose cells are all finite and whose parameter values are all members of their
    dimension; rows = parameter values in `para_names` order ++ score -/
def warmFilter (dims : List (List Rat)) (rows : List (List F × F)) : List (List Rat × Rat) :=
  rows.filterMap (fun r =>
    match r.1.mapM (fun x => match x with | .fin q => some q | _ => none), r.2 with
    | some vs, .fin s =>
      if vs.length == dims.length && (vs.zip dims).all (fun vd => vd.2.contains vd.1) then some (vs, s) else none
    | _, _ => none)

end GFO
