/-
  GFO.Model.Local — COMPLETE backends (not scripted ones) for the optimizers whose `iterate` is built from
  `move_climb` / `move_random` only:

      HillClimbingOptimizer, StochasticHillClimbingOptimizer, SimulatedAnnealingOptimizer,
      RepulsingHillClimbingOptimizer, RandomRestartHillClimbingOptimizer, RandomSearchOptimizer,
      RandomAnnealingOptimizer

  (`core_optimizer.py`: `random_iteration`, `move_climb`, `conv2pos`, `move_random`, `init_pos`, `evaluate_init`;
   the `iterate` / `evaluate` of the six classes; `search_tracker.py` through GFO.Model.Tracker).

  Everything the code decides is modelled; what the two random generators and the user's constraint return is an
  oracle TAPE consumed in program order.  Each tape entry also carries the ARGUMENT the real call was made with, and the
  model insists on it (`protocol`): the centre of every draw, the position of every constraint evaluation, the
  `epsilon_mod` of every `move_climb` are therefore checked, not assumed.  `sigma`, `temp` and `exp` are floats that only
  feed the generators / the acceptance probability: they stay on the oracle side (the tape carries `p_accept`).
-/
import GFO.Model.Driver
import GFO.Model.Kernels
import GFO.Model.Tracker
namespace GFO

inductive Draw where
  | unif (x : Rat)                      -- `random.uniform(0, 1)` in `random_iteration`
  | climb (loc : Pos) (epsMod : Rat)    -- entry into `move_climb(pos, …, epsilon_mod=…)`
  | dist (loc : Pos) (res : List F)     -- `dist_dict[distribution](pos, sigma, pos.shape)`
  | rnd (p : Pos)                       -- `utils.move_random(search_space_positions)`
  | feas (p : Pos) (ok : Bool)          -- `conv.not_in_constraint(p)`
  | accept (pAcc : F) (r : Rat)         -- `_p_accept_default()` and the `random()` it is compared with in `_consider`
  | part (pos : Pos) (velo : List F)    -- `Particle._move_part(pos, velo)`: the float velocity is an oracle, the position is checked
  | spiral (v : List F)                 -- the float vector `A + B` of `Spiral.move_spiral` before clip and cast
  | sorted (perm : List Nat)            -- `sort_pop_best_score`: member indices by descending `score_current` (numpy's argsort)
  | int (k : Nat)                       -- an integer draw: `random.randint`, `random.choice` over a list of indices
  | npunif (x : Rat)                    -- `np.random.uniform(low=0, high=total_rate)`
  | choice (c : List Nat)               -- `discrete_recombination`: per coordinate, which parent it comes from
  | mutant (v : List F)                 -- `DifferentialEvolutionOptimizer.mutation()`: the float mutant vector
  | parents (idx : List Nat)            -- `GeneticAlgorithmOptimizer._crossover`: indices of the selected parents
  | inits (l : List Pos)                -- the start-up list of an optimizer that is built DURING the run (Powell's inner climber)
  | vec (v : List F)                    -- a float vector that is NOT a position: acquisition values, a Lipschitz bound
deriving Repr, DecidableEq, Inhabited

abbrev Tape := List Draw

def protocol (what : String) : Err := .other ("protocol:" ++ what)

/-- `CoreOptimizer.move_random`: draw until the constraint accepts -/
def moveRandomLoop : Tape → Except Err (Pos × Tape)
  | .rnd p :: .feas q ok :: rest =>
    if q ≠ p then .error (protocol "constraint-evaluated-elsewhere")
    else if ok then .ok (p, rest) else moveRandomLoop rest
  | [] => .error .needMore
  | [.rnd _] => .error .needMore
  | _ => .error (protocol "move_random")

/-- `not_in_constraint(p)` read from the tape -/
def askFeas (p : Pos) : Tape → Except Err (Bool × Tape)
  | .feas q ok :: rest => if q ≠ p then .error (protocol "constraint-evaluated-elsewhere") else .ok (ok, rest)
  | [] => .error .needMore
  | _ => .error (protocol "constraint")

/-- geometry of the space as the kernels see it -/
structure Geo where
  maxPos : List Int
  size : Nat
deriving Repr, DecidableEq, Inhabited

def Space.geo (sp : Space) : Geo := { maxPos := sp.maxPositions, size := sp.size }

/-- `CoreOptimizer.conv2pos` with its fallback drawn from the tape only when it is taken -/
def conv2posT (g : Geo) (v : List F) (tape : Tape) : Except Err (Pos × Tape) :=
  let c := clipCastVec v g.maxPos
  if farOutside v c g.size then moveRandomLoop tape else .ok (c, tape)

/-- the `while True` of `move_climb`: the next candidate is drawn around the REJECTED candidate -/
def moveClimbLoop (g : Geo) : Nat → Pos → Tape → Except Err (Pos × Tape)
  | 0, _, _ => .error .needMore
  | fuel + 1, loc, tape =>
    match tape with
    | .dist loc' res :: rest =>
      if loc' ≠ loc then .error (protocol "draw-centred-elsewhere")
      else do
        let (p, rest1) ← conv2posT g res rest
        match rest1 with
        | .feas q ok :: rest2 =>
          if q ≠ p then .error (protocol "constraint-evaluated-elsewhere")
          else if ok then .ok (p, rest2) else moveClimbLoop g fuel p rest2
        | [] => .error .needMore
        | _ => .error (protocol "move_climb-constraint")
    | [] => .error .needMore
    | _ => .error (protocol "move_climb-draw")

/-- `move_climb(pos, epsilon_mod=…)`; `epsMod = none`: the value is a float the model does not compute
    (`RandomAnnealingOptimizer`: `temp = start_temp * annealing_rate ** k` in float arithmetic) and is not checked;
    `fuel` bounds the retries (callers pass the length of the tape, computed once per step) -/
def moveClimb (g : Geo) (loc : Option Pos) (epsMod : Option Rat) (fuel : Nat) (tape : Tape) : Except Err (Pos × Tape) :=
  match loc with
  | none => .error (.other "AttributeError")            -- `None.shape`
  | some l =>
    match tape with
    | .climb l' e' :: rest =>
      if l' ≠ l then .error (protocol "move_climb-from-elsewhere")
      else if epsMod.isSome ∧ epsMod ≠ some e' then .error (protocol "epsilon_mod")
      else moveClimbLoop g fuel l rest
    | [] => .error .needMore
    | _ => .error (protocol "move_climb")

inductive LocalKind where
  | hillClimbing
  | stochastic                          -- StochasticHillClimbing and SimulatedAnnealing (temperature lives in `p_accept`)
  | repulsing (factor : Rat)
  | restart (nIterRestart : Nat)
  | randomSearch
  | randomAnnealing                     -- hill climbing whose step width is scaled by a float temperature (oracle side)
deriving Repr, DecidableEq, Inhabited

structure LocalCfg where
  kind : LocalKind
  nNeighbours : Nat := 3
  randRestP : Rat := 0
  geo : Geo
deriving Repr, DecidableEq, Inhabited

structure Local where
  tr : Tracker := {}
  initL : List Pos := []                -- `init.init_positions_l`
  epsMod : Rat := 1                     -- `RepulsingHillClimbingOptimizer.epsilon_mod`
  tape : Tape := []
deriving Repr, DecidableEq, Inhabited

/-- the `random_iteration` decorator -/
def randomIteration (cfg : LocalCfg) (tape : Tape) (k : Tape → Except Err (Pos × Tape)) : Except Err (Pos × Tape) :=
  match tape with
  | .unif x :: rest => if cfg.randRestP > x then moveRandomLoop rest else k rest
  | [] => .error .needMore
  | _ => .error (protocol "random_iteration")

/-- the undecorated `iterate` body of each class -/
def localPropose (cfg : LocalCfg) (s : Local) : Except Err (Pos × Tape) :=
  let fuel := s.tape.length
  match cfg.kind with
  | .hillClimbing | .stochastic =>
    randomIteration cfg s.tape (moveClimb cfg.geo s.tr.posCurrent (some 1) fuel)
  | .randomAnnealing => randomIteration cfg s.tape (moveClimb cfg.geo s.tr.posCurrent none fuel)
  | .repulsing _ => moveClimb cfg.geo s.tr.posCurrent (some s.epsMod) fuel s.tape
  | .restart n =>
    randomIteration cfg s.tape (fun tape =>
      if s.tr.nthTrial ≠ 0 ∧ s.tr.nthTrial % n = 0 then moveRandomLoop tape
      else moveClimb cfg.geo s.tr.posCurrent (some 1) fuel tape)
  | .randomSearch => moveRandomLoop s.tape

def localIterate (cfg : LocalCfg) (s : Local) : Except Err (Pos × Local) := do
  let (p, tape) ← localPropose cfg s
  pure (p, { s with tr := s.tr.trackNewPos p, tape := tape })

def localEvaluate (cfg : LocalCfg) (s : Local) (score : F) : Except Err Local :=
  match cfg.kind with
  | .hillClimbing | .restart _ | .randomAnnealing => .ok { s with tr := Tracker.hcEvaluate cfg.nNeighbours s.tr score }
  | .randomSearch => .ok { s with tr := Tracker.plainEvaluate s.tr score }
  | .repulsing factor =>
    let t := Tracker.hcEvaluate cfg.nNeighbours s.tr score
    .ok { s with tr := t, epsMod := if F.le score t.scoreCurrent then factor else 1 }
  | .stochastic =>
    if F.le score s.tr.scoreCurrent then
      match s.tape with
      | .accept pAcc r :: rest =>
        .ok { s with tr := Tracker.stochasticEvaluate cfg.nNeighbours s.tr score (F.ge pAcc (.fin r)), tape := rest }
      | [] => .error .needMore
      | _ => .error (protocol "_consider")
    else .ok { s with tr := Tracker.stochasticEvaluate cfg.nNeighbours s.tr score false }

/-- `CoreOptimizer.init_pos` -/
def localInitPos (s : Local) : Except Err (Pos × Local) :=
  match s.initL[s.tr.nthInit]? with
  | some p => .ok (p, { s with tr := s.tr.trackNewPos p })
  | none => .error .indexError

/-- the six optimizers as the `Search` mix-in sees them -/
def localBackend (cfg : LocalCfg) : Backend Local where
  initPos := localInitPos
  evalInit s score := .ok { s with tr := Tracker.evaluateInit s.tr score }
  finishInit s := .ok s
  iterate := localIterate cfg
  evaluate := localEvaluate cfg

end GFO
