/-
  GFO.Model.GridBackend — COMPLETE backend for `GridSearchOptimizer` (grid_search.py) with its inner
  `DiagonalGridSearchOptimizer` / `OrthogonalGridSearchOptimizer` (diagonal_grid_search.py after fixes b6579da, 602b8e7;
  orthogonal_grid_search.py after fix 44da952): pointer machines, both `grid_move` decoders, `conv2pos`, the
  constraint retry / fallback, the two trackers (outer and inner object).

  Oracle side: the constraint verdicts and the random fallback positions (tape entries `feas`, `rnd`, argument-checked),
  and `dirStart = int(round(|S| ** (1 / n_dims)))`, the float expression `get_direction` starts from (a configuration
  value; the resulting `direction_calc` is compared with the real object's after every history).
-/
import GFO.Model.Local
import GFO.Model.Grid
namespace GFO

inductive GridDir where
  | diagonal
  | orthogonal
deriving Repr, DecidableEq, Inhabited

structure GridCfg where
  dir : GridDir
  stepSize : Nat
  dims : List Nat          -- `conv.dim_sizes`
  dirStart : Nat
  geo : Geo
deriving Repr, DecidableEq, Inhabited

structure GridSt where
  tr : Tracker := {}        -- the `GridSearchOptimizer` object itself
  inner : Tracker := {}     -- `grid_search_opt`
  initL : List Pos := []
  ptr : Nat := 0            -- `high_dim_pointer`
  dirCalc : Option Nat := none
  tape : Tape := []
deriving Repr, DecidableEq, Inhabited

def posOfNat (l : List Nat) : Pos := l.map Int.ofNat
def natVec (l : List Nat) : List F := l.map (fun n => F.ofInt (Int.ofNat n))

/-- the `while True` of `DiagonalGridSearchOptimizer.iterate` once the direction is known -/
def diagLoop (cfg : GridCfg) (d t : Nat) : Nat → Bool → Nat → Tape → Except Err (Pos × Nat × Tape)
  | 0, _, _, _ => .error .needMore
  | fuel + 1, firstTry, ptr, tape =>
    let S := prodN cfg.dims
    let ptr' :=
      if !firstTry then (ptr + d) % S
      else if passFinished S cfg.stepSize t then ptr % cfg.stepSize + 1
      else (ptr + cfg.stepSize * d) % S
    do
      let (p, tape1) ← conv2posT cfg.geo (natVec (decodeDiag cfg.dims ptr')) tape
      let (ok, tape2) ← askFeas p tape1
      if ok then pure (p, ptr', tape2) else diagLoop cfg d t fuel false ptr' tape2

/-- `DiagonalGridSearchOptimizer.iterate` (undecorated); `t` = the inner object's `nth_trial` -/
def diagIterate (cfg : GridCfg) (s : GridSt) : Except Err (Pos × GridSt) :=
  match s.dirCalc with
  | none =>
    let d := getDirection (prodN cfg.dims) cfg.dirStart
    let p0 : Pos := cfg.dims.map (fun _ => 0)
    do
      let (ok, tape1) ← askFeas p0 s.tape
      if ok then pure (p0, { s with dirCalc := some d, tape := tape1 })
      else do
        let (p, tape2) ← moveRandomLoop tape1
        pure (p, { s with dirCalc := some d, tape := tape2 })
  | some d => do
    let (p, ptr', tape') ← diagLoop cfg d s.inner.nthTrial (s.tape.length + 1) true s.ptr s.tape
    pure (p, { s with ptr := ptr', tape := tape' })

/-- `OrthogonalGridSearchOptimizer.iterate` (undecorated) -/
def orthIterate (cfg : GridCfg) (s : GridSt) : Except Err (Pos × GridSt) := do
  let raw := decodeOrth cfg.dims (orthRaw (prodN cfg.dims) cfg.stepSize s.inner.nthTrial)
  let (p, tape1) ← conv2posT cfg.geo (natVec raw) s.tape
  let (ok, tape2) ← askFeas p tape1
  if ok then pure (p, { s with tape := tape2 })
  else do
    let (q, tape3) ← moveRandomLoop tape2
    pure (q, { s with tape := tape3 })

/-- `GridSearchOptimizer.iterate`: the inner object's decorated `iterate`, then the outer `track_new_pos` -/
def gridIterate (cfg : GridCfg) (s : GridSt) : Except Err (Pos × GridSt) := do
  let (p, s1) ← match cfg.dir with
    | .diagonal => diagIterate cfg s
    | .orthogonal => orthIterate cfg s
  pure (p, { s1 with inner := s1.inner.trackNewPos p, tr := s1.tr.trackNewPos p })

/-- `GridSearchOptimizer.evaluate` (under `track_new_score`): only the inner object evaluates -/
def gridEvaluate (s : GridSt) (score : F) : GridSt :=
  let t1 := s.tr.setScoreNew score
  { s with tr := { t1 with nthTrial := t1.nthTrial + 1 }, inner := Tracker.plainEvaluate s.inner score }

def gridInitPos (s : GridSt) : Except Err (Pos × GridSt) :=
  match s.initL[s.tr.nthInit]? with
  | some p => .ok (p, { s with tr := s.tr.trackNewPos p })
  | none => .error .indexError

def gridBackend (cfg : GridCfg) : Backend GridSt where
  initPos := gridInitPos
  evalInit s score := .ok { s with tr := Tracker.evaluateInit s.tr score }
  finishInit s := .ok s
  iterate := gridIterate cfg
  evaluate s score := .ok (gridEvaluate s score)

end GFO
