/-
  GFO.Model.Converter — model of `optimizers/core_optimizer/converter.py` (class `Converter`).
-/
import GFO.Model.Space
namespace GFO

abbrev Value := List Rat
abbrev Para := List (String × Rat)


/-- `position2value`: `space_dim[position[n]]` for every dimension (Python indexing: negative wraps, else IndexError) -/
def position2value : List (List Rat) → Pos → Except Err Value
  | [], _ => .ok []
  | _ :: _, [] => .error .indexError
  | d :: ds, p :: ps => do
    let v ← pyIndex d p
    let vs ← position2value ds ps
    pure (v :: vs)

/-- index of the first minimum of `|v - d[j]|` (`np.abs(v - d).argmin()`); scan state = (best distance, best index) -/
def argminScan (v : Rat) : Rat × Nat → Nat → List Rat → Rat × Nat
  | st, _, [] => st
  | (b, bi), i, x :: xs =>
    if absQ (v - x) < b then argminScan v (absQ (v - x), i) (i + 1) xs else argminScan v (b, bi) (i + 1) xs

def argminAbs (v : Rat) : List Rat → Nat
  | [] => 0
  | x :: xs => (argminScan v (absQ (v - x), 0) 1 xs).2

/-- `value2position` -/
def value2position : List (List Rat) → Value → Except Err (List Nat)
  | [], _ => .ok []
  | _ :: _, [] => .error .indexError
  | d :: ds, v :: vs => do
    let ps ← value2position ds vs
    pure (argminAbs v d :: ps)

/-- `value2para`: `zip(para_names, value)` into a dict (truncates to the shorter) -/
def value2para (names : List String) (v : Value) : Para := names.zip v

def paraGet (para : Para) (k : String) : Except Err Rat :=
  match para.find? (fun e => e.1 == k) with
  | some e => .ok e.2
  | none => .error .keyError

/-- `para2value`: look every parameter up by name, in `para_names` order -/
def para2value : List String → Para → Except Err Value
  | [], _ => .ok []
  | n :: ns, para => do
    let v ← paraGet para n
    let vs ← para2value ns para
    pure (v :: vs)

/-- `values2positions` (after the fix: nearest-element lookup per column) -/
def values2positions (dims : List (List Rat)) (vs : List Value) : Except Err (List (List Nat)) :=
  vs.mapM (value2position dims)

/-- the form at the pinned commit: `space_dim.searchsorted(values_1d)` = numpy's left bisection (correct only on an
    ascending array) -/
def bisectLeft (d : List Rat) (v : Rat) : Nat → Nat → Nat → Nat
  | 0, lo, _ => lo
  | fuel + 1, lo, hi =>
    if lo < hi then
      let mid := lo + (hi - lo) / 2
      if d.getD mid 0 < v then bisectLeft d v fuel (mid + 1) hi else bisectLeft d v fuel lo mid
    else lo

def searchsortedLeft (d : List Rat) (v : Rat) : Nat := bisectLeft d v (d.length + 1) 0 d.length

def values2positionsLegacy (dims : List (List Rat)) (vs : List Value) : List (List Nat) :=
  vs.map (fun v => (dims.zip v).map (fun dv => searchsortedLeft dv.1 dv.2))

/-- `positions2values` (`np.take` per column; same indexing rules as `position2value`) -/
def positions2values (dims : List (List Rat)) (ps : List Pos) : Except Err (List Value) :=
  ps.mapM (position2value dims)

/-- `not_in_constraint` for an abstract feasibility oracle on parameter values -/
def notInConstraint (dims : List (List Rat)) (feasible : Value → Bool) (p : Pos) : Except Err Bool := do
  let v ← position2value dims p
  pure (feasible v)

/-! ### memory dictionaries (Python dict with insertion order; keys are position tuples) -/

abbrev Dict (α : Type) := List (Pos × α)

def Dict.get? {α} (d : Dict α) (k : Pos) : Option α :=
  match d.find? (fun e => e.1 == k) with
  | some e => some e.2
  | none => none

def Dict.contains {α} (d : Dict α) (k : Pos) : Bool := d.any (fun e => e.1 == k)

/-- `d[k] = v`: overwrite in place, else append -/
def Dict.set {α} : Dict α → Pos → α → Dict α
  | [], k, v => [(k, v)]
  | (k', v') :: d, k, v => if k' == k then (k', v) :: d else (k', v') :: Dict.set d k v

/-- `dict(zip(keys, vals))` / `d.update(...)`: later duplicates overwrite -/
def Dict.update {α} (d : Dict α) (kvs : List (Pos × α)) : Dict α := kvs.foldl (fun d e => Dict.set d e.1 e.2) d

def Dict.keys {α} (d : Dict α) : List Pos := d.map (·.1)

/-- `dataframe2memory_dict` restricted to the parameter columns and the score column (a row = values ++ score) -/
def dataframe2memoryDict {α} (dims : List (List Rat)) (rows : List (Value × α)) : Except Err (Dict α) := do
  let ps ← values2positions dims (rows.map (·.1))
  let keys : List Pos := ps.map (fun p => p.map Int.ofNat)
  pure (Dict.update [] (keys.zip (rows.map (·.2))))

/-- `memory_dict2dataframe` -/
def memoryDict2dataframe {α} (dims : List (List Rat)) (m : Dict α) : Except Err (List (Value × α)) := do
  let vs ← positions2values dims m.keys
  pure (vs.zip (m.map (·.2)))

end GFO
