/-
  GFO.Model.Proto — token-level parsing / printing for the line protocol (I/O glue, trusted).
  One command per input line, space-separated tokens; rationals `n/d` or `n`; `inf`, `-inf`, `nan`; `-` = None.
-/
import GFO.Model.Driver
namespace GFO.Proto
open GFO

abbrev P := StateT (List String) (Except String)

def tok : P String := do
  match (← get) with
  | [] => throw "eol"
  | t :: ts => set ts; pure t

def atEnd : P Bool := do return (← get).isEmpty

def pInt : P Int := do
  let t ← tok
  match t.toInt? with
  | some i => pure i
  | none => throw s!"int? {t}"

def pNat : P Nat := do
  let t ← tok
  match t.toNat? with
  | some i => pure i
  | none => throw s!"nat? {t}"

def parseRat (t : String) : Option Rat :=
  match t.splitOn "/" with
  | [a] => a.toInt?.map (fun i => (i : Rat))
  | [a, b] =>
    match a.toInt?, b.toNat? with
    | some n, some d => if d = 0 then none else some (mkRat n d)
    | _, _ => none
  | _ => none

def pRat : P Rat := do
  let t ← tok
  match parseRat t with
  | some q => pure q
  | none => throw s!"rat? {t}"

def parseF (t : String) : Option F :=
  if t = "inf" then some .pinf else if t = "-inf" then some .ninf else if t = "nan" then some .nan
  else (parseRat t).map .fin

def pF : P F := do
  let t ← tok
  match parseF t with
  | some x => pure x
  | none => throw s!"F? {t}"

def pOpt {α} (p : P α) : P (Option α) := do
  match (← get) with
  | "-" :: ts => set ts; pure none
  | _ => do let x ← p; pure (some x)

def pBool : P Bool := do
  let t ← tok
  if t = "1" then pure true else if t = "0" then pure false else throw s!"bool? {t}"

def pList {α} (p : P α) : P (List α) := do
  let n ← pNat
  let rec go : Nat → List α → P (List α)
    | 0, acc => pure acc.reverse
    | k + 1, acc => do let x ← p; go k (x :: acc)
  go n []

def pN {α} (n : Nat) (p : P α) : P (List α) :=
  let rec go : Nat → List α → P (List α)
    | 0, acc => pure acc.reverse
    | k + 1, acc => do let x ← p; go k (x :: acc)
  go n []

def pFlv : P Flavour := do
  let t ← tok
  if t = "py" then pure .py else if t = "np" then pure .np else throw s!"flv? {t}"

def pRes : P Res := do
  let s ← pF
  let m ← pList (do let k ← tok; let v ← tok; pure (k, v))
  pure { score := s, metrics := m }

/-! printing -/

def showRat (q : Rat) : String := if q.den = 1 then toString q.num else s!"{q.num}/{q.den}"

def showF : F → String
  | .fin q => showRat q
  | .pinf => "inf"
  | .ninf => "-inf"
  | .nan => "nan"

def showList {α} (f : α → String) (l : List α) : String := "[" ++ ",".intercalate (l.map f) ++ "]"
def showPos (p : Pos) : String := showList toString p
def showOpt {α} (f : α → String) : Option α → String
  | none => "None"
  | some x => f x
def showBool (b : Bool) : String := if b then "true" else "false"
def showExcept {α} (f : α → String) : Except Err α → String
  | .ok x => f x
  | .error e => "err:" ++ e.toString

def showCell : Cell → String
  | .num x => showF x
  | .tok s => "t:" ++ s

/-- insertion sort by key (canonical order for dict contents) -/
def sortBy {α} (lt : α → α → Bool) : List α → List α
  | [] => []
  | x :: xs => ins x (sortBy lt xs)
where ins (x : α) : List α → List α
  | [] => [x]
  | y :: ys => if lt y x then y :: ins x ys else x :: y :: ys

def showRow (r : Row) : String :=
  "{" ++ ";".intercalate ((sortBy (fun a b => a.1 < b.1) r).map (fun e => e.1 ++ "=" ++ showCell e.2)) ++ "}"

def showRes (r : Res) : String :=
  showF r.score ++ "{" ++ ";".intercalate ((sortBy (fun a b => a.1 < b.1) (r.metrics.filter (fun e => e.1 != "score"))).map (fun e => e.1 ++ "=" ++ e.2)) ++ "}"

def posLt : Pos → Pos → Bool
  | [], [] => false
  | [], _ => true
  | _, [] => false
  | a :: as, b :: bs => if a < b then true else if b < a then false else posLt as bs

def showDict {α} (f : α → String) (d : Dict α) : String :=
  "{" ++ ";".intercalate ((sortBy (fun a b => posLt a.1 b.1) d).map (fun e => showPos e.1 ++ ":" ++ f e.2)) ++ "}"

def showEv : Ev → String
  | .initPos p => "I" ++ showPos p
  | .evalInit s => "i" ++ showF s
  | .finishInit => "F"
  | .iterate p => "T" ++ showPos p
  | .evaluate s => "t" ++ showF s

end GFO.Proto
