/-
  GFO.Model.Powell — COMPLETE backend for `PowellsMethod` (global_opt/powells_method/powells_method.py): the iteration
  counters, `new_dim` (best valid position by argsort, the 1-D sub-space through it, a NEW inner `HillClimbingOptimizer` whose
  start-up list is an oracle), the first five proposals of a dimension from the inner `init_pos`, the later ones from the inner
  `iterate`, the translation of the inner position into the outer space, the outer constraint check with the outer
  `move_climb` repair, `random_iteration` around all of it, and `evaluate`, which feeds the score to the inner climber
  whatever position was really evaluated.

  The model reproduces two known findings:
    C15  with no finite score so far `new_dim` indexes an empty list: IndexError;
    C19  after a repair (or a random restart) the inner climber pairs ITS OWN proposal with the score of the position that
         was evaluated instead: its tracked best / current pair may never have been evaluated.
-/
import GFO.Model.Evolution
namespace GFO

structure PowCfg where
  itersPDim : Nat
  nNeighbours : Nat
  randRestP : Rat
  sizes : List Nat             -- `conv.dim_sizes`
  geo : Geo
deriving Repr, DecidableEq, Inhabited

structure PowSt where
  tr : Tracker := {}
  initL : List Pos := []
  nthIter : Int := -1          -- `self.nth_iter_`
  nthIterCurDim : Nat := 0     -- `self.nth_iter_current_dim`
  curDim : Int := -1           -- `self.current_search_dim`
  powellsPos : Pos := []
  hc : Option Local := none    -- `self.hill_climb`
  tape : Tape := []
deriving Repr, DecidableEq, Inhabited

/-- geometry of the 1-D sub-space: the searched dimension keeps its size, the others have one point -/
def innerGeo (sizes : List Nat) (dim : Nat) : Geo :=
  let sz := (List.range sizes.length).map (fun k => if k = dim then sizes.getD k 1 else 1)
  { maxPos := sz.map (fun (n : Nat) => Int.ofNat n - 1), size := sz.foldl (· * ·) 1 }

def innerCfg (cfg : PowCfg) (dim : Nat) : LocalCfg :=
  { kind := .hillClimbing, nNeighbours := cfg.nNeighbours, randRestP := 0, geo := innerGeo cfg.sizes dim }

/-- `hill_climb.conv.position2value(pos)`: the searched coordinate indexes `range(size)` (so it is its own value), the
    other coordinates index the one-element arrays `[powells_pos[k]]` -/
def toOuter (sizes : List Nat) (dim : Nat) (powellsPos : Pos) (inner : Pos) : Except Err Pos :=
  (List.range powellsPos.length).mapM (fun k =>
    match inner[k]? with
    | none => .error .indexError
    | some x =>
      if k = dim then (if 0 ≤ x ∧ x < (sizes.getD k 0 : Int) then .ok x else .error .indexError)
      else if x = 0 then .ok (powellsPos.getD k 0) else .error .indexError)

/-- the position the next line search passes through: the best valid position, or (after fix) the current position while no
    finite score has been seen -/
def powBest (s : PowSt) (perm : List Nat) : Except Err Pos :=
  match perm.head? with
  | none =>
    match s.tr.posCurrent with
    | some pp => .ok pp
    | none => .error (.other "TypeError")          -- `None[idx]`
  | some i0 =>
    match s.tr.positionsValid[i0]? with
    | some (some pp) => .ok pp
    | _ => .error .indexError

/-- `new_dim()` -/
def powNewDim (cfg : PowCfg) (s : PowSt) : Except Err PowSt :=
  let nd := cfg.sizes.length
  let dim : Int := if s.curDim + 1 ≥ (nd : Int) then 0 else s.curDim + 1
  match s.tape with
  | .sorted perm :: rest0 =>
    if ¬ sortedDesc s.tr.scoresValid perm then .error (protocol "sort_list_idx-not-descending")
    else
      match powBest s perm with
      | .error e => .error e
      | .ok pp =>
        match rest0 with
        | .inits l :: rest =>
          .ok { s with curDim := dim, powellsPos := pp, nthIterCurDim := 0, hc := some { initL := l }, tape := rest }
        | [] => .error .needMore
        | _ => .error (protocol "new_dim-inner-optimizer")
  | [] => .error .needMore
  | _ => .error (protocol "new_dim")

/-- the undecorated body of `iterate` after the random-restart test -/
def powPropose (cfg : PowCfg) (s : PowSt) : Except Err (Pos × PowSt) :=
  if cfg.itersPDim = 0 then .error .zeroDivision
  else
    let s1 := { s with nthIter := s.nthIter + 1, nthIterCurDim := s.nthIterCurDim + 1 }
    match (if s1.nthIter % (cfg.itersPDim : Int) = 0 then powNewDim cfg s1 else .ok s1) with
    | .error e => .error e
    | .ok s2 =>
      match s2.hc with
      | none => .error (.other "AttributeError")      -- no `self.hill_climb` yet
      | some h =>
        let dim := s2.curDim.toNat
        let icfg := innerCfg cfg dim
        match (if s2.nthIterCurDim < 5 then localInitPos { h with tape := s2.tape } else localIterate icfg { h with tape := s2.tape }) with
        | .error e => .error e
        | .ok a =>
          match toOuter cfg.sizes dim s2.powellsPos a.1 with
          | .error e => .error e
          | .ok pos =>
            let s3 := { s2 with hc := some { a.2 with tape := [] }, tape := a.2.tape }
            match askFeas pos s3.tape with
            | .error e => .error e
            | .ok b =>
              if b.1 then .ok (pos, { s3 with tape := b.2 })
              else
                match moveClimb cfg.geo (some pos) (some 1) s.tape.length b.2 with
                | .error e => .error e
                | .ok c => .ok (c.1, { s3 with tape := c.2 })

/-- `iterate` under `track_new_pos` and `random_iteration` -/
def powIterate (cfg : PowCfg) (s : PowSt) : Except Err (Pos × PowSt) :=
  match s.tape with
  | .unif x :: rest =>
    if cfg.randRestP > x then
      match moveRandomLoop rest with
      | .error e => .error e
      | .ok a => .ok (a.1, { s with tr := s.tr.trackNewPos a.1, tape := a.2 })
    else
      match powPropose cfg { s with tape := rest } with
      | .error e => .error e
      | .ok a => .ok (a.1, { a.2 with tr := a.2.tr.trackNewPos a.1 })
  | [] => .error .needMore
  | _ => .error (protocol "random_iteration")

/-- `evaluate` (under `track_new_score`): the inner climber is fed the score whenever a dimension is being searched -/
def powEvaluate (cfg : PowCfg) (s : PowSt) (score : F) : Except Err PowSt :=
  let t1 := Tracker.baseEvaluate (s.tr.setScoreNew score) score
  let tr' := { t1 with nthTrial := t1.nthTrial + 1 }
  if s.curDim = -1 then .ok { s with tr := tr' }
  else
    match s.hc with
    | none => .error (.other "AttributeError")
    | some h => .ok { s with tr := tr', hc := some { h with tr := Tracker.hcEvaluate cfg.nNeighbours h.tr score } }

def powInitPos (s : PowSt) : Except Err (Pos × PowSt) :=
  match s.initL[s.tr.nthInit]? with
  | some p => .ok (p, { s with tr := s.tr.trackNewPos p })
  | none => .error .indexError

def powBackend (cfg : PowCfg) : Backend PowSt where
  initPos := powInitPos
  evalInit s score := .ok { s with tr := Tracker.evaluateInit s.tr score }
  finishInit s := .ok { s with nthIter := -1, nthIterCurDim := 0 }
  iterate := powIterate cfg
  evaluate := powEvaluate cfg

end GFO
