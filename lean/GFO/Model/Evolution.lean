/-
  GFO.Model.Evolution — COMPLETE backends for the evolutionary population optimizers
  (pop_opt/evolution_strategy.py after fix 7daf0d5, genetic_algorithm.py after bd860db, differential_evolution.py after
  ac4d60e, on `_evolutionary_algorithm.py` / `base_population_optimizer.py`): which individual is current, mutation versus
  crossover, `discrete_recombination`, the outer constraint check and the `move_climb` repair, what every individual's
  tracker records.

  Oracle side (tape, in program order, argument-checked where there is an argument): numpy's argsort of the members'
  `score_current` (the model CHECKS that the permutation is a descending arrangement, nan first), integer draws,
  `np.random.uniform`, the per-coordinate parent choice of `discrete_recombination`, DE's float mutant vector, GA's sampled
  parents (their indices; CHECKED to be a duplicate-free sample of the documented size from `fittest_parents()`, which is code).
-/
import GFO.Model.Population
namespace GFO

def adjacentDesc : List F → Bool
  | a :: b :: rest => (a.isNan || (!b.isNan && F.ge a b)) && adjacentDesc (b :: rest)
  | _ => true

/-- `idx_sorted_ind = list(scores_np.argsort()[::-1])`: a permutation of the member indices, nan first, then non-increasing -/
def sortedDesc (scores : List F) (perm : List Nat) : Bool :=
  perm.length == scores.length && (List.range scores.length).all (fun i => perm.contains i) &&
  adjacentDesc (perm.map (fun i => scores.getD i .nan))

/-- `sort_pop_best_score()` -/
def popSorted (s : PopSt) : Tape → Except Err (List Nat × Tape)
  | .sorted perm :: rest =>
    if sortedDesc (s.members.map (·.tr.scoreCurrent)) perm then .ok (perm, rest) else .error (protocol "pop_sorted-not-descending")
  | [] => .error .needMore
  | _ => .error (protocol "sort_pop_best_score")

def takeInt : Tape → Except Err (Nat × Tape)
  | .int k :: rest => .ok (k, rest)
  | [] => .error .needMore
  | _ => .error (protocol "integer-draw")

def takeNpUnif : Tape → Except Err (Rat × Tape)
  | .npunif x :: rest => .ok (x, rest)
  | [] => .error .needMore
  | _ => .error (protocol "np.random.uniform")

def takeChoice (n : Nat) : Tape → Except Err (List Nat × Tape)
  | .choice c :: rest => if c.length = n then .ok (c, rest) else .error (protocol "recombination-size")
  | [] => .error .needMore
  | _ => .error (protocol "discrete_recombination")

/-- `self.p_current = <member idx>; return self.p_current.iterate()` (the member's hill-climbing `iterate`) -/
def memberIterate (cfg : LocalCfg) (s : PopSt) (idx : Nat) (tape : Tape) : Except Err (Pos × PopSt) :=
  match s.members[idx]? with
  | none => .error .indexError
  | some m => do
    let (p, m') ← localIterate cfg { m with tape := tape }
    pure (p, { s with members := s.members.set idx { m' with tape := [] }, cur := idx, tape := m'.tape, tr := s.tr.trackNewPos p })

/-- `pos_new` of member `idx` becomes `q` (the property setter: no counter moves); it is the current member; `q` is emitted -/
def emitVia (s : PopSt) (idx : Nat) (q : Pos) (tape : Tape) : Except Err (Pos × PopSt) :=
  match s.members[idx]? with
  | none => .error .indexError
  | some m =>
    .ok (q, { s with members := s.members.set idx { m with tr := { m.tr with posNew := some q } }, cur := idx, tape := tape
                     tr := s.tr.trackNewPos q })

/-! ### EvolutionStrategyOptimizer -/

structure ESCfg where
  member : LocalCfg            -- `Individual`: hill climbing, `n_neighbours` 3, `rand_rest_p`
  mutationRate : Rat
deriving Repr, DecidableEq, Inhabited

def posCurrentOf (s : PopSt) (idx : Nat) : Except Err Pos :=
  match s.members[idx]? with
  | some m => match m.tr.posCurrent with
    | some p => .ok p
    | none => .error (.other "TypeError")
  | none => .error .indexError

/-- `random.choice([i for i in range(0, n_ind - 1) if i != rnd_int])` (`range(0, n_ind)` for two individuals): admissible results -/
def secondParentOK (n k k2 : Nat) : Bool := decide (k2 ≠ k) && decide (k2 < (if n > 2 then n - 1 else n))

/-- `_cross` -/
def esCross (cfg : ESCfg) (s : PopSt) (perm : List Nat) (k : Nat) (tape : Tape) : Except Err (Pos × PopSt) := do
  let n := s.members.length
  let (k2, t1) ← takeInt tape
  if secondParentOK n k k2 = false then .error (protocol "second-parent")
  else do
    let cur := perm.getD k 0
    let sec := perm.getD k2 0
    let worst := perm.getD (n - 1) 0
    let pc ← posCurrentOf s cur
    let ps ← posCurrentOf s sec
    let (c, t2) ← takeChoice pc.length t1
    let pos ← recombine c [pc, ps]
    let (ok, t3) ← askFeas pos t2
    if ok then emitVia s worst pos t3
    else do
      let (q, t4) ← moveClimb cfg.member.geo (some pos) (some 1) s.tape.length t3
      emitVia s worst q t4

def esIterate (cfg : ESCfg) (s : PopSt) : Except Err (Pos × PopSt) :=
  let n := s.members.length
  if n = 1 then memberIterate cfg.member s 0 s.tape
  else do
    let (perm, t1) ← popSorted s s.tape
    let (k, t2) ← takeInt t1                     -- `random.randint(0, len(self.pop_sorted) - 1)`
    if ¬ k < n then .error .valueError
    else do
      let (x, t3) ← takeNpUnif t2
      if x ≤ cfg.mutationRate then memberIterate cfg.member s (perm.getD k 0) t3
      else esCross cfg s perm k t3

def esBackend (cfg : ESCfg) : Backend PopSt where
  initPos := ptInitPos
  evalInit := ptEvalInit
  finishInit s := .ok s
  iterate := esIterate cfg
  evaluate := psoEvaluate cfg.member

/-! ### DifferentialEvolutionOptimizer -/

/-- `_constraint_loop(position)`: the outer check, else the current member's `move_climb(position, epsilon_mod=0.3)`, again -/
def constraintLoop (g : Geo) (epsMod : Rat) : Nat → Pos → Tape → Except Err (Pos × Tape)
  | 0, _, _ => .error .needMore
  | fuel + 1, p, tape => do
    let (ok, t1) ← askFeas p tape
    if ok then pure (p, t1)
    else do
      let (q, t2) ← moveClimb g (some p) (some epsMod) fuel t1
      constraintLoop g epsMod fuel q t2

/-- `np.choose(choice, [target_vector, mutant_vector])` -/
def deChoose : List Nat → Pos → List F → List F
  | c :: cs, t :: ts, v :: vs => (if c = 0 then F.ofInt t else v) :: deChoose cs ts vs
  | _, _, _ => []

structure DECfg where
  member : LocalCfg
  epsMod : Rat                 -- the literal `0.3` of `_constraint_loop` as the float it is
deriving Repr, DecidableEq, Inhabited

def deIterate (cfg : DECfg) (s : PopSt) : Except Err (Pos × PopSt) := do
  let (idx, m) ← s.pick
  match m.tr.posNew with
  | none => .error (.other "TypeError")
  | some target =>
    match s.tape with
    | .mutant v :: t1 => do
      let (c, t2) ← takeChoice target.length t1
      if v.length ≠ target.length ∨ c.any (fun x => decide (x ≥ 2)) then .error (protocol "recombination")
      else do
        let (p1, t3) ← conv2posT cfg.member.geo (deChoose c target v) t2
        let (p2, t4) ← constraintLoop cfg.member.geo cfg.epsMod (t3.length + 1) p1 t3
        let (p3, t5) ← conv2posT cfg.member.geo (p2.map F.ofInt) t4
        emitVia s idx p3 t5
    | [] => .error .needMore
    | _ => .error (protocol "mutation")

def deBackend (cfg : DECfg) : Backend PopSt where
  initPos := ptInitPos
  evalInit := ptEvalInit
  finishInit s := .ok s
  iterate := deIterate cfg
  evaluate := psoEvaluate cfg.member

/-! ### GeneticAlgorithmOptimizer -/

structure GACfg where
  member : LocalCfg
  mutationRate : Rat
  nOffspring : Nat
  epsMod : Rat
  nParents : Nat := 2
deriving Repr, DecidableEq, Inhabited

structure GASt where
  pop : PopSt := {}
  offspring : List Pos := []          -- `self.offspring_l`
deriving Repr, DecidableEq, Inhabited

def posNewOf (s : PopSt) (idx : Nat) : Except Err Pos :=
  match s.members[idx]? with
  | some m => match m.tr.posNew with
    | some p => .ok p
    | none => .error (.other "TypeError")
  | none => .error .indexError

/-- the `for _ in range(self.offspring)` loop of `_crossover` -/
def gaOffspring (cfg : GACfg) (parents : List Pos) : Nat → List Pos → Tape → Except Err (List Pos × Tape)
  | 0, acc, tape => .ok (acc, tape)
  | n + 1, acc, tape => do
    let (c, t1) ← takeChoice (parents.headD []).length tape
    let pos ← recombine c parents
    let (q, t2) ← constraintLoop cfg.member.geo cfg.epsMod (t1.length + 1) pos t1
    gaOffspring cfg parents n (acc ++ [q]) t2

def takeRand01 : Tape → Except Err (Rat × Tape)
  | .unif x :: rest => .ok (x, rest)
  | [] => .error .needMore
  | _ => .error (protocol "random.random")

/-- `fittest_parents()`: the better half `pop_sorted[:int(len * 0.5)]` of the sorted population; when the 1 % draw fires,
    `best_l[random.randint(0, len(best_l) - 1)] = random.choice(worst_l)` - Python evaluates the right-hand side first, so the
    first integer draw indexes `worst_l` and the second `best_l` -/
def gaFittest (perm : List Nat) (x : Rat) (tape : Tape) : Except Err (List Nat × Tape) :=
  let best := perm.take (perm.length / 2)
  let worst := perm.drop (perm.length / 2)
  if (1 : Rat) / 100 ≥ x then
    match takeInt tape with
    | .error e => .error e
    | .ok a =>
      match worst[a.1]? with
      | none => .error .indexError
      | some w =>
        if best = [] then .error .valueError        -- `random.randint(0, -1)`
        else
          match takeInt a.2 with
          | .error e => .error e
          | .ok b => if b.1 < best.length then .ok (best.set b.1 w, b.2) else .error (protocol "randint-out-of-range")
  else .ok (best, tape)

/-- `random.sample(fittest_parents, min(n_parents, len(fittest_parents)))` as recorded: that many members, all of them among
    the fittest parents, no member twice -/
def parentsFrom (nParents : Nat) (fit : List Nat) : Tape → Bool
  | .parents idxs :: _ => idxs.length == min nParents fit.length && idxs.all (fun i => fit.contains i) && decide idxs.Nodup
  | _ => true

/-- the sampled parents and the offspring made from them -/
def gaParents (cfg : GACfg) (s : PopSt) : Tape → Except Err (List Pos × Tape)
  | .parents idxs :: t4 =>
    match idxs.mapM (posNewOf s) with
    | .error e => .error e
    | .ok ps =>
      if ps = [] then .error .indexError          -- `parent_pos_l[0]` of an empty list
      else gaOffspring cfg ps cfg.nOffspring [] t4
  | [] => .error .needMore
  | _ => .error (protocol "_crossover")

/-- `_crossover()`: `fittest_parents()` (sort, the 1 % replacement draw), the sampled parents, the offspring -/
def gaCrossover (cfg : GACfg) (s : PopSt) (tape : Tape) : Except Err (List Pos × Tape) :=
  match popSorted s tape with
  | .error e => .error e
  | .ok x1 =>
    match takeRand01 x1.2 with
    | .error e => .error e
    | .ok x2 =>
      match gaFittest x1.1 x2.1 x2.2 with
      | .error e => .error e
      | .ok x3 =>
        if parentsFrom cfg.nParents x3.1 x3.2 then gaParents cfg s x3.2
        else .error (protocol "parents-not-sampled-from-the-fittest")

/-- the crossover branch of `iterate`: refill the offspring queue when it is empty, emit its head via the current individual -/
def gaCross (cfg : GACfg) (g : GASt) (cur : Nat) (tape : Tape) : Except Err (Pos × GASt) :=
  -- `self.p_current` is the individual just drawn: its `move_climb` repairs infeasible offspring
  match (if g.offspring = [] then gaCrossover cfg g.pop tape else .ok (g.offspring, tape)) with
  | .error e => .error e
  | .ok x =>
    match x.1 with
    | [] => .error .indexError                -- `pop(0)` of an empty list (`offspring = 0`)
    | o :: rest =>
      match emitVia g.pop cur o x.2 with
      | .error e => .error e
      | .ok y => .ok (y.1, { pop := y.2, offspring := rest })

def gaMutate (cfg : GACfg) (g : GASt) (idx : Nat) (tape : Tape) : Except Err (Pos × GASt) :=
  match memberIterate cfg.member g.pop idx tape with
  | .error e => .error e
  | .ok y => .ok (y.1, { g with pop := y.2 })

/-- `iterate` once the population is sorted and an individual is drawn -/
def gaBranch (cfg : GACfg) (g : GASt) (perm : List Nat) (k : Nat) (tape : Tape) : Except Err (Pos × GASt) :=
  if ¬ k < g.pop.members.length then .error .valueError
  else
    match takeNpUnif tape with
    | .error e => .error e
    | .ok x =>
      if x.1 ≤ cfg.mutationRate then gaMutate cfg g (perm.getD k 0) x.2
      else gaCross cfg g (perm.getD k 0) x.2

def gaIterate (cfg : GACfg) (g : GASt) : Except Err (Pos × GASt) :=
  if g.pop.members.length = 1 then gaMutate cfg g 0 g.pop.tape
  else
    match popSorted g.pop g.pop.tape with
    | .error e => .error e
    | .ok x1 =>
      match takeInt x1.2 with
      | .error e => .error e
      | .ok x2 => gaBranch cfg g x1.1 x2.1 x2.2

def gaBackend (cfg : GACfg) : Backend GASt where
  initPos g := (ptInitPos g.pop).map (fun x => (x.1, { g with pop := x.2 }))
  evalInit g score := (ptEvalInit g.pop score).map (fun s => { g with pop := s })
  finishInit g := .ok g
  iterate := gaIterate cfg
  evaluate g score := (psoEvaluate cfg.member g.pop score).map (fun s => { g with pop := s })

end GFO
