/-
  GFO.Model.Kernels — the small functions that produce or transform a position:
  `conv2pos` (core_optimizer.py), `move_random` (utils.py), `_move_part` (_particle.py), the clip/cast of
  `move_spiral` (_spiral.py), `_init_grid_search` / `_get_random_vertex` (init_positions.py),
  `discrete_recombination` (_evolutionary_algorithm.py), `get_center_pos` (direct_algorithm.py).
  Float vectors are oracle inputs (`F`); what happens to them on the way to an index vector is modelled exactly.
-/
import GFO.Model.Space
namespace GFO

/-- `np.rint` on one float slot -/
def rintF : F → F
  | .fin q => .fin (rintQ q : Int)
  | x => x

/-- `np.clip(x, 0, m)` on one float slot (`m ≥ 0`): nan stays nan -/
def clipF (x : F) (m : Int) : F :=
  match x with
  | .fin q => if q < 0 then .fin 0 else if (m : Rat) < q then .fin (m : Rat) else .fin q
  | .pinf => .fin (m : Rat)
  | .ninf => .fin 0
  | .nan => .nan

/-- one coordinate of `np.clip(np.rint(x), 0, m).astype(int)` -/
def clipCast (x : F) (m : Int) : Int := castInt (clipF (rintF x) m)

def clipCastVec : List F → List Int → List Int
  | x :: xs, m :: ms => clipCast x m :: clipCastVec xs ms
  | _, _ => []

/-- squared euclidean distance between the rounded vector and the clipped one (`cdist` in `conv2pos`), `none` when a
    component is not finite -/
def distSq : List F → List Int → Option Rat
  | [], [] => some 0
  | x :: xs, c :: cs =>
    match rintF x, distSq xs cs with
    | .fin r, some rest => some ((r - (c : Rat)) * (r - (c : Rat)) + rest)
    | _, _ => none
  | _, _ => none

/-- `dist > threshold` with `threshold = search_space_size / 100 ** n_dimensions`; a non-finite distance compares like
    IEEE (`inf > t` true, `nan > t` false - the harness reports which; here: any non-finite component counts as far
    unless it is nan) -/
def farOutside (v : List F) (clipped : List Int) (size : Nat) : Bool :=
  match distSq v clipped with
  | some d2 =>
    let thr : Rat := (size : Rat) / ((100 : Rat) ^ v.length)
    decide (thr * thr < d2)
  | none => !(v.any F.isNan)

/-- `CoreOptimizer.conv2pos`: rounded, clipped, cast; replaced by a (feasible) random position when far outside -/
def conv2pos (v : List F) (maxPos : List Int) (size : Nat) (rnd : Pos) : Pos :=
  let c := clipCastVec v maxPos
  if farOutside v c size then rnd else c

/-- `utils.move_random`: one `random.choice` per dimension; `choices[k]` is the chosen index into `range(size_k)` -/
def moveRandom (choices : List Nat) : Pos := choices.map Int.ofNat

/-- `Particle._move_part`: `(pos + velo).astype(int)` THEN clip -/
def movePart : Pos → List F → List Int → Pos
  | p :: ps, v :: vs, m :: ms => clipI (castInt (F.add (F.ofInt p) v)) 0 m :: movePart ps vs ms
  | _, _, _ => []

/-- the end of `Spiral.move_spiral`: `np.clip(new_pos, 0, max).astype(int)` -/
def spiralClip : List F → List Int → Pos
  | x :: xs, m :: ms => castInt (clipF x m) :: spiralClip xs ms
  | _, _ => []

/-- `_init_grid_search` for one dimension: `[n * int(dim / (p + 1)) for n in 1..p]` with `dim = max_position` -/
def initGridDim (dim : Nat) (p : Nat) : List Nat := (List.range p).map (fun n => (n + 1) * (dim / (p + 1)))

/-- `_get_random_vertex`: per dimension the first or the last index -/
def randomVertex (sizes : List Nat) (bits : List Bool) : List Nat :=
  (sizes.zip bits).map (fun sb => if sb.2 then sb.1 - 1 else 0)

/-- `discrete_recombination`: `np.choose(choice, parents)` - coordinate `k` comes from parent `choice[k]` -/
def recombine (choice : List Nat) (parents : List Pos) : Except Err Pos :=
  (List.range choice.length).mapM (fun k =>
    match parents[choice.getD k 0]? with
    | some par => match par[k]? with
      | some x => .ok x
      | none => .error .indexError
    | none => .error .valueError)

/-- `DirectAlgorithm.get_center_pos` for one dimension of a subspace: `array[int(len(array) / 2)]` -/
def centerOf (arr : List Int) : Option Int := arr[arr.length / 2]?

def noNan (v : List F) : Bool := !(v.any F.isNan)

end GFO
