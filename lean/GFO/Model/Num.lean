/-
  GFO.Model.Num — the number domain of the model.

  `F` is what numpy / Python hold in a float64 slot, kept *exact*: a rational, +inf, -inf or nan.
  The harness transmits every float as `float.as_integer_ratio()`, so nothing is rounded on the wire.
  Comparisons are the IEEE ones (nan compares false), arithmetic follows IEEE for the non-finite
  cases and is exact on rationals (the checks that compare arithmetic results use dyadic inputs
  on which float arithmetic is exact as well).

  Core Lean only (no Mathlib): this file is linked into the native driver.
-/
namespace GFO

/-- numpy's `astype(int)` of nan / ±inf / out-of-range on x86-64 -/
def INT64_MIN : Int := -9223372036854775808
def INT64_MAX : Int := 9223372036854775807

def absQ (q : Rat) : Rat := if q < 0 then -q else q

inductive F where
  | fin (q : Rat)
  | pinf
  | ninf
  | nan
deriving DecidableEq, Repr, Inhabited

namespace F

def ofInt (i : Int) : F := .fin (i : Rat)
def zero : F := .fin 0

def isNan : F → Bool
  | nan => true
  | _ => false

def isInf : F → Bool
  | pinf => true
  | ninf => true
  | _ => false

/-- `~np.isinf(x) and ~np.isnan(x)` -/
def isFinite : F → Bool
  | fin _ => true
  | _ => false

/-- IEEE `a < b` (false as soon as one side is nan) -/
def lt : F → F → Bool
  | nan, _ => false
  | _, nan => false
  | fin a, fin b => decide (a < b)
  | ninf, ninf => false
  | ninf, _ => true
  | _, ninf => false
  | pinf, _ => false
  | fin _, pinf => true

/-- IEEE `a > b` -/
def gt (a b : F) : Bool := lt b a

/-- IEEE `a <= b` -/
def le : F → F → Bool
  | nan, _ => false
  | _, nan => false
  | fin a, fin b => decide (a ≤ b)
  | ninf, _ => true
  | _, pinf => true
  | _, ninf => false
  | pinf, _ => false

/-- IEEE `a >= b` -/
def ge (a b : F) : Bool := le b a

/-- IEEE `a == b` (nan ≠ nan) -/
def beq : F → F → Bool
  | fin a, fin b => decide (a = b)
  | pinf, pinf => true
  | ninf, ninf => true
  | _, _ => false

def neg : F → F
  | fin q => fin (-q)
  | pinf => ninf
  | ninf => pinf
  | nan => nan

def abs : F → F
  | fin q => fin (absQ q)
  | pinf => pinf
  | ninf => pinf
  | nan => nan

def add : F → F → F
  | nan, _ => nan
  | _, nan => nan
  | fin a, fin b => fin (a + b)
  | pinf, ninf => nan
  | ninf, pinf => nan
  | pinf, _ => pinf
  | _, pinf => pinf
  | ninf, _ => ninf
  | _, ninf => ninf

def sub (a b : F) : F := add a (neg b)

/-- sign of a non-nan value: -1, 0, 1 -/
def sgn : F → Int
  | fin q => if q < 0 then -1 else if q = 0 then 0 else 1
  | pinf => 1
  | ninf => -1
  | nan => 0

def mul : F → F → F
  | nan, _ => nan
  | _, nan => nan
  | fin a, fin b => fin (a * b)
  | a, b =>
    let s := sgn a * sgn b
    if s = 0 then nan else if s > 0 then pinf else ninf

/-- Python truthiness of a number used as a guard (`max_time and …`): zero is falsy, nan is truthy -/
def truthy : F → Bool
  | fin q => decide (q ≠ 0)
  | _ => true

end F

/-- the two float flavours that reach `no_change`: Python floats raise on `/ 0`, numpy floats give inf/nan -/
inductive Flavour where
  | py
  | np
deriving DecidableEq, Repr, Inhabited

inductive Err where
  | indexError
  | zeroDivision
  | valueError
  | keyError
  | needMore        -- a scripted oracle ran out of entries (protocol only)
  | other (s : String)
deriving DecidableEq, Repr, Inhabited

deriving instance DecidableEq for Except

def Err.toString : Err → String
  | .indexError => "IndexError"
  | .zeroDivision => "ZeroDivisionError"
  | .valueError => "ValueError"
  | .keyError => "KeyError"
  | .needMore => "NeedMore"
  | .other s => "Other(" ++ s ++ ")"

namespace F

/-- float division; `flv` selects Python (`ZeroDivisionError`) or numpy (`±inf` / `nan`) behaviour for a zero divisor -/
def div (flv : Flavour) : F → F → Except Err F
  | nan, _ => .ok nan
  | _, nan => .ok nan
  | fin a, fin b =>
    if b = 0 then
      match flv with
      | .py => .error .zeroDivision
      | .np => .ok (if a = 0 then nan else if a > 0 then pinf else ninf)
    else .ok (fin (a / b))
  | fin _, _ => .ok (fin 0)            -- finite / ±inf  (sign of zero is not observable here)
  | a, fin b =>                        -- ±inf / finite
    if b = 0 then
      match flv with
      | .py => .error .zeroDivision
      | .np => .ok a
    else .ok (if (sgn a) * (if b < 0 then -1 else 1) > 0 then pinf else ninf)
  | _, _ => .ok nan                    -- ±inf / ±inf

end F

/-! ### integer conversions used by the move kernels -/

/-- `np.rint` on an exact rational: round half to even -/
def rintQ (q : Rat) : Int :=
  let fl := q.floor
  let r := q - (fl : Rat)          -- in [0,1)
  if r < (1 : Rat) / 2 then fl
  else if (1 : Rat) / 2 < r then fl + 1
  else if fl % 2 = 0 then fl else fl + 1

/-- truncation toward zero (`astype(int)` / `int()` on a finite float) -/
def truncQ (q : Rat) : Int := if q < 0 then - ((-q).floor) else q.floor

def clipI (x lo hi : Int) : Int := if x < lo then lo else if x > hi then hi else x

/-- `np.asarray(x).astype(int)` for one float: finite in-range values truncate, everything else is INT64_MIN -/
def castInt : F → Int
  | .fin q =>
    let t := truncQ q
    if t < INT64_MIN ∨ t > INT64_MAX then INT64_MIN else t
  | _ => INT64_MIN

end GFO
