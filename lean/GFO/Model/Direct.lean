/-
  GFO.Model.Direct — COMPLETE backend for `DirectAlgorithm` (global_opt/direct_algorithm.py on smb_opt/smbo.py): the list
  of sub-spaces (boxes of positions), `SubSpace.__init__` (centre = the middle element of every dimension, IndexError on
  an empty one; the biggest dimension with a coin for ties), `select_next_subspace` (first unscored), `select_subspace`
  (first maximal Lipschitz bound under `>`, else the first sub-space), `split_dim_into_n` (numpy's `array_split` into
  three, empty parts skipped, the parent removed), the constraint check with the `move_climb(pos, epsilon_mod=0.3)` repair,
  `finish_initialization` (which appends the WHOLE space again on every `search()` call) and `evaluate`.

  As written, after a split `self.current_subspace` still names the REMOVED parent, so the score of the new sub-space's
  centre is stored on an object that is no longer in the list: the model keeps that ("detached").

  Oracle side: the coins of `biggest_dim_`, the constraint verdicts, and the float `score + cdist(...)` of each bound.
-/
import GFO.Model.SmboBackend
namespace GFO

structure Sub where
  dims : List (List Int)        -- per dimension: the positions of the box
  center : Pos
  biggest : Nat                 -- index of `biggest_dim`
  score : Option F := none
  bound : F := .ninf            -- `lipschitz_bound` (defined only once scored)
deriving Repr, DecidableEq, Inhabited

structure DirSt where
  tr : Tracker := {}
  initL : List Pos := []
  X : List Pos := []            -- `X_sample`
  Y : List F := []
  subs : List Sub := []         -- `self.subspace_l`
  cur : Option Nat := none      -- index of `current_subspace` in `subs`; `none`: no sub-space yet, or a detached (removed) one
  iterState : Bool := false
  tape : Tape := []
deriving Repr, Inhabited

/-- `biggest_dim_()`: scan the dimensions; a strictly larger size wins, an equal size wins on a coin (`random.randint(0, 1)`) -/
def biggestDim : List (List Int) → Nat → Nat → Nat → Tape → Except Err (Nat × Tape)
  | [], _, _, best, tape => .ok (best, tape)
  | d :: ds, k, largest, best, tape =>
    if d.length = largest then
      match tape with
      | .int b :: rest => if b ≠ 0 then biggestDim ds (k + 1) d.length k rest else biggestDim ds (k + 1) largest best rest
      | [] => .error .needMore
      | _ => .error (protocol "biggest_dim_")
    else if d.length > largest then biggestDim ds (k + 1) d.length k tape
    else biggestDim ds (k + 1) largest best tape

/-- `dim[len(dim) // 2]` of one dimension (IndexError on an empty one) -/
def midOf (d : List Int) : Except Err Int :=
  match d[d.length / 2]? with
  | some x => .ok x
  | none => .error .indexError

/-- `SubSpace(search_space)` -/
def mkSub (dims : List (List Int)) (tape : Tape) : Except Err (Sub × Tape) :=
  match dims.mapM midOf with
  | .error e => .error e
  | .ok c =>
    match biggestDim dims 0 0 0 tape with
    | .error e => .error e
    | .ok a => .ok ({ dims := dims, center := c, biggest := a.1 }, a.2)

/-- `np.array_split(arr, 3)` -/
def arraySplit3 (arr : List Int) : List (List Int) :=
  let q := arr.length / 3
  let r := arr.length % 3
  let s0 := q + (if r > 0 then 1 else 0)
  let s1 := q + (if r > 1 then 1 else 0)
  [arr.take s0, (arr.drop s0).take s1, arr.drop (s0 + s1)]

/-- the three children of a split, those with an empty dimension skipped (`except IndexError: pass`) -/
def mkChildren (parent : Sub) : List (List Int) → List Sub → Tape → Except Err (List Sub × Tape)
  | [], acc, tape => .ok (acc, tape)
  | part :: parts, acc, tape =>
    match mkSub (parent.dims.set parent.biggest part) tape with
    | .error .indexError => mkChildren parent parts acc tape
    | .error e => .error e
    | .ok a => mkChildren parent parts (acc ++ [a.1]) a.2

/-- `select_subspace()`: first strict maximum of the bounds (nan never wins), else the first sub-space -/
def selectSub (subs : List Sub) : Option Nat :=
  let rec go : List Sub → Nat → F → Option Nat → Option Nat
    | [], _, _, best => best
    | s :: ss, k, mx, best => if F.gt s.bound mx then go ss (k + 1) s.bound (some k) else go ss (k + 1) mx best
  match go subs 0 .ninf none with
  | some k => some k
  | none => if subs = [] then none else some 0

/-- the position `iterate` proposes before the constraint check, and the sub-space bookkeeping -/
def dirPropose (s : DirSt) : Except Err (Pos × DirSt) :=
  match s.subs.findIdx? (fun x => x.score.isNone) with
  | some i =>
    match s.subs[i]? with
    | some sb => .ok (sb.center, { s with cur := some i })
    | none => .error .indexError
  | none =>
    match selectSub s.subs with
    | none => .error .indexError                       -- `self.subspace_l[0]` of an empty list
    | some j =>
      match s.subs[j]? with
      | none => .error .indexError
      | some parent =>
        match mkChildren parent (arraySplit3 (parent.dims.getD parent.biggest [])) [] s.tape with
        | .error e => .error e
        | .ok a =>
          let subs' := (s.subs ++ a.1).eraseIdx j
          match subs'.getLast? with
          | none => .error .indexError                 -- `self.subspace_l[-1]`
          | some lastSub => .ok (lastSub.center, { s with subs := subs', cur := none, tape := a.2 })

/-- `iterate` under `track_new_pos` and `track_X_sample` -/
def dirIterate (g : Geo) (epsMod : Rat) (s : DirSt) : Except Err (Pos × DirSt) :=
  match dirPropose s with
  | .error e => .error e
  | .ok a =>
    match askFeas a.1 a.2.tape with
    | .error e => .error e
    | .ok b =>
      if b.1 then .ok (a.1, { a.2 with tr := a.2.tr.trackNewPos a.1, X := a.2.X ++ [a.1], tape := b.2 })
      else
        match moveClimb g (some a.1) (some epsMod) s.tape.length b.2 with
        | .error e => .error e
        | .ok c => .ok (c.1, { a.2 with tr := a.2.tr.trackNewPos c.1, X := a.2.X ++ [c.1], tape := c.2 })

/-- `evaluate` (under `track_new_score`): the base body, then `current_subspace.lipschitz_bound_(score)` -/
def dirEvaluate (s : DirSt) (score : F) : Except Err DirSt :=
  let t1 := Tracker.baseEvaluate (s.tr.setScoreNew score) score
  let tr' := { t1 with nthTrial := t1.nthTrial + 1 }
  if ¬ s.iterState then .ok { s with tr := tr' }
  else
    match s.tape with
    | .vec [b] :: rest =>
      let subs' := match s.cur with
        | some i => s.subs.modify i (fun sb => { sb with score := some score, bound := b })
        | none => s.subs                               -- the removed parent gets the score
      .ok { s with tr := tr', subs := subs', tape := rest }
    | [] => .error .needMore
    | _ => .error (protocol "lipschitz_bound_")

/-- `evaluate_init` of the SMBO base class (under `track_new_score` and `track_y_sample`) -/
def dirEvalInit (s : DirSt) (score : F) : DirSt :=
  let t1 := smboEvalBody (s.tr.setScoreNew score) score
  let sm := (({ X := s.X, Y := s.Y } : SmboState).trackY score)
  { s with tr := { t1 with nthTrial := t1.nthTrial + 1 }, X := sm.X, Y := sm.Y }

def dirInitPos (s : DirSt) : Except Err (Pos × DirSt) :=
  match s.initL[s.tr.nthInit]? with
  | some p => .ok (p, { s with tr := s.tr.trackNewPos p, X := s.X ++ [p] })
  | none => .error .indexError

/-- `finish_initialization`: one more sub-space covering the whole space -/
def dirFinishInit (sizes : List Nat) (s : DirSt) : Except Err DirSt :=
  match mkSub (sizes.map (fun n => (List.range n).map Int.ofNat)) s.tape with
  | .error e => .error e
  | .ok a => .ok { s with subs := s.subs ++ [a.1], iterState := true, tape := a.2 }

structure DirCfg where
  sizes : List Nat
  epsMod : Rat
  geo : Geo
deriving Repr, DecidableEq, Inhabited

def dirBackend (cfg : DirCfg) : Backend DirSt where
  initPos := dirInitPos
  evalInit s score := .ok (dirEvalInit s score)
  finishInit := dirFinishInit cfg.sizes
  iterate := dirIterate cfg.geo cfg.epsMod
  evaluate := dirEvaluate

end GFO
