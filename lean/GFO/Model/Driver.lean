/-
  GFO.Model.Driver — exact model of the `Search` mix-in (`search.py`) together with `Memory`
  (`_memory.py`), the score wrapper of `ResultsManager`, `TimesTracker` and `SearchStatistics`.

  The optimizer behind the mix-in is a parameter (`Backend σ`: an arbitrary state machine that emits
  positions and is fed scores), so every theorem about this file holds for all optimizers at once.
  The objective is an oracle `Obj`; the clock is virtual and advances only inside the objective.
-/
import GFO.Model.Results
import GFO.Model.Stop
namespace GFO

/-- any optimizer, as the `Search` mix-in sees it -/
structure Backend (σ : Type) where
  initPos : σ → Except Err (Pos × σ)
  evalInit : σ → F → Except Err σ
  finishInit : σ → Except Err σ
  iterate : σ → Except Err (Pos × σ)
  evaluate : σ → F → Except Err σ

/-- objective oracle: objective-call index (over the optimizer's life), step index (rows so far), parameter
    values ↦ result and the virtual time the call takes. A deterministic objective ignores the two indices. -/
abbrev Obj := Nat → Nat → Value → Res × Rat

/-- `memory=` argument of `search()`: `False`/`None` | `True` | a `DictProxy` -/
inductive MemMode where
  | off
  | fresh
  | shared
deriving DecidableEq, Repr, Inhabited

/-- the arguments of one `search()` call -/
structure Call where
  nIter : Nat
  maxTime : Option F := none
  maxScore : Option F := none
  early : Option Early := none
  memory : MemMode := .fresh
  warm : Option (List (Value × F)) := none     -- usable `memory_warm_start` rows: parameter columns and score
  lvl1 : Bool := false                          -- `"progress_bar" in verbosity`
  flv : Flavour := .py                          -- float flavour of the scores (division in `no_change`)
deriving Repr, Inhabited

inductive Ev where
  | initPos (p : Pos)
  | evalInit (s : F)
  | finishInit
  | iterate (p : Pos)
  | evaluate (s : F)
deriving Repr, DecidableEq, Inhabited

/-- state of one optimizer object that persists across `search()` calls -/
structure DState (σ : Type) where
  nInits : Nat                  -- `self.init.n_inits`
  rows : List Row := []         -- `results_mang.results_list`
  posL : List Pos := []
  scoreL : List F := []
  nInitTotal : Nat := 0
  nIterTotal : Nat := 0
  evalT : List Rat := []
  iterT : List Rat := []
  clock : Rat := 0
  nCalls : Nat := 0             -- objective calls so far
  shared : Dict Res := []       -- content of the user's manager dict (memory = DictProxy)
  trace : List Ev := []         -- backend methods called, in order
  bst : σ

/-- state of one `search()` call -/
structure CState where
  stop : StopCfg
  pbar : PBar := {}
  mem : Dict Res := []
  nInitSearch : Nat := 0
  nIterSearch : Nat := 0
  nInitsNorm : Nat
  calls : List Pos := []        -- memory keys for which the objective was really called in this search call
  fresh : List Bool := []       -- per step of this call: objective called (true) or answered from memory (false)
deriving Repr, Inhabited

structure CallResult where
  bestScore : F
  bestPos : Option Pos
  bestValue : Option Value
  bestPara : Option Para
  memoryDict : Dict Res
  steps : Nat
  bestSince : List Nat
deriving Repr, Inhabited

variable {σ : Type}

/-- `Memory.__init__` + the choice of the score function in `init_search` -/
def initMemory (sp : Space) (c : Call) (shared : Dict Res) : Except Err (Dict Res) := do
  let base : Dict Res := if c.memory = .shared then shared else []
  match c.warm with
  | none => pure base
  | some [] => pure base                                  -- `warm_start.empty`
  | some rows =>
    let d ← dataframe2memoryDict sp.dims (rows.map (fun r => (r.1, ({ score := r.2, metrics := [] } : Res))))
    pure (Dict.update base d)

/-- `init_search` -/
def initSearch (sp : Space) (c : Call) (d : DState σ) : Except Err CState := do
  let mem ← initMemory sp c d.shared
  pure { stop := { startTime := d.clock, maxTime := c.maxTime, maxScore := c.maxScore, early := c.early }
         mem := mem
         nInitsNorm := min (d.nInits - d.nInitTotal) c.nIter }

/-- outcome of asking for the objective's result at a parameter set: fresh call or memory hit -/
structure Eval where
  res : Res
  dur : Rat            -- virtual time spent in the objective (0 on a memory hit)
  fresh : Bool         -- the objective was really called
  mem : Dict Res       -- memory dictionary afterwards
  calls : List Pos     -- memory keys really evaluated in this search call, afterwards
deriving Repr, Inhabited

/-- the optional `Memory.memory` wrapper around the objective; reads the call counter, the row count (= step index),
    the memory dictionary and the log of really evaluated keys -/
def evalAt (sp : Space) (obj : Obj) (c : Call) (nCalls nRows : Nat) (mem : Dict Res) (calls : List Pos)
    (value : Value) : Except Err Eval :=
  if c.memory = .off then
    let r := obj nCalls nRows value
    pure { res := r.1, dur := r.2, fresh := true, mem := mem, calls := calls }
  else do
    let value' ← para2value sp.names (value2para sp.names value)
    let keyN ← value2position sp.dims value'
    let key : Pos := keyN.map Int.ofNat
    match mem.get? key with
    | some res => pure { res := res, dur := 0, fresh := false, mem := mem, calls := calls }
    | none =>
      let r := obj nCalls nRows value
      pure { res := r.1, dur := r.2, fresh := true, mem := Dict.set mem key r.1, calls := calls ++ [key] }

/-- the state after one evaluation -/
def afterEval (sp : Space) (d : DState σ) (cs : CState) (value : Value) (e : Eval) : DState σ × CState :=
  ({ d with rows := d.rows ++ [rowOf e.res (value2para sp.names value)]
            nCalls := d.nCalls + (if e.fresh then 1 else 0)
            clock := d.clock + e.dur
            evalT := d.evalT ++ [e.dur] },
   { cs with mem := e.mem, calls := e.calls, fresh := cs.fresh ++ [e.fresh] })

/-- the score function of `ResultsManager` around the optional `Memory` wrapper -/
def scoreStep (sp : Space) (obj : Obj) (c : Call) (d : DState σ) (cs : CState) (pos : Pos) :
    Except Err (F × DState σ × CState) := do
  let value ← position2value sp.dims pos
  let e ← evalAt sp obj c d.nCalls d.rows.length cs.mem cs.calls value
  pure (e.res.score, afterEval sp d cs value e)

def pbarUpdate (c : Call) (p : PBar) (score : F) (pos : Pos) (i : Nat) : PBar :=
  if c.lvl1 then p.update1 score pos i else p.update0 score pos i

/-- `_initialization` (with its `iter_time` wrapper) -/
def initialization (b : Backend σ) (sp : Space) (obj : Obj) (c : Call) (i : Nat) (d : DState σ) (cs : CState) :
    Except Err (DState σ × CState) := do
  let t0 := d.clock
  let (pos, bst1) ← b.initPos d.bst
  let d1 := { d with bst := bst1, trace := d.trace ++ [Ev.initPos pos] }
  let (score, d2, cs2) ← scoreStep sp obj c d1 cs pos
  let bst3 ← b.evalInit d2.bst score
  let d3 := { d2 with bst := bst3, trace := d2.trace ++ [Ev.evalInit score]
                      posL := d2.posL ++ [pos], scoreL := d2.scoreL ++ [score]
                      nInitTotal := d2.nInitTotal + 1 }
  let cs3 := { cs2 with pbar := pbarUpdate c cs2.pbar score pos i, nInitSearch := cs2.nInitSearch + 1 }
  pure ({ d3 with iterT := d3.iterT ++ [d3.clock - t0] }, cs3)

/-- `_iteration` (with its `iter_time` wrapper) -/
def iteration (b : Backend σ) (sp : Space) (obj : Obj) (c : Call) (i : Nat) (d : DState σ) (cs : CState) :
    Except Err (DState σ × CState) := do
  let t0 := d.clock
  let (pos, bst1) ← b.iterate d.bst
  let d1 := { d with bst := bst1, trace := d.trace ++ [Ev.iterate pos] }
  let (score, d2, cs2) ← scoreStep sp obj c d1 cs pos
  let bst3 ← b.evaluate d2.bst score
  let d3 := { d2 with bst := bst3, trace := d2.trace ++ [Ev.evaluate score]
                      posL := d2.posL ++ [pos], scoreL := d2.scoreL ++ [score]
                      nIterTotal := d2.nIterTotal + 1 }
  let cs3 := { cs2 with pbar := pbarUpdate c cs2.pbar score pos i, nIterSearch := cs2.nIterSearch + 1 }
  pure ({ d3 with iterT := d3.iterT ++ [d3.clock - t0] }, cs3)

/-- the second and third `if` of `search_step` -/
def stepTail (b : Backend σ) (sp : Space) (obj : Obj) (c : Call) (i : Nat) (d1 : DState σ) (cs1 : CState) :
    Except Err (DState σ × CState) := do
  let (d2, cs2) ←
    if i = cs1.nInitSearch then do
      let bst ← b.finishInit d1.bst
      pure ({ d1 with bst := bst, trace := d1.trace ++ [Ev.finishInit] }, cs1)
    else pure (d1, cs1)
  if cs2.nInitSearch ≤ i ∧ i < c.nIter then iteration b sp obj c i d2 cs2 else pure (d2, cs2)

/-- `search_step(nth_iter)`: three consecutive `if`s, exactly as written -/
def searchStep (b : Backend σ) (sp : Space) (obj : Obj) (c : Call) (i : Nat) (d : DState σ) (cs : CState) :
    Except Err (DState σ × CState) := do
  let (d1, cs1) ← if i < cs.nInitsNorm then initialization b sp obj c i d cs else pure (d, cs)
  stepTail b sp obj c i d1 cs1

/-- `self.stop.check()` after a step (`stop.update` has been fed the running best and the whole `score_l`) -/
def checkStop (c : Call) (d : DState σ) (cs : CState) : Except Err Bool :=
  stopCheck c.flv cs.stop d.clock cs.pbar.scoreBest d.scoreL

/-- `finish_search` -/
def finishSearch (sp : Space) (c : Call) (d : DState σ) (cs : CState) (steps : Nat) : Except Err (DState σ × CallResult) := do
  let bestValue ← match cs.pbar.posBest with
    | none => pure none
    | some p => do let v ← position2value sp.dims p; pure (some v)
  let res : CallResult :=
    { bestScore := cs.pbar.scoreBest, bestPos := cs.pbar.posBest, bestValue := bestValue
      bestPara := bestValue.map (value2para sp.names)
      memoryDict := if c.memory = .off then [] else cs.mem
      steps := steps, bestSince := cs.pbar.bestSince }
  pure ({ d with shared := if c.memory = .shared then cs.mem else d.shared }, res)

/-- the `for nth_trial in range(n_iter): search_step; if stop.check(): break` loop; returns the number of steps run -/
def searchLoop (b : Backend σ) (sp : Space) (obj : Obj) (c : Call) :
    Nat → Nat → DState σ → CState → Except Err (DState σ × CState × Nat)
  | 0, i, d, cs => pure (d, cs, i)
  | fuel + 1, i, d, cs => do
    let (d1, cs1) ← searchStep b sp obj c i d cs
    let stop ← checkStop c d1 cs1
    if stop then pure (d1, cs1, i + 1) else searchLoop b sp obj c fuel (i + 1) d1 cs1

/-- `search(objective_function, n_iter, …)` -/
def searchCall (b : Backend σ) (sp : Space) (obj : Obj) (c : Call) (d : DState σ) : Except Err (DState σ × CallResult) := do
  let cs ← initSearch sp c d
  let (d1, cs1, steps) ← searchLoop b sp obj c c.nIter 0 d cs
  finishSearch sp c d1 cs1 steps

/-- the step API without looking at the stop object: `search_step(0) … search_step(N-1)` -/
def stepLoop (b : Backend σ) (sp : Space) (obj : Obj) (c : Call) :
    Nat → Nat → DState σ → CState → Except Err (DState σ × CState × Nat)
  | 0, i, d, cs => pure (d, cs, i)
  | fuel + 1, i, d, cs => do
    let (d1, cs1) ← searchStep b sp obj c i d cs
    stepLoop b sp obj c fuel (i + 1) d1 cs1

/-- `init_search(…); for i in range(N): search_step(i); finish_search()` -/
def stepApi (b : Backend σ) (sp : Space) (obj : Obj) (c : Call) (d : DState σ) : Except Err (DState σ × CallResult) := do
  let cs ← initSearch sp c d
  let (d1, cs1, steps) ← stepLoop b sp obj c c.nIter 0 d cs
  finishSearch sp c d1 cs1 steps

/-- a history of `search()` calls on one optimizer object -/
def searchHistory (b : Backend σ) (sp : Space) (obj : Obj) : List Call → DState σ → Except Err (DState σ × List CallResult)
  | [], d => pure (d, [])
  | c :: cs, d => do
    let (d1, r) ← searchCall b sp obj c d
    let (d2, rs) ← searchHistory b sp obj cs d1
    pure (d2, r :: rs)

end GFO
