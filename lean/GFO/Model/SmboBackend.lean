/-
  GFO.Model.SmboBackend — COMPLETE backend for the surrogate-model optimizers that share `SMBO._propose_location`
  (smb_opt/smbo.py with bayesian_optimization.py, tree_structured_parzen_estimators.py, forest_optimizer.py) and for
  `LipschitzOptimizer` (global_opt/lipschitz_optimization.py: the same base class with its own `iterate`): the training
  lists `X_sample` / `Y_sample` through `track_X_sample` / `track_y_sample`, the candidate set built in
  `finish_initialization` (constraint filter) and shrunk by `_remove_position` (`replacement=False`), the
  `try: self._training() except ValueError: return self.move_random()` fallback, candidate subsampling, the choice
  `pos_comb[argsort(acquisition)[::-1]][0]`, and `evaluate` / `evaluate_init` (new2current, current2best).

  Oracle side: the (possibly subsampled) grid of positions before the constraint filter, the verdicts, whether training
  succeeded, the sampled indices, the acquisition vector (surrogate model, expected improvement / density ratio - floats) and
  numpy's argsort (checked: descending, nan first).
-/
import GFO.Model.Evolution
import GFO.Model.Smbo
namespace GFO

structure SmboCfg where
  replacement : Bool
  trainsOnEmpty : Bool        -- a class whose `_training` draws a `move_random` on an empty `Y_sample` and then predicts unfitted (ForestOptimizer before its fix; no class now)
  lipschitz : Bool := false   -- LipschitzOptimizer: its own `iterate` - no training step; `cdist` refuses an empty `X_sample`
  geo : Geo
deriving Repr, DecidableEq, Inhabited

structure SmboSt where
  tr : Tracker := {}
  initL : List Pos := []
  sm : SmboState := {}
  tape : Tape := []
  flat : Bool := false        -- `all_pos_comb` was built from an EMPTY list of feasible rows: numpy makes that a 1-D array of shape (0,)
deriving Repr, Inhabited

/-- `_all_possible_pos()`: the grid and the constraint verdict of each of its rows -/
def allPossiblePos : Tape → Except Err (List Pos × Tape)
  | .inits grid :: .choice bits :: rest =>
    if bits.length ≠ grid.length then .error (protocol "_all_possible_pos")
    else .ok (((grid.zip bits).filter (fun e => e.2 ≠ 0)).map (·.1), rest)
  | [] => .error .needMore
  | [.inits _] => .error .needMore
  | _ => .error (protocol "finish_initialization")

/-- `self._sampling(self.all_pos_comb)`: everything (`[]`), or the rows `np.random.choice` picked -/
def sampleCands (cands : List Pos) (idxs : List Nat) : Except Err (List Pos) :=
  if idxs = [] then .ok cands
  else idxs.mapM (fun i => match cands[i]? with
    | some p => .ok p
    | none => .error .indexError)

/-- the acquisition vector and its descending order over the candidates `pc`: the first row -/
def pickByAcq (pc : List Pos) : Tape → Except Err (Pos × Tape)
  | .vec acq :: .sorted perm :: rest =>
    if acq.length ≠ pc.length then .error (protocol "acquisition-length")
    else if ¬ sortedDesc acq perm then .error (protocol "argsort-not-descending")
    else
      match perm.head? with
      | none => .error .indexError
      | some i0 =>
        match pc[i0]? with
        | some p => .ok (p, rest)
        | none => .error .indexError
  | [] => .error .needMore
  | [.vec _] => .error .needMore
  | _ => .error (protocol "_expected_improvement")

/-- the model-based proposal: (sub)sample the candidates - the surrogate model refuses an empty array with ValueError
    (all candidates used up with `replacement=False`) -, then the first row of the descending acquisition order -/
def proposeByModel (cands : List Pos) : Tape → Except Err (Pos × Tape)
  | .parents idxs :: rest =>
    match sampleCands cands idxs with
    | .error e => .error e
    | .ok pc => if pc = [] then .error .valueError else pickByAcq pc rest
  | [] => .error .needMore
  | _ => .error (protocol "_sampling")

/-- what `_training()` itself draws: ForestOptimizer's `if len(Y_sample) == 0: return self.move_random()` makes the draws of a
    `move_random` (generator and constraint) and drops the position -/
def trainTape (cfg : SmboCfg) (s : SmboSt) : Except Err Tape :=
  if cfg.trainsOnEmpty ∧ s.sm.Y = [] then
    match moveRandomLoop s.tape with
    | .error e => .error e
    | .ok a => .ok a.2
  else .ok s.tape

/-- `_propose_location()` -/
def smboPropose (cfg : SmboCfg) (s : SmboSt) : Except Err (Pos × Tape) :=
  if cfg.lipschitz then
    -- without a valid sample: a random position; else `pos_comb = self._sampling(…)`, `LipschitzFunction.calculate(X_sample, …)`, the first
    -- row of the descending order of the upper bounds (IndexError when no candidate is left)
    if s.sm.X = [] then moveRandomLoop s.tape          -- (after fix: `if len(self.X_sample) == 0: return self.move_random()`)
    else
    match s.tape with
    | .parents idxs :: rest =>
      match sampleCands s.sm.cands idxs with
      | .error e => .error e
      | .ok pc =>
        if s.flat ∧ pc = [] then .error .valueError        -- cdist refuses the 1-D empty candidate array
        else pickByAcq pc rest
    | [] => .error .needMore
    | _ => .error (protocol "_sampling")
  else
  match trainTape cfg s with
  | .error e => .error e
  | .ok tape1 =>
    match tape1 with
    | .int trained :: rest =>
      if trained = 0 then moveRandomLoop rest          -- `except ValueError: return self.move_random()`
      else if cfg.trainsOnEmpty ∧ s.sm.Y = [] then .error (.other "NotFittedError")   -- known finding: predict before any fit
      else proposeByModel s.sm.cands rest
    | [] => .error .needMore
    | _ => .error (protocol "_training")

/-- `iterate` under `track_new_pos` and `track_X_sample` -/
def smboIterate (cfg : SmboCfg) (s : SmboSt) : Except Err (Pos × SmboSt) :=
  match smboPropose cfg s with
  | .error e => .error e
  | .ok a => .ok (a.1, { s with tr := s.tr.trackNewPos a.1, sm := s.sm.trackX a.1, tape := a.2 })

/-- the body shared by `evaluate` and `evaluate_init` -/
def smboEvalBody (t : Tracker) (score : F) : Tracker := (t.evaluateNew2current score).evaluateCurrent2best

/-- `evaluate` (under `track_new_score` and `track_y_sample`) -/
def smboEvaluate (cfg : SmboCfg) (s : SmboSt) (score : F) : SmboSt :=
  let t1 := smboEvalBody (s.tr.setScoreNew score) score
  let sm1 := if cfg.replacement then s.sm else
    match t1.posNew with
    | some p => s.sm.removePos p
    | none => s.sm
  { s with tr := { t1 with nthTrial := t1.nthTrial + 1 }, sm := sm1.trackY score }

/-- `evaluate` as it can fail: on a candidate array that was built from an EMPTY list (`flat`, shape (0,)) `_remove_position`'s
    `self.all_pos_comb == position` cannot broadcast (ValueError); with a single dimension it broadcasts and `np.all(…, axis=1)`
    raises AxisError instead.  (Reached when every row of the candidate grid is infeasible and training failed.) -/
def smboEvaluateE (cfg : SmboCfg) (s : SmboSt) (score : F) : Except Err SmboSt :=
  if s.flat ∧ cfg.replacement = false then
    match s.tr.posNew with
    | some p => if p.length = 1 then .error (.other "AxisError") else .error .valueError
    | none => .error (.other "AxisError")
  else .ok (smboEvaluate cfg s score)

theorem smboEvaluateE_ok {cfg : SmboCfg} {s s' : SmboSt} {score : F} (h : smboEvaluateE cfg s score = .ok s') :
    smboEvaluate cfg s score = s' := by
  unfold smboEvaluateE at h
  split at h
  · split at h
    · split at h <;> simp at h
    · simp at h
  · simpa using h

/-- `evaluate_init` (under `track_new_score` and `track_y_sample`) -/
def smboEvalInit (s : SmboSt) (score : F) : SmboSt :=
  let t1 := smboEvalBody (s.tr.setScoreNew score) score
  { s with tr := { t1 with nthTrial := t1.nthTrial + 1 }, sm := s.sm.trackY score }

/-- `init_pos` under `track_X_sample` (around `CoreOptimizer.init_pos` with its `track_new_pos`) -/
def smboInitPos (s : SmboSt) : Except Err (Pos × SmboSt) :=
  match s.initL[s.tr.nthInit]? with
  | some p => .ok (p, { s with tr := s.tr.trackNewPos p, sm := s.sm.trackX p })
  | none => .error .indexError

/-- `finish_initialization`: `self.all_pos_comb = self._all_possible_pos()` -/
def smboFinishInit (s : SmboSt) : Except Err SmboSt :=
  match allPossiblePos s.tape with
  | .error e => .error e
  | .ok a => .ok { s with sm := { s.sm with cands := a.1 }, tape := a.2, flat := a.1.isEmpty }

def smboBackend (cfg : SmboCfg) : Backend SmboSt where
  initPos := smboInitPos
  evalInit s score := .ok (smboEvalInit s score)
  finishInit := smboFinishInit
  iterate := smboIterate cfg
  evaluate := smboEvaluateE cfg

end GFO
