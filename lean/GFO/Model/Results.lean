/-
  GFO.Model.Results — model of `_results_manager.py` (objective result handling, one row per evaluation)
  and of `_progress_bar.py` (the running best of one search call).
-/
import GFO.Model.Converter
namespace GFO

/-- what the objective function returns: a score, and the metrics dictionary of a `(score, dict)` tuple
    (`[]` for a bare score). Metric values are opaque tokens. -/
structure Res where
  score : F
  metrics : List (String × String)
deriving Repr, DecidableEq, Inhabited

inductive Cell where
  | num (x : F)          -- the score, or a parameter value
  | tok (s : String)     -- a metric value
deriving Repr, DecidableEq, Inhabited

/-- one entry of `results_list`: an insertion-ordered Python dict -/
abbrev Row := List (String × Cell)

/-- Python `d[k] = v` on an insertion-ordered dict -/
def rowSet : Row → String → Cell → Row
  | [], k, v => [(k, v)]
  | (k', v') :: r, k, v => if k' == k then (k', v) :: r else (k', v') :: rowSet r k v

def rowGet? (r : Row) (k : String) : Option Cell :=
  match r.find? (fun e => e.1 == k) with
  | some e => some e.2
  | none => none

/-- `_obj_func_results`: `results_dict = metrics; results_dict["score"] = score` -/
def objFuncResults (r : Res) : Row :=
  rowSet (r.metrics.foldl (fun acc e => rowSet acc e.1 (.tok e.2)) []) "score" (.num r.score)

/-- `{**results_dict, **para}`: parameters win on a key clash -/
def rowOf (r : Res) (para : Para) : Row :=
  para.foldl (fun acc e => rowSet acc e.1 (.num (.fin e.2))) (objFuncResults r)

/-! ### progress bar -/

structure PBar where
  scoreBest : F := .ninf
  posBest : Option Pos := none
  bestSince : List Nat := []          -- LVL1 only: `best_since_iter_list`
deriving Repr, Inhabited

/-- the acceptance test of `_new2best` (after fix 733723c): strictly greater, or equal to the initial best while no
    position has been recorded yet (so an all `-inf` search still reports a `best_para`; nan never passes) -/
def accepts (scoreBest : F) (posBest : Option Pos) (score : F) : Bool :=
  F.gt score scoreBest || (posBest.isNone && F.beq score scoreBest)

/-- `_new2best` -/
def PBar.new2best (p : PBar) (score : F) (pos : Pos) : PBar :=
  if accepts p.scoreBest p.posBest score then { p with scoreBest := score, posBest := some pos } else p

/-- the pinned-commit form: strict `>` only -/
def PBar.new2bestLegacy (p : PBar) (score : F) (pos : Pos) : PBar :=
  if F.gt score p.scoreBest then { p with scoreBest := score, posBest := some pos } else p

/-- `ProgressBarLVL0.update` -/
def PBar.update0 (p : PBar) (score : F) (pos : Pos) (_nthIter : Nat) : PBar := p.new2best score pos

/-- `ProgressBarLVL1.update`: its own `>` test feeds the tqdm postfix, then `_new2best` -/
def PBar.update1 (p : PBar) (score : F) (pos : Pos) (nthIter : Nat) : PBar :=
  let p1 := if F.gt score p.scoreBest then { p with bestSince := p.bestSince ++ [nthIter] } else p
  p1.new2best score pos

end GFO
