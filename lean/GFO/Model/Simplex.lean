/-
  GFO.Model.Simplex — COMPLETE backend for `DownhillSimplexOptimizer` (local_opt/downhill_simplex.py) as it is written:
  `finish_initialization` (the simplex = the valid positions sorted by score), the staleness test and re-sort in `iterate`,
  the step machine 1 (reflection) -> 3 (contraction) -> 1 | 4 (shrink, one vertex per step) -> 1 - step 2 (expansion) is
  unreachable because `evaluate` overwrites `simplex_step = 2` with `3` -, the outer constraint check with the `move_climb`
  repair, and `evaluate`, which never touches the tracked best / current pair and reads `positions_valid[-1]` as "the
  position just evaluated" (it is an older one when the score was not finite).

  Oracle side: numpy's argsort (checked: descending, nan first) and the float vector of each move before `conv2pos`
  (centroid, reflection, contraction, shrink are float expressions).

  The model reproduces the three known C15 findings: `centeroid` of an empty list (no valid position, or exactly one),
  `simplex_pos[compress_idx]` beyond the simplex in a shrink when fewer than n+1 positions were valid.
-/
import GFO.Model.Evolution
namespace GFO

structure SimCfg where
  nSimp : Nat                  -- `n_simp_positions = n_dimensions + 1`
  geo : Geo
deriving Repr, DecidableEq, Inhabited

structure SimSt where
  tr : Tracker := {}
  initL : List Pos := []
  simplexPos : List (Option Pos) := []     -- entries of `positions_valid` (which may be `None` only before any position)
  simplexScores : List F := []
  step : Nat := 0
  rPos : Pos := []
  compressIdx : Nat := 0
  tape : Tape := []
deriving Repr, DecidableEq, Inhabited

/-- `sort_list_idx(scores)` from the tape, checked against the scores it sorts -/
def takeSorted (scores : List F) : Tape → Except Err (List Nat × Tape)
  | .sorted perm :: rest =>
    if sortedDesc scores perm then .ok (perm, rest) else .error (protocol "sort_list_idx-not-descending")
  | [] => .error .needMore
  | _ => .error (protocol "sort_list_idx")

def permute {α : Type} (l : List α) (perm : List Nat) : Except Err (List α) :=
  perm.mapM (fun i => match l[i]? with
    | some x => .ok x
    | none => .error .indexError)

/-- the simplex from the valid lists (`finish_initialization`, and `iterate` when the simplex is stale) -/
def simplexFromValid (s : SimSt) (tape : Tape) : Except Err (SimSt × Tape) := do
  let (perm, t1) ← takeSorted s.tr.scoresValid tape
  let ps ← permute s.tr.positionsValid perm
  let sc ← permute s.tr.scoresValid perm
  pure ({ s with simplexPos := ps, simplexScores := sc, step := 1 }, t1)

/-- one oracle vector through `conv2pos` -/
def moveVec (g : Geo) : Tape → Except Err (Pos × Tape)
  | .spiral v :: rest => conv2posT g v rest
  | [] => .error .needMore
  | _ => .error (protocol "simplex-move")

/-- the staleness test at the head of `iterate`: a simplex whose vertices are all equal (or that is empty) is rebuilt -/
def isStale (s : SimSt) : Bool :=
  match s.simplexPos with
  | [] => true
  | p0 :: ps => ps.all (fun p => p == p0)

def simRefresh (s : SimSt) : Except Err (SimSt × Tape) :=
  if isStale s then simplexFromValid s s.tape else .ok (s, s.tape)

/-- step 1: sort the simplex, `centeroid(self.simplex_pos[:-1])` (reads `array_list[0]`), the reflected point -/
def simReflect (cfg : SimCfg) (s1 : SimSt) (t1 : Tape) : Except Err (Pos × SimSt) :=
  match takeSorted s1.simplexScores t1 with
  | .error e => .error e
  | .ok a =>
    match permute s1.simplexPos a.1, permute s1.simplexScores a.1 with
    | .ok ps, .ok sc =>
      if ps.dropLast = [] then .error .indexError
      else
        match moveVec cfg.geo a.2 with
        | .error e => .error e
        | .ok c => .ok (c.1, { s1 with simplexPos := ps, simplexScores := sc, rPos := c.1, tape := c.2 })
    | .error e, _ => .error e
    | _, .error e => .error e

/-- steps 3 and 4: one oracle vector through `conv2pos` -/
def simOther (cfg : SimCfg) (s1 : SimSt) (t1 : Tape) : Except Err (Pos × SimSt) :=
  match moveVec cfg.geo t1 with
  | .error e => .error e
  | .ok c => .ok (c.1, { s1 with tape := c.2 })

/-- the step dispatch of `iterate` -/
def simMove (cfg : SimCfg) (s1 : SimSt) (t1 : Tape) : Except Err (Pos × SimSt) :=
  if s1.step = 1 then simReflect cfg s1 t1
  else if s1.step = 3 then simOther cfg s1 t1
  else if s1.step = 4 then
    match s1.simplexPos[s1.compressIdx]? with
    | none => .error .indexError                    -- `self.simplex_pos[self.compress_idx]`
    | some _ => simOther cfg s1 t1
  else .error (.other "UnboundLocalError")          -- no branch assigns `pos_new` (steps 0 and 2 are not reached)

/-- the proposal of `iterate` before the constraint check -/
def simPropose (cfg : SimCfg) (s : SimSt) : Except Err (Pos × SimSt) :=
  match simRefresh s with
  | .error e => .error e
  | .ok a => simMove cfg a.1 a.2

def simIterate (cfg : SimCfg) (s : SimSt) : Except Err (Pos × SimSt) :=
  match simPropose cfg s with
  | .error e => .error e
  | .ok a =>
    match askFeas a.1 a.2.tape with
    | .error e => .error e
    | .ok b =>
      if b.1 then .ok (a.1, { a.2 with tr := a.2.tr.trackNewPos a.1, tape := b.2 })
      else
        match moveClimb cfg.geo (some a.1) (some 1) s.tape.length b.2 with
        | .error e => .error e
        | .ok c => .ok (c.1, { a.2 with tr := a.2.tr.trackNewPos c.1, tape := c.2 })

def setLast {α : Type} (l : List α) (x : α) : Except Err (List α) :=
  if l = [] then .error .indexError else .ok (l.dropLast ++ [x])

/-- step 1 of `evaluate`: `if r > scores[0]: step = 2  elif r > scores[-2]: replace the worst by r`; then `h_*` (which reads
    `scores[-1]`) and, unconditionally, `self.simplex_step = 3` -/
def simEval1 (s : SimSt) (tr' : Tracker) (score : F) : Except Err SimSt :=
  match s.simplexScores.head? with
  | none => .error .indexError                      -- `self.simplex_scores[0]`
  | some s0 =>
    if F.gt score s0 then .ok { s with tr := tr', step := 3 }
    else
      match s.simplexScores.dropLast.getLast? with
      | none => .error .indexError                  -- `self.simplex_scores[-2]`
      | some s2 =>
        if F.gt score s2 then
          match setLast s.simplexPos (some s.rPos), setLast s.simplexScores score with
          | .ok ps, .ok sc => .ok { s with tr := tr', simplexPos := ps, simplexScores := sc, step := 3 }
          | .error e, _ => .error e
          | _, .error e => .error e
        else .ok { s with tr := tr', step := 3 }

/-- step 3 of `evaluate`: accept the contraction, or start the shrink -/
def simEval3 (s : SimSt) (tr' : Tracker) (prev : Option Pos) (score : F) : Except Err SimSt :=
  match s.simplexScores.getLast? with
  | none => .error .indexError
  | some sLast =>
    if F.gt score sLast then
      match setLast s.simplexScores score, setLast s.simplexPos prev with
      | .ok sc, .ok ps => .ok { s with tr := tr', simplexPos := ps, simplexScores := sc, step := 1 }
      | .error e, _ => .error e
      | _, .error e => .error e
    else .ok { s with tr := tr', step := 4, compressIdx := 0 }

/-- step 4 of `evaluate`: one vertex of the shrink -/
def simEval4 (cfg : SimCfg) (s : SimSt) (tr' : Tracker) (prev : Option Pos) (score : F) : Except Err SimSt :=
  if ¬ (s.compressIdx < s.simplexScores.length ∧ s.compressIdx < s.simplexPos.length) then .error .indexError
  else
    let ci := s.compressIdx + 1
    .ok { s with tr := tr', simplexPos := s.simplexPos.set s.compressIdx prev, simplexScores := s.simplexScores.set s.compressIdx score
                 compressIdx := ci, step := if ci = cfg.nSimp then 1 else 4 }

/-- `evaluate` (under `track_new_score`) -/
def simEvaluate (cfg : SimCfg) (s : SimSt) (score : F) : Except Err SimSt :=
  let t1 := s.tr.setScoreNew score
  let tr' := { t1 with nthTrial := t1.nthTrial + 1 }
  if s.step = 0 then .ok { s with tr := tr' }
  else
    match t1.positionsValid.getLast? with
    | none => .error .indexError                    -- `self.positions_valid[-1]`
    | some prev =>
      if s.step = 1 then simEval1 s tr' score
      else if s.step = 3 then simEval3 s tr' prev score
      else if s.step = 4 then simEval4 cfg s tr' prev score
      else .ok { s with tr := tr' }

def simFinishInit (s : SimSt) : Except Err SimSt :=
  match simplexFromValid s s.tape with
  | .error e => .error e
  | .ok a => .ok { a.1 with tape := a.2 }

def simInitPos (s : SimSt) : Except Err (Pos × SimSt) :=
  match s.initL[s.tr.nthInit]? with
  | some p => .ok (p, { s with tr := s.tr.trackNewPos p })
  | none => .error .indexError

def simBackend (cfg : SimCfg) : Backend SimSt where
  initPos := simInitPos
  evalInit s score := .ok { s with tr := Tracker.evaluateInit s.tr score }
  finishInit := simFinishInit
  iterate := simIterate cfg
  evaluate := simEvaluate cfg

end GFO
