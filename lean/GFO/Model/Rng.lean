/-
  GFO.Model.Rng — the two global generators (`random`, `numpy.random`) as abstract state, and `set_random_seed`
  (core_optimizer/utils.py). The generators themselves are parameters: `seeded s` is the state after seeding with `s`,
  `npDraw st` the value and next state of the `np.random.randint` draw used when `random_state is None`.
-/
namespace GFO

structure World where
  py : Nat          -- state of Python's `random`
  np : Nat          -- state of numpy's legacy global `RandomState`
deriving Repr, DecidableEq, Inhabited

structure Gens where
  pySeeded : Int → Nat
  npSeeded : Int → Nat
  npDraw : Nat → Int × Nat

/-- `set_random_seed(nth_process, random_state)`: returns `random_seed` and the world afterwards -/
def setRandomSeed (g : Gens) (nth : Option Int) (randomState : Option Int) (w : World) : Int × World :=
  let n := nth.getD 0
  match randomState with
  | some s => (s + n, { py := g.pySeeded (s + n), np := g.npSeeded (s + n) })
  | none =>
    let (v, _) := g.npDraw w.np
    (v + n, { py := g.pySeeded (v + n), np := g.npSeeded (v + n) })

end GFO
