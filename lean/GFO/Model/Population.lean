/-
  GFO.Model.Population — COMPLETE backend for `ParallelTemperingOptimizer` (pop_opt/parallel_tempering.py on top of
  base_population_optimizer.py): a round-robin over `SimulatedAnnealingOptimizer` systems, each of which is the complete
  `Local` model of GFO.Model.Local (kind `stochastic`), sharing ONE oracle tape in program order.

  The temperatures (floats, swapped by `_swap_pos`) only enter `p_accept`, which is a tape value: the swap is modelled as
  what it does to the generators - one `random.uniform(0, 1)` per system - and nothing else.
-/
import GFO.Model.Local
namespace GFO

structure PopSt where
  tr : Tracker := {}            -- the population optimizer object
  members : List Local := []    -- `self.systems`; their own `tape` fields are not used
  cur : Nat := 0                -- index of `p_current`
  tape : Tape := []
deriving Repr, DecidableEq, Inhabited

structure PTCfg where
  member : LocalCfg             -- kind `stochastic`, `n_neighbours`, `rand_rest_p`, geometry
  nIterSwap : Nat
deriving Repr, DecidableEq, Inhabited

/-- `self.systems[self.nth_trial % len(self.systems)]` -/
def PopSt.pick (s : PopSt) : Except Err (Nat × Local) :=
  if s.members.length = 0 then .error .zeroDivision
  else
    let idx := s.tr.nthTrial % s.members.length
    match s.members[idx]? with
    | some m => .ok (idx, m)
    | none => .error .indexError

def ptInitPos (s : PopSt) : Except Err (Pos × PopSt) := do
  let (idx, m) ← s.pick
  let (p, m') ← localInitPos m
  pure (p, { s with members := s.members.set idx m', cur := idx, tr := s.tr.trackNewPos p })

def ptEvalInit (s : PopSt) (score : F) : Except Err PopSt :=
  match s.members[s.cur]? with
  | none => .error (.other "AttributeError")          -- no `p_current` yet
  | some m =>
    let t1 := s.tr.setScoreNew score
    .ok { s with members := s.members.set s.cur { m with tr := Tracker.evaluateInit m.tr score }
                 tr := { t1 with nthTrial := t1.nthTrial + 1 } }

def ptIterate (cfg : PTCfg) (s : PopSt) : Except Err (Pos × PopSt) := do
  let (idx, m) ← s.pick
  let (p, m') ← localIterate cfg.member { m with tape := s.tape }
  pure (p, { s with members := s.members.set idx { m' with tape := [] }, cur := idx, tape := m'.tape, tr := s.tr.trackNewPos p })

/-- `_swap_pos` as far as the generators see it: one `random.uniform(0, 1)` per system -/
def swapDraws : Nat → Tape → Except Err Tape
  | 0, tape => .ok tape
  | n + 1, .unif _ :: rest => swapDraws n rest
  | _ + 1, [] => .error .needMore
  | _ + 1, _ => .error (protocol "_swap_pos")

/-- which tape `p_current.evaluate` sees: after the swap draws when a swap is due at this trial -/
def ptSwapTape (cfg : PTCfg) (s : PopSt) (nthTrial : Nat) : Except Err Tape :=
  if nthTrial % cfg.nIterSwap = 0 then swapDraws s.members.length s.tape else .ok s.tape

/-- `self.p_current.evaluate(score_new)` and the decorator's `nth_trial += 1` -/
def ptEvalMember (cfg : PTCfg) (s : PopSt) (t1 : Tracker) (tape1 : Tape) (score : F) : Except Err PopSt :=
  match s.members[s.cur]? with
  | none => .error (.other "AttributeError")
  | some m =>
    match localEvaluate cfg.member { m with tape := tape1 } score with
    | .error e => .error e
    | .ok m' => .ok { s with members := s.members.set s.cur { m' with tape := [] }, tape := m'.tape
                             tr := { t1 with nthTrial := t1.nthTrial + 1 } }

def ptEvaluate (cfg : PTCfg) (s : PopSt) (score : F) : Except Err PopSt :=
  let t1 := s.tr.setScoreNew score
  -- `modZero = self.nth_trial % self.n_iter_swap == 0` is computed BEFORE the `notZero and …` test
  if cfg.nIterSwap = 0 then .error .zeroDivision
  else
    match ptSwapTape cfg s t1.nthTrial with
    | .error e => .error e
    | .ok tape1 => ptEvalMember cfg s t1 tape1 score

def ptBackend (cfg : PTCfg) : Backend PopSt where
  initPos := ptInitPos
  evalInit := ptEvalInit
  finishInit s := .ok s
  iterate := ptIterate cfg
  evaluate := ptEvaluate cfg

/-! ### ParticleSwarmOptimizer and SpiralOptimization (after fix d993248)

  The members are `Particle` / `Spiral` objects: hill-climbing trackers with one extra move.  The float expressions of the
  moves (velocity, rotation about the centre) are oracle values; which member moves, what is checked against which
  constraint object, which fallback runs and what each tracker records is modelled. -/

/-- `Particle.move_linear` (undecorated part under `random_iteration`): `_move_part(self.pos_current, new_velocity)` -/
def moveLinear (cfg : LocalCfg) (m : Local) (tape : Tape) : Except Err (Pos × Tape) :=
  randomIteration cfg tape (fun tape =>
    match tape with
    | .part pos velo :: rest =>
      if m.tr.posCurrent ≠ some pos then .error (protocol "_move_part-from-elsewhere")
      else .ok (movePart pos velo cfg.geo.maxPos, rest)
    | [] => .error .needMore
    | _ => .error (protocol "move_linear"))

/-- `ParticleSwarmOptimizer.iterate`: the linear move, the OUTER constraint check, else the member's `move_climb` from the
    rejected position - which then also becomes the member's `pos_new` -/
def psoIterate (cfg : LocalCfg) (s : PopSt) : Except Err (Pos × PopSt) := do
  let (idx, m) ← s.pick
  let (p, tape1) ← moveLinear cfg m s.tape
  let m1 : Local := { m with tr := m.tr.trackNewPos p }
  let (ok, tape2) ← askFeas p tape1
  if ok then pure (p, { s with members := s.members.set idx m1, cur := idx, tape := tape2, tr := s.tr.trackNewPos p })
  else do
    let (q, tape3) ← moveClimb cfg.geo (some p) (some 1) s.tape.length tape2
    let m2 : Local := { m1 with tr := { m1.tr with posNew := some q } }
    pure (q, { s with members := s.members.set idx m2, cur := idx, tape := tape3, tr := s.tr.trackNewPos q })

def psoEvaluate (cfg : LocalCfg) (s : PopSt) (score : F) : Except Err PopSt :=
  ptEvalMember { member := cfg, nIterSwap := 1 } s (s.tr.setScoreNew score) s.tape score

/-- members are `Particle`s: `cfg.kind = .hillClimbing` -/
def psoBackend (cfg : LocalCfg) : Backend PopSt where
  initPos := ptInitPos
  evalInit := ptEvalInit
  finishInit s := .ok s
  iterate := psoIterate cfg
  evaluate := psoEvaluate cfg

/-- `Spiral.move_spiral` (under `random_iteration`): clip and cast of the float vector -/
def moveSpiral (cfg : LocalCfg) (tape : Tape) : Except Err (Pos × Tape) :=
  randomIteration cfg tape (fun tape =>
    match tape with
    | .spiral v :: rest => .ok (spiralClip v cfg.geo.maxPos, rest)
    | [] => .error .needMore
    | _ => .error (protocol "move_spiral"))

/-- `SpiralOptimization.iterate`: the spiral move, the outer constraint check, else the member's own hill-climbing `iterate` -/
def spiralIterate (cfg : LocalCfg) (s : PopSt) : Except Err (Pos × PopSt) := do
  let (idx, m) ← s.pick
  let (p, tape1) ← moveSpiral cfg s.tape
  let m1 : Local := { m with tr := m.tr.trackNewPos p }
  let (ok, tape2) ← askFeas p tape1
  if ok then pure (p, { s with members := s.members.set idx m1, cur := idx, tape := tape2, tr := s.tr.trackNewPos p })
  else do
    let (q, m2) ← localIterate cfg { m1 with tape := tape2 }
    pure (q, { s with members := s.members.set idx { m2 with tape := [] }, cur := idx, tape := m2.tape, tr := s.tr.trackNewPos q })

def spiralEvaluate (s : PopSt) (score : F) : Except Err PopSt :=
  match s.members[s.cur]? with
  | none => .error (.other "AttributeError")
  | some m =>
    let t1 := s.tr.setScoreNew score
    .ok { s with members := s.members.set s.cur { m with tr := Tracker.spiralEvaluate m.tr score }
                 tr := { t1 with nthTrial := t1.nthTrial + 1 } }

/-- members are `Spiral`s; their fallback `iterate` is hill climbing's: `cfg.kind = .hillClimbing` -/
def spiralBackend (cfg : LocalCfg) : Backend PopSt where
  initPos := ptInitPos
  evalInit := ptEvalInit
  finishInit s := .ok s
  iterate := spiralIterate cfg
  evaluate := spiralEvaluate

end GFO
