/-
  GFO.Model.Population — COMPLETE backend for `ParallelTemperingOptimizer` (pop_opt/parallel_tempering.py on top of
  base_population_optimizer.py): a round-robin over `SimulatedAnnealingOptimizer` systems, each of which is the complete
  `Local` model of GFO.Model.Local (kind `stochastic`), sharing ONE oracle tape in program order.

  The temperatures (floats, swapped by `_swap_pos`) only enter `p_accept`, which is a tape value: the swap is modelled as
  what it does to the generators - one `random.uniform(0, 1)` per system - and nothing else.
-/
import GFO.Model.Local
namespace GFO

structure PopSt where
  tr : Tracker := {}            -- the population optimizer object
  members : List Local := []    -- `self.systems`; their own `tape` fields are not used
  cur : Nat := 0                -- index of `p_current`
  tape : Tape := []
deriving Repr, DecidableEq, Inhabited

structure PTCfg where
  member : LocalCfg             -- kind `stochastic`, `n_neighbours`, `rand_rest_p`, geometry
  nIterSwap : Nat
deriving Repr, DecidableEq, Inhabited

/-- `self.systems[self.nth_trial % len(self.systems)]` -/
def PopSt.pick (s : PopSt) : Except Err (Nat × Local) :=
  if s.members.length = 0 then .error .zeroDivision
  else
    let idx := s.tr.nthTrial % s.members.length
    match s.members[idx]? with
    | some m => .ok (idx, m)
    | none => .error .indexError

def ptInitPos (s : PopSt) : Except Err (Pos × PopSt) := do
  let (idx, m) ← s.pick
  let (p, m') ← localInitPos m
  pure (p, { s with members := s.members.set idx m', cur := idx, tr := s.tr.trackNewPos p })

def ptEvalInit (s : PopSt) (score : F) : Except Err PopSt :=
  match s.members[s.cur]? with
  | none => .error (.other "AttributeError")          -- no `p_current` yet
  | some m =>
    let t1 := s.tr.setScoreNew score
    .ok { s with members := s.members.set s.cur { m with tr := Tracker.evaluateInit m.tr score }
                 tr := { t1 with nthTrial := t1.nthTrial + 1 } }

def ptIterate (cfg : PTCfg) (s : PopSt) : Except Err (Pos × PopSt) := do
  let (idx, m) ← s.pick
  let (p, m') ← localIterate cfg.member { m with tape := s.tape }
  pure (p, { s with members := s.members.set idx { m' with tape := [] }, cur := idx, tape := m'.tape, tr := s.tr.trackNewPos p })

/-- `_swap_pos` as far as the generators see it: one `random.uniform(0, 1)` per system -/
def swapDraws : Nat → Tape → Except Err Tape
  | 0, tape => .ok tape
  | n + 1, .unif _ :: rest => swapDraws n rest
  | _ + 1, [] => .error .needMore
  | _ + 1, _ => .error (protocol "_swap_pos")

/-- which tape `p_current.evaluate` sees: after the swap draws when a swap is due at this trial -/
def ptSwapTape (cfg : PTCfg) (s : PopSt) (nthTrial : Nat) : Except Err Tape :=
  if nthTrial % cfg.nIterSwap = 0 then swapDraws s.members.length s.tape else .ok s.tape

/-- `self.p_current.evaluate(score_new)` and the decorator's `nth_trial += 1` -/
def ptEvalMember (cfg : PTCfg) (s : PopSt) (t1 : Tracker) (tape1 : Tape) (score : F) : Except Err PopSt :=
  match s.members[s.cur]? with
  | none => .error (.other "AttributeError")
  | some m =>
    match localEvaluate cfg.member { m with tape := tape1 } score with
    | .error e => .error e
    | .ok m' => .ok { s with members := s.members.set s.cur { m' with tape := [] }, tape := m'.tape
                             tr := { t1 with nthTrial := t1.nthTrial + 1 } }

def ptEvaluate (cfg : PTCfg) (s : PopSt) (score : F) : Except Err PopSt :=
  let t1 := s.tr.setScoreNew score
  -- `modZero = self.nth_trial % self.n_iter_swap == 0` is computed BEFORE the `notZero and …` test
  if cfg.nIterSwap = 0 then .error .zeroDivision
  else
    match ptSwapTape cfg s t1.nthTrial with
    | .error e => .error e
    | .ok tape1 => ptEvalMember cfg s t1 tape1 score

def ptBackend (cfg : PTCfg) : Backend PopSt where
  initPos := ptInitPos
  evalInit := ptEvalInit
  finishInit s := .ok s
  iterate := ptIterate cfg
  evaluate := ptEvaluate cfg

end GFO
