/-
  GFO.Model.Shared — several processes searching with one `multiprocessing` manager dict as `memory=`.
  The manager serialises proxy calls, so the shared state evolves by atomic operations; each process runs the
  `Memory.memory` wrapper:  `if key in d: return d[key]  else: r = objective(para); d[key] = r; return r`.
-/
import GFO.Model.Converter
import GFO.Model.Results
namespace GFO

/-- atomic operations on the manager dict, as the server executes them (`pid` = issuing process) -/
inductive SOp where
  | contains (pid : Nat) (k : Pos)
  | get (pid : Nat) (k : Pos)
  | set (pid : Nat) (k : Pos) (v : Res)
deriving Repr, DecidableEq, Inhabited

inductive SResp where
  | bool (b : Bool)
  | val (v : Res)
  | keyError
  | unit
deriving Repr, DecidableEq, Inhabited

/-- one server step: new dict and the response sent back -/
def sExec (d : Dict Res) : SOp → Dict Res × SResp
  | .contains _ k => (d, .bool (d.contains k))
  | .get _ k => (d, match d.get? k with
      | some v => .val v
      | none => .keyError)
  | .set _ k v => (Dict.set d k v, .unit)

/-- run a global schedule (any interleaving of the processes' operations); returns the final dict and all responses -/
def sRun : Dict Res → List SOp → Dict Res × List SResp
  | d, [] => (d, [])
  | d, op :: ops =>
    let (d1, r) := sExec d op
    let (d2, rs) := sRun d1 ops
    (d2, r :: rs)

end GFO
