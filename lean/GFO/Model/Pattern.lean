/-
  GFO.Model.Pattern — COMPLETE backend for `PatternSearch` (global_opt/pattern_search.py): the pattern list, its
  regeneration in `finish_initialization` and in `evaluate` (every `2 * n_positions_` trials or when the list is empty - but
  only after the early return for "no valid score yet"), the `pop(0)` in `iterate`, the window pick of `evaluate`.

  Oracle side: each pattern point before `conv2pos` (a copy of the current position whose `idx`-th coordinate got
  `± pattern_size * dim_size` added in float arithmetic and was truncated by the item assignment) - the model checks that it
  differs from the current position in that coordinate only - and the indices `random.sample` picked.

  The model reproduces the known C15 finding: with no finite score during initialisation `evaluate` returns before it
  regenerates the pattern, the list runs empty and `iterate` raises IndexError.
-/
import GFO.Model.Local
namespace GFO

structure PatCfg where
  nPositions : Nat             -- `n_positions_ = min(n_positions, n_dimensions)`
  randRestP : Rat
  nDims : Nat
  geo : Geo
deriving Repr, DecidableEq, Inhabited

structure PatSt where
  tr : Tracker := {}
  initL : List Pos := []
  pattern : List Pos := []     -- `self.pattern_pos_l`
  iterState : Bool := false    -- `self.search_state == "iter"`
  tape : Tape := []
deriving Repr, DecidableEq, Inhabited

/-- `v` is `cur` except (possibly) in coordinate `idx` -/
def sameBut (idx : Nat) (cur : Pos) (v : List F) : Bool :=
  v.length == cur.length &&
  (List.range cur.length).all (fun j => j == idx || (match v[j]?, cur[j]? with
    | some x, some c => F.beq x (F.ofInt c)
    | _, _ => false))

/-- one pattern point: the oracle vector, checked, through `conv2pos` -/
def patternPoint (g : Geo) (idx : Nat) (cur : Pos) : Tape → Except Err (Pos × Tape)
  | .spiral v :: rest =>
    if sameBut idx cur v then conv2posT g v rest else .error (protocol "pattern-point")
  | [] => .error .needMore
  | _ => .error (protocol "generate_pattern")

/-- the `for idx, dim_size in enumerate(dim_sizes)` loop: `idx` runs upwards, `k` dimensions remain -/
def patternPoints (g : Geo) (cur : Pos) : Nat → Nat → List Pos → Tape → Except Err (List Pos × Tape)
  | 0, _, acc, tape => .ok (acc, tape)
  | k + 1, idx, acc, tape =>
    match patternPoint g idx cur tape with
    | .error e => .error e
    | .ok a =>
      match patternPoint g idx cur a.2 with
      | .error e => .error e
      | .ok b => patternPoints g cur k (idx + 1) (acc ++ [a.1, b.1]) b.2

/-- `random.sample(pattern_pos_l, n_positions_)`: distinct indices into the 2·n_dims points -/
def samplePattern (cfg : PatCfg) (pts : List Pos) : Tape → Except Err (List Pos × Tape)
  | .parents idxs :: rest =>
    if idxs.length = cfg.nPositions ∧ idxs.Nodup ∧ idxs.all (fun i => decide (i < pts.length)) then
      .ok (idxs.map (fun i => pts.getD i []), rest)
    else .error (protocol "random.sample")
  | [] => .error .needMore
  | _ => .error (protocol "generate_pattern-sample")

/-- `generate_pattern(self.pos_current)` -/
def generatePattern (cfg : PatCfg) (cur : Option Pos) (tape : Tape) : Except Err (List Pos × Tape) :=
  match cur with
  | none => .error (.other "TypeError")
  | some c =>
    match patternPoints cfg.geo c cfg.nDims 0 [] tape with
    | .error e => .error e
    | .ok a => samplePattern cfg a.1 a.2

/-- the body of `iterate` under `random_iteration` -/
def patPropose (cfg : PatCfg) (s : PatSt) : Except Err (Pos × List Pos × Tape) :=
  match s.tape with
  | .unif x :: rest =>
    if cfg.randRestP > x then
      match moveRandomLoop rest with
      | .error e => .error e
      | .ok a => .ok (a.1, s.pattern, a.2)
    else
      -- (after fix) an exhausted list is regenerated around the current position before the next entry is taken
      match (if s.pattern = [] then generatePattern cfg s.tr.posCurrent rest else .ok (s.pattern, rest)) with
      | .error e => .error e
      | .ok g =>
        match g.1 with
        | [] => .error .indexError                   -- `self.pattern_pos_l[0]` of a list that is still empty (`n_positions = 0`)
        | p :: ps =>
          match askFeas p g.2 with
          | .error e => .error e
          | .ok a =>
            if a.1 then .ok (p, ps, a.2)
            else
              match moveClimb cfg.geo (some p) (some 1) s.tape.length a.2 with
              | .error e => .error e
              | .ok b => .ok (b.1, ps, b.2)
  | [] => .error .needMore
  | _ => .error (protocol "random_iteration")

def patIterate (cfg : PatCfg) (s : PatSt) : Except Err (Pos × PatSt) :=
  match patPropose cfg s with
  | .error e => .error e
  | .ok a => .ok (a.1, { s with tr := s.tr.trackNewPos a.1, pattern := a.2.1, tape := a.2.2 })

/-- `finish_initialization` -/
def patFinishInit (cfg : PatCfg) (s : PatSt) : Except Err PatSt :=
  match generatePattern cfg s.tr.posCurrent s.tape with
  | .error e => .error e
  | .ok a => .ok { s with pattern := a.1, tape := a.2, iterState := true }

/-- the window pick at the end of `evaluate` -/
def patWindow (n : Nat) (t : Tracker) : Tracker :=
  let sc := Tracker.lastN t.scoresValid n
  let ps := Tracker.lastN t.positionsValid n
  let idx := Tracker.maxListIdx sc
  match sc[idx]?, ps[idx]? with
  | some s', some p' => (t.eval2current p' s').eval2best p' s'
  | _, _ => t

/-- `evaluate` (under `track_new_score`) -/
def patEvaluate (cfg : PatCfg) (s : PatSt) (score : F) : Except Err PatSt :=
  let t1 := Tracker.baseEvaluate (s.tr.setScoreNew score) score
  if t1.scoresValid.isEmpty then .ok { s with tr := { t1 with nthTrial := t1.nthTrial + 1 } }
  else if cfg.nPositions = 0 then .error .zeroDivision      -- `self.nth_trial % int(self.n_positions_ * 2)`
  else if t1.nthTrial % (2 * cfg.nPositions) = 0 ∨ s.pattern = [] then
    match (if s.iterState then generatePattern cfg t1.posCurrent s.tape else .ok (s.pattern, s.tape)) with
    | .error e => .error e
    | .ok a =>
      let t2 := patWindow cfg.nPositions t1
      .ok { s with tr := { t2 with nthTrial := t2.nthTrial + 1 }, pattern := a.1, tape := a.2 }
  else .ok { s with tr := { t1 with nthTrial := t1.nthTrial + 1 } }

def patInitPos (s : PatSt) : Except Err (Pos × PatSt) :=
  match s.initL[s.tr.nthInit]? with
  | some p => .ok (p, { s with tr := s.tr.trackNewPos p })
  | none => .error .indexError

def patBackend (cfg : PatCfg) : Backend PatSt where
  initPos := patInitPos
  evalInit s score := .ok { s with tr := Tracker.evaluateInit s.tr score }
  finishInit := patFinishInit cfg
  iterate := patIterate cfg
  evaluate := patEvaluate cfg

end GFO
