/-
  C12 — max_score stops the search exactly when the target is reached.

  Model: `scoreExceeded` / `stopCheck` (after fix 88a2355: `is not None` instead of truthiness) inside `searchCall`.
  For every backend, objective, space and real target `m` (0 and negative included): the call stops right after the
  first step whose score is ≥ m, never earlier, never later; `best_score ≥ m` iff some step reached `m`.
-/
import GFO.Proofs.Best
namespace GFO.C12
open GFO
variable {σ : Type}

/-- `max_score` is the only criterion set -/
def OnlyMaxScore (c : Call) (m : Rat) : Prop := c.maxScore = some (.fin m) ∧ c.maxTime = none ∧ c.early = none

theorem checkStop_onlyMaxScore {c : Call} {d : DState σ} {cs : CState} {m : Rat}
    (h : cs.stop.maxScore = some (.fin m) ∧ cs.stop.maxTime = none ∧ cs.stop.early = none) :
    checkStop c d cs = .ok (F.ge cs.pbar.scoreBest (.fin m)) := by
  obtain ⟨h1, h2, h3⟩ := h
  unfold checkStop stopCheck
  simp only [h1, h2, h3, scoreExceeded, timeExceeded, Option.isSome_some, Bool.false_and, Bool.true_and]
  cases hge : F.ge cs.pbar.scoreBest (.fin m) <;> simp

/-- the scores this call appended -/
def newScores (d d' : DState σ) : List F := d'.scoreL.drop d.scoreL.length

/-- C12, the stop step: with `max_score = m` the call performs `k` steps where no step before the last reached `m`,
    and if it stopped before `n_iter` the last step did reach `m`; and `best_score ≥ m` iff some step reached `m`. -/
theorem maxScore_stop_step {b : Backend σ} {sp : Space} {obj : Obj} {c : Call} {d d' : DState σ} {r : CallResult} {m : Rat}
    (h : searchCall b sp obj c d = .ok (d', r)) (hc : OnlyMaxScore c m) (hn : 0 < c.nIter) :
    (newScores d d').length = r.steps ∧ 0 < r.steps ∧ r.steps ≤ c.nIter ∧
    (∀ j s, j + 1 < r.steps → (newScores d d')[j]? = some s → F.ge s (.fin m) = false) ∧
    (r.steps < c.nIter → ∃ s, (newScores d d')[r.steps - 1]? = some s ∧ F.ge s (.fin m) = true) ∧
    (F.ge r.bestScore (.fin m) = true ↔ ∃ s ∈ newScores d d', F.ge s (.fin m) = true) := by
  obtain ⟨cs, d1, cs1, tr, S⟩ := searchCall_shape h hn
  obtain ⟨_, _, _, hmt, hms, hes, _, hpb, _⟩ := initSearch_ok S.init
  obtain ⟨hm, ht, he⟩ := hc
  have hstop : cs.stop.maxScore = some (.fin m) ∧ cs.stop.maxTime = none ∧ cs.stop.early = none := by
    rw [hms, hmt, hes]; exact ⟨hm, ht, he⟩
  have T := S.traj
  have hfin := finishSearch_ok S.fin
  have hscoreL : d'.scoreL = d.scoreL ++ tr.map StepRec.score := by rw [hfin.2.2.1, T.scoreL]
  have hnew : newScores d d' = tr.map StepRec.score := by simp [newScores, hscoreL]
  have hlen : tr.length = r.steps := by have := T.len; omega
  have hbest : ∀ (l : List StepRec), (pbarFold c cs.pbar 0 l).scoreBest = (bestOf (F.ninf, none) l).1 := by
    intro l
    have := pbarFold_best c cs.pbar 0 l
    rw [hpb] at this
    have e := congrArg Prod.fst this
    simpa [hpb] using e
  have hninf : F.ge F.ninf (.fin m) = false := rfl
  refine ⟨by rw [hnew]; simp [hlen], T.pos, S.le, ?_, ?_, ?_⟩
  · -- no step before the last reached m
    intro j s hj hs
    obtain ⟨dj, csj, Tj, hchk⟩ := S.prefixes (j + 1) (by omega) hj
    have hstopj : csj.stop.maxScore = some (.fin m) ∧ csj.stop.maxTime = none ∧ csj.stop.early = none := by
      rw [Tj.stop]; exact hstop
    rw [checkStop_onlyMaxScore hstopj, Tj.pbar, hbest] at hchk
    simp only [Except.ok.injEq] at hchk
    apply Classical.byContradiction
    intro hne
    have hge : F.ge s (.fin m) = true := by simpa using hne
    have : F.ge (bestOf (F.ninf, none) (tr.take (j + 1))).1 (.fin m) = true := by
      rw [bestOf_ge_iff _ _ rfl]
      right
      rw [hnew] at hs
      simp only [List.getElem?_map, Option.map_eq_some_iff] at hs
      obtain ⟨t, ht, hts⟩ := hs
      refine ⟨t, ?_, by rw [hts]; exact hge⟩
      have : (tr.take (j + 1))[j]? = some t := by rw [List.getElem?_take]; simp [ht]
      exact List.mem_of_getElem? this
    rw [this] at hchk
    exact absurd hchk (by simp)
  · -- stopped early: the last step reached m
    intro hlt
    have hchk := S.fired hlt
    have hstop1 : cs1.stop.maxScore = some (.fin m) ∧ cs1.stop.maxTime = none ∧ cs1.stop.early = none := by
      rw [T.stop]; exact hstop
    rw [checkStop_onlyMaxScore hstop1, T.pbar, hbest] at hchk
    simp only [Except.ok.injEq] at hchk
    rw [bestOf_ge_iff _ _ rfl] at hchk
    rcases hchk with hc | ⟨t, ht, hge⟩
    · rw [hninf] at hc; exact absurd hc (by simp)
    · -- t must be the last element, all earlier ones are excluded by the previous bullet
      obtain ⟨idx, hidx, hget⟩ := List.getElem_of_mem ht
      have hidx' : idx < r.steps := by omega
      by_cases hlast : idx + 1 < r.steps
      · exfalso
        obtain ⟨dj, csj, Tj, hchkj⟩ := S.prefixes (idx + 1) (by omega) hlast
        have hstopj : csj.stop.maxScore = some (.fin m) ∧ csj.stop.maxTime = none ∧ csj.stop.early = none := by
          rw [Tj.stop]; exact hstop
        rw [checkStop_onlyMaxScore hstopj, Tj.pbar, hbest] at hchkj
        simp only [Except.ok.injEq] at hchkj
        have : F.ge (bestOf (F.ninf, none) (tr.take (idx + 1))).1 (.fin m) = true := by
          rw [bestOf_ge_iff _ _ rfl]
          right
          refine ⟨t, ?_, hge⟩
          have : (tr.take (idx + 1))[idx]? = some t := by
            rw [List.getElem?_take]; simp [← hget]
          exact List.mem_of_getElem? this
        rw [this] at hchkj
        exact absurd hchkj (by simp)
      · have hi : idx = r.steps - 1 := by omega
        refine ⟨t.score, ?_, hge⟩
        rw [hnew, ← hi, List.getElem?_map, List.getElem?_eq_getElem hidx, hget]
        rfl
  · -- best_score ≥ m iff some step reached m
    have hb : r.bestScore = (bestOf (F.ninf, none) tr).1 := by
      rw [hfin.2.2.2.2.2.2.2.2.2.2.2.2.2.1, T.pbar, hbest]
    rw [hb, bestOf_ge_iff _ _ rfl, hnew]
    constructor
    · rintro (hc | ⟨t, ht, hge⟩)
      · rw [hninf] at hc; exact absurd hc (by simp)
      · exact ⟨t.score, List.mem_map.mpr ⟨t, ht, rfl⟩, hge⟩
    · rintro ⟨s, hs, hge⟩
      obtain ⟨t, ht, hts⟩ := List.mem_map.mp hs
      right; exact ⟨t, ht, by rw [hts]; exact hge⟩

/-- the threshold 0 (and -0.0, which is the same rational) is an ordinary threshold: `score_exceeded` answers by `>=` -/
theorem scoreExceeded_zero (s : F) : scoreExceeded s (some (.fin 0)) = F.ge s (.fin 0) := rfl

/-- the pinned form (`max_score and …`) never fired for a zero target -/
theorem scoreExceededLegacy_zero_witness : scoreExceededLegacy (.fin 1) (some (.fin 0)) = false ∧
    scoreExceeded (.fin 1) (some (.fin 0)) = true := by decide +kernel

/-- non-vacuity of `OnlyMaxScore` -/
example : OnlyMaxScore { nIter := 5, maxScore := some (.fin 0) } 0 := ⟨rfl, rfl, rfl⟩

end GFO.C12
