/-
  C17 — model-based proposals maximise the acquisition over sound training data.

  Model: GFO.Model.Smbo. For every acquisition vector (nan-free) and every permutation that sorts it ascending - whatever
  `argsort` returns - the selected candidate has maximal acquisition value; the training lists always pair every
  finite-scored evaluated position with its own score, in order, after any sequence of steps; without replacement no
  candidate is proposed twice. The acquisition FORMULAS (expected improvement, density ratio, Lipschitz bound) and the
  surrogates are oracles: Lean proves that whatever vector they yield, the maximum is taken over sound bookkeeping.
-/
import GFO.Model.Smbo
import GFO.Proofs.Best
namespace GFO.C17
open GFO GFO.SmboState

/-- the proposal is an arg-max: the acquisition value at the selected index dominates every entry -/
theorem select_is_argmax (acq : List F) (perm : List Nat) (hs : sortsAscending acq perm = true)
    (hnn : ∀ a ∈ acq, a.isNan = false) (i : Nat) (hi : selectIdx perm = some i) :
    ∃ ai, acq[i]? = some ai ∧ ∀ (j : Nat) (aj : F), acq[j]? = some aj → F.le aj ai = true := by
  unfold sortsAscending at hs
  simp only [Bool.and_eq_true, beq_iff_eq, List.all_eq_true, List.mem_range] at hs
  obtain ⟨⟨hlen, hperm⟩, hsorted⟩ := hs
  unfold selectIdx at hi
  -- chain: acq[perm[k]] ≤ acq[perm.last] for every k
  have hne : perm ≠ [] := by intro h; simp [h] at hi
  have hlast : perm.getLast? = some (perm.getD (perm.length - 1) 0) := by
    rw [List.getLast?_eq_getElem?]
    have : perm.length - 1 < perm.length := by
      cases perm with
      | nil => exact absurd rfl hne
      | cons _ _ => simp
    rw [List.getElem?_eq_getElem this]
    simp [List.getD_eq_getElem?_getD, List.getElem?_eq_getElem this]
  rw [hlast] at hi
  simp only [Option.some.injEq] at hi
  have hchain : ∀ d k, k + d = perm.length - 1 → ∃ a b, acq[perm.getD k 0]? = some a ∧ acq[i]? = some b ∧ F.le a b = true := by
    intro d
    induction d with
    | zero =>
      intro k hk
      have hk' : k = perm.length - 1 := by omega
      subst hk'
      rw [hi]
      -- acq[i] exists because i ∈ perm ⊆ range
      have hi_lt : i < acq.length := by
        by_cases hp1 : perm.length - 1 = 0
        · -- single element permutation
          have : perm.length = 1 := by
            cases perm with
            | nil => exact absurd rfl hne
            | cons x xs => simp at hp1 ⊢; omega
          have hc := hperm 0 (by omega)
          cases perm with
          | nil => exact absurd rfl hne
          | cons x xs =>
            have hxs : xs = [] := by simpa using this
            subst hxs
            simp at hc hi
            omega
        · have := hsorted (perm.length - 2) (by omega)
          have e : perm.length - 2 + 1 = perm.length - 1 := by omega
          rw [e, hi] at this
          cases h2 : acq[i]? with
          | none =>
            rw [h2] at this
            cases acq[perm.getD (perm.length - 2) 0]? <;> simp at this
          | some b => exact (List.getElem?_eq_some_iff.mp h2).1
      obtain ⟨b, hb⟩ : ∃ b, acq[i]? = some b := ⟨acq[i], List.getElem?_eq_getElem hi_lt⟩
      exact ⟨b, b, hb, hb, F.le_refl (hnn b (List.mem_of_getElem? hb))⟩
    | succ d ih =>
      intro k hk
      obtain ⟨a', b, ha', hb, hle⟩ := ih (k + 1) (by omega)
      have := hsorted k (by omega)
      cases h1 : acq[perm.getD k 0]? with
      | none => rw [h1, ha'] at this; simp at this
      | some a =>
        rw [h1, ha'] at this
        exact ⟨a, b, rfl, hb, F.le_trans this hle⟩
  obtain ⟨_, ai, _, hai, _⟩ := hchain 0 (perm.length - 1) (by omega)
  refine ⟨ai, hai, ?_⟩
  intro j aj hj
  have hjlt : j < acq.length := (List.getElem?_eq_some_iff.mp hj).1
  have hjmem := hperm j hjlt
  obtain ⟨k, hk, hkj⟩ := List.getElem_of_mem (by simpa using hjmem : j ∈ perm)
  obtain ⟨a, b, ha, hb, hle⟩ := hchain (perm.length - 1 - k) k (by omega)
  have hgetD : perm.getD k 0 = j := by simp [List.getD_eq_getElem?_getD, List.getElem?_eq_getElem hk, hkj]
  rw [hgetD, hj] at ha
  rw [hai] at hb
  cases ha; cases hb
  exact hle

/-- why nan-free is a hypothesis: a nan entry is sorted last by argsort and would be selected first -/
theorem select_nan_witness : selectIdx [0, 2, 1] = some 1 ∧ ([F.fin 1, F.nan, F.fin 5] : List F)[1]? = some F.nan := by decide +kernel

/-- the training lists pair every finite-scored position with its own score, in order; a non-finite score leaves no trace -/
def pairsOf (steps : List (Pos × F)) : List (Pos × F) := steps.filter (fun e => e.2.isFinite)

theorem training_step (repl : Bool) (s : SmboState) (p : Pos) (score : F) (h : s.X.length = s.Y.length) :
    (s.step repl p score).X.zip (s.step repl p score).Y = s.X.zip s.Y ++ pairsOf [(p, score)] ∧
    (s.step repl p score).X.length = (s.step repl p score).Y.length := by
  unfold step trackX trackY removePos pairsOf
  cases repl <;> by_cases hf : score.isFinite = true <;> simp [hf, List.zip_append h, h]

/-- after any sequence of model-based steps the training set is: what it was ++ the finite-scored evaluations in order -/
theorem training_set_exact (repl : Bool) (steps : List (Pos × F)) (s : SmboState) (h : s.X.length = s.Y.length) :
    let s' := steps.foldl (fun st e => st.step repl e.1 e.2) s
    s'.X.zip s'.Y = s.X.zip s.Y ++ pairsOf steps ∧ s'.X.length = s'.Y.length := by
  induction steps generalizing s with
  | nil => simp [pairsOf, h]
  | cons e es ih =>
    simp only [List.foldl_cons]
    obtain ⟨h1, h2⟩ := training_step repl s e.1 e.2 h
    obtain ⟨h3, h4⟩ := ih (s.step repl e.1 e.2) h2
    refine ⟨?_, h4⟩
    rw [h3, h1]
    simp only [pairsOf, List.filter_cons, List.append_assoc]
    by_cases hf : e.2.isFinite = true <;> simp [hf]

/-- without replacement a proposed candidate leaves the candidate set: it cannot be proposed again -/
theorem no_repeat_without_replacement (s : SmboState) (p : Pos) (score : F) :
    p ∉ (s.step false p score).cands ∧ ∀ q ∈ (s.step false p score).cands, q ∈ s.cands := by
  unfold step trackX trackY removePos
  by_cases hf : score.isFinite = true <;> simp [hf] <;> (intro q hq _; exact hq)

/-- the warm-start filter keeps exactly the rows with finite cells whose values are members of the space -/
theorem warm_filter_sound (dims : List (List Rat)) (rows : List (List F × F)) :
    ∀ r ∈ warmFilter dims rows, r.1.length = dims.length ∧ ∀ vd ∈ r.1.zip dims, vd.1 ∈ vd.2 := by
  intro r hr
  unfold warmFilter at hr
  simp only [List.mem_filterMap] at hr
  obtain ⟨row, _, hrow⟩ := hr
  split at hrow
  · rename_i vs s _ _
    split at hrow
    · rename_i hc
      simp only [Option.some.injEq] at hrow
      subst hrow
      simp only [Bool.and_eq_true, beq_iff_eq, List.all_eq_true] at hc
      refine ⟨hc.1, ?_⟩
      intro vd hvd
      have := hc.2 vd hvd
      simpa using this
    · simp at hrow
  · simp at hrow

end GFO.C17
