/-
  Whole-run theorems for the complete model of `PatternSearch` (GFO.Model.Pattern), through the real driver model, for
  every configuration, objective, call, prior state and tape:

    C01_C02_pattern_positions      every position a call evaluates is a feasible position of the space
    C19_pattern_tracker_grounded   the tracked best / current pair and the valid lists are really evaluated pairs
    C15_pattern_*                  the KNOWN FINDING as a theorem about the model: while no score has been finite `evaluate`
                                   returns before it regenerates the pattern, so the list only shrinks, and `iterate` on an
                                   empty list raises IndexError; a concrete run through the whole driver ends in IndexError
-/
import GFO.Model.Pattern
import GFO.Props.EvoRuns
namespace GFO.PatternRuns
open GFO GFO.C01 GFO.C19 GFO.LocalRuns GFO.PopRuns

theorem patternPoint_spec {g : Geo} {sp : Space} {f : Pos → Bool} (hgeo : g = sp.geo) (hsp : SpaceOK sp)
    {idx : Nat} {cur p : Pos} {tape rest : Tape} (ht : TapeOK sp f tape)
    (h : patternPoint g idx cur tape = .ok (p, rest)) : rest <:+ tape ∧ InSpace sp p := by
  unfold patternPoint at h
  split at h
  · rename_i v rest0
    split at h
    · obtain ⟨hs, horig, _⟩ := conv2posT_spec h
      refine ⟨hs.trans (List.suffix_cons _ _), ?_⟩
      rcases horig with e | ⟨e, _⟩
      · obtain ⟨l1, l2⟩ := ht.spiral v (by simp)
        rw [e, hgeo]; exact clipped_inSpace hsp v l1 l2
      · exact ht.rnd p (List.mem_cons_of_mem _ e)
    · simp at h
  · simp at h
  · simp at h

theorem patternPoints_spec {g : Geo} {sp : Space} {f : Pos → Bool} (hgeo : g = sp.geo) (hsp : SpaceOK sp) {cur : Pos}
    {k idx : Nat} {acc pts : List Pos} {tape rest : Tape} (ht : TapeOK sp f tape) (hacc : ∀ q ∈ acc, InSpace sp q)
    (h : patternPoints g cur k idx acc tape = .ok (pts, rest)) : rest <:+ tape ∧ ∀ q ∈ pts, InSpace sp q := by
  induction k generalizing idx acc tape with
  | zero =>
    simp only [patternPoints, Except.ok.injEq, Prod.mk.injEq] at h
    obtain ⟨rfl, rfl⟩ := h
    exact ⟨List.suffix_refl _, hacc⟩
  | succ n ih =>
    unfold patternPoints at h
    cases h1 : patternPoint g idx cur tape with
    | error e => rw [h1] at h; simp at h
    | ok a =>
      rw [h1] at h
      simp only at h
      obtain ⟨s1, i1⟩ := patternPoint_spec hgeo hsp ht (show patternPoint g idx cur tape = .ok (a.1, a.2) from h1)
      cases h2 : patternPoint g idx cur a.2 with
      | error e => rw [h2] at h; simp at h
      | ok b =>
        rw [h2] at h
        simp only at h
        obtain ⟨s2, i2⟩ := patternPoint_spec hgeo hsp (ht.suffix s1) (show patternPoint g idx cur a.2 = .ok (b.1, b.2) from h2)
        obtain ⟨s3, i3⟩ := ih ((ht.suffix s1).suffix s2)
          (by intro q hq
              rcases List.mem_append.mp hq with hq | hq
              · exact hacc q hq
              · simp at hq; rcases hq with rfl | rfl; exact i1; exact i2) h
        exact ⟨(s3.trans s2).trans s1, i3⟩

theorem samplePattern_spec {cfg : PatCfg} {pts pat : List Pos} {tape rest : Tape}
    (h : samplePattern cfg pts tape = .ok (pat, rest)) : rest <:+ tape ∧ ∀ q ∈ pat, q ∈ pts := by
  unfold samplePattern at h
  split at h
  · rename_i idxs rest0
    split at h
    · rename_i hc
      simp only [Except.ok.injEq, Prod.mk.injEq] at h
      obtain ⟨rfl, rfl⟩ := h
      refine ⟨List.suffix_cons _ _, ?_⟩
      intro q hq
      obtain ⟨i, hi, rfl⟩ := List.mem_map.mp hq
      have hlt : i < pts.length := by
        have := List.all_eq_true.mp hc.2.2 i hi
        simpa using this
      simp [List.getD, List.getElem?_eq_getElem hlt]
    · simp at h
  · simp at h
  · simp at h

theorem generatePattern_spec {cfg : PatCfg} {sp : Space} {f : Pos → Bool} (hgeo : cfg.geo = sp.geo) (hsp : SpaceOK sp)
    {cur : Option Pos} {pat : List Pos} {tape rest : Tape} (ht : TapeOK sp f tape)
    (h : generatePattern cfg cur tape = .ok (pat, rest)) : rest <:+ tape ∧ ∀ q ∈ pat, InSpace sp q := by
  unfold generatePattern at h
  cases cur with
  | none => simp at h
  | some c =>
    simp only at h
    cases h1 : patternPoints cfg.geo c cfg.nDims 0 [] tape with
    | error e => rw [h1] at h; simp at h
    | ok a =>
      rw [h1] at h
      simp only at h
      obtain ⟨s1, i1⟩ := patternPoints_spec hgeo hsp ht (by intro q hq; simp at hq)
        (show patternPoints cfg.geo c cfg.nDims 0 [] tape = .ok (a.1, a.2) from h1)
      obtain ⟨s2, i2⟩ := samplePattern_spec h
      exact ⟨s2.trans s1, fun q hq => i1 q (i2 q hq)⟩

/-- the run invariant -/
structure Inv (sp : Space) (tape0 : Tape) (initL0 : List Pos) (d : DState PatSt) : Prop where
  tape : d.bst.tape <:+ tape0
  initL : d.bst.initL = initL0
  len : d.posL.length = d.scoreL.length
  grounded : Grounded (evalLog d) d.bst.tr
  patIn : ∀ q ∈ d.bst.pattern, InSpace sp q

theorem patPropose_spec {cfg : PatCfg} {sp : Space} {f : Pos → Bool} (hgeo : cfg.geo = sp.geo) (hsp : SpaceOK sp)
    {s : PatSt} {p : Pos} {pat : List Pos} {rest : Tape} (ht : TapeOK sp f s.tape) (hpat : ∀ q ∈ s.pattern, InSpace sp q)
    (h : patPropose cfg s = .ok (p, pat, rest)) :
    rest <:+ s.tape ∧ InSpace sp p ∧ f p = true ∧ ∀ q ∈ pat, InSpace sp q := by
  unfold patPropose at h
  cases htape : s.tape with
  | nil => rw [htape] at h; simp at h
  | cons d0 rest0 =>
    rw [htape] at h
    cases d0 with
    | unif x =>
      simp only at h
      rw [htape] at ht
      have hs0 : rest0 <:+ Draw.unif x :: rest0 := List.suffix_cons _ _
      split at h
      · cases hm : moveRandomLoop rest0 with
        | error e => rw [hm] at h; simp at h
        | ok a =>
          rw [hm] at h
          simp only [Except.ok.injEq, Prod.mk.injEq] at h
          obtain ⟨rfl, rfl, rfl⟩ := h
          obtain ⟨a1, b1, c1⟩ := moveRandomLoop_spec (show moveRandomLoop rest0 = .ok (a.1, a.2) from hm)
          have ht0 := ht.suffix hs0
          exact ⟨a1.trans hs0, ht0.rnd _ b1, (ht0.feas _ true c1).symm, hpat⟩
      · cases hg : (if s.pattern = [] then generatePattern cfg s.tr.posCurrent rest0 else Except.ok (s.pattern, rest0)) with
        | error e => rw [hg] at h; simp at h
        | ok g =>
          rw [hg] at h
          simp only at h
          have hgen : g.2 <:+ rest0 ∧ ∀ r ∈ g.1, InSpace sp r := by
            by_cases hpe : s.pattern = []
            · rw [if_pos hpe] at hg
              exact generatePattern_spec hgeo hsp (ht.suffix hs0) (show generatePattern cfg s.tr.posCurrent rest0 = .ok (g.1, g.2) from hg)
            · rw [if_neg hpe] at hg
              simp only [Except.ok.injEq] at hg
              subst hg
              exact ⟨List.suffix_refl _, hpat⟩
          obtain ⟨hsg, hpg⟩ := hgen
          cases hp : g.1 with
          | nil => rw [hp] at h; simp at h
          | cons q qs =>
            rw [hp] at h
            simp only at h
            have hq : InSpace sp q := hpg q (by rw [hp]; simp)
            have hqs : ∀ r ∈ qs, InSpace sp r := fun r hr => hpg r (by rw [hp]; exact List.mem_cons_of_mem _ hr)
            have hsg0 : g.2 <:+ Draw.unif x :: rest0 := hsg.trans hs0
            cases haf : askFeas q g.2 with
            | error e => rw [haf] at h; simp at h
            | ok a =>
              rw [haf] at h
              simp only at h
              have e := askFeas_spec (show askFeas q g.2 = .ok (a.1, a.2) from haf)
              have hs1 : a.2 <:+ Draw.unif x :: rest0 := (by rw [e]; exact List.suffix_cons _ _ : a.2 <:+ g.2).trans hsg0
              by_cases hok : a.1 = true
              · simp only [hok, if_true, Except.ok.injEq, Prod.mk.injEq] at h
                obtain ⟨rfl, rfl, rfl⟩ := h
                have hfe : f q = true := by
                  have := (ht.suffix hsg0).feas q a.1 (by rw [e]; simp); rw [← this]; exact hok
                exact ⟨hs1, hq, hfe, hqs⟩
              · simp only [hok, Bool.false_eq_true, if_false] at h
                cases hmc : moveClimb cfg.geo (some q) (some 1) (Draw.unif x :: rest0).length a.2 with
                | error e' => rw [hmc] at h; simp at h
                | ok b =>
                  rw [hmc] at h
                  simp only [Except.ok.injEq, Prod.mk.injEq] at h
                  obtain ⟨rfl, rfl, rfl⟩ := h
                  obtain ⟨a2, b2, c2⟩ := EvoRuns.moveClimb_good hgeo hsp (ht.suffix hs1) hmc
                  exact ⟨a2.trans hs1, b2, c2, hqs⟩
    | climb _ _ => simp at h
    | dist _ _ => simp at h
    | rnd _ => simp at h
    | feas _ _ => simp at h
    | accept _ _ => simp at h
    | part _ _ => simp at h
    | spiral _ => simp at h
    | sorted _ => simp at h
    | int _ => simp at h
    | npunif _ => simp at h
    | choice _ => simp at h
    | mutant _ => simp at h
    | parents _ => simp at h
    | inits _ => simp at h
    | vec _ => simp at h

/-- the window pick keeps groundedness -/
theorem grounded_patWindow {log : Log} {t : Tracker} (g : Grounded log t) (n : Nat) : Grounded log (patWindow n t) := by
  unfold patWindow
  simp only
  split
  · rename_i s' p' hs hpp
    apply grounded_eval2 g
    have hz := zip_getElem_mem _ _ _ p' s' hpp hs
    rw [lastN_zip _ _ _ g.validLen] at hz
    exact g.valid _ (List.mem_of_mem_drop hz)
  · exact g

theorem patEvaluate_spec {cfg : PatCfg} {sp : Space} {f : Pos → Bool} (hgeo : cfg.geo = sp.geo) (hsp : SpaceOK sp)
    {s s' : PatSt} {score : F} {log : Log} (ht : TapeOK sp f s.tape) (hpat : ∀ q ∈ s.pattern, InSpace sp q)
    (g : Grounded log s.tr) (h : patEvaluate cfg s score = .ok s') :
    s'.tape <:+ s.tape ∧ s'.initL = s.initL ∧ (∀ q ∈ s'.pattern, InSpace sp q) ∧
    Grounded (log ++ [(s.tr.posNew, score)]) s'.tr := by
  obtain ⟨g1, hp, _⟩ := grounded_setScoreNew g score
  have g2 := grounded_baseEvaluate g1 score (by rw [hp]; simp)
  unfold patEvaluate at h
  simp only at h
  split at h
  · simp only [Except.ok.injEq] at h; subst h
    exact ⟨List.suffix_refl _, rfl, hpat, grounded_nthTrial g2 _⟩
  · split at h
    · simp at h
    · split at h
      · cases hg : (if s.iterState = true then
            generatePattern cfg ((s.tr.setScoreNew score).baseEvaluate score).posCurrent s.tape
          else Except.ok (s.pattern, s.tape)) with
        | error e => rw [hg] at h; simp at h
        | ok a =>
          rw [hg] at h
          simp only [Except.ok.injEq] at h
          subst h
          have hgen : a.2 <:+ s.tape ∧ ∀ q ∈ a.1, InSpace sp q := by
            split at hg
            · exact generatePattern_spec hgeo hsp ht (show generatePattern cfg _ s.tape = .ok (a.1, a.2) from hg)
            · simp only [Except.ok.injEq] at hg; subst hg; exact ⟨List.suffix_refl _, hpat⟩
          exact ⟨hgen.1, rfl, hgen.2, grounded_nthTrial (grounded_patWindow g2 _) _⟩
      · simp only [Except.ok.injEq] at h; subst h
        exact ⟨List.suffix_refl _, rfl, hpat, grounded_nthTrial g2 _⟩

/-- one driver step keeps the invariant and emits a feasible position of the space -/
theorem step_inv {cfg : PatCfg} {sp : Space} {obj : Obj} {c : Call} {f : Pos → Bool} {tape0 : Tape} {initL0 : List Pos}
    (hgeo : cfg.geo = sp.geo) (hsp : SpaceOK sp) (ht : TapeOK sp f tape0) (hi : ∀ q ∈ initL0, InSpace sp q ∧ f q = true)
    (i : Nat) (d d1 : DState PatSt) (cs cs1 : CState) (p : Pos) (v : Value) (e : Eval)
    (hP : Inv sp tape0 initL0 d) (sf : StepFacts sp obj c i d d1 cs cs1 p v e)
    (hb : BStep (patBackend cfg) (i < cs.nInitsNorm) d.bst d1.bst p e.res.score) :
    Inv sp tape0 initL0 d1 ∧ (InSpace sp p ∧ f p = true) := by
  have hlog := evalLog_append hP.len sf.posL sf.scoreL
  have hlen : d1.posL.length = d1.scoreL.length := by rw [sf.posL, sf.scoreL]; simp [hP.len]
  rcases hb with ⟨_, s1, h1, h2⟩ | ⟨_, s0, s1, h0, h1, h2⟩
  · -- start-up step
    have h1' : patInitPos d.bst = .ok (p, s1) := h1
    unfold patInitPos at h1'
    split at h1'
    · rename_i q hq
      simp only [Except.ok.injEq, Prod.mk.injEq] at h1'
      obtain ⟨rfl, rfl⟩ := h1'
      simp only [patBackend, Except.ok.injEq] at h2
      have hmem : q ∈ initL0 := by rw [← hP.initL]; exact List.mem_of_getElem? hq
      refine ⟨{ tape := ?_, initL := ?_, len := hlen, grounded := ?_, patIn := ?_ }, hi q hmem⟩
      · rw [← h2]; exact hP.tape
      · rw [← h2]; exact hP.initL
      · rw [← h2, hlog]
        have g1 := grounded_trackNewPos hP.grounded q
        have := grounded_evaluateInit g1 e.res.score
        simpa [Tracker.trackNewPos] using this
      · rw [← h2]; exact hP.patIn
    · simp at h1'
  · -- iteration step (possibly right after `finish_initialization`)
    have hs0 : s0.tape <:+ tape0 ∧ s0.initL = initL0 ∧ (∀ q ∈ s0.pattern, InSpace sp q) ∧ s0.tr = d.bst.tr := by
      rcases h0 with h0 | h0
      · subst h0; exact ⟨hP.tape, hP.initL, hP.patIn, rfl⟩
      · have h0' : patFinishInit cfg d.bst = .ok s0 := h0
        unfold patFinishInit at h0'
        cases hg : generatePattern cfg d.bst.tr.posCurrent d.bst.tape with
        | error e' => rw [hg] at h0'; simp at h0'
        | ok a =>
          rw [hg] at h0'
          simp only [Except.ok.injEq] at h0'
          subst h0'
          obtain ⟨a1, a2⟩ := generatePattern_spec hgeo hsp (ht.suffix hP.tape)
            (show generatePattern cfg d.bst.tr.posCurrent d.bst.tape = .ok (a.1, a.2) from hg)
          exact ⟨a1.trans hP.tape, hP.initL, a2, rfl⟩
    obtain ⟨hst, hsi, hsp0, hstr⟩ := hs0
    have h1' : patIterate cfg s0 = .ok (p, s1) := h1
    unfold patIterate at h1'
    cases hpp : patPropose cfg s0 with
    | error e' => rw [hpp] at h1'; simp at h1'
    | ok a =>
      rw [hpp] at h1'
      simp only [Except.ok.injEq, Prod.mk.injEq] at h1'
      obtain ⟨rfl, rfl⟩ := h1'
      obtain ⟨b1, b2, b3, b4⟩ := patPropose_spec hgeo hsp (ht.suffix hst) hsp0
        (show patPropose cfg s0 = .ok (a.1, a.2.1, a.2.2) from hpp)
      have g1 : Grounded (evalLog d) (s0.tr.trackNewPos a.1) := by rw [hstr]; exact grounded_trackNewPos hP.grounded a.1
      have h2' : patEvaluate cfg { s0 with tr := s0.tr.trackNewPos a.1, pattern := a.2.1, tape := a.2.2 } e.res.score = .ok d1.bst := h2
      obtain ⟨c1, c2, c3, c4⟩ := patEvaluate_spec hgeo hsp ((ht.suffix hst).suffix b1) b4 g1 h2'
      refine ⟨{ tape := (c1.trans b1).trans hst, initL := by rw [c2]; exact hsi, len := hlen, grounded := ?_, patIn := c3 }, b2, b3⟩
      rw [hlog]
      simpa [Tracker.trackNewPos] using c4

/-- C01 + C02 + C19 for one `search()` call of the complete pattern search -/
theorem pattern_call {cfg : PatCfg} {sp : Space} {obj : Obj} {c : Call} {f : Pos → Bool} {tape0 : Tape} {initL0 : List Pos}
    {d d' : DState PatSt} {r : CallResult}
    (hgeo : cfg.geo = sp.geo) (hsp : SpaceOK sp) (ht : TapeOK sp f tape0) (hi : ∀ q ∈ initL0, InSpace sp q ∧ f q = true)
    (hP : Inv sp tape0 initL0 d) (hn : 0 < c.nIter) (h : searchCall (patBackend cfg) sp obj c d = .ok (d', r)) :
    Inv sp tape0 initL0 d' ∧ ∀ p ∈ C04.newPos d d', InSpace sp p ∧ f p = true := by
  obtain ⟨cs, d1, cs1, tr, _, hfin, T, hP1, hQ⟩ :=
    searchCall_inv (P := fun d _ => Inv sp tape0 initL0 d) (Q := fun t => InSpace sp t.pos ∧ f t.pos = true)
      (fun i d d1 cs cs1 p v e hp sf hb => step_inv hgeo hsp ht hi i d d1 cs cs1 p v e hp sf hb) h hn (fun _ _ => hP)
  obtain ⟨hrows, hposL, hscoreL, _, _, _, _, _, _, _, hbst, _⟩ := finishSearch_ok hfin
  constructor
  · exact { tape := by rw [hbst]; exact hP1.tape, initL := by rw [hbst]; exact hP1.initL
            len := by rw [hposL, hscoreL]; exact hP1.len
            grounded := by
              have := hP1.grounded
              unfold evalLog at this ⊢
              rw [hposL, hscoreL, hbst]; exact this
            patIn := by rw [hbst]; exact hP1.patIn }
  · intro p hp
    unfold C04.newPos at hp
    rw [hposL, T.posL] at hp
    simp only [List.drop_left] at hp
    obtain ⟨t, ht', rfl⟩ := List.mem_map.mp hp
    exact hQ t ht'

theorem C01_C02_pattern_positions {cfg : PatCfg} {sp : Space} {obj : Obj} {c : Call} {f : Pos → Bool} {tape0 : Tape}
    {initL0 : List Pos} {d d' : DState PatSt} {r : CallResult}
    (hgeo : cfg.geo = sp.geo) (hsp : SpaceOK sp) (ht : TapeOK sp f tape0) (hi : ∀ q ∈ initL0, InSpace sp q ∧ f q = true)
    (hP : Inv sp tape0 initL0 d) (hn : 0 < c.nIter) (h : searchCall (patBackend cfg) sp obj c d = .ok (d', r)) :
    ∀ p ∈ C04.newPos d d', InSpace sp p ∧ f p = true :=
  (pattern_call hgeo hsp ht hi hP hn h).2

theorem C19_pattern_tracker_grounded {cfg : PatCfg} {sp : Space} {obj : Obj} {c : Call} {f : Pos → Bool} {tape0 : Tape}
    {initL0 : List Pos} {d d' : DState PatSt} {r : CallResult}
    (hgeo : cfg.geo = sp.geo) (hsp : SpaceOK sp) (ht : TapeOK sp f tape0) (hi : ∀ q ∈ initL0, InSpace sp q ∧ f q = true)
    (hP : Inv sp tape0 initL0 d) (hn : 0 < c.nIter) (h : searchCall (patBackend cfg) sp obj c d = .ok (d', r)) :
    Grounded (evalLog d') d'.bst.tr :=
  (pattern_call hgeo hsp ht hi hP hn h).1.grounded

theorem inv_fresh (sp : Space) (nInits : Nat) (initL : List Pos) (tape : Tape) :
    Inv sp tape initL ({ nInits := nInits, bst := { initL := initL, tape := tape } } : DState PatSt) :=
  { tape := List.suffix_refl _, initL := rfl, len := rfl, grounded := by simpa [evalLog] using grounded_fresh
    patIn := by intro q hq; simp at hq }

/-! ### C15: the known finding, as theorems about the model -/

/-- while no score has been finite (`scores_valid` stays empty) `evaluate` returns before the regeneration: the pattern
    list and the tape are untouched -/
theorem C15_pattern_evaluate_skips_regeneration (cfg : PatCfg) (s : PatSt) (score : F)
    (hnone : s.tr.scoresValid = []) (hbad : score.isFinite = false) :
    ∃ s', patEvaluate cfg s score = .ok s' ∧ s'.pattern = s.pattern ∧ s'.tape = s.tape ∧ s'.tr.scoresValid = [] := by
  unfold patEvaluate
  have h1 : (s.tr.setScoreNew score).scoresValid = [] := by unfold Tracker.setScoreNew; simp [hbad, hnone]
  have h2 : ((s.tr.setScoreNew score).baseEvaluate score).scoresValid = [] := by
    unfold Tracker.baseEvaluate; split <;> simp [h1]
  simp only [h2, List.isEmpty_nil, if_true]
  exact ⟨_, rfl, rfl, rfl, by simp⟩

/-- … and (after fix) `iterate` on an exhausted pattern list no longer raises: it regenerates the pattern around the current
    position and takes its first entry (no random restart at this step) -/
theorem C15_pattern_iterate_regenerates (cfg : PatCfg) (s : PatSt) (x : Rat) (rest : Tape)
    (hp : s.pattern = []) (ht : s.tape = Draw.unif x :: rest) (hr : ¬ cfg.randRestP > x) (e : Err)
    (h : patIterate cfg s = .error e) :
    generatePattern cfg s.tr.posCurrent rest = .error e ∨
    ∃ g, generatePattern cfg s.tr.posCurrent rest = .ok g ∧
      (g.1 = [] ∧ e = .indexError ∨ ∃ q qs, g.1 = q :: qs ∧
        (askFeas q g.2 = .error e ∨ ∃ t, askFeas q g.2 = .ok (false, t) ∧ moveClimb cfg.geo (some q) (some 1) s.tape.length t = .error e)) := by
  unfold patIterate patPropose at h
  simp only [hp, ht, hr, if_false, if_true] at h
  cases hg : generatePattern cfg s.tr.posCurrent rest with
  | error e' => rw [hg] at h; simp at h; left; rw [h]
  | ok g =>
    right
    refine ⟨g, rfl, ?_⟩
    rw [hg] at h
    simp only at h
    cases hp1 : g.1 with
    | nil => rw [hp1] at h; simp at h; left; exact ⟨rfl, h.symm⟩
    | cons q qs =>
      right
      refine ⟨q, qs, rfl, ?_⟩
      rw [hp1] at h
      simp only at h
      cases haf : askFeas q g.2 with
      | error e' => rw [haf] at h; simp at h; left; rw [h]
      | ok a =>
        rw [haf] at h
        simp only at h
        obtain ⟨ok, t⟩ := a
        cases ok
        · right
          refine ⟨t, rfl, ?_⟩
          simp only [Bool.false_eq_true, if_false] at h
          cases hmc : moveClimb cfg.geo (some q) (some 1) (Draw.unif x :: rest).length t with
          | error e' => rw [hmc] at h; simp at h; rw [ht, ← h]; exact hmc
          | ok b => rw [hmc] at h; simp at h
        · simp at h

/-- the former finding on one concrete run through the driver: 1-D space, `n_positions_ = 1`, one start-up position whose
    score is nan, then nan for ever - `finish_initialization` builds a one-point pattern, the first iteration pops it, its
    `evaluate` returns early, and the second iteration (which used to raise IndexError) regenerates the pattern and goes on -/
def exSpace : Space := { names := ["x"], dims := [[0, 1, 2, 3, 4]] }
def exCfg : PatCfg := { nPositions := 1, randRestP := 0, nDims := 1, geo := exSpace.geo }
def exTape : Tape :=
  [.spiral [.fin 3], .spiral [.fin 1], .parents [0],     -- generate_pattern([2]): points [3], [1]; sample picks index 0
   .unif (1/2), .feas [3] true,                           -- first iterate: emits [3]
   .unif (1/2),                                           -- second iterate: the list is empty ...
   .spiral [.fin 3], .spiral [.fin 1], .parents [1],      -- ... regenerated around the current position [2]; sample picks index 1
   .feas [1] true]                                        -- emits [1]
def exObj : Obj := fun _ _ _ => ({ score := .nan, metrics := [] }, 0)
def exD : DState PatSt := { nInits := 1, bst := { initL := [[2]], tape := exTape } }

def isIndexError {α : Type} : Except Err α → Bool
  | .error .indexError => true
  | _ => false

theorem C15_pattern_former_finding_fixed :
    (searchCall (patBackend exCfg) exSpace exObj { nIter := 3, memory := .off } exD).map (fun x => (x.1.posL, x.1.bst.tape.length))
      = .ok ([[2], [3], [1]], 0) := by
  decide +kernel

end GFO.PatternRuns
