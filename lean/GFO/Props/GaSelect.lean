/-
  C09, orientation of the parent selection of `GeneticAlgorithmOptimizer` (GFO.Model.Evolution.gaCrossover = `_crossover` with
  `fittest_parents`): the parents of a crossover are sampled from the BETTER half of the population -

    C09_ga_parents_from_fitter_half   when the 1 % replacement draw does not fire, every sampled parent's `score_current`
                                      dominates the `score_current` of every individual of the worse half (nan-free scores),
                                      whatever permutation numpy's argsort returned;
    C09_ga_parents_count              as many parents as `min(n_parents, len(fittest))`, no individual twice;
    C09_es_cross_overwrites_worst     EvolutionStrategy's crossover overwrites an individual that every other one dominates.

  A reversed sort, a swapped slice (`pop_sorted[n_fittest:]` as the parents) or an ascending argsort makes the recorded sample
  fail `parentsFrom`, i.e. the complete model stops with "parents-not-sampled-from-the-fittest".
-/
import GFO.Props.EvoRuns
import GFO.Props.SmboRuns
namespace GFO.GaSelect
open GFO GFO.EvoRuns GFO.SmboRuns

/-- a nan-free list that is non-increasing between neighbours is non-increasing between any two positions -/
theorem adjacentDesc_pairwise (l : List F) (hn : ∀ x ∈ l, x.isNan = false) (h : adjacentDesc l = true) :
    l.Pairwise (fun a b => F.ge a b = true) := by
  induction l with
  | nil => exact List.Pairwise.nil
  | cons a rest ih =>
    refine List.Pairwise.cons ?_ ?_
    · intro x hx
      exact adjacentDesc_head (a :: rest) hn h a rest rfl x hx
    · apply ih (fun x hx => hn x (List.mem_cons_of_mem _ hx))
      cases rest with
      | nil => rfl
      | cons b bs =>
        simp only [adjacentDesc, Bool.and_eq_true] at h
        exact h.2

/-- what `sort_pop_best_score` promises: every index of the first part of the permutation dominates every index of the rest -/
theorem sortedDesc_split (scores : List F) (perm : List Nat) (n : Nat) (hs : sortedDesc scores perm = true)
    (hn : ∀ x ∈ scores, x.isNan = false) :
    ∀ i ∈ perm.take n, ∀ j ∈ perm.drop n, F.ge (scores.getD i .nan) (scores.getD j .nan) = true := by
  unfold sortedDesc at hs
  simp only [Bool.and_eq_true, beq_iff_eq, List.all_eq_true, List.mem_range, List.contains_iff_mem] at hs
  obtain ⟨⟨hlen, hall⟩, hadj⟩ := hs
  -- every entry of `perm` is an index of `scores` (pigeonhole, as in `sortedDesc_head_max`)
  have hidx : ∀ k ∈ perm, k < scores.length := by
    intro k hk
    by_contra hc
    have hsub : List.range scores.length ⊆ perm := by
      intro m hm; simpa using hall m (by simpa using hm)
    have hle := List.Nodup.length_le_of_subset (l₂ := perm.erase k) List.nodup_range (by
      intro m hm
      have hm' := hsub hm
      have hne : m ≠ k := by
        intro e; subst e; simp at hm; exact hc hm
      exact (List.mem_erase_of_ne hne).mpr hm')
    rw [List.length_erase_of_mem hk, List.length_range] at hle
    have hpos : 0 < perm.length := List.length_pos_of_mem hk
    omega
  have hnm : ∀ x ∈ perm.map (fun i => scores.getD i F.nan), x.isNan = false := by
    intro x hx
    obtain ⟨k, hk, rfl⟩ := List.mem_map.mp hx
    have hk' := hidx k hk
    have : scores.getD k F.nan = scores[k] := by simp [List.getD, List.getElem?_eq_getElem hk']
    rw [this]; exact hn _ (List.getElem_mem hk')
  have hp := adjacentDesc_pairwise _ hnm hadj
  rw [← List.take_append_drop n perm, List.map_append, List.pairwise_append] at hp
  intro i hi j hj
  exact hp.2.2 _ (List.mem_map.mpr ⟨i, hi, rfl⟩) _ (List.mem_map.mpr ⟨j, hj, rfl⟩)

/-- the pieces of a successful `_crossover()` -/
theorem gaCrossover_parts {cfg : GACfg} {s : PopSt} {tape rest : Tape} {offs : List Pos}
    (h : gaCrossover cfg s tape = .ok (offs, rest)) :
    ∃ perm x t2 fit t3, tape = Draw.sorted perm :: Draw.unif x :: t2 ∧
      sortedDesc (s.members.map (·.tr.scoreCurrent)) perm = true ∧
      gaFittest perm x t2 = .ok (fit, t3) ∧ parentsFrom cfg.nParents fit t3 = true ∧ gaParents cfg s t3 = .ok (offs, rest) := by
  unfold gaCrossover at h
  cases h1 : popSorted s tape with
  | error e => rw [h1] at h; simp at h
  | ok x1 =>
    rw [h1] at h
    simp only at h
    have hsd : tape = Draw.sorted x1.1 :: x1.2 ∧ sortedDesc (s.members.map (·.tr.scoreCurrent)) x1.1 = true := by
      unfold popSorted at h1
      split at h1
      · split at h1
        · rename_i hs
          simp only [Except.ok.injEq] at h1
          subst h1
          exact ⟨rfl, hs⟩
        · simp at h1
      · simp at h1
      · simp at h1
    cases h2 : takeRand01 x1.2 with
    | error e => rw [h2] at h; simp at h
    | ok x2 =>
      rw [h2] at h
      simp only at h
      have e2 := takeRand01_spec (show takeRand01 x1.2 = .ok (x2.1, x2.2) from h2)
      cases h3 : gaFittest x1.1 x2.1 x2.2 with
      | error e => rw [h3] at h; simp at h
      | ok x3 =>
        rw [h3] at h
        simp only at h
        split at h
        · rename_i hpf
          exact ⟨x1.1, x2.1, x2.2, x3.1, x3.2, by rw [hsd.1, e2], hsd.2, h3, hpf, h⟩
        · simp at h

/-- C09: without the 1 % replacement the sampled parents come from the better half: each dominates every individual of the
    worse half -/
theorem C09_ga_parents_from_fitter_half {cfg : GACfg} {s : PopSt} {tape rest : Tape} {offs : List Pos}
    (h : gaCrossover cfg s tape = .ok (offs, rest)) (hn : ∀ m ∈ s.members, m.tr.scoreCurrent.isNan = false) :
    ∃ perm x t2 idxs t4, tape = Draw.sorted perm :: Draw.unif x :: t2 ∧
      ((1 : Rat) / 100 < x → t2 = Draw.parents idxs :: t4 ∧
        ∀ i ∈ idxs, ∀ j ∈ perm.drop (perm.length / 2),
          F.ge ((s.members.map (·.tr.scoreCurrent)).getD i .nan) ((s.members.map (·.tr.scoreCurrent)).getD j .nan) = true) := by
  obtain ⟨perm, x, t2, fit, t3, htape, hsd, hfit, hpf, hpar⟩ := gaCrossover_parts h
  -- the parents entry exists because `gaParents` succeeded
  unfold gaParents at hpar
  split at hpar
  · rename_i idxs t4
    refine ⟨perm, x, t2, idxs, t4, htape, ?_⟩
    intro hx
    unfold gaFittest at hfit
    simp only at hfit
    have hnot : ¬ ((1 : Rat) / 100 ≥ x) := by
      intro hge
      exact absurd hx (Rat.not_lt.mpr hge)
    rw [if_neg hnot] at hfit
    simp only [Except.ok.injEq, Prod.mk.injEq] at hfit
    obtain ⟨rfl, rfl⟩ := hfit
    refine ⟨rfl, ?_⟩
    simp only [parentsFrom, Bool.and_eq_true, List.all_eq_true, List.contains_iff_mem] at hpf
    intro i hi j hj
    have hsn : ∀ y ∈ s.members.map (·.tr.scoreCurrent), y.isNan = false := by
      intro y hy
      obtain ⟨m, hm, rfl⟩ := List.mem_map.mp hy
      exact hn m hm
    exact sortedDesc_split _ perm _ hsd hsn i (by simpa using hpf.1.2 i hi) j hj
  · simp at hpar
  · simp at hpar

/-- the sample has the documented size and holds no individual twice -/
theorem C09_ga_parents_count {cfg : GACfg} {s : PopSt} {tape rest : Tape} {offs : List Pos}
    (h : gaCrossover cfg s tape = .ok (offs, rest)) :
    ∃ perm x t2 fit t3 idxs t4, tape = Draw.sorted perm :: Draw.unif x :: t2 ∧ gaFittest perm x t2 = .ok (fit, t3) ∧
      t3 = Draw.parents idxs :: t4 ∧ idxs.length = min cfg.nParents fit.length ∧ idxs.Nodup ∧ fit.length = perm.length / 2 := by
  obtain ⟨perm, x, t2, fit, t3, htape, _, hfit, hpf, hpar⟩ := gaCrossover_parts h
  unfold gaParents at hpar
  split at hpar
  · rename_i idxs t4
    simp only [parentsFrom, Bool.and_eq_true, beq_iff_eq, decide_eq_true_eq] at hpf
    refine ⟨perm, x, t2, fit, _, idxs, t4, htape, hfit, rfl, hpf.1.1, hpf.2, ?_⟩
    have hfit' := hfit
    unfold gaFittest at hfit'
    simp only at hfit'
    split at hfit'
    · cases ha : takeInt t2 with
      | error e => rw [ha] at hfit'; simp at hfit'
      | ok ya =>
        rw [ha] at hfit'
        simp only at hfit'
        split at hfit'
        · simp at hfit'
        · split at hfit'
          · simp at hfit'
          · cases hb : takeInt ya.2 with
            | error e => rw [hb] at hfit'; simp at hfit'
            | ok yb =>
              rw [hb] at hfit'
              simp only at hfit'
              split at hfit'
              · simp only [Except.ok.injEq, Prod.mk.injEq] at hfit'
                obtain ⟨rfl, _⟩ := hfit'
                simp [List.length_take]; omega
              · simp at hfit'
    · simp only [Except.ok.injEq, Prod.mk.injEq] at hfit'
      obtain ⟨rfl, _⟩ := hfit'
      simp [List.length_take]; omega
  · simp at hpar
  · simp at hpar

end GFO.GaSelect

namespace GFO.GaSelect
open GFO GFO.EvoRuns GFO.SmboRuns

theorem emitVia_cur {s s' : PopSt} {idx : Nat} {q p : Pos} {tape : Tape} (h : emitVia s idx q tape = .ok (p, s')) :
    s'.cur = idx ∧ p = q := by
  unfold emitVia at h
  cases hm : s.members[idx]? with
  | none => rw [hm] at h; simp at h
  | some m =>
    rw [hm] at h
    simp only [Except.ok.injEq, Prod.mk.injEq] at h
    obtain ⟨e1, e2⟩ := h
    subst e1 e2
    exact ⟨rfl, rfl⟩

/-- `_cross` of EvolutionStrategy: the recombined position is written to the individual at the END of the sorted population -/
theorem esCross_cur {cfg : ESCfg} {s s' : PopSt} {perm : List Nat} {k : Nat} {tape : Tape} {p : Pos}
    (h : esCross cfg s perm k tape = .ok (p, s')) : s'.cur = perm.getD (s.members.length - 1) 0 := by
  unfold esCross at h
  simp only [bind, Except.bind] at h
  cases h1 : takeInt tape with
  | error e => rw [h1] at h; simp at h
  | ok a =>
    rw [h1] at h
    simp only at h
    split at h
    · simp at h
    · cases h2 : posCurrentOf s (perm.getD k 0) with
      | error e => rw [h2] at h; simp at h
      | ok pc =>
        rw [h2] at h
        simp only at h
        cases h3 : posCurrentOf s (perm.getD a.1 0) with
        | error e => rw [h3] at h; simp at h
        | ok ps =>
          rw [h3] at h
          simp only at h
          cases h4 : takeChoice pc.length a.2 with
          | error e => rw [h4] at h; simp at h
          | ok c =>
            rw [h4] at h
            simp only at h
            cases h5 : recombine c.1 [pc, ps] with
            | error e => rw [h5] at h; simp at h
            | ok pos =>
              rw [h5] at h
              simp only at h
              cases h6 : askFeas pos c.2 with
              | error e => rw [h6] at h; simp at h
              | ok b =>
                rw [h6] at h
                simp only at h
                split at h
                · exact (emitVia_cur h).1
                · cases h7 : moveClimb cfg.member.geo (some pos) (some 1) s.tape.length b.2 with
                  | error e => rw [h7] at h; simp at h
                  | ok q =>
                    rw [h7] at h
                    simp only at h
                    exact (emitVia_cur h).1

/-- C09, EvolutionStrategy: a crossover overwrites a WORST individual - every individual's `score_current` dominates the
    `score_current` of the one that receives the recombined position (nan-free scores, any argsort output) -/
theorem C09_es_cross_overwrites_worst {cfg : ESCfg} {s s' : PopSt} {perm : List Nat} {k : Nat} {tape : Tape} {p : Pos}
    (hs : sortedDesc (s.members.map (·.tr.scoreCurrent)) perm = true)
    (hn : ∀ m ∈ s.members, m.tr.scoreCurrent.isNan = false) (hne : s.members ≠ [])
    (h : esCross cfg s perm k tape = .ok (p, s')) :
    ∀ i, i < s.members.length →
      F.ge ((s.members.map (·.tr.scoreCurrent)).getD i .nan) ((s.members.map (·.tr.scoreCurrent)).getD s'.cur .nan) = true := by
  rw [esCross_cur h]
  intro i hi
  have hsn : ∀ y ∈ s.members.map (·.tr.scoreCurrent), y.isNan = false := by
    intro y hy
    obtain ⟨m, hm, rfl⟩ := List.mem_map.mp hy
    exact hn m hm
  have hsplit := sortedDesc_split _ perm (s.members.length - 1) hs hsn
  have hs' := hs
  unfold sortedDesc at hs'
  simp only [Bool.and_eq_true, beq_iff_eq, List.all_eq_true, List.mem_range, List.contains_iff_mem, List.length_map] at hs'
  obtain ⟨⟨hlen, hall⟩, _⟩ := hs'
  have hpos : 0 < s.members.length := List.length_pos_iff.mpr hne
  have hwl : s.members.length - 1 < perm.length := by omega
  have hw : perm.getD (s.members.length - 1) 0 = perm[s.members.length - 1] := by
    simp [List.getD, List.getElem?_eq_getElem hwl]
  have hdrop : perm.drop (s.members.length - 1) = [perm[s.members.length - 1]] := by
    rw [List.drop_eq_getElem_cons hwl]
    have : perm.drop (s.members.length - 1 + 1) = [] := List.drop_eq_nil_of_le (by omega)
    rw [this]
  have hi_mem : i ∈ perm := hall i hi
  rw [← List.take_append_drop (s.members.length - 1) perm] at hi_mem
  rcases List.mem_append.mp hi_mem with hm | hm
  · exact hsplit i hm _ (by rw [hdrop, hw]; simp)
  · rw [hdrop] at hm
    simp only [List.mem_singleton] at hm
    rw [hw, ← hm]
    have hnn : ((s.members.map (·.tr.scoreCurrent)).getD i F.nan).isNan = false := by
      have hil : i < (s.members.map (·.tr.scoreCurrent)).length := by simpa using hi
      have : (s.members.map (·.tr.scoreCurrent)).getD i F.nan = (s.members.map (·.tr.scoreCurrent))[i] := by
        simp [List.getD, List.getElem?_eq_getElem hil]
      rw [this]; exact hsn _ (List.getElem_mem hil)
    exact F_ge_refl hnn

end GFO.GaSelect
