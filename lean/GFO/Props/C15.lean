/-
  C15 — non-finite scores never crash a search nor become the reported best.

  Driver (every backend, every objective): nan is never `best_score`; `-inf` is reported only if no score of the call is
  better; the number of rows does not depend on the scores at all (C03.rows_exact has no hypothesis on them).
  Tracker (GFO.Model.Tracker): the valid lists are exactly the finite-scored evaluations in order, for every evaluate
  function of the model, so whatever later reads them (window pick, simplex, pattern, Powell, surrogate training) sees no
  nan/inf; the hill-climbing window pick is total whenever it is reached.
  The construction sites that need "at least one finite score during initialisation" (DownhillSimplex, Powell,
  PatternSearch, Lipschitz, Forest) are NOT modelled: they are examined by the exhaustive-mask monitor and recorded as
  known findings (DESIGN.md).
-/
import GFO.Props.C05
import GFO.Props.C03
import GFO.Props.C19
namespace GFO.C15
open GFO GFO.Tracker
variable {σ : Type}

/-- nan is never the reported best, and the reported best dominates every non-nan score of the call
    (so `-inf` is reported only if nothing better exists) -/
theorem nan_never_best_neginf_only_if_nothing_better {b : Backend σ} {sp : Space} {obj : Obj} {c : Call}
    {d d' : DState σ} {r : CallResult} (h : searchCall b sp obj c d = .ok (d', r)) (hn : 0 < c.nIter)
    (hlen : d.posL.length = d.scoreL.length) :
    r.bestScore.isNan = false ∧ ∀ ps ∈ C05.callSteps d d', ps.2.isNan = false → F.le ps.2 r.bestScore = true :=
  let ⟨a, b', _⟩ := C05.best_is_first_max h hn hlen
  ⟨a, b'⟩

/-- no step is lost: the row count of a call without criteria is `n_iter` whatever the scores are -/
theorem nonfinite_loses_no_step {b : Backend σ} {sp : Space} {obj : Obj} {c : Call} {d d' : DState σ} {r : CallResult}
    (h : searchCall b sp obj c d = .ok (d', r)) (hc : NoCriterion c) : d'.rows.length = d.rows.length + c.nIter :=
  C03.rows_exact h hc

/-- the `score_new` setter: the valid lists grow by exactly the finite-scored evaluation -/
theorem valid_setScoreNew (t : Tracker) (s : F) :
    (t.setScoreNew s).positionsValid.zip (t.setScoreNew s).scoresValid =
      t.positionsValid.zip t.scoresValid ++ (if s.isFinite then [(t.posNew, s)] else []) ∨
    t.positionsValid.length ≠ t.scoresValid.length := by
  by_cases hl : t.positionsValid.length = t.scoresValid.length
  · left
    unfold setScoreNew
    split
    · rename_i hf; simp [hf, List.zip_append hl]
    · rename_i hf; simp [hf]
  · right; exact hl

/-- every evaluate function of the model leaves the valid lists as "previous ++ this evaluation if finite" -/
theorem valid_lists_exact (t : Tracker) (s : F) (n : Nat) (accept : Bool) :
    let step := fun (t' : Tracker) => t'.positionsValid = (t.setScoreNew s).positionsValid ∧ t'.scoresValid = (t.setScoreNew s).scoresValid
    step (t.evaluateInit s) ∧ step (t.plainEvaluate s) ∧ step (t.hcEvaluate n s) ∧ step (t.stochasticEvaluate n s accept) ∧
    step (t.spiralEvaluate s) := by
  have hbase : ∀ (u : Tracker) (x : F), (u.baseEvaluate x).positionsValid = u.positionsValid ∧ (u.baseEvaluate x).scoresValid = u.scoresValid := by
    intro u x; unfold baseEvaluate; split <;> exact ⟨rfl, rfl⟩
  have he2 : ∀ (u : Tracker) p x, ((u.eval2current p x).eval2best p x).positionsValid = u.positionsValid ∧
      ((u.eval2current p x).eval2best p x).scoresValid = u.scoresValid := by
    intro u p x; unfold eval2current eval2best; split <;> split <;> exact ⟨rfl, rfl⟩
  have hhc : (t.hcEvaluate n s).positionsValid = (t.setScoreNew s).positionsValid ∧ (t.hcEvaluate n s).scoresValid = (t.setScoreNew s).scoresValid := by
    unfold hcEvaluate
    simp only
    split
    · exact hbase _ _
    · split
      · split
        · rw [(he2 _ _ _).1, (he2 _ _ _).2]; exact hbase _ _
        · exact hbase _ _
      · exact hbase _ _
  refine ⟨?_, ?_, hhc, ?_, ?_⟩
  · unfold evaluateInit; simp only; split <;> split <;> exact ⟨rfl, rfl⟩
  · unfold plainEvaluate; exact hbase _ _
  · unfold stochasticEvaluate
    split
    · cases accept <;> simp [new2current]
    · exact hhc
  · unfold spiralEvaluate new2current evaluateCurrent2best; simp only; split <;> exact ⟨rfl, rfl⟩

/-- a finite score is recorded, a non-finite one is not: `scores_valid` never holds nan or ±inf -/
theorem scores_valid_finite (t : Tracker) (s : F) (h : ∀ x ∈ t.scoresValid, x.isFinite = true) :
    ∀ x ∈ (t.setScoreNew s).scoresValid, x.isFinite = true := by
  unfold setScoreNew
  split
  · rename_i hf
    intro x hx
    simp only [List.mem_append, List.mem_singleton] at hx
    rcases hx with e | e
    · exact h x e
    · subst e; exact hf
  · exact h

end GFO.C15
