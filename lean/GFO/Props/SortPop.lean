/-
  `sort_pop_best_score` (base_population_optimizer.py): `idx_sorted_ind = list(scores_np.argsort()[::-1])`.
  The complete population models take the resulting permutation from the tape and CHECK it with `sortedDesc`.  This file closes
  the gap to numpy's contract: whatever ascending arrangement `argsort` returns (`sortsAscending`, the oracle statement C17 already
  uses), its reversal passes the model's check - for nan-free `score_current` values.

    C09_sort_pop_is_descending     sortsAscending scores asc  ->  sortedDesc scores asc.reverse
-/
import GFO.Model.Evolution
import GFO.Model.Smbo
import GFO.Props.SmboRuns
namespace GFO.SortPop
open GFO

/-- neighbours are ordered by `<=` -/
def AdjAsc : List F → Prop
  | a :: b :: rest => F.le a b = true ∧ AdjAsc (b :: rest)
  | _ => True

theorem adjacentDesc_append_single (xs : List F) (a : F) :
    adjacentDesc (xs ++ [a]) = true ↔
      adjacentDesc xs = true ∧ (∀ b, xs.getLast? = some b → (b.isNan || (!a.isNan && F.ge b a)) = true) := by
  induction xs with
  | nil => simp [adjacentDesc]
  | cons x rest ih =>
    cases rest with
    | nil => simp [adjacentDesc]
    | cons y ys =>
      simp only [List.cons_append, adjacentDesc, Bool.and_eq_true]
      have := ih
      simp only [List.cons_append] at this
      rw [this]
      simp only [List.getLast?_cons_cons]
      constructor
      · rintro ⟨h1, h2, h3⟩; exact ⟨⟨h1, h2⟩, h3⟩
      · rintro ⟨⟨h1, h2⟩, h3⟩; exact ⟨h1, h2, h3⟩

theorem adjacentDesc_reverse (l : List F) (hn : ∀ x ∈ l, x.isNan = false) (h : AdjAsc l) : adjacentDesc l.reverse = true := by
  induction l with
  | nil => rfl
  | cons a rest ih =>
    rw [List.reverse_cons, adjacentDesc_append_single]
    refine ⟨ih (fun x hx => hn x (List.mem_cons_of_mem _ hx)) ?_, ?_⟩
    · cases rest with
      | nil => trivial
      | cons b bs => exact h.2
    · intro b hb
      cases rest with
      | nil => simp at hb
      | cons c cs =>
        have : b = c := by
          rw [List.getLast?_reverse] at hb
          simpa using hb.symm
        subst this
        have hle := h.1
        have hb' := hn b (by simp)
        have ha' := hn a (by simp)
        cases a <;> cases b <;> simp_all [F.le, F.ge, F.isNan]

theorem adjAsc_of_index : ∀ (l : List F), (∀ k (h : k + 1 < l.length), F.le (l[k]'(by omega)) (l[k + 1]) = true) → AdjAsc l
  | [], _ => trivial
  | [_], _ => trivial
  | a :: b :: rest, h => by
    refine ⟨h 0 (by simp), adjAsc_of_index (b :: rest) ?_⟩
    intro k hk
    have := h (k + 1) (by simp only [List.length_cons] at hk ⊢; omega)
    simpa using this

/-- C09: the reversal of ANY ascending arrangement of nan-free scores passes the model's descending check -/
theorem C09_sort_pop_is_descending (scores : List F) (asc : List Nat) (hs : sortsAscending scores asc = true)
    (hn : ∀ x ∈ scores, x.isNan = false) : sortedDesc scores asc.reverse = true := by
  unfold sortsAscending at hs
  simp only [Bool.and_eq_true, beq_iff_eq, List.all_eq_true, List.mem_range, List.contains_iff_mem] at hs
  obtain ⟨⟨hlen, hall⟩, hadj⟩ := hs
  -- every entry of the permutation is an index of `scores` (pigeonhole)
  have hidx : ∀ k ∈ asc, k < scores.length := by
    intro k hk
    by_contra hc
    have hsub : List.range scores.length ⊆ asc := by
      intro m hm; exact hall m (by simpa using hm)
    have hle := List.Nodup.length_le_of_subset (l₂ := asc.erase k) List.nodup_range (by
      intro m hm
      have hm' := hsub hm
      have hne : m ≠ k := by
        intro e; subst e; simp at hm; exact hc hm
      exact (List.mem_erase_of_ne hne).mpr hm')
    rw [List.length_erase_of_mem hk, List.length_range] at hle
    have hpos : 0 < asc.length := List.length_pos_of_mem hk
    omega
  have hget : ∀ i ∈ asc, ∃ x, scores[i]? = some x ∧ scores.getD i F.nan = x ∧ x.isNan = false := by
    intro i hi
    have hi' := hidx i hi
    exact ⟨scores[i], List.getElem?_eq_getElem hi', by simp [List.getD, List.getElem?_eq_getElem hi'], hn _ (List.getElem_mem hi')⟩
  unfold sortedDesc
  simp only [Bool.and_eq_true, beq_iff_eq, List.all_eq_true, List.mem_range, List.contains_iff_mem, List.length_reverse,
    List.mem_reverse]
  refine ⟨⟨hlen, hall⟩, ?_⟩
  rw [List.map_reverse]
  apply adjacentDesc_reverse
  · intro x hx
    obtain ⟨i, hi, rfl⟩ := List.mem_map.mp hx
    obtain ⟨y, _, hy, hyn⟩ := hget i hi
    rw [hy]; exact hyn
  · apply adjAsc_of_index
    intro k hk
    simp only [List.length_map] at hk
    have hk1 : k < asc.length - 1 := by omega
    have := hadj k hk1
    have e0 : asc.getD k 0 = asc[k]'(by omega) := by simp [List.getD, List.getElem?_eq_getElem (show k < asc.length by omega)]
    have e1 : asc.getD (k + 1) 0 = asc[k + 1] := by simp [List.getD, List.getElem?_eq_getElem hk]
    rw [e0, e1] at this
    obtain ⟨a, ha1, ha2, _⟩ := hget (asc[k]'(by omega)) (List.getElem_mem _)
    obtain ⟨b, hb1, hb2, _⟩ := hget asc[k + 1] (List.getElem_mem _)
    rw [ha1, hb1] at this
    simp only [List.getElem_map]
    rw [ha2, hb2]
    exact this

end GFO.SortPop
