/-
  C14 — max_time: no step starts after the time budget is exhausted.

  The clock of the model is virtual and advances only inside the objective (`Eval.dur`; 0 on a memory hit), exactly
  like the clock the harness substitutes for `time.time` in search.py / _stop_run.py / _times_tracker.py.
  For every backend, objective, duration schedule and T > 0: the call runs on while the elapsed time is ≤ T and stops
  after the first step at which it exceeds T; `eval_times` are the durations.
-/
import GFO.Proofs.Best
namespace GFO.C14
open GFO
variable {σ : Type}

def OnlyMaxTime (c : Call) (T : Rat) : Prop := c.maxTime = some (.fin T) ∧ 0 < T ∧ c.maxScore = none ∧ c.early = none

theorem checkStop_onlyMaxTime {c : Call} {d : DState σ} {cs : CState} {T : Rat}
    (h : cs.stop.maxTime = some (.fin T) ∧ 0 < T ∧ cs.stop.maxScore = none ∧ cs.stop.early = none) :
    checkStop c d cs = .ok (decide (T < d.clock - cs.stop.startTime)) := by
  obtain ⟨h1, hT, h2, h3⟩ := h
  have hT' : ¬ T = 0 := by grind
  unfold checkStop stopCheck
  simp only [h1, h2, h3, timeExceeded, F.truthy, F.gt, F.lt, scoreExceeded]
  by_cases hlt : T < d.clock - cs.stop.startTime <;> simp [hlt, hT']

/-- the durations this call appended to `eval_times` -/
def newDurs (d d' : DState σ) : List Rat := d'.evalT.drop d.evalT.length

/-- C14: with `max_time = T` the call performs `k` steps such that after every earlier step the elapsed time was
    still ≤ T (so the next step was legitimately started), and if it stopped before `n_iter` the elapsed time after
    the last step exceeds T (so no further step was started). `eval_times` of the call are the durations. -/
theorem maxTime_stop_step {b : Backend σ} {sp : Space} {obj : Obj} {c : Call} {d d' : DState σ} {r : CallResult} {T : Rat}
    (h : searchCall b sp obj c d = .ok (d', r)) (hc : OnlyMaxTime c T) (hn : 0 < c.nIter) :
    (newDurs d d').length = r.steps ∧ 0 < r.steps ∧ r.steps ≤ c.nIter ∧
    d'.clock = d.clock + sumQ (newDurs d d') ∧
    (∀ j, 0 < j → j < r.steps → ¬ (T < sumQ ((newDurs d d').take j))) ∧
    (r.steps < c.nIter → T < sumQ (newDurs d d')) := by
  obtain ⟨cs, d1, cs1, tr, S⟩ := searchCall_shape h hn
  obtain ⟨_, _, _, hmt, hms, hes, hst, _⟩ := initSearch_ok S.init
  obtain ⟨hm, hT, hs, he⟩ := hc
  have hstop : cs.stop.maxTime = some (.fin T) ∧ 0 < T ∧ cs.stop.maxScore = none ∧ cs.stop.early = none := by
    rw [hms, hmt, hes]; exact ⟨hm, hT, hs, he⟩
  have Tr := S.traj
  have hfin := finishSearch_ok S.fin
  have hevalT : d'.evalT = d.evalT ++ tr.map (fun t => t.eval.dur) := by rw [hfin.2.2.2.1, Tr.evalT]
  have hnew : newDurs d d' = tr.map (fun t => t.eval.dur) := by simp [newDurs, hevalT]
  have hlen : tr.length = r.steps := by have := Tr.len; omega
  refine ⟨by rw [hnew]; simp [hlen], Tr.pos, S.le, by rw [hfin.2.2.2.2.2.2.2.2.2.1, Tr.clock, hnew], ?_, ?_⟩
  · intro j hj hjl
    obtain ⟨dj, csj, Tj, hchk⟩ := S.prefixes j hj hjl
    have hstopj : csj.stop.maxTime = some (.fin T) ∧ 0 < T ∧ csj.stop.maxScore = none ∧ csj.stop.early = none := by
      rw [Tj.stop]; exact hstop
    rw [checkStop_onlyMaxTime hstopj, Tj.clock, Tj.stop, hst] at hchk
    simp only [Except.ok.injEq, decide_eq_false_iff_not] at hchk
    rw [hnew, ← List.map_take]
    intro hlt; apply hchk; grind
  · intro hlt
    have hchk := S.fired hlt
    have hstop1 : cs1.stop.maxTime = some (.fin T) ∧ 0 < T ∧ cs1.stop.maxScore = none ∧ cs1.stop.early = none := by
      rw [Tr.stop]; exact hstop
    rw [checkStop_onlyMaxTime hstop1, Tr.clock, Tr.stop, hst] at hchk
    simp only [Except.ok.injEq, decide_eq_true_eq] at hchk
    rw [hnew]; grind

/-- a step's `eval_time` is the duration of its objective call and 0 on a memory hit; `iter_time` equals it under the
    virtual clock, so `iter_time ≥ eval_time ≥ 0` whenever durations are non-negative (C03's last clause) -/
theorem times_are_durations {sp : Space} {obj : Obj} {c : Call} {i : Nat} {d d' : DState σ} {cs cs' : CState}
    {p : Pos} {v : Value} {e : Eval} (f : StepFacts sp obj c i d d' cs cs' p v e) :
    d'.evalT = d.evalT ++ [e.dur] ∧ d'.iterT = d.iterT ++ [e.dur] := by
  refine ⟨f.evalT, ?_⟩
  rw [f.iterT]; congr 2; grind

example : OnlyMaxTime { nIter := 5, maxTime := some (.fin 2) } 2 := ⟨rfl, by decide, rfl, rfl⟩

end GFO.C14
