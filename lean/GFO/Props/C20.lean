/-
  C20 — position / value / parameter / memory conversions are mutually inverse.

  Model: GFO.Model.Converter (`Converter` of converter.py after the fixes 505e3c7 and 06c230a). Hypotheses are
  exactly those of the property: pairwise distinct values per dimension (`Nodup`, ANY order), positions of the
  space. `searchsortedLeft` (the pinned-commit lookup) gets its witness.
-/
import GFO.Proofs.Converter
namespace GFO.C20
open GFO

/-- position → value → position is the identity on the space -/
theorem pos_value_roundtrip (sp : Space) (hnd : ∀ d ∈ sp.dims, d.Nodup) (p : Pos) (h : InSpace sp p) :
    ∃ v, position2value sp.dims p = .ok v ∧ (value2position sp.dims v).map (·.map Int.ofNat) = .ok p := by
  obtain ⟨v, hv, hp⟩ := value2position_position2value sp.dims hnd p h
  refine ⟨v, hv, ?_⟩
  rw [hp]
  simp only [Except.map]
  rw [natPos_cast p (inBox_nonneg _ p h)]

/-- value → parameter dictionary → value is the identity (names distinct) -/
theorem value_para_roundtrip (sp : Space) (hwf : sp.names.Nodup) (v : Value) (hlen : v.length = sp.names.length) :
    para2value sp.names (value2para sp.names v) = .ok v :=
  para2value_value2para sp.names hwf v hlen

/-- position → parameters → position -/
theorem pos_para_roundtrip (sp : Space) (hwf : sp.WF) (hnd : ∀ d ∈ sp.dims, d.Nodup) (p : Pos) (h : InSpace sp p) :
    ∃ v, position2value sp.dims p = .ok v ∧ para2value sp.names (value2para sp.names v) = .ok v ∧
      (value2position sp.dims v).map (·.map Int.ofNat) = .ok p := by
  obtain ⟨v, hv, hp⟩ := pos_value_roundtrip sp hnd p h
  obtain ⟨v', hv', hlen⟩ := position2value_inSpace sp.dims p h
  rw [hv] at hv'; cases hv'
  exact ⟨v, hv, value_para_roundtrip sp hwf.2.1 v (by rw [hlen, hwf.1]), hp⟩

/-- the batched conversions agree element-wise with the single ones (and accept the empty list) -/
theorem batched_agree (dims : List (List Rat)) (ps : List Pos) (vs : List Value) :
    positions2values dims ps = ps.mapM (position2value dims) ∧
    values2positions dims vs = vs.mapM (value2position dims) ∧
    positions2values dims [] = .ok [] ∧ values2positions dims [] = .ok [] := ⟨rfl, rfl, rfl, rfl⟩

theorem mapM_ok_of_forall {α β : Type} (f : α → Except Err β) (g : α → β) (l : List α) (h : ∀ a ∈ l, f a = .ok (g a)) :
    l.mapM f = .ok (l.map g) := by
  induction l with
  | nil => rfl
  | cons a as ih =>
    simp only [List.mapM_cons, h a (by simp), ih (fun b hb => h b (by simp [hb])), bind, Except.bind, pure, Except.pure,
      List.map_cons]

/-- batched round trip: all positions of the space come back unchanged -/
theorem batched_roundtrip (sp : Space) (hnd : ∀ d ∈ sp.dims, d.Nodup) (ps : List Pos) (h : ∀ p ∈ ps, InSpace sp p) :
    ∃ vs, positions2values sp.dims ps = .ok vs ∧ values2positions sp.dims vs = .ok (ps.map natPos) := by
  induction ps with
  | nil => exact ⟨[], rfl, rfl⟩
  | cons p ps ih =>
    obtain ⟨vs, hvs, hps⟩ := ih (fun q hq => h q (by simp [hq]))
    obtain ⟨v, hv, hp⟩ := value2position_position2value sp.dims hnd p (h p (by simp))
    refine ⟨v :: vs, ?_, ?_⟩
    · simp only [positions2values, List.mapM_cons, hv, bind, Except.bind, pure, Except.pure] at hvs ⊢
      rw [hvs]
    · simp only [values2positions, List.mapM_cons, hp, bind, Except.bind, pure, Except.pure, List.map_cons] at hps ⊢
      rw [hps]

/-! ### memory dictionary <-> dataframe -/

theorem Dict.set_append_of_not_mem {α : Type} (d : Dict α) (k : Pos) (v : α) (h : k ∉ d.keys) :
    Dict.set d k v = d ++ [(k, v)] := by
  induction d with
  | nil => rfl
  | cons e es ih =>
    obtain ⟨k', v'⟩ := e
    simp only [Dict.keys, List.map_cons, List.mem_cons, not_or] at h
    simp only [Dict.set]
    have : (k' == k) = false := by simp; exact fun e => h.1 e.symm
    rw [this]
    simp only [Bool.false_eq_true, if_false, List.cons_append]
    rw [ih (by simpa [Dict.keys] using h.2)]

theorem Dict.update_nodup {α : Type} (acc kvs : Dict α) (h : (acc ++ kvs).keys.Nodup) :
    Dict.update acc kvs = acc ++ kvs := by
  induction kvs generalizing acc with
  | nil => simp [Dict.update]
  | cons e es ih =>
    simp only [Dict.update, List.foldl_cons]
    have hk : e.1 ∉ acc.keys := by
      intro hmem
      simp only [Dict.keys, List.map_append, List.map_cons] at h hmem
      have := List.nodup_append.mp h
      exact this.2.2 _ hmem _ (by simp) rfl
    rw [Dict.set_append_of_not_mem acc e.1 e.2 hk]
    have h' : ((acc ++ [(e.1, e.2)]) ++ es).keys.Nodup := by simpa using h
    have := ih (acc ++ [(e.1, e.2)]) h'
    simp only [Dict.update] at this
    rw [this]; simp

theorem mapM_ok_length {α β : Type} (f : α → Except Err β) (l : List α) (r : List β) (h : l.mapM f = .ok r) :
    r.length = l.length := by
  induction l generalizing r with
  | nil => simp [List.mapM_nil, pure, Except.pure] at h; subst h; rfl
  | cons a as ih =>
    simp only [List.mapM_cons, bind, Except.bind, pure, Except.pure] at h
    split at h
    · simp at h
    · split at h
      · simp at h
      · rename_i xs hxs
        simp only [Except.ok.injEq] at h
        subst h
        simp [ih xs hxs]

theorem zip_fst_snd {α β : Type} (l : List (α × β)) : (l.map (·.1)).zip (l.map (·.2)) = l := by
  induction l with
  | nil => rfl
  | cons a as ih => simp [ih]

theorem map_fst_zip_of_length {α β : Type} (a : List α) (b : List β) (h : a.length = b.length) :
    (a.zip b).map (·.1) = a ∧ (a.zip b).map (·.2) = b := by
  induction a generalizing b with
  | nil => cases b with
    | nil => exact ⟨rfl, rfl⟩
    | cons _ _ => simp at h
  | cons x xs ih =>
    cases b with
    | nil => simp at h
    | cons y ys =>
      have := ih ys (by simpa using h)
      simp [this.1, this.2]

/-- a memory dictionary whose keys are positions of the space survives dict → dataframe → dict unchanged
    (keys and scores, in order) - the empty dictionary included -/
theorem memdict_df_roundtrip {α : Type} (sp : Space) (hnd : ∀ d ∈ sp.dims, d.Nodup) (m : Dict α)
    (hkeys : m.keys.Nodup) (hin : ∀ k ∈ m.keys, InSpace sp k) :
    ∃ df, memoryDict2dataframe sp.dims m = .ok df ∧ dataframe2memoryDict sp.dims df = .ok m := by
  obtain ⟨vs, hvs, hps⟩ := batched_roundtrip sp hnd m.keys hin
  have hlen : vs.length = (m.map (·.2)).length := by
    have := mapM_ok_length _ _ _ hvs
    simp only [Dict.keys, List.length_map] at this ⊢
    exact this
  obtain ⟨hfst, hsnd⟩ := map_fst_zip_of_length vs (m.map (·.2)) hlen
  refine ⟨vs.zip (m.map (·.2)), ?_, ?_⟩
  · simp [memoryDict2dataframe, hvs, bind, Except.bind, pure, Except.pure]
  · have hcast : (m.keys.map natPos).map (fun p => p.map Int.ofNat) = m.keys := by
      have : ∀ (ks : List Pos), (∀ k ∈ ks, InSpace sp k) → (ks.map natPos).map (fun p => p.map Int.ofNat) = ks := by
        intro ks
        induction ks with
        | nil => intro _; rfl
        | cons k ks ih =>
          intro hk
          simp only [List.map_cons]
          rw [natPos_cast k (inBox_nonneg _ k (hk k (by simp))), ih (fun q hq => hk q (by simp [hq]))]
      exact this m.keys hin
    simp only [dataframe2memoryDict, hfst, hsnd, hps, bind, Except.bind, pure, Except.pure, hcast]
    have hz : m.keys.zip (m.map (·.2)) = m := zip_fst_snd m
    rw [hz]
    have := Dict.update_nodup ([] : Dict α) m (by simpa using hkeys)
    simpa using this

/-- the lookup of the pinned commit (`searchsorted`) is wrong on a descending dimension; the current one is right -/
theorem searchsorted_descending_witness :
    searchsortedLeft [3, 2, 1] 3 = 3 ∧ argminAbs 3 [3, 2, 1] = 0 ∧
    values2positionsLegacy [[3, 1, 2], [1/2, 1/4]] [[3, 1/4]] = [[3, 0]] ∧
    values2positions [[3, 1, 2], [1/2, 1/4]] [[3, 1/4]] = .ok [[0, 1]] := by decide +kernel

/-- non-vacuity: an unsorted space with distinct values and a position of it -/
example : (∀ d ∈ ({ names := ["a", "b"], dims := [[3, 1, 2], [1/2, 1/4]] } : Space).dims, d.Nodup) ∧
    InSpace { names := ["a", "b"], dims := [[3, 1, 2], [1/2, 1/4]] } [2, 1] := by
  refine ⟨?_, by decide⟩
  intro d hd
  simp at hd
  rcases hd with h | h <;> subst h <;> decide +kernel

end GFO.C20
