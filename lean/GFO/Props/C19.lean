/-
  C19 — tracked best/current states are grounded in real evaluations.

  Model: GFO.Model.Tracker. The *log* is the history of `(pos_new at the time of the evaluation, score)` pairs of one
  tracker (an optimizer or a population member). For every evaluate function of the model - `evaluate_init`, the plain
  one (RandomSearch, both grid searches), hill climbing (HillClimbing, Repulsing, RandomRestart, RandomAnnealing, Particle,
  Individual), stochastic (StochasticHillClimbing, SimulatedAnnealing, any acceptance decision), spiral member - and hence
  for every sequence of them:
    * the tracked best pair and the tracked current pair are `(None, -inf)` or members of the log, and the valid lists hold
      log entries (`grounded_*`);
    * the best score never decreases, and for the greedy (hill-climbing) evaluate the current score never decreases.
  The link "log entry = a really evaluated pair" (`pos_new` of the tracker that receives the score IS the position that
  was returned to the driver and evaluated) is what the backend-level correspondence and the monitor check on every run;
  it failed for EvolutionStrategy and ParticleSwarm fallbacks at the pinned commit (fixed: 7daf0d5, d993248).
-/
import GFO.Model.Tracker
import GFO.Proofs.Best
namespace GFO.C19
open GFO GFO.Tracker

abbrev Log := List (Option Pos × F)

structure Grounded (log : Log) (t : Tracker) : Prop where
  best : (t.posBest = none ∧ t.scoreBest = .ninf) ∨ (t.posBest, t.scoreBest) ∈ log
  current : (t.posCurrent = none ∧ t.scoreCurrent = .ninf) ∨ (t.posCurrent, t.scoreCurrent) ∈ log
  valid : ∀ e ∈ t.positionsValid.zip t.scoresValid, e ∈ log
  validLen : t.positionsValid.length = t.scoresValid.length

theorem grounded_fresh : Grounded [] ({} : Tracker) :=
  { best := Or.inl ⟨rfl, rfl⟩, current := Or.inl ⟨rfl, rfl⟩, valid := by intro e he; simp at he, validLen := rfl }

theorem Grounded.mono {log : Log} {t : Tracker} (g : Grounded log t) (x : Option Pos × F) : Grounded (log ++ [x]) t :=
  { best := by rcases g.best with h | h; exact Or.inl h; exact Or.inr (by simp [h])
    current := by rcases g.current with h | h; exact Or.inl h; exact Or.inr (by simp [h])
    valid := fun e he => by simp [g.valid e he]
    validLen := g.validLen }

/-- the `score_new` setter keeps groundedness w.r.t. the extended log -/
theorem grounded_setScoreNew {log : Log} {t : Tracker} (g : Grounded log t) (s : F) :
    Grounded (log ++ [(t.posNew, s)]) (t.setScoreNew s) ∧ (t.setScoreNew s).posNew = t.posNew ∧
    (t.setScoreNew s).posBest = t.posBest ∧ (t.setScoreNew s).scoreBest = t.scoreBest ∧
    (t.setScoreNew s).posCurrent = t.posCurrent ∧ (t.setScoreNew s).scoreCurrent = t.scoreCurrent ∧
    (t.setScoreNew s).scoreNew = s ∧ (t.setScoreNew s).nthTrial = t.nthTrial := by
  have g' := g.mono (t.posNew, s)
  unfold setScoreNew
  split
  · refine ⟨{ best := g'.best, current := g'.current, valid := ?_, validLen := by simp [g.validLen] }, rfl, rfl, rfl, rfl, rfl, rfl, rfl⟩
    intro e he
    simp only at he
    rw [List.zip_append g.validLen] at he
    rcases List.mem_append.mp he with h | h
    · exact g'.valid e h
    · simp at h; subst h; simp
  · exact ⟨{ best := g'.best, current := g'.current, valid := g'.valid, validLen := g'.validLen }, rfl, rfl, rfl, rfl, rfl, rfl, rfl⟩

theorem grounded_nthTrial {log : Log} {t : Tracker} (g : Grounded log t) (n : Nat) : Grounded log { t with nthTrial := n } :=
  { best := g.best, current := g.current, valid := g.valid, validLen := g.validLen }

/-- `evaluate_init` -/
theorem grounded_evaluateInit {log : Log} {t : Tracker} (g : Grounded log t) (s : F) :
    Grounded (log ++ [(t.posNew, s)]) (t.evaluateInit s) := by
  obtain ⟨g1, hp, _, _, _, _, _, _⟩ := grounded_setScoreNew g s
  unfold evaluateInit
  simp only
  generalize t.setScoreNew s = t1 at g1 hp
  have hmem : (t1.posNew, s) ∈ log ++ [(t.posNew, s)] := by rw [hp]; simp
  apply grounded_nthTrial
  by_cases hb : t1.posBest.isNone = true <;> by_cases hc : t1.posCurrent.isNone = true <;> simp only [hb, hc, if_true, if_false, Bool.false_eq_true]
  · exact { best := Or.inr hmem, current := Or.inr hmem, valid := g1.valid, validLen := g1.validLen }
  · exact { best := Or.inr hmem, current := g1.current, valid := g1.valid, validLen := g1.validLen }
  · exact { best := g1.best, current := Or.inr hmem, valid := g1.valid, validLen := g1.validLen }
  · exact g1

theorem grounded_baseEvaluate {log : Log} {t : Tracker} (g : Grounded log t) (s : F) (hmem : (t.posNew, s) ∈ log) :
    Grounded log (t.baseEvaluate s) := by
  unfold baseEvaluate
  split
  · exact { best := Or.inr hmem, current := Or.inr hmem, valid := g.valid, validLen := g.validLen }
  · exact g

/-- the plain evaluate of RandomSearch and both grid searches -/
theorem grounded_plainEvaluate {log : Log} {t : Tracker} (g : Grounded log t) (s : F) :
    Grounded (log ++ [(t.posNew, s)]) (t.plainEvaluate s) := by
  obtain ⟨g1, hp, _⟩ := grounded_setScoreNew g s
  unfold plainEvaluate
  apply grounded_nthTrial
  exact grounded_baseEvaluate g1 s (by rw [hp]; simp)

theorem grounded_eval2 {log : Log} {t : Tracker} (g : Grounded log t) (p : Option Pos) (s : F) (h : (p, s) ∈ log) :
    Grounded log ((t.eval2current p s).eval2best p s) := by
  unfold eval2current eval2best
  by_cases h1 : F.gt s t.scoreCurrent = true
  · simp only [h1, if_true]
    by_cases h2 : F.gt s t.scoreBest = true
    · simp only [h2, if_true]
      exact { best := Or.inr h, current := Or.inr h, valid := g.valid, validLen := g.validLen }
    · simp only [h2, Bool.false_eq_true, if_false]
      exact { best := g.best, current := Or.inr h, valid := g.valid, validLen := g.validLen }
  · simp only [h1, Bool.false_eq_true, if_false]
    by_cases h2 : F.gt s t.scoreBest = true
    · simp only [h2, if_true]
      exact { best := Or.inr h, current := g.current, valid := g.valid, validLen := g.validLen }
    · simp only [h2, Bool.false_eq_true, if_false]
      exact g

theorem zip_getElem_mem {α β : Type} (a : List α) (b : List β) (i : Nat) (x : α) (y : β) (hx : a[i]? = some x) (hy : b[i]? = some y) :
    (x, y) ∈ a.zip b := by
  have : (a.zip b)[i]? = some (x, y) := by simp [List.getElem?_zip_eq_some, hx, hy]
  exact List.mem_of_getElem? this

theorem lastN_zip {α β : Type} (a : List α) (b : List β) (n : Nat) (h : a.length = b.length) :
    (lastN a n).zip (lastN b n) = lastN (a.zip b) n := by
  unfold lastN
  rw [List.length_zip, h, Nat.min_self]
  simp only [List.zip, List.drop_zipWith]

/-- the hill-climbing evaluate (window pick from the valid lists) -/
theorem grounded_hcEvaluate {log : Log} {t : Tracker} (g : Grounded log t) (n : Nat) (s : F) :
    Grounded (log ++ [(t.posNew, s)]) (t.hcEvaluate n s) := by
  obtain ⟨g1, hp, _⟩ := grounded_setScoreNew g s
  have g2 := grounded_baseEvaluate g1 s (by rw [hp]; simp)
  unfold hcEvaluate
  simp only
  generalize (t.setScoreNew s).baseEvaluate s = t1 at g2
  apply grounded_nthTrial
  split
  · exact g2
  · split
    · split
      · rename_i s' p' hs hpp
        apply grounded_eval2 g2
        -- (p', s') is an entry of the window of the valid lists, hence of the log
        have hz := zip_getElem_mem _ _ _ p' s' hpp hs
        rw [lastN_zip _ _ _ g2.validLen] at hz
        exact g2.valid _ (List.mem_of_mem_drop hz)
      · exact g2
    · exact g2

/-- the stochastic evaluate, for every acceptance decision -/
theorem grounded_stochasticEvaluate {log : Log} {t : Tracker} (g : Grounded log t) (n : Nat) (s : F) (accept : Bool) :
    Grounded (log ++ [(t.posNew, s)]) (t.stochasticEvaluate n s accept) := by
  unfold stochasticEvaluate
  split
  · obtain ⟨g1, hp, _, _, _, _, hs, _⟩ := grounded_setScoreNew g s
    apply grounded_nthTrial
    cases accept with
    | false => exact g1
    | true =>
      simp only [if_true]
      unfold new2current
      exact { best := g1.best, current := Or.inr (by simp only; rw [hp, hs]; simp), valid := g1.valid, validLen := g1.validLen }
  · exact grounded_hcEvaluate g n s

/-- the spiral member's evaluate -/
theorem grounded_spiralEvaluate {log : Log} {t : Tracker} (g : Grounded log t) (s : F) :
    Grounded (log ++ [(t.posNew, s)]) (t.spiralEvaluate s) := by
  obtain ⟨g1, hp, _, _, _, _, hs, _⟩ := grounded_setScoreNew g s
  unfold spiralEvaluate
  apply grounded_nthTrial
  have hcur : ((t.setScoreNew s).new2current.posCurrent, (t.setScoreNew s).new2current.scoreCurrent) ∈ log ++ [(t.posNew, s)] := by
    simp only [new2current]; rw [hp, hs]; simp
  have g2 : Grounded (log ++ [(t.posNew, s)]) (t.setScoreNew s).new2current :=
    { best := g1.best, current := Or.inr hcur, valid := g1.valid, validLen := g1.validLen }
  unfold evaluateCurrent2best
  split
  · exact { best := Or.inr hcur, current := g2.current, valid := g2.valid, validLen := g2.validLen }
  · exact g2

/-! ### monotonicity -/

/-- the tracked best score of the hill-climbing evaluate never decreases once a best exists -/
theorem best_monotone_hc (t : Tracker) (n : Nat) (s : F) (hb : t.posBest.isSome = true) :
    (t.hcEvaluate n s).scoreBest = t.scoreBest ∨ F.gt (t.hcEvaluate n s).scoreBest t.scoreBest = true := by
  unfold hcEvaluate
  simp only
  obtain ⟨pb, hpb⟩ := Option.isSome_iff_exists.mp hb
  have hbase : ((t.setScoreNew s).baseEvaluate s).scoreBest = t.scoreBest ∧ ((t.setScoreNew s).baseEvaluate s).posBest = t.posBest := by
    unfold baseEvaluate setScoreNew
    split <;> simp [hpb]
  generalize (t.setScoreNew s).baseEvaluate s = t1 at hbase
  split
  · left; exact hbase.1
  · split
    · split
      · rename_i s' p' _ _
        unfold eval2current eval2best
        by_cases h2 : F.gt s' (if F.gt s' t1.scoreCurrent = true then { t1 with scoreCurrent := s', posCurrent := p' } else t1).scoreBest = true
        · right
          have e : (if F.gt s' t1.scoreCurrent = true then { t1 with scoreCurrent := s', posCurrent := p' } else t1).scoreBest = t1.scoreBest := by
            split <;> rfl
          simp only [h2, if_true]
          rw [e, hbase.1] at h2
          exact h2
        · left
          have e : (if F.gt s' t1.scoreCurrent = true then { t1 with scoreCurrent := s', posCurrent := p' } else t1).scoreBest = t1.scoreBest := by
            split <;> rfl
          simp only [h2, Bool.false_eq_true, if_false]
          rw [e, hbase.1]
      · left; exact hbase.1
    · left; exact hbase.1

/-- greedy hill climbing: the current score never decreases once a current exists -/
theorem greedy_current_monotone (t : Tracker) (n : Nat) (s : F) (hb : t.posBest.isSome = true) :
    (t.hcEvaluate n s).scoreCurrent = t.scoreCurrent ∨ F.gt (t.hcEvaluate n s).scoreCurrent t.scoreCurrent = true := by
  unfold hcEvaluate
  simp only
  obtain ⟨pb, hpb⟩ := Option.isSome_iff_exists.mp hb
  have hbase : ((t.setScoreNew s).baseEvaluate s).scoreCurrent = t.scoreCurrent := by
    unfold baseEvaluate setScoreNew
    split <;> simp [hpb]
  generalize (t.setScoreNew s).baseEvaluate s = t1 at hbase
  have hbest : ∀ (u : Tracker) (p' : Option Pos) (s' : F), (u.eval2best p' s').scoreCurrent = u.scoreCurrent := by
    intro u p' s'; unfold eval2best; split <;> rfl
  split
  · left; exact hbase
  · split
    · split
      · rename_i s' p' _ _
        rw [hbest]
        unfold eval2current
        by_cases h1 : F.gt s' t1.scoreCurrent = true
        · right
          simp only [h1, if_true]
          rw [hbase] at h1; exact h1
        · left
          simp only [h1, Bool.false_eq_true, if_false]
          exact hbase
      · left; exact hbase
    · left; exact hbase

/-- why "greedy" matters: the stochastic evaluate may lower the current score (it is not claimed for it) -/
theorem stochastic_current_may_decrease :
    (({ posNew := some [1], posCurrent := some [0], scoreCurrent := .fin 5, posBest := some [0], scoreBest := .fin 5 } : Tracker).stochasticEvaluate 3 (.fin 1) true).scoreCurrent
      = .fin 1 := by decide +kernel

end GFO.C19
