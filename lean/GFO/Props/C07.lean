/-
  C07 — a fixed random_state makes a run exactly reproducible.

  (1) model (GFO.Model.Rng): after construction with an integer `random_state` both global generators are functions of
      `random_state + nth_process` only - whatever their state was before; `random_seed = random_state + nth_process`;
      a run with `random_state=None` is reproduced by its `random_seed` (for nth_process ∈ {None, 0}); everything an
      optimizer does afterwards is a function of the world, hence equal worlds give equal runs;
  (2) generated census (GFO.Gen.Entropy, regenerated from the source on every run): every call site reaching randomness
      uses one of the two global generators, the generators are seeded only inside `set_random_seed`, no constructor draws
      before `super().__init__`, and `CoreOptimizer.__init__` seeds before it builds the `Initializer`.
  The generators themselves (Mersenne Twister, numpy's legacy RandomState, sklearn drawing from numpy's singleton) are
  trusted to be deterministic functions of their state.
-/
import GFO.Model.Rng
import GFO.Gen.EntropyCheck
namespace GFO.C07
open GFO

/-- `random_seed` always equals `random_state + nth_process` (nth_process counted as 0 when None) -/
theorem seed_value (g : Gens) (nth : Option Int) (s : Int) (w : World) :
    (setRandomSeed g nth (some s) w).1 = s + nth.getD 0 := rfl

/-- construction with an integer random_state overwrites both generators: the prior state is irrelevant -/
theorem construct_overwrites_world (g : Gens) (nth : Option Int) (s : Int) (w0 w1 : World) :
    setRandomSeed g nth (some s) w0 = setRandomSeed g nth (some s) w1 := rfl

/-- whatever is observed of a run is a function of the world after construction: two optimizers constructed with the
    same integer random_state behave identically regardless of the ambient generator states -/
theorem run_independent_of_ambient {Obs : Type} (g : Gens) (nth : Option Int) (s : Int) (run : Int × World → Obs) (w0 w1 : World) :
    run (setRandomSeed g nth (some s) w0) = run (setRandomSeed g nth (some s) w1) := by
  rw [construct_overwrites_world g nth s w0 w1]

/-- a run made with random_state=None is reproduced by passing its `random_seed` as random_state (nth_process None or 0) -/
theorem seed_attr_reproduces (g : Gens) (nth : Option Int) (hn : nth.getD 0 = 0) (w w' : World) :
    let r := setRandomSeed g nth none w
    setRandomSeed g nth (some r.1) w' = r := by
  simp only [setRandomSeed, hn]
  simp

/-- for another nth_process the seed attribute is offset: re-using it as random_state adds nth_process once more -/
theorem seed_attr_offset (g : Gens) (n : Int) (w w' : World) :
    (setRandomSeed g (some n) (some (setRandomSeed g (some n) none w).1) w').1 = (setRandomSeed g (some n) none w).1 + n := rfl

/-- generated: every entropy site uses a global generator; seeding happens only in set_random_seed; no constructor draws
    before super().__init__; set_random_seed draws (if at all) before it seeds; CoreOptimizer seeds before the Initializer -/
theorem entropy_sites_global : GFO.Gen.entropySites.all GFO.Gen.GlobalOnly = true := GFO.Gen.entropy_sites_global_checked
theorem seeds_only_in_set_random_seed : GFO.Gen.entropySites.all GFO.Gen.SeedsOnlyInSetRandomSeed = true :=
  GFO.Gen.seeds_only_in_set_random_seed_checked
theorem no_draw_before_seed : GFO.Gen.entropySites.all GFO.Gen.NoDrawBeforeSuper = true ∧
    GFO.Gen.seedFnOrder = [.npGlobal, .pySeed, .npSeed] :=
  ⟨GFO.Gen.no_draw_before_super_checked, GFO.Gen.seed_fn_order_checked⟩
theorem core_init_seeds_first :
    GFO.Gen.coreInitCalls.idxOf "set_random_seed" < GFO.Gen.coreInitCalls.idxOf "Initializer" :=
  GFO.Gen.core_init_seeds_first_checked.1

end GFO.C07
