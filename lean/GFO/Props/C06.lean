/-
  C06 — memory is a transparent cache: at most one objective call per point.

  Single process (model: `evalAt` inside `searchCall`; theorems of GFO.C04 re-exported under the C06 names):
    * the objective is really called at most once per memory key within a call (`at_most_one_call`);
    * a revisit is answered with the originally returned result, so every row and every score equals the objective's
      result for its parameter set, memory on or off (`memory_returns_original`);
    * `memory_dict` afterwards holds exactly the evaluated keys, each mapped to the objective's result (`memory_dict_exact`).
  Shared manager dict (model: GFO.Model.Shared, all interleavings): the cache invariant is inductive over every
  schedule, every value a process reads is the objective's value, keys only grow, and the final dict is the initial
  one plus every key some process wrote (`shared_*`). Two processes may both miss and both evaluate - stated, not hidden.
  `memory_transparent`: a full simulation theorem - for every backend, deterministic objective and well-formed space the
  call with memory=True and the call with memory=False (same prior state, `max_time` not set: a cache hit takes no time)
  fail alike or produce the same rows, positions, scores, backend state and best result.
-/
import GFO.Props.C04
import GFO.Model.Shared
import GFO.Proofs.Transparent
namespace GFO.C06
open GFO GFO.C04
variable {σ : Type}

/-- with memory on, the objective is really called at most once per key within one `search()` call, and `memory_dict`
    is exactly: initial keys ++ really evaluated keys, each mapped to the objective's result -/
theorem at_most_one_call_and_memory_dict_exact {b : Backend σ} {sp : Space} {obj : Obj} {od : Value → Res} {c : Call}
    {d d' : DState σ} {r : CallResult}
    (hwf : sp.WF) (hdet : Det obj od) (h : searchCall b sp obj c d = .ok (d', r)) (hn : 0 < c.nIter)
    (hm0 : ∀ m, initMemory sp c d.shared = .ok m → MemOk od sp m) (hmem : c.memory ≠ .off) :
    ∃ m0 calls, initMemory sp c d.shared = .ok m0 ∧ calls.Nodup ∧ r.memoryDict.keys = m0.keys ++ calls ∧
      MemOk od sp r.memoryDict ∧
      (∀ p ∈ newPos d d', ∃ k, keyOf sp (match position2value sp.dims p with | .ok v => v | .error _ => []) = .ok k ∧ k ∈ r.memoryDict.keys) ∧
      (∀ k ∈ calls, ∃ p ∈ newPos d d', keyOf sp (match position2value sp.dims p with | .ok v => v | .error _ => []) = .ok k) := by
  obtain ⟨_, _, _, hm⟩ := rows_are_evaluations hwf hdet h hn hm0
  obtain ⟨m0, calls, h1, h2, h3, h4, h5, h6⟩ := hm hmem
  exact ⟨m0, calls, h1, h3, h4, h2, h5, h6⟩

/-- a fresh memory (memory=True, no warm start) satisfies the cache invariant -/
theorem fresh_memory_ok (od : Value → Res) (sp : Space) (c : Call) (shared : Dict Res)
    (hm : c.memory = .fresh) (hw : c.warm = none) : ∀ m, initMemory sp c shared = .ok m → MemOk od sp m := by
  intro m h
  unfold initMemory at h
  simp [hm, hw, pure, Except.pure] at h
  subst h
  exact MemOk.nil od sp

/-- memory on and memory off record the same function of the emitted positions: every row is `rowAt od` of its position,
    every score `scoreAt od` of it - revisits are answered with the original result -/
theorem memory_returns_original {b : Backend σ} {sp : Space} {obj : Obj} {od : Value → Res} {c : Call}
    {d d' : DState σ} {r : CallResult}
    (hwf : sp.WF) (hdet : Det obj od) (h : searchCall b sp obj c d = .ok (d', r)) (hn : 0 < c.nIter)
    (hm0 : ∀ m, initMemory sp c d.shared = .ok m → MemOk od sp m) :
    newRows d d' = (newPos d d').map (rowAt od sp) ∧ newScores d d' = (newPos d d').map (scoreAt od sp) := by
  obtain ⟨h1, h2, _, _⟩ := rows_are_evaluations hwf hdet h hn hm0
  exact ⟨h1, h2⟩

/-- transparency, the part that is a theorem: two runs (memory on / off) that emitted the same positions have the same
    rows and scores -/
theorem memory_transparent_partial {b : Backend σ} {sp : Space} {obj : Obj} {od : Value → Res} {c1 c2 : Call}
    {d d1' d2' : DState σ} {r1 r2 : CallResult}
    (hwf : sp.WF) (hdet : Det obj od)
    (h1 : searchCall b sp obj c1 d = .ok (d1', r1)) (h2 : searchCall b sp obj c2 d = .ok (d2', r2))
    (hn1 : 0 < c1.nIter) (hn2 : 0 < c2.nIter)
    (hm1 : ∀ m, initMemory sp c1 d.shared = .ok m → MemOk od sp m)
    (hm2 : ∀ m, initMemory sp c2 d.shared = .ok m → MemOk od sp m)
    (hpos : newPos d d1' = newPos d d2') :
    newRows d d1' = newRows d d2' ∧ newScores d d1' = newScores d d2' := by
  obtain ⟨a1, a2⟩ := memory_returns_original hwf hdet h1 hn1 hm1
  obtain ⟨b1, b2⟩ := memory_returns_original hwf hdet h2 hn2 hm2
  exact ⟨by rw [a1, b1, hpos], by rw [a2, b2, hpos]⟩

/-- C06, transparency: `search_data` and the best result are identical to the `memory=False` run -/
theorem memory_transparent {b : Backend σ} {sp : Space} {obj : Obj} {od : Value → Res} (c : Call) (d : DState σ)
    (hwf : sp.WF) (hdet : Det obj od) (hmt : c.maxTime = none) :
    (∃ e, searchCall b sp obj (memOn c) d = .error e ∧ searchCall b sp obj (memOff c) d = .error e) ∨
    (∃ d1 r1 d2 r2, searchCall b sp obj (memOn c) d = .ok (d1, r1) ∧ searchCall b sp obj (memOff c) d = .ok (d2, r2) ∧
      d1.rows = d2.rows ∧ d1.posL = d2.posL ∧ d1.scoreL = d2.scoreL ∧ d1.bst = d2.bst ∧
      d1.nInitTotal = d2.nInitTotal ∧ d1.nIterTotal = d2.nIterTotal ∧
      r1.steps = r2.steps ∧ r1.bestScore = r2.bestScore ∧ r1.bestPos = r2.bestPos ∧ r1.bestValue = r2.bestValue ∧
      r1.bestPara = r2.bestPara) := by
  unfold searchCall
  simp only [bind, Except.bind]
  -- both calls start from the same call state with an empty dictionary
  let cs0 : CState :=
    { stop := { startTime := d.clock, maxTime := c.maxTime, maxScore := c.maxScore, early := c.early }
      mem := []
      nInitsNorm := min (d.nInits - d.nInitTotal) c.nIter }
  have hinit1 : initSearch sp (memOn c) d = .ok cs0 := by
    simp [initSearch, initMemory, memOn, bind, Except.bind, pure, Except.pure, cs0]
  have hinit2 : initSearch sp (memOff c) d = .ok cs0 := by
    simp [initSearch, initMemory, memOff, bind, Except.bind, pure, Except.pure, cs0]
  rw [hinit1, hinit2]
  simp only
  have S0 : Sim od sp d d cs0 cs0 := { d := rfl, cs := rfl, ok := MemOk.nil od sp }
  have hmt0 : cs0.stop.maxTime = none := hmt
  have hn : (memOn c).nIter = (memOff c).nIter := rfl
  rcases searchLoop_sim (b := b) (c := c) hwf hdet c.nIter 0 d d cs0 cs0 S0 hmt0 with ⟨e, h1, h2⟩ | ⟨d1', cs1', d2', cs2', k, h1, h2, S1⟩
  · left
    have h1' : searchLoop b sp obj (memOn c) (memOn c).nIter 0 d _ = .error e := h1
    have h2' : searchLoop b sp obj (memOff c) (memOff c).nIter 0 d _ = .error e := h2
    rw [h1', h2']; exact ⟨e, rfl, rfl⟩
  · have h1' : searchLoop b sp obj (memOn c) (memOn c).nIter 0 d _ = .ok (d1', cs1', k) := h1
    have h2' : searchLoop b sp obj (memOff c) (memOff c).nIter 0 d _ = .ok (d2', cs2', k) := h2
    rw [h1', h2']
    simp only
    obtain ⟨_, hrows, hposL, hscoreL, hnit, hnitr, _, _, hbst⟩ := projD_fields S1.d
    obtain ⟨hpb, _⟩ := projC_fields S1.cs
    unfold finishSearch
    simp only [bind, Except.bind, pure, Except.pure]
    rw [← hpb]
    cases hp : cs1'.pbar.posBest with
    | none =>
      right
      exact ⟨_, _, _, _, rfl, rfl, hrows, hposL, hscoreL, hbst, hnit, hnitr, rfl, rfl, rfl, rfl, rfl⟩
    | some p =>
      simp only
      cases hv : position2value sp.dims p with
      | error e => left; exact ⟨e, rfl, rfl⟩
      | ok v =>
        right
        exact ⟨_, _, _, _, rfl, rfl, hrows, hposL, hscoreL, hbst, hnit, hnitr, rfl, rfl, rfl, rfl, rfl⟩

/-! ### shared manager dict: all interleavings -/

/-- every `set` in the schedule writes the objective's result for the values its key decodes to (this is what the
    wrapper does: it stores what `objective(para)` returned under the key of `para`) -/
def SetsOk (od : Value → Res) (sp : Space) : List SOp → Prop
  | [] => True
  | .set _ k v :: ops => (∃ val, InSpace sp k ∧ position2value sp.dims k = .ok val ∧ v = od val) ∧ SetsOk od sp ops
  | _ :: ops => SetsOk od sp ops

theorem sExec_inv (od : Value → Res) (sp : Space) (d : Dict Res) (h : MemOk od sp d) (op : SOp) (hop : SetsOk od sp [op]) :
    MemOk od sp (sExec d op).1 := by
  cases op with
  | contains _ _ => exact h
  | get _ _ => exact h
  | set pid k v =>
    obtain ⟨⟨val, hin, hval, hv⟩, _⟩ := hop
    intro k2 res2 hg
    simp only [sExec] at hg
    by_cases hk : k = k2
    · subst hk
      rw [Dict.get?_set_self] at hg
      cases hg
      exact ⟨val, hin, hval, hv⟩
    · rw [Dict.get?_set_other _ _ _ _ hk] at hg
      exact h k2 res2 hg

/-- every interleaving of the processes' atomic operations preserves the cache invariant -/
theorem shared_inv (od : Value → Res) (sp : Space) (ops : List SOp) (d : Dict Res) (h : MemOk od sp d)
    (hs : SetsOk od sp ops) : MemOk od sp (sRun d ops).1 := by
  induction ops generalizing d with
  | nil => exact h
  | cons op ops ih =>
    simp only [sRun]
    have h1 : MemOk od sp (sExec d op).1 := by
      apply sExec_inv od sp d h op
      cases op <;> simp_all [SetsOk]
    have h2 : SetsOk od sp ops := by cases op <;> simp_all [SetsOk]
    exact ih _ h1 h2

/-- every value any process reads from the shared dict, at any point of any schedule, is the objective's result for
    the values its key decodes to: reported scores are correct -/
theorem shared_scores_correct (od : Value → Res) (sp : Space) (ops : List SOp) (d : Dict Res) (h : MemOk od sp d)
    (hs : SetsOk od sp ops) (pre : List SOp) (pid : Nat) (k : Pos) (post : List SOp) (hsplit : ops = pre ++ .get pid k :: post)
    (v : Res) (hget : (sExec (sRun d pre).1 (.get pid k)).2 = .val v) :
    ∃ val, position2value sp.dims k = .ok val ∧ v = od val := by
  have hpre : SetsOk od sp pre := by
    subst hsplit
    clear hget
    induction pre with
    | nil => trivial
    | cons op pre ih =>
      cases op <;> simp_all [SetsOk]
  have hinv := shared_inv od sp pre d h hpre
  simp only [sExec] at hget
  cases hg : (sRun d pre).1.get? k with
  | none => simp [hg] at hget
  | some res =>
    simp only [hg, SResp.val.injEq] at hget
    subst hget
    obtain ⟨val, _, hv, hr⟩ := hinv k res hg
    exact ⟨val, hv, hr⟩

/-- keys written by a schedule -/
def setKeys : List SOp → List Pos
  | [] => []
  | .set _ k _ :: ops => k :: setKeys ops
  | _ :: ops => setKeys ops

theorem mem_keys_set {α : Type} (d : Dict α) (k k2 : Pos) (v : α) :
    k2 ∈ (Dict.set d k v).keys ↔ k2 = k ∨ k2 ∈ d.keys := by
  induction d with
  | nil => simp [Dict.set, Dict.keys]
  | cons e es ih =>
    obtain ⟨k', v'⟩ := e
    simp only [Dict.set]
    by_cases h : (k' == k) = true
    · have hk : k' = k := by simpa using h
      simp [h, Dict.keys, hk]
    · simp only [h, Bool.false_eq_true, if_false, Dict.keys, List.map_cons, List.mem_cons]
      simp only [Dict.keys] at ih
      rw [ih]
      constructor
      · rintro (h1 | h1 | h1)
        · right; left; exact h1
        · left; exact h1
        · right; right; exact h1
      · rintro (h1 | h1 | h1)
        · right; left; exact h1
        · left; exact h1
        · right; right; exact h1

/-- the dict ends as the union of what it held and everything any process evaluated and stored; nothing is lost,
    whatever the interleaving -/
theorem shared_final_union (ops : List SOp) (d : Dict Res) (k : Pos) :
    k ∈ (sRun d ops).1.keys ↔ k ∈ d.keys ∨ k ∈ setKeys ops := by
  induction ops generalizing d with
  | nil => simp [sRun, setKeys]
  | cons op ops ih =>
    simp only [sRun]
    rw [ih]
    cases op with
    | contains _ _ => simp [sExec, setKeys]
    | get _ _ => simp [sExec, setKeys]
    | set pid k2 v =>
      simp only [sExec, setKeys, List.mem_cons]
      rw [mem_keys_set]
      constructor
      · rintro ((h | h) | h)
        · right; left; exact h
        · left; exact h
        · right; right; exact h
      · rintro (h | h | h)
        · left; right; exact h
        · left; left; exact h
        · right; exact h

/-- keys only grow: once `contains` answered true, a later `get` of that key cannot raise KeyError -/
theorem shared_get_after_contains (ops : List SOp) (d : Dict Res) (k : Pos) (h : d.contains k = true) :
    ∃ v, (sRun d ops).1.get? k = some v := by
  have hk : k ∈ d.keys := by
    simp only [Dict.contains, List.any_eq_true] at h
    obtain ⟨e, he, hek⟩ := h
    have : e.1 = k := by simpa using hek
    exact List.mem_map.mpr ⟨e, he, this⟩
  have := (shared_final_union ops d k).mpr (Or.inl hk)
  cases hg : (sRun d ops).1.get? k with
  | some v => exact ⟨v, rfl⟩
  | none =>
    exact absurd this ((Dict.get?_none_iff_not_mem _ _).mp hg)

/-- non-vacuity: a two-process schedule in which both miss and both evaluate the same point -/
example : (sRun [] [.contains 0 [1], .contains 1 [1], .set 0 [1] ⟨.fin 5, []⟩, .set 1 [1] ⟨.fin 5, []⟩, .get 0 [1]]).1
    = [([1], ⟨.fin 5, []⟩)] := by decide +kernel

end GFO.C06
