/-
  C16 through the whole optimizer: the complete model of `GridSearchOptimizer` (GFO.Model.GridBackend: outer object,
  inner diagonal / orthogonal object, pointer machine, decoder, `conv2pos`, constraint check, both trackers) run by the real
  driver model (`searchCall`) on a fresh optimizer without constraints emits, after its start-up positions, exactly the
  positions `diagPos … j` / `orthPos … j` of GFO.Model.Grid for j = 0, 1, 2, … - whatever the objective, the arguments of
  the call and the stopping criteria - and therefore (GFO.C16.diag_covers / orth_covers) the first |S| of them are
  pairwise distinct positions of the space.
-/
import GFO.Proofs.GridBackend
import GFO.Props.C16
import GFO.Props.LocalRuns
namespace GFO.GridRuns
open GFO

/-- the `j`-th iteration position of grid search (GFO.Model.Grid) -/
def gridPos (cfg : GridCfg) (j : Nat) : List Nat :=
  match cfg.dir with
  | .diagonal => diagPos cfg.dims cfg.stepSize (getDirection (prodN cfg.dims) cfg.dirStart) j
  | .orthogonal => orthPos cfg.dims cfg.stepSize j

/-- the inner object after `j` iteration steps -/
def GridAt (cfg : GridCfg) (j : Nat) (g : GridSt) : Prop :=
  match cfg.dir with
  | .diagonal => DiagAt (prodN cfg.dims) cfg.stepSize (getDirection (prodN cfg.dims) cfg.dirStart) j g
  | .orthogonal => g.inner.nthTrial = j ∧ Unconstrained g.tape

/-- what the theorem needs from the configuration: it describes the space, sizes are positive and fit int64, the step
    size divides |S| -/
structure CfgOK (cfg : GridCfg) (M : Nat) : Prop where
  geo : cfg.geo.maxPos = maxOf cfg.dims
  fits : ∀ n ∈ cfg.dims, (n : Int) - 1 ≤ INT64_MAX
  pos : ∀ n ∈ cfg.dims, 0 < n
  step : 0 < cfg.stepSize
  divides : prodN cfg.dims = cfg.stepSize * M

theorem plainEvaluate_nthTrial (t : Tracker) (s : F) : (Tracker.plainEvaluate t s).nthTrial = t.nthTrial + 1 := by
  unfold Tracker.plainEvaluate Tracker.baseEvaluate Tracker.setScoreNew
  split <;> split <;> rfl

/-- one iteration step (iterate, then evaluate) of the complete optimizer without constraints -/
theorem grid_iteration_step {cfg : GridCfg} {M : Nat} (hc : CfgOK cfg M) {g g1 g2 : GridSt} {p : Pos} {j : Nat} {score : F}
    (hj : j < prodN cfg.dims) (hA : GridAt cfg j g)
    (h1 : (gridBackend cfg).iterate g = .ok (p, g1)) (h2 : (gridBackend cfg).evaluate g1 score = .ok g2) :
    p = posOfNat (gridPos cfg j) ∧ GridAt cfg (j + 1) g2 := by
  simp only [gridBackend, Except.ok.injEq] at h2
  subst h2
  have h1' : gridIterate cfg g = .ok (p, g1) := h1
  unfold gridIterate at h1'
  simp only [bind, Except.bind, pure, Except.pure] at h1'
  unfold GridAt gridPos at *
  cases hd : cfg.dir with
  | diagonal =>
    simp only [hd] at h1' hA ⊢
    split at h1'
    · simp at h1'
    · rename_i x hx
      obtain ⟨q, s1⟩ := x
      simp only [Except.ok.injEq, Prod.mk.injEq] at h1'
      obtain ⟨e1, e2⟩ := h1'
      subst e1 e2
      obtain ⟨hp, hdc, hptr, hin, _, _, hu⟩ := diagIterate_unconstrained hc.geo hc.fits hc.pos hc.step hc.divides hj hA hx
      refine ⟨hp, ?_⟩
      exact { trial := by simp [gridEvaluate, plainEvaluate_nthTrial, Tracker.trackNewPos, hin, hA.trial]
              zero := by intro h; omega
              pos := by intro _; simp [gridEvaluate, hdc, hptr]
              tape := by simpa [gridEvaluate] using hu }
  | orthogonal =>
    simp only [hd] at h1' hA ⊢
    split at h1'
    · simp at h1'
    · rename_i x hx
      obtain ⟨q, s1⟩ := x
      simp only [Except.ok.injEq, Prod.mk.injEq] at h1'
      obtain ⟨e1, e2⟩ := h1'
      subst e1 e2
      obtain ⟨hp, hin, _, _, _, _, hu⟩ := orthIterate_unconstrained hc.geo hc.fits hc.pos hA.2 hx
      rw [hA.1] at hp
      exact ⟨hp, by simp [gridEvaluate, plainEvaluate_nthTrial, Tracker.trackNewPos, hin, hA.1], by simpa [gridEvaluate] using hu⟩

/-- a start-up step touches only the outer tracker -/
theorem grid_init_step {cfg : GridCfg} {g g1 g2 : GridSt} {p : Pos} {j : Nat} {score : F} (hA : GridAt cfg j g)
    (h1 : (gridBackend cfg).initPos g = .ok (p, g1)) (h2 : (gridBackend cfg).evalInit g1 score = .ok g2) : GridAt cfg j g2 := by
  simp only [gridBackend, Except.ok.injEq] at h2
  subst h2
  have h1' : gridInitPos g = .ok (p, g1) := h1
  unfold gridInitPos at h1'
  split at h1'
  · simp only [Except.ok.injEq, Prod.mk.injEq] at h1'
    obtain ⟨_, e2⟩ := h1'
    subst e2
    unfold GridAt at *
    cases hd : cfg.dir with
    | diagonal =>
      simp only [hd] at hA ⊢
      exact { trial := hA.trial, zero := hA.zero, pos := hA.pos, tape := hA.tape }
    | orthogonal => simp only [hd] at hA ⊢; exact hA
  · simp at h1'

/-- the run invariant, indexed by the step number of the call -/
structure RunInv (cfg : GridCfg) (n0 : Nat) (i : Nat) (d : DState GridSt) (cs : CState) : Prop where
  norm : cs.nInitsNorm = n0
  len : d.posL.length = i
  at_ : i - n0 ≤ prodN cfg.dims → GridAt cfg (i - n0) d.bst
  pos : ∀ j, n0 + j < i → j < prodN cfg.dims → d.posL[n0 + j]? = some (posOfNat (gridPos cfg j))

theorem run_step {cfg : GridCfg} {M : Nat} (hc : CfgOK cfg M) {sp : Space} {obj : Obj} {c : Call} (n0 : Nat)
    (i : Nat) (d d1 : DState GridSt) (cs cs1 : CState) (p : Pos) (v : Value) (e : Eval)
    (hP : RunInv cfg n0 i d cs) (_hi : i < c.nIter) (sf : StepFacts sp obj c i d d1 cs cs1 p v e)
    (hb : BStep (gridBackend cfg) (i < cs.nInitsNorm) d.bst d1.bst p e.res.score) : RunInv cfg n0 (i + 1) d1 cs1 := by
  have hnorm : cs1.nInitsNorm = n0 := by rw [sf.nInitsNorm]; exact hP.norm
  have hlen : d1.posL.length = i + 1 := by rw [sf.posL]; simp [hP.len]
  rcases hb with ⟨hlt, s1, b1, b2⟩ | ⟨hge, s0, s1, b0, b1, b2⟩
  · -- start-up step: i < n0
    rw [hP.norm] at hlt
    have hz : i - n0 = 0 := by omega
    have hz1 : i + 1 - n0 = 0 := by omega
    refine { norm := hnorm, len := hlen, at_ := ?_, pos := ?_ }
    · intro _; rw [hz1]; exact grid_init_step (by have := hP.at_ (by omega); rwa [hz] at this) b1 b2
    · intro j hj; omega
  · -- iteration step number i - n0
    rw [hP.norm] at hge
    have hs0 : s0 = d.bst := by
      rcases b0 with b0 | b0
      · exact b0
      · simp only [gridBackend, Except.ok.injEq] at b0; exact b0.symm
    subst hs0
    have hsucc : i + 1 - n0 = (i - n0) + 1 := by omega
    refine { norm := hnorm, len := hlen, at_ := ?_, pos := ?_ }
    · intro hle
      rw [hsucc] at hle ⊢
      exact (grid_iteration_step hc (by omega) (hP.at_ (by omega)) b1 b2).2
    · intro j hj hjS
      rw [sf.posL]
      by_cases hlast : n0 + j = i
      · have hjeq : j = i - n0 := by omega
        have := (grid_iteration_step hc (j := i - n0) (by omega) (hP.at_ (by omega)) b1 b2).1
        rw [List.getElem?_append_right (by rw [hP.len]; omega)]
        have hidx : n0 + j - d.posL.length = 0 := by rw [hP.len]; omega
        rw [hidx, this, hjeq]
        rfl
      · rw [List.getElem?_append_left (by rw [hP.len]; omega)]
        exact hP.pos j (by omega) hjS

/-- C16 through the whole optimizer and the driver: on a fresh, unconstrained `GridSearchOptimizer` the `j`-th position
    after the start-up positions of ANY `search()` call is `gridPos cfg j`, for every `j < |S|` the call reaches -/
theorem C16_grid_run_positions {cfg : GridCfg} {M : Nat} (hc : CfgOK cfg M) {sp : Space} {obj : Obj} {c : Call}
    {d d' : DState GridSt} {r : CallResult}
    (hfresh : d.posL = [] ∧ d.nInitTotal = 0) (h0 : GridAt cfg 0 d.bst) (hn : 0 < c.nIter)
    (h : searchCall (gridBackend cfg) sp obj c d = .ok (d', r)) :
    ∀ j, min d.nInits c.nIter + j < d'.posL.length → j < prodN cfg.dims →
      d'.posL[min d.nInits c.nIter + j]? = some (posOfNat (gridPos cfg j)) := by
  obtain ⟨cs, d1, cs1, hcs, hfin, hP⟩ :=
    searchCall_inv_idx (P := RunInv cfg (min d.nInits c.nIter)) (run_step hc (min d.nInits c.nIter)) h hn
      (by
        intro cs hcs
        obtain ⟨_, _, hnorm, _⟩ := initSearch_ok hcs
        exact { norm := by rw [hnorm, hfresh.2]; simp
                len := by simp [hfresh.1]
                at_ := by intro _; simpa using h0
                pos := by intro j hj; omega })
  obtain ⟨_, hposL, _⟩ := finishSearch_ok hfin
  intro j hj hjS
  rw [hposL] at hj ⊢
  exact hP.pos j (by rw [hP.len] at hj; exact hj) hjS

/-- … and those positions are pairwise distinct positions of the space (the statement of C16) -/
theorem C16_grid_run_enumerates {cfg : GridCfg} {M : Nat} (hc : CfgOK cfg M) (hstart : 1 ≤ cfg.dirStart) {sp : Space} {obj : Obj}
    {c : Call} {d d' : DState GridSt} {r : CallResult}
    (hfresh : d.posL = [] ∧ d.nInitTotal = 0) (h0 : GridAt cfg 0 d.bst) (hn : 0 < c.nIter)
    (h : searchCall (gridBackend cfg) sp obj c d = .ok (d', r)) :
    let n0 := min d.nInits c.nIter
    (∀ j, n0 + j < d'.posL.length → j < prodN cfg.dims →
        ∃ l, d'.posL[n0 + j]? = some (posOfNat l) ∧ inBoxN cfg.dims l = true) ∧
    (∀ j j', n0 + j < d'.posL.length → n0 + j' < d'.posL.length → j < prodN cfg.dims → j' < prodN cfg.dims →
        d'.posL[n0 + j]? = d'.posL[n0 + j']? → j = j') := by
  have hpos := C16_grid_run_positions hc hfresh h0 hn h
  have hSpos : 0 < prodN cfg.dims := prodN_pos cfg.dims hc.pos
  have hcop := (C16.direction_is_generator (prodN cfg.dims) cfg.dirStart hSpos hstart).2
  have hcov : (∀ t, t < prodN cfg.dims → inBoxN cfg.dims (gridPos cfg t) = true) ∧
      (∀ t t', t < prodN cfg.dims → t' < prodN cfg.dims → gridPos cfg t = gridPos cfg t' → t = t') := by
    unfold gridPos
    cases cfg.dir with
    | diagonal => exact C16.diag_covers cfg.dims hc.pos cfg.stepSize M _ hc.step hc.divides hcop
    | orthogonal =>
      obtain ⟨a, b⟩ := C16.orth_covers cfg.dims hc.pos cfg.stepSize M hc.step hc.divides
      exact ⟨fun t _ => a t, b⟩
  refine ⟨fun j hj hjS => ⟨gridPos cfg j, hpos j hj hjS, hcov.1 j hjS⟩, ?_⟩
  intro j j' hj hj' hjS hjS' heq
  rw [hpos j hj hjS, hpos j' hj' hjS'] at heq
  have : posOfNat (gridPos cfg j) = posOfNat (gridPos cfg j') := by simpa using heq
  have hinj : Function.Injective (fun l : List Nat => posOfNat l) := by
    intro a b hab
    unfold posOfNat at hab
    exact List.map_injective_iff.mpr (fun x y hxy => by simpa using hxy) hab
  exact hcov.2 j j' hjS hjS' (hinj this)

/-! ### the premises are satisfiable: a concrete 2 x 3 diagonal run evaluated by the kernel -/

def exSpace : Space := { names := ["x", "y"], dims := [[0, 1], [0, 1, 2]] }
def exCfg : GridCfg := { dir := .diagonal, stepSize := 1, dims := [2, 3], dirStart := 2, geo := exSpace.geo }
def exObj : Obj := fun _ _ _ => ({ score := .fin 0, metrics := [] }, 0)
def exD : DState GridSt :=
  { nInits := 1, bst := { initL := [[1, 1]], tape := (List.range 6).map (fun t => Draw.feas (posOfNat (gridPos exCfg t)) true) } }

example : (searchCall (gridBackend exCfg) exSpace exObj { nIter := 7, memory := .off } exD).map (fun x => x.1.posL)
    = .ok [[1, 1], [0, 0], [0, 1], [0, 2], [1, 0], [1, 1], [1, 2]] := by decide +kernel

example : CfgOK exCfg 6 :=
  { geo := by decide, fits := by intro n hn; simp [exCfg] at hn; rcases hn with rfl | rfl <;> decide
    pos := by intro n hn; simp [exCfg] at hn; rcases hn with rfl | rfl <;> decide
    step := by decide, divides := by decide }

end GFO.GridRuns

/-! ### C01 / C02 for the complete grid optimizer, WITH constraints -/

namespace GFO.GridRuns
open GFO GFO.C01 GFO.LocalRuns

theorem askFeas_spec {p : Pos} {tape rest : Tape} {ok : Bool} (h : askFeas p tape = .ok (ok, rest)) :
    tape = Draw.feas p ok :: rest := by
  unfold askFeas at h
  split at h
  · rename_i q ok' rest'
    split at h
    · simp at h
    · rename_i hq
      simp only [Except.ok.injEq, Prod.mk.injEq] at h
      obtain ⟨h1, h2⟩ := h
      have : q = p := by simpa using hq
      subst h1 h2 this
      rfl
  · simp at h
  · simp at h

theorem decodeDiag_length (dims : List Nat) (p : Nat) : (decodeDiag dims p).length = dims.length := by
  induction dims generalizing p with
  | nil => rfl
  | cons d ds ih =>
    cases ds with
    | nil => rfl
    | cons d' ds' => simp only [decodeDiag, List.length_cons]; rw [ih]; rfl

theorem decodeOrth_length (dims : List Nat) (p : Nat) : (decodeOrth dims p).length = dims.length := by
  induction dims generalizing p with
  | nil => rfl
  | cons d ds ih => simp [decodeOrth, ih]

theorem natVec_noNan (l : List Nat) : noNan (natVec l) = true := by
  induction l with
  | nil => rfl
  | cons x xs ih =>
    simp only [noNan, natVec, List.map_cons, List.any_cons, Bool.not_eq_true', Bool.or_eq_false_iff] at ih ⊢
    exact ⟨rfl, ih⟩

/-- what the grid theorems with constraints need: the configuration describes the space -/
structure Fits (cfg : GridCfg) (sp : Space) : Prop where
  geo : cfg.geo = sp.geo
  dims : cfg.dims = sp.sizes
  ok : SpaceOK sp

/-- `conv2pos` of a decoded pointer, followed by a positive constraint check: a feasible position of the space -/
theorem conv_then_feas {cfg : GridCfg} {sp : Space} {f : Pos → Bool} (hf : Fits cfg sp) {l : List Nat} (hl : l.length = cfg.dims.length)
    {tape tape1 tape2 : Tape} {p : Pos} {ok : Bool} (ht : TapeOK sp f tape)
    (h1 : conv2posT cfg.geo (natVec l) tape = .ok (p, tape1)) (h2 : askFeas p tape1 = .ok (ok, tape2)) :
    tape2 <:+ tape ∧ InSpace sp p ∧ ok = f p := by
  obtain ⟨hs1, horig, _⟩ := conv2posT_spec h1
  have e := askFeas_spec h2
  have hs2 : tape2 <:+ tape := (by rw [e]; exact List.suffix_cons _ _ : tape2 <:+ tape1).trans hs1
  refine ⟨hs2, ?_, ht.feas p ok (hs1.subset (by rw [e]; simp))⟩
  rcases horig with hp | ⟨hr, _⟩
  · rw [hp, hf.geo]
    exact clipped_inSpace hf.ok _ (by simp [natVec, hl, hf.dims, Space.sizes]) (natVec_noNan l)
  · exact ht.rnd p hr

theorem diagLoop_spec {cfg : GridCfg} {sp : Space} {f : Pos → Bool} (hf : Fits cfg sp) {d t fuel : Nat} {first : Bool} {ptr ptr' : Nat}
    {tape rest : Tape} {p : Pos} (ht : TapeOK sp f tape)
    (h : diagLoop cfg d t fuel first ptr tape = .ok (p, ptr', rest)) : rest <:+ tape ∧ InSpace sp p ∧ f p = true := by
  induction fuel generalizing first ptr tape with
  | zero => simp [diagLoop] at h
  | succ n ih =>
    unfold diagLoop at h
    simp only [bind, Except.bind, pure, Except.pure] at h
    split at h
    · simp at h
    · rename_i x hx
      obtain ⟨q, tape1⟩ := x
      simp only at h
      split at h
      · simp at h
      · rename_i y hy
        obtain ⟨ok, tape2⟩ := y
        obtain ⟨hs, hin, hok⟩ := conv_then_feas hf (decodeDiag_length _ _) ht hx hy
        simp only at h
        split at h
        · rename_i hokt
          simp only [Except.ok.injEq, Prod.mk.injEq] at h
          obtain ⟨e1, _, e3⟩ := h
          subst e1 e3
          exact ⟨hs, hin, by rw [← hok]; exact hokt⟩
        · obtain ⟨a, b, c⟩ := ih (ht.suffix hs) h
          exact ⟨a.trans hs, b, c⟩

theorem zeros_inSpace {sp : Space} (h : SpaceOK sp) : InSpace sp (sp.sizes.map (fun _ => (0 : Int))) := by
  unfold InSpace Space.sizes
  have : ∀ (dims : List (List Rat)), (∀ d ∈ dims, 0 < d.length) →
      inBox (dims.map List.length) ((dims.map List.length).map (fun _ => (0 : Int))) = true := by
    intro dims
    induction dims with
    | nil => intro _; rfl
    | cons d ds ih =>
      intro hd
      simp only [List.map_cons, inBox, Bool.and_eq_true, decide_eq_true_eq]
      exact ⟨⟨by omega, by have := hd d (by simp); omega⟩, ih (fun x hx => hd x (by simp [hx]))⟩
  exact this sp.dims (fun d hd => (h d hd).1)

/-- every proposal of the complete grid optimizer is a feasible position of the space; the tape is only consumed -/
theorem gridIterate_ok {cfg : GridCfg} {sp : Space} {f : Pos → Bool} (hf : Fits cfg sp) {s s' : GridSt} {p : Pos}
    (ht : TapeOK sp f s.tape) (h : gridIterate cfg s = .ok (p, s')) :
    s'.tape <:+ s.tape ∧ s'.initL = s.initL ∧ InSpace sp p ∧ f p = true := by
  have key : ∃ s1, (match cfg.dir with
      | .diagonal => diagIterate cfg s
      | .orthogonal => orthIterate cfg s) = .ok (p, s1) ∧ s'.tape = s1.tape ∧ s'.initL = s1.initL := by
    unfold gridIterate at h
    cases hd : cfg.dir with
    | diagonal =>
      simp only [hd, bind, Except.bind, pure, Except.pure] at h ⊢
      cases hm : diagIterate cfg s with
      | error e => rw [hm] at h; simp at h
      | ok x =>
        rw [hm] at h
        obtain ⟨q, s1⟩ := x
        simp only [Except.ok.injEq, Prod.mk.injEq] at h
        obtain ⟨e1, e2⟩ := h
        subst e1 e2
        exact ⟨s1, rfl, rfl, rfl⟩
    | orthogonal =>
      simp only [hd, bind, Except.bind, pure, Except.pure] at h ⊢
      cases hm : orthIterate cfg s with
      | error e => rw [hm] at h; simp at h
      | ok x =>
        rw [hm] at h
        obtain ⟨q, s1⟩ := x
        simp only [Except.ok.injEq, Prod.mk.injEq] at h
        obtain ⟨e1, e2⟩ := h
        subst e1 e2
        exact ⟨s1, rfl, rfl, rfl⟩
  obtain ⟨s1, hx, htape, hinit⟩ := key
  rw [htape, hinit]
  clear htape hinit h
  · cases hd : cfg.dir with
    | diagonal =>
      simp only [hd] at hx
      unfold diagIterate at hx
      cases hdc : s.dirCalc with
      | none =>
        simp only [hdc, bind, Except.bind, pure, Except.pure] at hx
        split at hx
        · simp at hx
        · rename_i y hy
          obtain ⟨ok, tape1⟩ := y
          have e := askFeas_spec hy
          have hs1 : tape1 <:+ s.tape := by rw [e]; exact List.suffix_cons _ _
          simp only at hx
          split at hx
          · rename_i hok
            simp only [Except.ok.injEq, Prod.mk.injEq] at hx
            obtain ⟨e1, e2⟩ := hx
            subst e1 e2
            refine ⟨hs1, rfl, ?_, ?_⟩
            · rw [hf.dims]; exact zeros_inSpace hf.ok
            · have := ht.feas (cfg.dims.map (fun _ => (0 : Int))) ok (by rw [e]; exact List.mem_cons_self)
              rw [← this]; exact hok
          · split at hx
            · simp at hx
            · rename_i z hz
              obtain ⟨q', tape2⟩ := z
              simp only [Except.ok.injEq, Prod.mk.injEq] at hx
              obtain ⟨e1, e2⟩ := hx
              subst e1 e2
              obtain ⟨a, b, c⟩ := moveRandomLoop_spec hz
              have ht1 := ht.suffix hs1
              exact ⟨a.trans hs1, rfl, ht1.rnd _ b, (ht1.feas _ true c).symm⟩
      | some d =>
        simp only [hdc, bind, Except.bind, pure, Except.pure] at hx
        split at hx
        · simp at hx
        · rename_i y hy
          obtain ⟨q', ptr', tape'⟩ := y
          simp only [Except.ok.injEq, Prod.mk.injEq] at hx
          obtain ⟨e1, e2⟩ := hx
          subst e1 e2
          obtain ⟨a, b, c⟩ := diagLoop_spec hf ht hy
          exact ⟨a, rfl, b, c⟩
    | orthogonal =>
      simp only [hd] at hx
      unfold orthIterate at hx
      simp only [bind, Except.bind, pure, Except.pure] at hx
      split at hx
      · simp at hx
      · rename_i y hy
        obtain ⟨q', tape1⟩ := y
        simp only at hx
        split at hx
        · simp at hx
        · rename_i z hz
          obtain ⟨ok, tape2⟩ := z
          obtain ⟨hs, hin, hok⟩ := conv_then_feas hf (decodeOrth_length _ _) ht hy hz
          simp only at hx
          split at hx
          · rename_i hokt
            simp only [Except.ok.injEq, Prod.mk.injEq] at hx
            obtain ⟨e1, e2⟩ := hx
            subst e1 e2
            exact ⟨hs, rfl, hin, by rw [← hok]; exact hokt⟩
          · split at hx
            · simp at hx
            · rename_i w hw
              obtain ⟨q'', tape3⟩ := w
              simp only [Except.ok.injEq, Prod.mk.injEq] at hx
              obtain ⟨e1, e2⟩ := hx
              subst e1 e2
              obtain ⟨a, b, c⟩ := moveRandomLoop_spec hw
              have ht2 := ht.suffix hs
              exact ⟨a.trans hs, rfl, ht2.rnd _ b, (ht2.feas _ true c).symm⟩

/-- C01 + C02 for one `search()` call of the complete grid optimizer under ANY constraint: every evaluated position is a
    feasible position of the space (and the tape / start-up list invariant is kept, so the statement chains over calls) -/
theorem C01_C02_grid_positions {cfg : GridCfg} {sp : Space} {obj : Obj} {c : Call} {f : Pos → Bool} {tape0 : Tape} {initL0 : List Pos}
    {d d' : DState GridSt} {r : CallResult} (hf : Fits cfg sp) (ht : TapeOK sp f tape0)
    (hi : ∀ q ∈ initL0, InSpace sp q ∧ f q = true) (hP : d.bst.tape <:+ tape0 ∧ d.bst.initL = initL0) (hn : 0 < c.nIter)
    (h : searchCall (gridBackend cfg) sp obj c d = .ok (d', r)) :
    (d'.bst.tape <:+ tape0 ∧ d'.bst.initL = initL0) ∧ ∀ p ∈ C04.newPos d d', InSpace sp p ∧ f p = true := by
  obtain ⟨cs, d1, cs1, tr, _, hfin, T, hP1, hQ⟩ :=
    searchCall_inv (P := fun d _ => d.bst.tape <:+ tape0 ∧ d.bst.initL = initL0) (Q := fun t => InSpace sp t.pos ∧ f t.pos = true)
      (by
        intro i d d1 cs cs1 p v e hp sf hb
        rcases hb with ⟨_, s1, b1, b2⟩ | ⟨_, s0, s1, b0, b1, b2⟩
        · have b1' : gridInitPos d.bst = .ok (p, s1) := b1
          simp only [gridBackend, Except.ok.injEq] at b2
          unfold gridInitPos at b1'
          split at b1'
          · rename_i q hq
            simp only [Except.ok.injEq, Prod.mk.injEq] at b1'
            obtain ⟨e1, e2⟩ := b1'
            subst e1 e2
            have hmem : q ∈ initL0 := by rw [← hp.2]; exact List.mem_of_getElem? hq
            exact ⟨by rw [← b2]; exact hp, hi q hmem⟩
          · simp at b1'
        · have hs0 : s0 = d.bst := by
            rcases b0 with b0 | b0
            · exact b0
            · simp only [gridBackend, Except.ok.injEq] at b0; exact b0.symm
          subst hs0
          simp only [gridBackend, Except.ok.injEq] at b2
          obtain ⟨a, b, c', e'⟩ := gridIterate_ok hf (ht.suffix hp.1) (show gridIterate cfg d.bst = .ok (p, s1) from b1)
          refine ⟨?_, c', e'⟩
          rw [← b2]
          exact ⟨by simpa [gridEvaluate] using a.trans hp.1, by simpa [gridEvaluate] using b.trans hp.2⟩)
      h hn (fun _ _ => hP)
  obtain ⟨_, hposL, _, _, _, _, _, _, _, _, hbst, _⟩ := finishSearch_ok hfin
  refine ⟨by rw [hbst]; exact hP1, ?_⟩
  intro p hp
  unfold C04.newPos at hp
  rw [hposL, T.posL] at hp
  simp only [List.drop_left] at hp
  obtain ⟨t, ht', rfl⟩ := List.mem_map.mp hp
  exact hQ t ht'

end GFO.GridRuns
